import OasisProofs.Helpers.WithdrawHook
/-
C05 — staking `withdraw` on the account-HOOK path, and aliasing of the two account copies.

Go: go/consensus/cometbft/apps/staking/transactions.go:701-849.  Model: OasisModel/Staking/WithdrawHook.lean
(`withdraw`: the source; `withdrawSeeded`: the self-withdraw guard of l.739 moved into the allowance
branch, seeded/C05-r7m1).  `hookOk` is the answer of the hook module (vault/messages.go:59-98, which
touches vault state only); all theorems quantify over it, over every store, amount and parameters.

  (a) `withdraw_load_store_conserves`, `load_move_store_conserves`, `withdraw_conserves`,
      `withdrawSeeded_conserves_of_ne`, `withdraw_frame`, `withdraw_failure_persists_nothing`:
      with From ≠ To the load-two-copies / move / store-both sequence conserves the tokens over any
      duplicate-free address list containing both (more generally: any list in which both occur equally
      often), success or failure, and never writes the recorded total supply;
      `conservation_needs_equal_counts`: the hypothesis on the list is necessary.
  (b) `withdraw_self_rejected`: with the guard a self-withdraw is an error and persists nothing,
      whatever the hook answers.
  (c) `self_withdraw_destroys_tokens` (concrete, `decide`), `self_withdraw_drops_balance`,
      `self_withdraw_loses_tokens`: without the guard, hook authorizing, From = To loses exactly
      `amount` while the recorded total supply stays; `store_order_decides_direction`: with the two
      `SetAccount` calls swapped the same aliasing would MINT `amount`.
  (d) `guard_position_matters`, `guard_position_persisted`, `variants_differ_only_on_hooked_self`:
      the variant equals the source on every input with From ≠ To or a hook-less source account.
  (e) non-vacuity `example`s next to each theorem.
  (+) `hookless_agrees_with_ledger_model`: on hook-less records the two-copy model and the functional
      `Ledger.withdraw` of Staking/Ledger.lean (the model of Props/C05.lean) agree on every input.
Core Lean only.
-/
set_option linter.unusedSimpArgs false
namespace OasisProofs.C05WithdrawHook
open OasisModel.Staking (LErr)
open OasisModel.Staking.WithdrawHook
open OasisProofs.WithdrawHookHelpers

/-! ### concrete states used by the witnesses and non-vacuity examples -/

/-- Address 0: a vault (withdraw hook) holding 600 and 30 in escrow; address 1: an ordinary account
holding 450 with an allowance of 100 for address 2; address 2: 20.  Recorded supply = the sum. -/
def demoStore : Store := fun k =>
  if k = 0 then ⟨600, 30, 0, 4, [], true⟩
  else if k = 1 then ⟨450, 0, 0, 7, [(2, 100)], false⟩
  else if k = 2 then ⟨20, 0, 0, 0, [], false⟩
  else Account.empty

def demoState : State := ⟨demoStore, 1100⟩

def demoParams : Params := { minTransferAmount := 1, minTransactBalance := 10, reserved := [9] }

example : tokens demoState.accts [0, 1, 2] = demoState.totalSupply := by decide

/-! ### (a) From ≠ To: load two copies, move, store both — conservation -/

/-- The core of (a), on the sequence itself (no guard involved): for ANY authorization outcome
`fromCopy` of the record at `from_`, with `from_ ≠ to`, load-`to` / move / store-both conserves the
tokens of every address list in which the two addresses occur equally often. -/
theorem load_move_store_conserves (p : Params) (s : State) (to from_ amt : Nat) (hookOk : Bool)
    (fromCopy : Account) (addrs : List Nat)
    (hauth : authorize (s.accts from_) to amt hookOk = .ok fromCopy)
    (hne : from_ ≠ to) (hcount : addrs.count from_ = addrs.count to) :
    tokens (persisted (moveAndStore p s to from_ fromCopy amt) s).accts addrs = tokens s.accts addrs ∧
    (persisted (moveAndStore p s to from_ fromCopy amt) s).totalSupply = s.totalSupply := by
  cases hms : moveAndStore p s to from_ fromCopy amt with
  | error e => exact ⟨rfl, rfl⟩
  | ok s' =>
    obtain ⟨h1, _, _, hs'⟩ := moveAndStore_ok hms
    obtain ⟨hg, ha, hd, _, _⟩ := authorize_ok hauth
    subst hs'
    refine ⟨?_, rfl⟩
    simp only [persisted, tokens_eq_sumBy]
    apply sumBy_move Account.tokens s.accts to from_ amt _ _ addrs hne hcount
    · simp only [Account.tokens]; omega
    · simp only [Account.tokens, hg, ha, hd]; omega
    · simp only [Account.tokens]; omega

/-- (d), stated first because (a) for the variant goes through it. -/
theorem guard_position_matters (p : Params) (s : State) (to from_ amt : Nat) (hookOk : Bool)
    (h : from_ ≠ to ∨ (s.accts from_).hook = false) :
    withdrawSeeded p s to from_ amt hookOk = withdraw p s to from_ amt hookOk := by
  unfold withdrawSeeded withdraw authorizeSeeded authorize
  cases hpre : preGuards p to from_ amt with
  | some e => rfl
  | none =>
    simp only
    by_cases heq : to = from_
    · have hh : (s.accts from_).hook = false := by
        cases h with
        | inl h => exact absurd heq.symm h
        | inr h => exact h
      simp [heq, hh]
    · simp [heq]

/-- The tokens of every equal-count address list and the recorded supply after `withdraw`, with NO
assumption on the addresses (the guard covers From = To). -/
theorem withdraw_conserves (p : Params) (s : State) (to from_ amt : Nat) (hookOk : Bool) (addrs : List Nat)
    (hcount : addrs.count from_ = addrs.count to) :
    tokens (persisted (withdraw p s to from_ amt hookOk) s).accts addrs = tokens s.accts addrs ∧
    (persisted (withdraw p s to from_ amt hookOk) s).totalSupply = s.totalSupply := by
  unfold withdraw
  cases hpre : preGuards p to from_ amt with
  | some e => exact ⟨rfl, rfl⟩
  | none =>
    simp only
    by_cases heq : to = from_
    · simp only [heq, if_true]; exact ⟨rfl, rfl⟩
    · simp only [heq, if_false]
      cases hauth : authorize (s.accts from_) to amt hookOk with
      | error e => exact ⟨rfl, rfl⟩
      | ok fromCopy =>
        exact load_move_store_conserves p s to from_ amt hookOk fromCopy addrs hauth (Ne.symm heq) hcount

/-- **(a)** When From ≠ To, for every store, amount, parameters and answer of the hook, the sum of
tokens over any duplicate-free address list containing both addresses, and the recorded total
supply, are unchanged by `withdraw` — whether it succeeds or fails.  (`_hne` is where the load /
move / store sequence needs it: `load_move_store_conserves`; for the guarded function the case
From = To is an error, so `withdraw_conserves` holds without it — unlike for the variant, for which
`withdrawSeeded_conserves_of_ne` needs it and `self_withdraw_loses_tokens` shows why.) -/
theorem withdraw_load_store_conserves (p : Params) (s : State) (to from_ amt : Nat) (hookOk : Bool)
    (addrs : List Nat) (_hne : from_ ≠ to) (hnd : addrs.Nodup) (hf : from_ ∈ addrs) (ht : to ∈ addrs) :
    tokens (persisted (withdraw p s to from_ amt hookOk) s).accts addrs = tokens s.accts addrs ∧
    (persisted (withdraw p s to from_ amt hookOk) s).totalSupply = s.totalSupply :=
  withdraw_conserves p s to from_ amt hookOk addrs
    (by rw [count_eq_one_of_nodup_mem hnd hf, count_eq_one_of_nodup_mem hnd ht])

/-- The same for the seeded variant — but only under From ≠ To, which it no longer enforces. -/
theorem withdrawSeeded_conserves_of_ne (p : Params) (s : State) (to from_ amt : Nat) (hookOk : Bool)
    (addrs : List Nat) (hne : from_ ≠ to) (hnd : addrs.Nodup) (hf : from_ ∈ addrs) (ht : to ∈ addrs) :
    tokens (persisted (withdrawSeeded p s to from_ amt hookOk) s).accts addrs = tokens s.accts addrs ∧
    (persisted (withdrawSeeded p s to from_ amt hookOk) s).totalSupply = s.totalSupply := by
  rw [guard_position_matters p s to from_ amt hookOk (Or.inl hne)]
  exact withdraw_load_store_conserves p s to from_ amt hookOk addrs hne hnd hf ht

/-- Failure changes nothing (sub-transaction, transactions.go:743-744). -/
theorem withdraw_failure_persists_nothing (p : Params) (s : State) (to from_ amt : Nat) (hookOk : Bool)
    (e : LErr) (h : withdraw p s to from_ amt hookOk = .error e) :
    persisted (withdraw p s to from_ amt hookOk) s = s := by
  rw [h]; rfl

/-- Frame: no third record is touched, and of the two records only the general balance and (on the
allowance path) the allowance list of the source change. -/
theorem withdraw_frame (p : Params) (s s' : State) (to from_ amt : Nat) (hookOk : Bool)
    (h : withdraw p s to from_ amt hookOk = .ok s') :
    from_ ≠ to ∧ amt ≤ (s.accts from_).general ∧
    (∀ k, k ≠ to → k ≠ from_ → s'.accts k = s.accts k) ∧
    s'.accts to = { s.accts to with general := (s.accts to).general + amt } ∧
    (s'.accts from_).general = (s.accts from_).general - amt ∧
    (s'.accts from_).activeBal = (s.accts from_).activeBal ∧
    (s'.accts from_).debondBal = (s.accts from_).debondBal ∧
    (s'.accts from_).nonce = (s.accts from_).nonce ∧
    (s'.accts from_).hook = (s.accts from_).hook ∧
    s'.totalSupply = s.totalSupply := by
  unfold withdraw at h
  cases hpre : preGuards p to from_ amt with
  | some e => rw [hpre] at h; cases h
  | none =>
    rw [hpre] at h
    simp only at h
    by_cases heq : to = from_
    · simp [heq] at h
    · simp only [heq, if_false] at h
      cases hauth : authorize (s.accts from_) to amt hookOk with
      | error e => rw [hauth] at h; cases h
      | ok fc =>
        rw [hauth] at h
        obtain ⟨h1, _, _, hs'⟩ := moveAndStore_ok h
        obtain ⟨hg, ha, hd, hn, hh⟩ := authorize_ok hauth
        subst hs'
        have hft : from_ ≠ to := Ne.symm heq
        refine ⟨hft, by omega, ?_, ?_, ?_, ?_, ?_, ?_, ?_, rfl⟩
        · intro k hk1 hk2
          simp only [set_other _ from_ k _ hk2, set_other _ to k _ hk1]
        · simp only [set_other _ from_ to _ heq, set_same]
        all_goals simp only [set_same, hg, ha, hd, hn, hh]

/-- The list hypothesis of (a) is necessary: with the source listed twice the sum does change. -/
theorem conservation_needs_equal_counts :
    tokens (persisted (withdraw demoParams demoState 1 0 250 true) demoState).accts [0, 0, 1]
      ≠ tokens demoState.accts [0, 0, 1] := by decide

/-- Non-vacuity of (a), hook path: the vault (0) authorizes, account 1 pulls 250; the call SUCCEEDS,
balances move 600→350 and 450→700, the escrow of the vault is untouched. -/
example : (0 : Nat) ≠ 1 ∧ [0, 1, 2].Nodup ∧
    ((persisted (withdraw demoParams demoState 1 0 250 true) demoState).accts 0).general = 350 ∧
    ((persisted (withdraw demoParams demoState 1 0 250 true) demoState).accts 1).general = 700 ∧
    ((persisted (withdraw demoParams demoState 1 0 250 true) demoState).accts 0).activeBal = 30 ∧
    tokens (persisted (withdraw demoParams demoState 1 0 250 true) demoState).accts [0, 1, 2] = 1100 := by
  decide

/-- Non-vacuity of (a), allowance path: account 2 pulls 60 of its allowance of 100 on account 1. -/
example :
    ((persisted (withdraw demoParams demoState 2 1 60 false) demoState).accts 1).general = 390 ∧
    ((persisted (withdraw demoParams demoState 2 1 60 false) demoState).accts 1).allowances = [(2, 40)] ∧
    ((persisted (withdraw demoParams demoState 2 1 60 false) demoState).accts 2).general = 80 := by
  decide

/-- Non-vacuity of the failure branch: the hook refuses → `forbidden`, nothing persisted. -/
example : withdraw demoParams demoState 1 0 250 false = .error .forbidden := by
  simp [withdraw, preGuards, demoParams, authorize, demoState, demoStore]

/-! ### (b) the guard -/

/-- **(b)** With the guard in place a self-withdraw is an error whatever the hook answers (and
whatever the account, hook-carrying or not), so nothing is persisted. -/
theorem withdraw_self_rejected (p : Params) (s : State) (a amt : Nat) (hookOk : Bool) :
    (∃ e, withdraw p s a a amt hookOk = .error e) ∧ persisted (withdraw p s a a amt hookOk) s = s := by
  unfold withdraw
  cases hpre : preGuards p a a amt with
  | some e => exact ⟨⟨e, rfl⟩, rfl⟩
  | none => simp only [if_true]; exact ⟨⟨_, rfl⟩, rfl⟩

/-- Once the earlier guards pass, the error is `ErrInvalidArgument` (l.740). -/
theorem withdraw_self_invalidArgument (p : Params) (s : State) (a amt : Nat) (hookOk : Bool)
    (hpre : preGuards p a a amt = none) : withdraw p s a a amt hookOk = .error .invalidArgument := by
  unfold withdraw; rw [hpre]; simp

/-- Non-vacuity: the vault of `demoState` withdrawing from itself with an authorizing hook passes
the earlier guards and is stopped by the comparison. -/
example : preGuards demoParams 0 0 250 = none ∧
    withdraw demoParams demoState 0 0 250 true = .error .invalidArgument := by
  constructor
  · decide
  · exact withdraw_self_invalidArgument _ _ _ _ _ (by decide)

/-! ### (c) without the guard: two copies of ONE record -/

/-- **(c), concrete.**  The seeded variant on `demoState`: the vault (address 0, hook authorizing)
withdraws 250 from itself.  The call succeeds, the vault's balance is 600 − 250, every other record
is as before, the recorded total supply is still 1100 — but the tokens now add up to 850: exactly
`amount` has been destroyed.  The source rejects the same call and keeps the identity. -/
theorem self_withdraw_destroys_tokens :
    tokens demoState.accts [0, 1, 2] = demoState.totalSupply ∧
    ((persisted (withdrawSeeded demoParams demoState 0 0 250 true) demoState).accts 0).general = 350 ∧
    tokens (persisted (withdrawSeeded demoParams demoState 0 0 250 true) demoState).accts [0, 1, 2] + 250
      = tokens demoState.accts [0, 1, 2] ∧
    (persisted (withdrawSeeded demoParams demoState 0 0 250 true) demoState).totalSupply = 1100 ∧
    tokens (persisted (withdraw demoParams demoState 0 0 250 true) demoState).accts [0, 1, 2] = 1100 := by
  decide

/-- **(c), general.**  For every store, every hook-carrying account `a`, every amount that passes
the guards the source applies to any withdrawal (minimum amount, transfers enabled, not reserved,
`amt ≤ balance`, remaining balance ≥ minimum), the seeded variant with an authorizing hook SUCCEEDS
on From = To = `a`, and afterwards the general balance of `a` is lower by exactly `amt`, every other
field of `a`, every other record and the recorded total supply are unchanged. -/
theorem self_withdraw_drops_balance (p : Params) (s : State) (a amt : Nat)
    (hpre : preGuards p a a amt = none) (hhook : (s.accts a).hook = true)
    (hamt : amt ≤ (s.accts a).general) (hmin : p.minTransactBalance ≤ (s.accts a).general - amt) :
    ∃ s', withdrawSeeded p s a a amt true = .ok s' ∧
      s'.accts a = { s.accts a with general := (s.accts a).general - amt } ∧
      (s'.accts a).general + amt = (s.accts a).general ∧
      (∀ k, k ≠ a → s'.accts k = s.accts k) ∧
      s'.totalSupply = s.totalSupply := by
  refine ⟨{ s with accts := ((s.accts.set a { s.accts a with general := (s.accts a).general + amt }).set a
                  { s.accts a with general := (s.accts a).general - amt }) }, ?_, ?_, ?_, ?_, ?_⟩
  · unfold withdrawSeeded authorizeSeeded
    rw [hpre]
    simp only
    rw [if_pos hhook, if_pos True.intro]
    exact moveAndStore_ok_of s a a amt (s.accts a) hamt hmin (by omega)
  · simp only [set_same]
  · simp only [set_same]; omega
  · intro k hk
    simp only [set_other _ a k _ hk]
  · rfl

/-- Hence the tokens over any duplicate-free address list containing `a` drop by exactly `amt`
while the recorded supply stays: the supply identity `total = Σ tokens + rest` cannot survive. -/
theorem self_withdraw_loses_tokens (p : Params) (s : State) (a amt : Nat) (addrs : List Nat)
    (hpre : preGuards p a a amt = none) (hhook : (s.accts a).hook = true)
    (hamt : amt ≤ (s.accts a).general) (hmin : p.minTransactBalance ≤ (s.accts a).general - amt)
    (hnd : addrs.Nodup) (ha : a ∈ addrs) :
    tokens (persisted (withdrawSeeded p s a a amt true) s).accts addrs + amt = tokens s.accts addrs ∧
    (persisted (withdrawSeeded p s a a amt true) s).totalSupply = s.totalSupply := by
  obtain ⟨s', hok, hrec, _, hframe, hts⟩ := self_withdraw_drops_balance p s a amt hpre hhook hamt hmin
  rw [hok]
  refine ⟨?_, hts⟩
  simp only [persisted, tokens_eq_sumBy]
  have hs' : s'.accts = s.accts.set a { s.accts a with general := (s.accts a).general - amt } := by
    funext k
    by_cases hk : k = a
    · subst hk; rw [hrec, set_same]
    · rw [hframe k hk, set_other _ a k _ hk]
  rw [hs']
  have h := sumBy_set Account.tokens s.accts a { s.accts a with general := (s.accts a).general - amt } addrs
  rw [count_eq_one_of_nodup_mem hnd ha] at h
  simp only [Account.tokens, Nat.one_mul] at h ⊢
  omega

/-- A supply identity that held before is broken afterwards (for `amt > 0`). -/
theorem self_withdraw_breaks_supply_identity (p : Params) (s : State) (a amt rest : Nat) (addrs : List Nat)
    (hpre : preGuards p a a amt = none) (hhook : (s.accts a).hook = true)
    (hamt : amt ≤ (s.accts a).general) (hmin : p.minTransactBalance ≤ (s.accts a).general - amt)
    (hnd : addrs.Nodup) (ha : a ∈ addrs) (hpos : 0 < amt)
    (hinv : s.totalSupply = tokens s.accts addrs + rest) :
    (persisted (withdrawSeeded p s a a amt true) s).totalSupply ≠
      tokens (persisted (withdrawSeeded p s a a amt true) s).accts addrs + rest := by
  obtain ⟨h1, h2⟩ := self_withdraw_loses_tokens p s a amt addrs hpre hhook hamt hmin hnd ha
  omega

/-- Non-vacuity of the general statement: `demoState`, vault 0, amount 250 satisfy all hypotheses. -/
example : preGuards demoParams 0 0 250 = none ∧ (demoState.accts 0).hook = true ∧
    250 ≤ (demoState.accts 0).general ∧
    demoParams.minTransactBalance ≤ (demoState.accts 0).general - 250 ∧ [0, 1, 2].Nodup ∧ 0 ∈ [0, 1, 2] := by
  decide

/-- The hypotheses of (c) that are not mere guards are necessary: if the hook refuses, or the
account carries no hook, the variant too persists nothing on From = To. -/
theorem self_withdraw_harmless_without_authorizing_hook (p : Params) (s : State) (a amt : Nat) (hookOk : Bool)
    (h : (s.accts a).hook = false ∨ hookOk = false) :
    persisted (withdrawSeeded p s a a amt hookOk) s = s := by
  unfold withdrawSeeded authorizeSeeded
  cases hpre : preGuards p a a amt with
  | some e => rfl
  | none =>
    cases hh : (s.accts a).hook with
    | false => simp [persisted]
    | true =>
      have hk : hookOk = false := by
        cases h with
        | inl h => rw [hh] at h; cases h
        | inr h => exact h
      simp [hk, persisted]

/-- The direction of the damage is decided by the ORDER of the two `SetAccount` calls
(l.820 `to` first, l.823 `from` last, so the debited copy wins): with the calls swapped the same
aliasing would create `amt` out of nothing. -/
theorem store_order_decides_direction (p : Params) (s : State) (a amt : Nat)
    (hamt : amt ≤ (s.accts a).general) (hmin : p.minTransactBalance ≤ (s.accts a).general - amt) :
    (∃ s', moveAndStore p s a a (s.accts a) amt = .ok s' ∧
        (s'.accts a).general = (s.accts a).general - amt) ∧
    (∃ s', moveAndStoreRev p s a a (s.accts a) amt = .ok s' ∧
        (s'.accts a).general = (s.accts a).general + amt) := by
  constructor
  · exact ⟨_, moveAndStore_ok_of s a a amt (s.accts a) hamt hmin (by omega), by simp only [set_same]⟩
  · refine ⟨{ s with accts := ((s.accts.set a { s.accts a with general := (s.accts a).general - amt }).set a
                { s.accts a with general := (s.accts a).general + amt }) }, ?_, by simp only [set_same]⟩
    unfold moveAndStoreRev
    simp only
    rw [if_neg (by omega), if_neg (by omega), if_neg (by omega)]

/-! ### (d) where the guard stands matters only for hook-carrying accounts with From = To -/

/-- Observable behaviour (what is persisted) coincides also when the hook refuses: then only the
error code differs (`forbidden` instead of `invalidArgument`). -/
theorem guard_position_persisted (p : Params) (s : State) (to from_ amt : Nat) (hookOk : Bool)
    (h : from_ ≠ to ∨ (s.accts from_).hook = false ∨ hookOk = false) :
    persisted (withdrawSeeded p s to from_ amt hookOk) s = persisted (withdraw p s to from_ amt hookOk) s := by
  by_cases hne : from_ ≠ to
  · rw [guard_position_matters p s to from_ amt hookOk (Or.inl hne)]
  · have heq : from_ = to := Decidable.of_not_not hne
    subst heq
    have h' : (s.accts from_).hook = false ∨ hookOk = false := by
      cases h with
      | inl h => exact absurd rfl h
      | inr h => exact h
    rw [self_withdraw_harmless_without_authorizing_hook p s from_ amt hookOk h',
        (withdraw_self_rejected p s from_ amt hookOk).2]

/-- Exactly: an input on which the two functions return different results is a self-withdraw from
a hook-carrying account; one on which they PERSIST different states has, in addition, the hook
authorizing.  A test suite without such an input cannot tell the two apart. -/
theorem variants_differ_only_on_hooked_self (p : Params) (s : State) (to from_ amt : Nat) (hookOk : Bool) :
    (withdrawSeeded p s to from_ amt hookOk ≠ withdraw p s to from_ amt hookOk →
      from_ = to ∧ (s.accts from_).hook = true) ∧
    (persisted (withdrawSeeded p s to from_ amt hookOk) s ≠ persisted (withdraw p s to from_ amt hookOk) s →
      from_ = to ∧ (s.accts from_).hook = true ∧ hookOk = true) := by
  constructor
  · intro hd
    by_cases hne : from_ = to
    · refine ⟨hne, ?_⟩
      cases hh : (s.accts from_).hook with
      | true => rfl
      | false => exact absurd (guard_position_matters p s to from_ amt hookOk (Or.inr hh)) hd
    · exact absurd (guard_position_matters p s to from_ amt hookOk (Or.inl hne)) hd
  · intro hd
    by_cases hne : from_ = to
    · refine ⟨hne, ?_, ?_⟩
      · cases hh : (s.accts from_).hook with
        | true => rfl
        | false => exact absurd (guard_position_persisted p s to from_ amt hookOk (Or.inr (Or.inl hh))) hd
      · cases hk : hookOk with
        | true => rfl
        | false =>
          subst hk
          exact absurd (guard_position_persisted p s to from_ amt false (Or.inr (Or.inr rfl))) hd
    · exact absurd (guard_position_persisted p s to from_ amt hookOk (Or.inl hne)) hd

/-- Non-vacuity of (d): both disjuncts occur with a SUCCESSFUL withdrawal (so the equation is not
one between two errors), and the excluded case really differs. -/
example :
    (∃ s', withdrawSeeded demoParams demoState 1 0 250 true = .ok s' ∧
           withdraw demoParams demoState 1 0 250 true = .ok s') ∧
    (∃ s', withdrawSeeded demoParams demoState 2 1 60 false = .ok s' ∧
           withdraw demoParams demoState 2 1 60 false = .ok s') ∧
    (persisted (withdrawSeeded demoParams demoState 0 0 250 true) demoState).accts 0
      ≠ (persisted (withdraw demoParams demoState 0 0 250 true) demoState).accts 0 := by
  refine ⟨?_, ?_, by decide⟩
  · rw [guard_position_matters _ _ _ _ _ _ (Or.inl (by decide))]
    obtain ⟨e, he⟩ : ∃ s', withdraw demoParams demoState 1 0 250 true = .ok s' := by
      simp [withdraw, preGuards, demoParams, authorize, demoState, demoStore, moveAndStore]
    exact ⟨e, he, he⟩
  · rw [guard_position_matters _ _ _ _ _ _ (Or.inl (by decide))]
    obtain ⟨e, he⟩ : ∃ s', withdraw demoParams demoState 2 1 60 false = .ok s' := by
      simp [withdraw, preGuards, demoParams, authorize, allowanceAuth, demoState, demoStore, moveAndStore,
        OasisModel.Staking.Ledger.lookupAllow]
    exact ⟨e, he, he⟩

/-! ### agreement with the functional ledger model on hook-less accounts -/

/-- On the hook-less records of `Staking/Ledger.lean` the record-level model with its two copies and
the functional `Ledger.withdraw` (one value per account; the model behind `Props/C05.lean`) agree
on every input: same error, or the same store afterwards — whatever `hookOk` (never consulted).
So the ledger theorems of C05 cover `withdraw` exactly as far as no source account carries a hook;
the hook path is covered by the theorems above. -/
theorem hookless_agrees_with_ledger_model (l : OasisModel.Staking.Ledger) (dst src amt : Nat) (hookOk : Bool) :
    withdraw (ofParams l.params) (ofLedger l) dst src amt hookOk =
      match OasisModel.Staking.Ledger.withdraw l dst src amt with
      | .error e => .error e
      | .ok l' => .ok (ofLedger l') := by
  unfold withdraw OasisModel.Staking.Ledger.withdraw
  rw [preGuards_ofParams]
  simp only [OasisModel.Staking.Ledger.isReserved]
  by_cases h1 : amt < l.params.minTransferAmount
  · simp only [h1, if_true, if_false, eq_self, Bool.false_eq_true]
  · simp only [h1, if_false, Bool.false_eq_true]
    by_cases h2 : (l.params.disableTransfers || decide (l.params.maxAllowances = 0)) = true
    · simp only [h2, if_true, if_false, eq_self, Bool.false_eq_true]
    · simp only [h2, if_false, Bool.false_eq_true]
      by_cases h3 : (l.params.reserved.contains dst || l.params.reserved.contains src) = true
      · simp only [h3, if_true, if_false, eq_self, Bool.false_eq_true]
      · simp only [h3, if_false, Bool.false_eq_true]
        by_cases h4 : dst = src
        · simp only [h4, if_true, if_false, eq_self, Bool.false_eq_true]
        · simp only [h4, if_false, Bool.false_eq_true]
          unfold authorize allowanceAuth
          simp only [ofLedger, ofAccount, Bool.false_eq_true, if_false]
          cases hl : OasisModel.Staking.Ledger.lookupAllow (l.acct src).allowances dst with
          | none => rfl
          | some cur =>
            simp only
            by_cases h5 : cur < amt
            · simp only [h5, if_true, if_false, eq_self, Bool.false_eq_true]
            · simp only [h5, if_false, Bool.false_eq_true]
              rw [moveAndStore_ofParams]
              simp only
              by_cases h6 : (l.acct src).general < amt
              · simp only [h6, if_true, if_false, eq_self, Bool.false_eq_true]
              · simp only [h6, if_false, Bool.false_eq_true]
                by_cases h7 : (l.acct src).general - amt < l.params.minTransactBalance
                · simp only [h7, if_true, if_false, eq_self, Bool.false_eq_true]
                · simp only [h7, if_false, Bool.false_eq_true]
                  by_cases h8 : (l.acct dst).general + amt < l.params.minTransactBalance
                  · simp only [h8, if_true, if_false, eq_self, Bool.false_eq_true]
                  · simp only [h8, if_false, Bool.false_eq_true]
                    congr 1
                    simp only [OasisModel.Staking.Ledger.setAcct, State.mk.injEq, and_true]
                    funext k
                    simp only [Store.set, OasisModel.Staking.upd]
                    by_cases hk1 : k = src
                    · simp [hk1]
                    · by_cases hk2 : k = dst
                      · subst hk2; simp [h4]
                      · simp [hk1, hk2]

/-- Non-vacuity: a ledger on which the functional model succeeds (so the equation above is one
between two `.ok` results). -/
example : ∃ (l : OasisModel.Staking.Ledger) (l' : OasisModel.Staking.Ledger),
    OasisModel.Staking.Ledger.withdraw l 2 1 60 = .ok l' :=
  ⟨{ n := 3, acct := fun k => if k = 1 then { general := 450, allowances := [(2, 100)] } else {},
     del := fun _ _ => 0, deb := [], common := 0, govDeposits := 0, lastBlockFees := 0, feeAcc := 0,
     totalSupply := 450, params := { maxAllowances := 16 } }, _, by
      simp [OasisModel.Staking.Ledger.withdraw, OasisModel.Staking.Ledger.isReserved,
        OasisModel.Staking.Ledger.lookupAllow]; rfl⟩

end OasisProofs.C05WithdrawHook
