import OasisModel.TxPool.Batch
import OasisProofs.Helpers.TxPoolBatch
/-
C20 (batch form) — one `HandleTxsUsed` call with SEVERAL transactions.

go/runtime/txpool/main_queue.go:91-98 loops over the hashes and calls
`scheduler.handleTxUsed` (main_queue_scheduler.go:184-196) for each; the callers build the slice
in arbitrary order.  On the reference model (`usedBatch s ids = ids.foldl txUsed s`):

 (a) `usedBatch_perm`              the result does not depend on the order of the hashes
                                   (literal equality of states), for every pool in which an
                                   identifier names one transaction (`IdsDistinct`, true in every
                                   reachable pool); `dup_ids_order_matters` shows by `decide`
                                   that this hypothesis cannot be dropped;
 (b) `usedBatch_characterisation`  closed form of the result; `usedBatch_highest`: a sender with
                                   a listed queued transaction ends at
                                   max(current, 1 + HIGHEST listed sequence number), everything
                                   of it below that is gone; `usedBatch_untouched`;
 (c) `last_instead_of_highest`     the seeded variant C20-r7m1 differs;
 (d) non-vacuity examples.
-/
namespace OasisProofs.C20Batch
open OasisModel.TxPool

/-! ### (a) order independence -/

/-
Full statement (FALSE for arbitrary states, see `dup_ids_order_matters`):
  ∀ s ids ids', ids'.Perm ids → usedBatch s ids' = usedBatch s ids
Proved below for every state in which an identifier (transaction hash) names at most one
transaction.  No other hypothesis: the per-sender sequence numbers may be arbitrary, listed
identifiers may be absent, repeated, or dropped by an earlier forward of the same batch.
-/

/-- **Order independence.** One `HandleTxsUsed` call yields literally the same state for every
order of the hashes. -/
theorem usedBatch_perm (s : State) (nd : IdsDistinct s) (ids ids' : List Nat)
    (p : ids'.Perm ids) : usedBatch s ids' = usedBatch s ids := by
  rw [usedBatch_eq_spec s nd, usedBatch_eq_spec s nd]
  exact batchSpec_perm s ids' ids p

/-- The hypothesis holds when the identifiers of the pool are pairwise different. -/
theorem idsDistinct_of_pairwise (s : State) (h : s.txs.Pairwise (fun u v => u.id ≠ v.id)) :
    IdsDistinct s := pairwise_uniq s.txs h

/-- `IdsDistinct` is an invariant of every operation history (an `add` whose identifier is
already queued is rejected, `Sched.step`; the pool checks known hashes before the main queue). -/
theorem idsDistinct_reachable (cap : Nat) (ops : List Op) : IdsDistinct (run (init cap) ops) :=
  idsDistinct_run (init cap) ops (by intro u hu; simp [init] at hu)

/-- **Order independence after every history**, without hypotheses. -/
theorem usedBatch_perm_reachable (cap : Nat) (ops : List Op) (ids ids' : List Nat)
    (p : ids'.Perm ids) :
    usedBatch (run (init cap) ops) ids' = usedBatch (run (init cap) ops) ids :=
  usedBatch_perm _ (idsDistinct_reachable cap ops) ids ids' p

/-- Two queued transactions with the same identifier: `[1, 2]` and `[2, 1]` leave different
pools, so `IdsDistinct` is necessary. -/
def sDup : State :=
  { cap := 8,
    txs := [⟨1, 0, 5, 1⟩, ⟨1, 0, 9, 1⟩, ⟨2, 0, 7, 1⟩, ⟨3, 0, 8, 1⟩],
    cur := fun a => if a = 0 then some 5 else none, sched := fun _ => none, picked := [] }

theorem dup_ids_order_matters :
    (usedBatch sDup [1, 2]).txs = [⟨3, 0, 8, 1⟩] ∧ (usedBatch sDup [2, 1]).txs = [] := by decide

/-! ### (b) characterisation -/

/-- **Closed form of a batch.** With `N = targets s ids` (per sender: one past the highest
listed queued sequence number, see `targets_covers` / `targets_attained`):
the survivors are the unlisted transactions not below their sender's effective threshold
(`thr`: `N a` if the sender's current number is below it, else 0); a sender's current number
becomes `max current (N a)`, except that a sender left without transactions loses its entry;
the scheduling pass (`sched`, `picked`) and the capacity are untouched. -/
theorem usedBatch_characterisation (s : State) (nd : IdsDistinct s) (ids : List Nat) :
    (∀ t, t ∈ (usedBatch s ids).txs ↔
        t ∈ s.txs ∧ t.id ∉ ids ∧ thr s (targets s ids) t.sender ≤ t.seq) ∧
    (∀ a, (usedBatch s ids).cur a =
        if hasSender s.txs a && !hasSender (usedBatch s ids).txs a then none
        else (s.cur a).map (fun c => max c (targets s ids a))) ∧
    (usedBatch s ids).sched = s.sched ∧ (usedBatch s ids).picked = s.picked ∧
    (usedBatch s ids).cap = s.cap := by
  rw [usedBatch_eq_spec s nd]
  refine ⟨?_, fun a => rfl, rfl, rfl, rfl⟩
  intro t
  show t ∈ s.txs.filter (keep s ids (targets s ids)) ↔ _
  rw [List.mem_filter, keep_iff]

/-- Every listed queued transaction below `maxSeq` is below its sender's target. -/
theorem targets_covers (s : State) (ids : List Nat) (i : Nat) (t : Tx) (hi : i ∈ ids)
    (hf : findId s i = some t) : nOf t ≤ targets s ids t.sender :=
  foldl_stepN_covers s ids _ i t hi hf

/-- The target of a sender is 0 or one past a listed queued transaction of that sender. -/
theorem targets_attained (s : State) (ids : List Nat) (a : Nat) :
    targets s ids a = 0 ∨
    ∃ i ∈ ids, ∃ t, findId s i = some t ∧ t.sender = a ∧ targets s ids a = nOf t :=
  foldl_stepN_attained s ids (fun _ => 0) a

/-- The target is one past the HIGHEST listed queued sequence number of the sender. -/
theorem targets_highest (s : State) (ids : List Nat) (i : Nat) (h : Tx) (hi : i ∈ ids)
    (hf : findId s i = some h) (hmax : h.seq < maxSeq)
    (hhi : ∀ j ∈ ids, ∀ t, findId s j = some t → t.sender = h.sender → t.seq ≤ h.seq) :
    targets s ids h.sender = h.seq + 1 := by
  have h1 := targets_covers s ids i h hi hf
  have hn : nOf h = h.seq + 1 := by simp [nOf, hmax]
  rcases targets_attained s ids h.sender with h0 | ⟨j, hj, t, hft, hs, he⟩
  · omega
  · have := hhi j hj t hft hs
    have := nOf_le t
    omega

/-- **Highest, not last.** Let `h` be a listed queued transaction (below `maxSeq`) whose
sequence number is the highest among the listed queued transactions of its sender `a`, and let
`c` be the sender's current number.  After the batch, in whatever order: the sender is at
`max c (h.seq + 1)` (or has lost its entry when nothing of it is left), and its surviving
transactions are exactly the unlisted ones at or above that number. -/
theorem usedBatch_highest (s : State) (nd : IdsDistinct s) (ids : List Nat) (i c : Nat) (h : Tx)
    (hi : i ∈ ids) (hf : findId s i = some h) (hmax : h.seq < maxSeq)
    (hhi : ∀ j ∈ ids, ∀ t, findId s j = some t → t.sender = h.sender → t.seq ≤ h.seq)
    (hc : s.cur h.sender = some c) :
    (usedBatch s ids).cur h.sender =
      (if hasSender (usedBatch s ids).txs h.sender then some (max c (h.seq + 1)) else none) ∧
    (∀ t, t.sender = h.sender →
      (t ∈ (usedBatch s ids).txs ↔ t ∈ s.txs ∧ t.id ∉ ids ∧ max c (h.seq + 1) ≤ t.seq ∨
        t ∈ s.txs ∧ t.id ∉ ids ∧ h.seq + 1 ≤ c ∧ t.seq < c)) := by
  have ⟨hmem, hcur, _⟩ := usedBatch_characterisation s nd ids
  have hN := targets_highest s ids i h hi hf hmax hhi
  have hA : hasSender s.txs h.sender = true :=
    (hasSender_iff _ _).2 ⟨h, (findId_some s i h hf).1, rfl⟩
  constructor
  · rw [hcur, hA, hc, hN]
    cases hasSender (usedBatch s ids).txs h.sender <;> simp
  · intro t hs
    rw [hmem, hs, thr_some s _ _ c hc, hN]
    by_cases hlt : c < h.seq + 1
    · simp only [hlt, if_true]
      constructor
      · rintro ⟨h1, h2, h3⟩; exact Or.inl ⟨h1, h2, by omega⟩
      · rintro (⟨h1, h2, h3⟩ | ⟨_, _, h3, _⟩)
        · exact ⟨h1, h2, by omega⟩
        · omega
    · simp only [hlt, if_false]
      constructor
      · rintro ⟨h1, h2, _⟩
        by_cases hq : t.seq < c
        · exact Or.inr ⟨h1, h2, by omega, hq⟩
        · exact Or.inl ⟨h1, h2, by omega⟩
      · rintro (⟨h1, h2, _⟩ | ⟨h1, h2, _, _⟩) <;> exact ⟨h1, h2, Nat.zero_le _⟩

/-- In a pool where the sender's transactions are not below its current number (true in every
reachable pool) the statement reads: the sender is at `1 + highest`, and its survivors are the
unlisted transactions at or above that. -/
theorem usedBatch_highest_wf (s : State) (nd : IdsDistinct s) (ids : List Nat) (i c : Nat) (h : Tx)
    (hi : i ∈ ids) (hf : findId s i = some h) (hmax : h.seq < maxSeq)
    (hhi : ∀ j ∈ ids, ∀ t, findId s j = some t → t.sender = h.sender → t.seq ≤ h.seq)
    (hc : s.cur h.sender = some c) (hwf : c ≤ h.seq) :
    (usedBatch s ids).cur h.sender =
      (if hasSender (usedBatch s ids).txs h.sender then some (h.seq + 1) else none) ∧
    (∀ t, t.sender = h.sender →
      (t ∈ (usedBatch s ids).txs ↔ t ∈ s.txs ∧ t.id ∉ ids ∧ h.seq < t.seq)) := by
  have ⟨h1, h2⟩ := usedBatch_highest s nd ids i c h hi hf hmax hhi hc
  have hm : max c (h.seq + 1) = h.seq + 1 := by omega
  rw [hm] at h1 h2
  refine ⟨h1, fun t hs => ?_⟩
  rw [h2 t hs]
  constructor
  · rintro (⟨a, b, d⟩ | ⟨_, _, d, _⟩)
    · exact ⟨a, b, by omega⟩
    · omega
  · rintro ⟨a, b, d⟩; exact Or.inl ⟨a, b, by omega⟩

/-- **Other senders are untouched**: a sender none of whose queued transactions is listed keeps
its current number and all its transactions. -/
theorem usedBatch_untouched (s : State) (nd : IdsDistinct s) (ids : List Nat) (a : Nat)
    (hno : ∀ i ∈ ids, ∀ t, findId s i = some t → t.sender ≠ a) :
    (usedBatch s ids).cur a = s.cur a ∧
    ∀ t, t.sender = a → (t ∈ (usedBatch s ids).txs ↔ t ∈ s.txs) := by
  have hN : targets s ids a = 0 := by
    rcases targets_attained s ids a with h0 | ⟨j, hj, t, hft, hs, _⟩
    · exact h0
    · exact absurd hs (hno j hj t hft)
  have hR : ∀ u ∈ s.txs, u.sender = a → u.id ∉ ids := fun u hu hs hid =>
    hno u.id hid u (findId_of_mem s nd u hu) hs
  constructor
  · rw [usedBatch_eq_spec s nd]
    exact gen_cur_other s ids _ a hN hR
  · intro t hs
    rw [(usedBatch_characterisation s nd ids).1 t, hs, thr_zero s _ a hN]
    constructor
    · exact fun h => h.1
    · exact fun h => ⟨h, hR t h hs, Nat.zero_le _⟩

/-! ### (c) the seeded variant: LAST listed instead of HIGHEST listed -/

def a3 : Tx := ⟨3, 0, 3, 1⟩
def a4 : Tx := ⟨4, 0, 4, 1⟩
def a5 : Tx := ⟨5, 0, 5, 1⟩
def a6 : Tx := ⟨6, 0, 6, 1⟩
def b0 : Tx := ⟨10, 1, 0, 2⟩

/-- Sender 0 pooled at 3..6 (current number 3), sender 1 at 0. -/
def sA : State :=
  { cap := 8, txs := [a3, a4, a5, a6, b0],
    cur := fun a => if a = 0 then some 3 else if a = 1 then some 0 else none,
    sched := fun _ => none, picked := [] }

/-- **Witness.** Batch `[a5, a3]`: the code (and the model) leave `{a6}` of sender 0 at current
number 6; the variant that forwards once to one past the LAST listed transaction leaves
`{a4, a6}` at current number 4. -/
theorem last_instead_of_highest :
    (usedBatch sA [5, 3]).txs = [a6, b0] ∧ (usedBatch sA [5, 3]).cur 0 = some 6 ∧
    (usedBatchLast sA [5, 3]).txs = [a4, a6, b0] ∧ (usedBatchLast sA [5, 3]).cur 0 = some 4 := by
  decide

/-- The variant depends on the order of the hashes (`usedBatch` does not: `usedBatch_perm`). -/
theorem last_variant_order_dependent :
    (usedBatchLast sA [3, 5]).txs = [a6, b0] ∧ (usedBatchLast sA [5, 3]).txs = [a4, a6, b0] := by
  decide

/-! ### (d) non-vacuity -/

example : IdsDistinct sA := by unfold IdsDistinct; decide
example : [3, 5, 10].Perm [10, 3, 5] := by decide

-- `usedBatch_perm` on a non-trivial instance, and what both orders compute
example : usedBatch sA [5, 3] = usedBatch sA [3, 5] :=
  usedBatch_perm sA (by unfold IdsDistinct; decide) [3, 5] [5, 3] (by decide)
example : (usedBatch sA [3, 5]).txs = [a6, b0] ∧ (usedBatch sA [5, 3]).txs = [a6, b0] := by decide
-- absent (99), repeated (5) and already-dropped (3 after 5) identifiers are all allowed
example : (usedBatch sA [5, 99, 3, 5, 10]).txs = [a6] ∧ (usedBatch sA [5, 99, 3, 5, 10]).cur 1 = none := by
  decide

-- hypotheses of `usedBatch_highest(_wf)` are met by `h = a5` in batch `[5, 3]` on `sA`
example : findId sA 5 = some a5 ∧ a5.seq < maxSeq ∧ sA.cur a5.sender = some 3 ∧ 3 ≤ a5.seq ∧
    (∀ j ∈ [5, 3], ∀ t, findId sA j = some t → t.sender = a5.sender → t.seq ≤ a5.seq) := by
  refine ⟨by decide, by decide, by decide, by decide, ?_⟩
  intro j hj t hf _
  simp only [List.mem_cons, List.not_mem_nil, or_false] at hj
  rcases hj with rfl | rfl
  · have : t = a5 := by
      have : findId sA 5 = some a5 := by decide
      rw [this] at hf; exact (Option.some.inj hf).symm
    subst this; decide
  · have : t = a3 := by
      have : findId sA 3 = some a3 := by decide
      rw [this] at hf; exact (Option.some.inj hf).symm
    subst this; decide

-- `usedBatch_untouched`: sender 1 in batch `[5, 3]`
example : (usedBatch sA [5, 3]).cur 1 = some 0 ∧ b0 ∈ (usedBatch sA [5, 3]).txs := by decide

-- the current number really can exceed `1 + highest` (the `max` in `usedBatch_highest`):
-- a pool whose sender is already at 10 with a stale transaction at 5
def sStale : State :=
  { cap := 8, txs := [⟨1, 0, 5, 1⟩, ⟨2, 0, 12, 1⟩],
    cur := fun a => if a = 0 then some 10 else none, sched := fun _ => none, picked := [] }
example : (usedBatch sStale [1]).cur 0 = some 10 ∧ (usedBatch sStale [1]).txs = [⟨2, 0, 12, 1⟩] := by
  decide

-- a reachable pool: the history below builds `sA`'s contents, then the batch in both orders
def histA : List Op :=
  [.add a3 3 none, .add a4 3 none, .add a5 3 none, .add a6 3 none, .add b0 0 none]
example : (run (init 8) histA).txs = [b0, a6, a5, a4, a3] := by decide
example : (usedBatch (run (init 8) histA) [5, 3]).txs = [b0, a6] ∧
    (usedBatch (run (init 8) histA) [3, 5]).txs = [b0, a6] := by decide

end OasisProofs.C20Batch
