import OasisProofs.Helpers.TxPoolImplOps
import OasisProofs.Props.C20
/-
C20 (deepening) — the *incremental* state the Go scheduler maintains refines the declarative
reference model.

`OasisModel.TxPool.Impl` models `mainQueueScheduler` function by function as the Go code writes it
(`insert`, `remove`, `replace`, `forward` with its loop and the final push of the new head,
`handleTxUsed`, `scheduleOne`/`nextSchedulable` with the `MaxUint64` guard, `restoreMaxHeap` with its
two early returns and four switch cases, `reset`, `clear`, `add` with `trim`), with the max heap
modelled by its content and the Go panics (`heap.Remove(h, -1)`, `h[-1] = …`) as explicit `Fault`
outcomes.  This file proves, for *every* operation history over `uint64` sequence numbers:

* no operation reaches a `Fault` (`no_panic`);
* the max heap's content is exactly the reference model's ready set (`maxheap_is_ready_set`);
* every implementation operation maps under `abs` to the reference operation
  (`impl_refines_reference`, `impl_run_refines`), so that every theorem of `Props/C20.lean`
  holds of the implementation-level model (`impl_sender_order`, `impl_no_double_schedule`,
  `impl_capacity_bound`, `impl_picks_max`).

The invariant `Inv` and the per-operation lemmas are in `Helpers/TxPoolImpl.lean` and
`Helpers/TxPoolImplOps.lean`.
-/
namespace OasisProofs.C20Impl
open OasisModel.TxPool OasisProofs.TxPoolImpl
open OasisModel.TxPool.Impl (abs Fault Op.wf)

/-! ### the initial state -/

theorem inv_init (cap : Nat) : Inv (Impl.init cap) := by
  refine ⟨⟨?_, ?_, ?_, ?_, ?_, ?_, ?_, ?_, ?_, ?_, ?_⟩, ?_, ?_⟩
  all_goals first
    | (intro a q h; simp [Impl.init, Impl.getSched] at h; done)
    | (intro a r h; simp [Impl.init] at h; done)
    | (intro t; simp [Impl.init])
    | simp [Impl.init]

theorem abs_init (cap : Nat) : abs (Impl.init cap) = init cap := by
  apply state_ext <;> first | rfl | (intro a; rfl)

/-! ### one operation -/

/-- **Refinement, one step.**  From a state satisfying the invariant, an operation on `uint64`
inputs does not fault, re-establishes the invariant, and is the reference operation under `abs`. -/
theorem impl_refines_reference (s : Impl.State) (op : Op) (hi : Inv s) (hop : Op.wf op) :
    ∃ s', Impl.step s op = .ok s' ∧ Inv s' ∧ abs s' = step (abs s) op := by
  cases op with
  | add t ss v =>
    have hf : Impl.freshId s t = freshId (abs s) t := rfl
    simp only [Impl.step, step, hf]
    cases hfr : freshId (abs s) t with
    | false => exact ⟨s, rfl, hi, rfl⟩
    | true =>
      have hfresh : ∀ u ∈ s.txs, u.id ≠ t.id := by
        intro u hu
        have := List.all_eq_true.1 hfr u hu
        simpa using this
      obtain ⟨o, hrun, hmap, hinv⟩ := add_spec s t ss v hi hfresh hop.1 hop.2
      simp only [if_true, hrun, bind, Except.bind]
      cases o with
      | none =>
        simp only [Option.map_none] at hmap
        rw [← hmap]
        exact ⟨s, rfl, hi, rfl⟩
      | some x =>
        obtain ⟨s', r⟩ := x
        simp only [Option.map_some] at hmap
        rw [← hmap]
        exact ⟨s', rfl, hinv _ rfl, rfl⟩
  | qadd t ss v =>
    have hf : Impl.freshId s t = freshId (abs s) t := rfl
    simp only [Impl.step, step, hf]
    cases hfr : freshId (abs s) t with
    | false => exact ⟨s, rfl, hi, rfl⟩
    | true =>
      have hfresh : ∀ u ∈ s.txs, u.id ≠ t.id := by
        intro u hu
        have := List.all_eq_true.1 hfr u hu
        simpa using this
      obtain ⟨o, hrun, hmap, hinv⟩ := queueAdd_spec s t ss v hi hfresh hop.1 hop.2
      simp only [if_true, hrun, bind, Except.bind]
      cases o with
      | none =>
        simp only [Option.map_none] at hmap
        rw [← hmap]
        exact ⟨s, rfl, hi, rfl⟩
      | some x =>
        obtain ⟨s', r⟩ := x
        simp only [Option.map_some] at hmap
        rw [← hmap]
        exact ⟨s', rfl, hinv _ rfl, rfl⟩
  | pick w =>
    simp only [Impl.step, step, ← peekOk_eq_pickOk s w hi]
    cases hpk : Impl.peekOk s w with
    | false => exact ⟨s, rfl, hi, rfl⟩
    | true =>
      obtain ⟨p, hrun, hinv⟩ := scheduleOne_spec s w hi hpk
      exact ⟨_, hrun, hinv, scheduleEff_abs s w p⟩
  | reset => exact reset_spec s hi
  | clear => exact ⟨_, rfl, (clear_spec s hi).1, (clear_spec s hi).2⟩
  | used id => exact handleTxUsed_spec s id hi
  | forward a n => exact forward_spec s a n hi hop

/-! ### histories -/

theorem run_spec (ops : List Op) : ∀ (s : Impl.State), Inv s → (∀ op ∈ ops, Op.wf op) →
    ∃ s', Impl.run s ops = .ok s' ∧ Inv s' ∧ abs s' = run (abs s) ops := by
  induction ops with
  | nil => intro s hi _; exact ⟨s, rfl, hi, rfl⟩
  | cons op ops ih =>
    intro s hi hwf
    obtain ⟨s1, h1, hi1, ha1⟩ := impl_refines_reference s op hi (hwf op List.mem_cons_self)
    obtain ⟨s2, h2, hi2, ha2⟩ := ih s1 hi1 (fun o ho => hwf o (List.mem_cons_of_mem _ ho))
    refine ⟨s2, ?_, hi2, ?_⟩
    · simp only [Impl.run, h1, bind, Except.bind]; exact h2
    · rw [ha2, ha1]; rfl

/-- Every state reached by a history satisfies the invariant. -/
theorem inv_reachable (cap : Nat) (ops : List Op) (hwf : ∀ op ∈ ops, Op.wf op) (s' : Impl.State)
    (h : Impl.run (Impl.init cap) ops = .ok s') : Inv s' := by
  obtain ⟨s2, h2, hi, _⟩ := run_spec ops _ (inv_init cap) hwf
  rw [h] at h2
  cases h2
  exact hi

/-- **`add` refines the reference `add`, result code included**: same verdict (ok / expired /
replacement underpriced / underpriced / victim not minimal), and the resulting states correspond. -/
theorem add_refines (s : Impl.State) (t : Tx) (ss : Nat) (v : Option Tx) (hi : Inv s)
    (hfresh : Impl.freshId s t = true) (ht : t.seq ≤ maxSeq) (hss : ss ≤ maxSeq) :
    ∃ o, Impl.add s t ss v = .ok o ∧ o.map (fun x => (abs x.1, x.2)) = addWith (abs s) t ss v := by
  have hf : ∀ u ∈ s.txs, u.id ≠ t.id := by
    intro u hu
    have := List.all_eq_true.1 hfresh u hu
    simpa using this
  obtain ⟨o, h1, h2, _⟩ := add_spec s t ss v hi hf ht hss
  exact ⟨o, h1, h2⟩

/-- **`mainQueue.Add` (forward, then add) refines the reference `queueAdd`.** -/
theorem queueAdd_refines (s : Impl.State) (t : Tx) (ss : Nat) (v : Option Tx) (hi : Inv s)
    (hfresh : Impl.freshId s t = true) (ht : t.seq ≤ maxSeq) (hss : ss ≤ maxSeq) :
    ∃ o, Impl.queueAdd s t ss v = .ok o ∧ o.map (fun x => (abs x.1, x.2)) = queueAdd (abs s) t ss v := by
  have hf : ∀ u ∈ s.txs, u.id ≠ t.id := by
    intro u hu
    have := List.all_eq_true.1 hfresh u hu
    simpa using this
  obtain ⟨o, h1, h2, _⟩ := queueAdd_spec s t ss v hi hf ht hss
  exact ⟨o, h1, h2⟩

/-- **No panic.**  No history of operations on `uint64` inputs drives the implementation-level
model into a `Fault`: no `heap.Remove`/`replace` of a transaction that is not in the heap, no
double push, no unresolved sender heap, and the `forward` loop terminates within its fuel. -/
theorem no_panic (cap : Nat) (ops : List Op) (hwf : ∀ op ∈ ops, Op.wf op) :
    ∃ s', Impl.run (Impl.init cap) ops = .ok s' := by
  obtain ⟨s', h, _, _⟩ := run_spec ops _ (inv_init cap) hwf
  exact ⟨s', h⟩

/-- **Refinement, histories.**  The implementation-level state reached by a history stands for
the reference state reached by the same history (same witnesses). -/
theorem impl_run_refines (cap : Nat) (ops : List Op) (hwf : ∀ op ∈ ops, Op.wf op) (s' : Impl.State)
    (h : Impl.run (Impl.init cap) ops = .ok s') : abs s' = run (init cap) ops := by
  obtain ⟨s2, h2, _, ha⟩ := run_spec ops _ (inv_init cap) hwf
  rw [h] at h2
  cases h2
  rw [ha, abs_init]

/-- **Abstraction invariant.**  In every reachable state the max heap holds each transaction at
most once and its content is exactly the reference model's ready set. -/
theorem maxheap_is_ready_set (cap : Nat) (ops : List Op) (hwf : ∀ op ∈ ops, Op.wf op) (s' : Impl.State)
    (h : Impl.run (Impl.init cap) ops = .ok s') :
    s'.pending.Nodup ∧ ∀ t, t ∈ s'.pending ↔ t ∈ readyList (run (init cap) ops) := by
  obtain ⟨s2, h2, hi, ha⟩ := run_spec ops _ (inv_init cap) hwf
  rw [h] at h2
  cases h2
  rw [abs_init] at ha
  refine ⟨hi.1.pNodup, fun t => ?_⟩
  rw [← ha, hi.2.2 t]
  unfold readyList
  rw [List.mem_filter]
  rfl

/-- The max heap holds at most one transaction per sender ("the first pending transaction from
each sender"). -/
theorem maxheap_one_per_sender (cap : Nat) (ops : List Op) (hwf : ∀ op ∈ ops, Op.wf op) (s' : Impl.State)
    (h : Impl.run (Impl.init cap) ops = .ok s') :
    ∀ t ∈ s'.pending, ∀ u ∈ s'.pending, t.sender = u.sender → t = u := by
  obtain ⟨s2, h2, hi, _⟩ := run_spec ops _ (inv_init cap) hwf
  rw [h] at h2
  cases h2
  intro t ht u hu hs
  have ht' := (hi.2.2 t).1 ht
  have hu' := (hi.2.2 u).1 hu
  exact hi.1.keys t ht'.1 u hu'.1 hs (rdy_unique s' t u ht'.2 hu'.2 hs)

/-- The sender heaps partition the queue, nothing lies below a sender's current sequence number,
and two queued transactions never share sender and sequence number. -/
theorem sender_heaps_consistent (cap : Nat) (ops : List Op) (hwf : ∀ op ∈ ops, Op.wf op) (s' : Impl.State)
    (h : Impl.run (Impl.init cap) ops = .ok s') :
    (∀ a r, s'.senders a = some r → ∀ t, t ∈ r.txs ↔ (t ∈ s'.txs ∧ t.sender = a)) ∧
    (∀ a, s'.senders a = none → ∀ t ∈ s'.txs, t.sender ≠ a) ∧
    (∀ a r, s'.senders a = some r → ∀ t ∈ r.txs, r.seq ≤ t.seq) ∧
    (∀ t ∈ s'.txs, ∀ u ∈ s'.txs, t.sender = u.sender → t.seq = u.seq → t = u) := by
  obtain ⟨s2, h2, hi, _⟩ := run_spec ops _ (inv_init cap) hwf
  rw [h] at h2
  cases h2
  exact ⟨hi.1.sndSome, hi.1.sndNone, hi.2.1, hi.1.keys⟩

/-- **`reset` does not depend on the map iteration order.**  Whatever order Go's `range
s.scheduled` produces (each entry once), `reset` does not fault and yields a state that stands
for the reference `reset`; in particular the resulting heap content is the same set. -/
theorem reset_any_order (cap : Nat) (ops : List Op) (hwf : ∀ op ∈ ops, Op.wf op) (s : Impl.State)
    (h : Impl.run (Impl.init cap) ops = .ok s) (order : List (Nat × Nat))
    (hnd : (order.map Prod.fst).Nodup)
    (hcov : ∀ a q, (a, q) ∈ order ↔ Impl.getSched s.scheduled a = some q) :
    ∃ s', Impl.resetWith s order = .ok s' ∧ abs s' = reset (abs s) ∧
      ∀ t, t ∈ s'.pending ↔ t ∈ readyList (reset (abs s)) := by
  obtain ⟨s2, h2, hi, _⟩ := run_spec ops _ (inv_init cap) hwf
  rw [h] at h2
  cases h2
  obtain ⟨s', hr, hi', ha'⟩ := resetWith_spec s order hi ⟨hnd, hcov⟩
  refine ⟨s', hr, ha', fun t => ?_⟩
  rw [← ha', hi'.2.2 t]
  unfold readyList
  rw [List.mem_filter]
  rfl

/-! ### `schedule(limit)` as a whole -/

theorem followPicks_spec (ws : List Tx) : ∀ (s : Impl.State), Inv s →
    ∃ o, Impl.followPicks ws s = .ok o ∧ o.map abs = followPicks ws (abs s) ∧ ∀ s', o = some s' → Inv s' := by
  induction ws with
  | nil => intro s hi; exact ⟨some s, rfl, rfl, fun s' h => by cases h; exact hi⟩
  | cons w ws ih =>
    intro s hi
    simp only [Impl.followPicks, followPicks, ← peekOk_eq_pickOk s w hi]
    cases hpk : Impl.peekOk s w with
    | false => exact ⟨none, rfl, rfl, fun s' h => by cases h⟩
    | true =>
      obtain ⟨p, hrun, hinv⟩ := scheduleOne_spec s w hi hpk
      obtain ⟨o, h2, hm, hi2⟩ := ih _ hinv
      refine ⟨o, ?_, ?_, hi2⟩
      · simp only [if_true, hrun, bind, Except.bind]; exact h2
      · simp only [if_true]; rw [hm, scheduleEff_abs]

/-- **`schedule(limit)` refines the reference.**  The implementation-level check of a whole
`schedule(limit)` answer (every pick a maximal element of the heap; it stops early only when the
heap is empty) does not fault and agrees with the reference check (stops early only when nothing
is ready). -/
theorem schedule_refines (limit : Nat) (s : Impl.State) (ws : List Tx) (hi : Inv s) :
    ∃ o, Impl.scheduleOk limit s ws = .ok o ∧ o.map abs = scheduleOk limit (abs s) ws ∧
      ∀ s', o = some s' → Inv s' := by
  unfold Impl.scheduleOk scheduleOk
  by_cases hlen : ws.length ≤ min limit maxBatchSize
  · simp only [hlen, if_true]
    obtain ⟨o, hrun, hm, hinv⟩ := followPicks_spec ws s hi
    simp only [hrun, bind, Except.bind]
    cases o with
    | none =>
      simp only [Option.map_none] at hm
      rw [← hm]
      exact ⟨none, rfl, rfl, fun s' h => by cases h⟩
    | some s1 =>
      simp only [Option.map_some] at hm
      rw [← hm]
      have hi1 := hinv s1 rfl
      have hemp : s1.pending.isEmpty = (readyList (abs s1)).isEmpty := by
        have hmem : ∀ u, u ∈ readyList (abs s1) ↔ u ∈ s1.pending := by
          intro u
          rw [hi1.2.2 u]
          unfold readyList
          rw [List.mem_filter]
          rfl
        rw [Bool.eq_iff_iff, List.isEmpty_iff, List.isEmpty_iff, List.eq_nil_iff_forall_not_mem,
          List.eq_nil_iff_forall_not_mem]
        exact ⟨fun h u hu => h u ((hmem u).1 hu), fun h u hu => h u ((hmem u).2 hu)⟩
      simp only [hemp]
      split
      · exact ⟨none, rfl, rfl, fun s' h => by cases h⟩
      · exact ⟨some s1, rfl, rfl, fun s' h => by cases h; exact hi1⟩
  · simp only [hlen, if_false]
    exact ⟨none, rfl, rfl, fun s' h => by cases h⟩

/-! ### the theorems of `Props/C20.lean`, transferred to the implementation-level model -/

/-- Sender order (C20.sender_order) for the implementation-level model. -/
theorem impl_sender_order (cap : Nat) (ops : List Op) (hwf : ∀ op ∈ ops, Op.wf op) (s' : Impl.State)
    (h : Impl.run (Impl.init cap) ops = .ok s') (pre post : List Tx) (t : Tx)
    (hp : s'.picked = pre ++ t :: post) :
    ∀ u ∈ post, u.sender = t.sender → ∀ q, u.seq ≤ q → q < t.seq →
      ∃ w ∈ post, w.sender = t.sender ∧ w.seq = q := by
  have ha := impl_run_refines cap ops hwf s' h
  have : (run (init cap) ops).picked = pre ++ t :: post := by rw [← ha]; exact hp
  exact OasisProofs.C20.sender_order cap ops pre post t this

/-- No double scheduling (C20.no_double_schedule) for the implementation-level model. -/
theorem impl_no_double_schedule (cap : Nat) (ops : List Op) (hwf : ∀ op ∈ ops, Op.wf op) (s' : Impl.State)
    (h : Impl.run (Impl.init cap) ops = .ok s') (pre post : List Tx) (t : Tx)
    (hp : s'.picked = pre ++ t :: post) :
    ∀ u ∈ post, ¬ (u.sender = t.sender ∧ u.seq = t.seq) := by
  have ha := impl_run_refines cap ops hwf s' h
  have : (run (init cap) ops).picked = pre ++ t :: post := by rw [← ha]; exact hp
  exact OasisProofs.C20.no_double_schedule cap ops pre post t this

/-- Capacity bound (C20.capacity_bound) for the implementation-level model. -/
theorem impl_capacity_bound (cap : Nat) (ops : List Op) (hwf : ∀ op ∈ ops, Op.wf op) (s' : Impl.State)
    (h : Impl.run (Impl.init cap) ops = .ok s') : s'.txs.length ≤ cap := by
  have ha := impl_run_refines cap ops hwf s' h
  have := OasisProofs.C20.capacity_bound cap ops
  rw [← ha] at this
  exact this

/-- Picks are ready and of maximal priority (C20.picks_max, C20.pick_seq): whatever
`maxHeap.peek()` may return in a reachable state is a queued transaction that directly follows
its sender's last scheduled one (or sits at the sender's current sequence number), and no ready
transaction has a higher priority. -/
theorem impl_picks_max (cap : Nat) (ops : List Op) (hwf : ∀ op ∈ ops, Op.wf op) (s' : Impl.State)
    (h : Impl.run (Impl.init cap) ops = .ok s') (w : Tx) (hpk : Impl.peekOk s' w = true) :
    w ∈ s'.txs ∧ ready (abs s') w = true ∧ (∀ u ∈ s'.txs, ready (abs s') u = true → u.prio ≤ w.prio) ∧
    (Impl.getSched s'.scheduled w.sender = none → (s'.senders w.sender).map (·.seq) = some w.seq) ∧
    (∀ last, Impl.getSched s'.scheduled w.sender = some last → w.seq = last + 1) := by
  obtain ⟨s2, h2, hi, _⟩ := run_spec ops _ (inv_init cap) hwf
  rw [h] at h2
  cases h2
  have hp : pickOk (abs s') w = true := by rw [← peekOk_eq_pickOk s' w hi]; exact hpk
  have h1 := OasisProofs.C20.picks_max (abs s') w hp
  have h2 := OasisProofs.C20.pick_seq (abs s') w hp
  exact ⟨h1.1, h1.2.1, h1.2.2, h2.1, h2.2⟩

/-! ### non-vacuity -/

def tA5 : Tx := { id := 1, sender := 0, seq := 5, prio := 1 }
def tA6 : Tx := { id := 2, sender := 0, seq := 6, prio := 3 }
def tB0 : Tx := { id := 3, sender := 1, seq := 0, prio := 2 }
def tMax : Tx := { id := 4, sender := 2, seq := maxSeq, prio := 9 }

/-- add, pick across senders, consume the head (forward pushes the successor), reset. -/
def demoOps : List Op :=
  [.add tA5 5 none, .add tA6 5 none, .add tB0 0 none, .add tMax maxSeq none,
   .pick tMax, .pick tB0, .pick tA5, .used 1, .reset]

example : ∀ op ∈ demoOps, Op.wf op := by
  intro op h
  simp only [demoOps, List.mem_cons, List.not_mem_nil, or_false] at h
  rcases h with rfl | rfl | rfl | rfl | rfl | rfl | rfl | rfl | rfl <;> simp [Op.wf, tA5, tA6, tB0, tMax, maxSeq]

/-- after the history the heap holds the new head of sender 0, sender 1's and sender 2's heads -/
example : (Impl.run (Impl.init 8) demoOps).toOption.map (fun s => s.pending.map (·.id)) = some [4, 3, 2] := by
  decide

/-- mid-pass (before `used`/`reset`): sender 2 is exhausted at 2^64-1, sender 1 has no successor,
sender 0's successor replaced its head in the heap -/
example : (Impl.run (Impl.init 8) (demoOps.take 7)).toOption.map (fun s => s.pending.map (·.id)) = some [2] := by
  decide

/-- The `Fault` outcomes are reachable from states that violate the invariant, so `no_panic` is
not vacuous: a heap that lost the successor of the last scheduled transaction makes
`restoreMaxHeap` panic (this is what the `MaxInt64` defect F1 did at 2^63-1). -/
example : (match Impl.restoreMaxHeap
    { cap := 4, txs := [tA5, tA6], senders := fun a => if a = 0 then some { seq := 5, txs := [tA5, tA6] } else none,
      pending := [], scheduled := [(0, 5)], picked := [tA5] } 0 5 with
    | .error f => some f
    | .ok _ => none) = some .replaceAbsent := by
  decide

/-- Defect F1 as it was (`nextSchedulable` guarded by `math.MaxInt64`): the successor of 2^63-1 is
not put into the heap by `scheduleOne`, and the following `reset` panics in
`maxHeap.replace(first, current)`.  The model is fine-grained enough to exhibit it. -/
def nextSchedulableF1 (s : Impl.State) (t : Tx) : Option Tx :=
  if t.seq == 2 ^ 63 - 1 then none else
  match s.senders t.sender with
  | none => none
  | some r => r.get (Impl.succ64 t.seq)

def scheduleOneF1 (s : Impl.State) (w : Tx) : Except Fault Impl.State := do
  let p ← match nextSchedulableF1 s w with
    | some next => Impl.heapReplace s.pending next w
    | none => Impl.heapRemove s.pending w
  pure { s with pending := p, scheduled := Impl.setSched s.scheduled w.sender w.seq, picked := w :: s.picked }

def tI : Tx := { id := 1, sender := 0, seq := 2 ^ 63 - 1, prio := 1 }
def tJ : Tx := { id := 2, sender := 0, seq := 2 ^ 63, prio := 1 }

example : (match (do
      let s ← Impl.run (Impl.init 4) [.add tI (2 ^ 63 - 1) none, .add tJ (2 ^ 63 - 1) none]
      let s ← scheduleOneF1 s tI
      Impl.reset s) with
    | .error f => some f
    | .ok _ => none) = some .replaceAbsent := by
  decide

/-- the repaired code on the same history: the successor is scheduled next and `reset` restores the head -/
example : ((do
      let s ← Impl.run (Impl.init 4) [.add tI (2 ^ 63 - 1) none, .add tJ (2 ^ 63 - 1) none, .pick tI]
      let s' ← Impl.reset s
      pure (s.pending.map (·.id), s'.pending.map (·.id)) : Except Fault _).toOption) = some ([2], [1]) := by
  decide

/-- Without the final push of `forward` (defect F4) the heap content is not the ready set:
`forwardLoop` alone leaves the new head out. -/
example : (Impl.forwardLoop 3
    { cap := 4, txs := [tA5, tA6], senders := fun a => if a = 0 then some { seq := 6, txs := [tA5, tA6] } else none,
      pending := [tA5], scheduled := [], picked := [] } 0 6).toOption.map (fun s => s.pending) = some [] := by
  decide

end OasisProofs.C20Impl
