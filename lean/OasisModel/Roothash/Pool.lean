/-
C11 — model of the roothash commitment pool, written as the Go code writes it.

  go/scheduler/api/api.go:155-262            IsMember / IsWorker / IsBackupWorker / SchedulerIdx / SchedulerRank
  go/roothash/api/commitment/pool.go:83-221  VerifyExecutorCommitment (only the checks that depend on the
                                             abstract commitment: signature, basic validity, parent round,
                                             "a scheduler may not submit a failure")
  go/roothash/api/commitment/pool.go:224-307 AddVerifiedExecutorCommitment
  go/roothash/api/commitment/votes.go:22-47  SchedulerCommitment.Add
  go/roothash/api/commitment/pool.go:310-452 ProcessCommitments / processCommitments
  go/consensus/cometbft/apps/roothash/finalization.go:67-139  outcome mapping incl. the retry after a discrepancy

A commitment is abstract: (node, scheduler, round, vote hash, failure flag).  Node identities and
vote hashes are naturals (the harness numbers the real Ed25519 keys and header hashes).
Go maps are functions `Nat → Option _` (their iteration order is never observable in the results,
see `pickBest` and theorem `OasisProofs.C11.best_order_independent`).

Core Lean only (linked into `om_pool`).
-/
namespace OasisModel.Roothash

/-! ### committee (scheduler/api) -/

inductive Role | worker | backup
  deriving DecidableEq, Repr, Inhabited

structure Member where
  role : Role
  node : Nat
  deriving DecidableEq, Repr, Inhabited

/-- `Committee.Members`, in order. Elected committees list workers before backup workers. -/
abbrev Committee := List Member

/-- `Committee.IsMember` (api.go:156). -/
def isMember (c : Committee) (id : Nat) : Bool := c.any (fun n => n.node == id)

/-- `Committee.IsWorker` (api.go:166): scans from the front and stops at the first non-worker. -/
def isWorker : Committee → Nat → Bool
  | [], _ => false
  | n :: rest, id =>
    if n.role != Role.worker then false
    else if n.node == id then true
    else isWorker rest id

/-- Body of `Committee.IsBackupWorker` on the reversed member list. -/
def isBackupFrom : List Member → Nat → Bool
  | [], _ => false
  | n :: rest, id =>
    if n.role != Role.backup then false
    else if n.node == id then true
    else isBackupFrom rest id

/-- `Committee.IsBackupWorker` (api.go:180): scans from the back and stops at the first non-backup. -/
def isBackupWorker (c : Committee) (id : Nat) : Bool := isBackupFrom c.reverse id

def two64 : Nat := 18446744073709551616

/-- `math.MaxUint64`: the value of `HighestRank` while no scheduler has committed. -/
def maxRank : Nat := two64 - 1

/-- The loop of `SchedulerRank` (api.go:243-253): `(total, idx, isWorker)`. -/
def rankLoop (id : Nat) : List Member → Nat → Nat → Bool → Nat × Nat × Bool
  | [], total, idx, w => (total, idx, w)
  | n :: rest, total, idx, w =>
    if n.role != Role.worker then (total, idx, w)
    else if n.node == id then rankLoop id rest (total + 1) total true
    else rankLoop id rest (total + 1) idx w

/-- `Committee.SchedulerRank` (api.go:236). `round + idx` is a uint64 addition (wraps). -/
def schedulerRank (c : Committee) (round id : Nat) : Option Nat :=
  match rankLoop id c 0 0 false with
  | (total, idx, w) =>
    if !w then none else some (((round + idx) % two64) % total)

/-- Number of leading workers: the loop of `SchedulerIdx` (api.go:214-220). -/
def workerTotal : List Member → Nat
  | [] => 0
  | n :: rest => if n.role != Role.worker then 0 else workerTotal rest + 1

/-- `Committee.SchedulerIdx` (api.go:211). -/
def schedulerIdx (c : Committee) (round rank : Nat) : Option Nat :=
  let total := workerTotal c
  if rank ≥ total then none
  else some ((rank + total - round % total) % total)

/-! ### commitments, votes (commitment/executor.go, votes.go) -/

/-- Abstract `ExecutorCommitment`. `hash` is `ToVote()` (hash of the compute results header),
`failure` is `IsIndicatingFailure()`. -/
structure EC where
  node : Nat
  sched : Nat
  round : Nat
  hash : Nat
  failure : Bool
  deriving DecidableEq, Repr, Inhabited

/-- The vote `SchedulerCommitment.Add` stores: `nil` (here `none`) for a failure. -/
def EC.vote (e : EC) : Option Nat := if e.failure then none else some e.hash

/-- `SchedulerCommitment`.

Aliasing hazard outside the model: Go stores `Commitment *ExecutorCommitment`, a *pointer* to the
caller's value (`sc.Commitment = ec`, votes.go:43), whereas this model stores the commitment by
value. The theorems therefore say nothing about the pointee changing after admission — e.g. the
transaction handler `executorCommit` passes `&commit` of its range variable; with a per-iteration
variable (Go ≥ 1.22 semantics, as written) every admitted commitment has its own copy, but a
variable hoisted out of the loop would leave `sc.Commitment` pointing at the LAST commitment of the
transaction (votes tallied correctly, block built from another node's header). That the stored
commitment at `HighestRank` is byte-identical to what the chosen scheduler signed, and that a Normal
block carries exactly its header roots, is checked model-free on the real `executorCommit` +
`tryFinalizeRoundInsideTx` by pooldrv (signature `finalized-header-not-schedulers-commitment`). -/
structure SC where
  commitment : Option EC := none
  votes : Nat → Option (Option Nat) := fun _ => none

/-- `Pool`. -/
structure Pool where
  highestRank : Nat := maxRank
  scs : Nat → Option SC := fun _ => none
  discrepancy : Bool := false

def Pool.empty : Pool := {}

instance : Inhabited Pool := ⟨Pool.empty⟩

inductive AddErr | notInCommittee | badCommitment | alreadyCommitted
  | badSignature | notBasedOnCorrectBlock
  deriving DecidableEq, Repr

def AddErr.toString : AddErr → String
  | .notInCommittee => "not-in-committee"
  | .badCommitment => "bad-commitment"
  | .alreadyCommitted => "already-committed"
  | .badSignature => "bad-signature"
  | .notBasedOnCorrectBlock => "not-based-on-correct-block"

/-- `SchedulerCommitment.Add` (votes.go:22). -/
def SC.add (sc : SC) (ec : EC) : SC × Option AddErr :=
  match sc.votes ec.node with
  | some _ => (sc, some .alreadyCommitted)
  | none =>
    let votes := fun n => if n = ec.node then some ec.vote else sc.votes n
    let commitment := if ec.node = ec.sched then some ec else sc.commitment
    ({ commitment := commitment, votes := votes }, none)

/-- pool.go:280-293: when a scheduler with a superior rank commits its own proposal, it becomes the
highest rank and commitments with higher ranking are dropped. -/
def promote (p : Pool) (rank : Nat) (ec : EC) : Pool :=
  if rank < p.highestRank && ec.node == ec.sched then
    { p with highestRank := rank, scs := fun r => if r > rank then none else p.scs r }
  else p

/-- pool.go:300-304: the entry for `rank`, created empty when missing. -/
def entryOr (p : Pool) (rank : Nat) : SC :=
  match p.scs rank with
  | some sc => sc
  | none => {}

def put (p : Pool) (rank : Nat) (sc : SC) : Pool :=
  { p with scs := fun r => if r = rank then some sc else p.scs r }

/-- `Pool.AddVerifiedExecutorCommitment` (pool.go:224). The pool is mutated before `sc.Add`
may still fail, exactly as in the code, hence a new pool is returned also with an error. -/
def add (c : Committee) (p : Pool) (ec : EC) : Pool × Option AddErr :=
  -- Enforce specific roles based on current discrepancy state.
  if !p.discrepancy && !isMember c ec.node then (p, some .notInCommittee)
  else if p.discrepancy && !isBackupWorker c ec.node then (p, some .badCommitment)
  else
  -- Ensure that the scheduler is allowed to schedule transactions.
  match schedulerRank c ec.round ec.sched with
  | none => (p, some .badCommitment)
  | some rank =>
    -- Prioritize commitments.
    if rank > p.highestRank then (p, some .badCommitment)
    else if rank != p.highestRank && p.discrepancy then (p, some .badCommitment)
    else
      let p1 := promote p rank ec
      -- Add commitment if the node hasn't submitted one.
      let r := (entryOr p1 rank).add ec
      (put p1 rank r.1, r.2)

/-- What of `VerifyExecutorCommitment` (pool.go:84) depends on the abstract commitment:
`sigOk` stands for `commit.Verify` + `ValidateBasic`, `round` is the round of the block being built
(`IsParentOf`); schedulers are not allowed to submit failures. RAK attestation and runtime
messages are outside the model (the harness uses a non-TEE runtime and no messages). -/
def verify (round : Nat) (sigOk : Bool) (ec : EC) : Option AddErr :=
  if !sigOk then some .badSignature
  else if ec.round != round then some .notBasedOnCorrectBlock
  else if ec.failure && ec.node == ec.sched then some .badCommitment
  else none

/-- `executorCommit` (transactions.go:95-112) for one commitment: verify, then add. -/
def submit (c : Committee) (round : Nat) (p : Pool) (sigOk : Bool) (ec : EC) : Pool × Option AddErr :=
  match verify round sigOk ec with
  | some e => (p, some e)
  | none => add c p ec

/-- What `commit.Verify` (signature, checked first) and `ValidateBasic` (failure code one of
none / unknown / state-unavailable and the optional header fields consistent with it) say about the
wire form of a commitment. The abstract `EC` keeps only "indicates a failure" (`Failure != FailureNone`,
`IsIndicatingFailure`): every failure code is a failure for `verify` and for the vote. -/
inductive WireCheck | ok | badSignature | malformed
  deriving DecidableEq, Repr

/-- `executorCommit` for one commitment as it arrives on the wire. -/
def submitWire (c : Committee) (round : Nat) (p : Pool) (w : WireCheck) (ec : EC) : Pool × Option AddErr :=
  match w with
  | .badSignature => submit c round p false ec
  | .malformed => (p, some .badCommitment)
  | .ok => submit c round p true ec

/-! ### processing (pool.go:310-452) -/

inductive Res
  | ok | stillWaiting | discrepancyDetected | noSchedulerCommitment
  | insufficientVotes | badSchedulerCommitment
  /-- `sc.Commitment.ToVote()` on a nil `sc.Commitment` (pool.go:445): a Go panic. -/
  | nilDeref
  deriving DecidableEq, Repr, Inhabited

def Res.toString : Res → String
  | .ok => "ok"
  | .stillWaiting => "still-waiting"
  | .discrepancyDetected => "discrepancy-detected"
  | .noSchedulerCommitment => "no-scheduler-commitment"
  | .insufficientVotes => "insufficient-votes"
  | .badSchedulerCommitment => "bad-scheduler-commitment"
  | .nilDeref => "PANIC"

/-- The counters of `processCommitments`; `votes` is the `map[hash.Hash]int` as an association list
with distinct keys (insertion order = committee order; Go's own iteration order is arbitrary). -/
structure Tally where
  total : Nat := 0
  commits : Nat := 0
  failures : Nat := 0
  votes : List (Nat × Nat) := []
  deriving Repr, DecidableEq

/-- `votes[h]++`. -/
def bump (h : Nat) : List (Nat × Nat) → List (Nat × Nat)
  | [] => [(h, 1)]
  | (k, v) :: rest => if k = h then (k, v + 1) :: rest else (k, v) :: bump h rest

/-- The role filter at the top of the loop body (pool.go:346-351): `continue` when true. -/
def skips (disc : Bool) (n : Member) : Bool :=
  (!disc && n.role != Role.worker) || (disc && n.role != Role.backup)

/-- `failures++` or `votes[*vote]++`, then `commits++` (pool.go:358-363). -/
def Tally.addVote (t : Tally) : Option Nat → Tally
  | none => { t with failures := t.failures + 1, commits := t.commits + 1 }
  | some h => { t with votes := bump h t.votes, commits := t.commits + 1 }

/-- The vote-gathering loop (pool.go:345-389); `none` is the early `ErrDiscrepancyDetected`. -/
def gather (disc : Bool) (highestRank : Nat) (sc : SC) (stragglers : Nat) (timeout : Bool) :
    List Member → Tally → Option Tally
  | [], t => some t
  | n :: rest, t =>
    if skips disc n then gather disc highestRank sc stragglers timeout rest t
    else
      let t := { t with total := t.total + 1 }
      match sc.votes n.node with
      | none => gather disc highestRank sc stragglers timeout rest t
      | some vote =>
        let t := t.addVote vote
        -- Early discrepancy detection.
        if disc then gather disc highestRank sc stragglers timeout rest t
        else if t.votes.length ≤ 1 && t.failures ≤ stragglers then
          gather disc highestRank sc stragglers timeout rest t
        else if highestRank > 0 && !timeout then
          gather disc highestRank sc stragglers timeout rest t
        else none

/-- "Find the commit with the highest number of votes" (pool.go:423-432) for one iteration order:
the first entry with a strictly larger count wins. Returns `(hash, best)`. -/
def pickBest : List (Nat × Nat) → Nat × Nat → Nat × Nat
  | [], acc => acc
  | (h, v) :: rest, (bh, best) => if v > best then pickBest rest (h, v) else pickBest rest (bh, best)

/-- Discrepancy resolution (pool.go:417-448) for one iteration order `votes` of the vote map. -/
def resolve (votes : List (Nat × Nat)) (total commits : Nat) (timeout : Bool) (own : Option EC) : Res :=
  let required := total / 2 + 1
  let remaining := total - commits
  match pickBest votes (0, 0) with
  | (hash, best) =>
    if best + remaining < required then .insufficientVotes
    else if best < required && timeout then .insufficientVotes
    else if best < required then .stillWaiting
    else match own with
      | none => .nilDeref  -- never reached from verified histories: `sc_has_commitment`
      | some own => if hash != own.hash then .badSchedulerCommitment else .ok

/-- `processCommitments` (pool.go:328). -/
def processInner (c : Committee) (p : Pool) (stragglers : Nat) (timeout : Bool) : Res :=
  match p.scs p.highestRank with
  | none => if timeout then .noSchedulerCommitment else .stillWaiting
  | some sc =>
    match gather p.discrepancy p.highestRank sc stragglers timeout c {} with
    | none => .discrepancyDetected
    | some t =>
      if !p.discrepancy then
        -- Discrepancy detection.
        if t.votes.length > 1 || t.failures > stragglers then .stillWaiting
        else
          -- `required := total - allowedStragglers - Σ votes` as an int; `required > 0`:
          let got := (t.votes.map (·.2)).sum
          if t.total > stragglers + got then
            (if timeout then .discrepancyDetected else .stillWaiting)
          else .ok
      else
        -- Discrepancy resolution.
        resolve t.votes t.total t.commits timeout sc.commitment

/-- `Pool.ProcessCommitments` (pool.go:310). On `ok` the returned `*SchedulerCommitment` is
`p.scs p.highestRank`. -/
def process (c : Committee) (p : Pool) (stragglers : Nat) (timeout : Bool) : Pool × Res :=
  match processInner c p stragglers timeout with
  | .discrepancyDetected =>
    ({ p with discrepancy := true,
              scs := fun r => if r != p.highestRank then none else p.scs r }, .discrepancyDetected)
  | r => (p, r)

/-- The scheduler commitment returned with `ok`. -/
def chosen (p : Pool) : Option EC :=
  match p.scs p.highestRank with
  | some sc => sc.commitment
  | none => none

/-! ### outcome mapping (finalization.go:67-139, 279-358) -/

inductive Outcome
  /-- `block.Normal` with the header of the chosen scheduler commitment. -/
  | normal (ec : EC)
  /-- `ErrStillWaiting` on the first call: nothing happens. -/
  | waiting
  /-- Discrepancy event emitted, timeout re-armed, retry still waiting. -/
  | discrepancyWaiting
  /-- `failRound`: empty `RoundFailed` block (state root of the previous block). -/
  | roundFailed (why : Res)
  /-- `return err` from `tryFinalizeRoundInsideTx` (would abort EndBlock). -/
  | error (why : Res)
  /-- nil dereference of `sc.Commitment` or of the roots of a failure-indicating header
  (never reached from verified histories, `sc_has_commitment`). -/
  | panic
  deriving DecidableEq, Repr

def Outcome.toString : Outcome → String
  | .normal ec => s!"normal {ec.sched} {ec.hash}"
  | .waiting => "waiting"
  | .discrepancyWaiting => "discrepancy-waiting"
  | .roundFailed r => s!"round-failed {r.toString}"
  | .error r => s!"error {r.toString}"
  | .panic => "panic"

def mapResult (p : Pool) (afterDiscrepancy : Bool) : Res → Outcome
  | .ok => match chosen p with
    | some ec => if ec.failure then .panic else .normal ec  -- `finalizeBlock` dereferences the roots
    | none => .panic
  | .stillWaiting => if afterDiscrepancy then .discrepancyWaiting else .waiting
  | .noSchedulerCommitment => .roundFailed .noSchedulerCommitment
  | .badSchedulerCommitment => .roundFailed .badSchedulerCommitment
  | .insufficientVotes => .roundFailed .insufficientVotes
  | .discrepancyDetected => .error .discrepancyDetected
  | .nilDeref => .panic

/-- `tryFinalizeRoundInsideTx` up to the block decision. `retryTimeout` is
`rtState.NextTimeout == ctx.CurrentHeight()` after re-arming (true iff the backup-worker timeout is 0). -/
def tryFinalize (c : Committee) (p : Pool) (stragglers : Nat) (timeout retryTimeout : Bool) :
    Pool × Outcome :=
  match process c p stragglers timeout with
  | (p1, .discrepancyDetected) =>
    match process c p1 stragglers retryTimeout with
    | (p2, r) => (p2, mapResult p2 true r)
  | (p1, r) => (p1, mapResult p1 false r)

/-- State root of the block emitted for an outcome (`none`: no block). `root` maps a vote hash to the
state root of the header it is the hash of. (`finalizeBlock`/`block.NewEmptyBlock`.) -/
def newStateRoot (prev : Nat) (root : Nat → Nat) : Outcome → Option Nat
  | .normal ec => some (root ec.hash)
  | .roundFailed _ => some prev
  | _ => none

/-! ### the rule, written from the property text (independent of the pool's data structures) -/

/-- Primary executor workers / backup workers of the committee, one entry per committee slot. -/
def primary (c : Committee) : List Nat := (c.filter (fun n => n.role == Role.worker)).map (·.node)
def backups (c : Committee) : List Nat := (c.filter (fun n => n.role == Role.backup)).map (·.node)

/-- The vote of `node` for scheduler `sched`'s proposal among the received (accepted) commitments:
a member's vote counts at most once per scheduler — the first one. -/
def voteOf (received : List EC) (sched node : Nat) : Option EC :=
  received.find? (fun e => e.sched == sched && e.node == node)

/-- C11, first sentence.  `received`: the commitments accepted in this round, in arrival order;
`discrepancy`: a discrepancy has been declared in this round; `chosen`: the scheduler commitment
whose state root would be accepted. -/
def MayFinalize (c : Committee) (received : List EC) (stragglers : Nat) (discrepancy : Bool)
    (chosen : EC) : Bool :=
  -- it is the chosen scheduler's own (non-failure) proposal and was received
  received.contains chosen && chosen.node == chosen.sched && !chosen.failure &&
  if !discrepancy then
    let pv := (primary c).filterMap (voteOf received chosen.sched)
    -- all primary votes received for the proposal agree with it: no dissenting result,
    pv.all (fun e => e.failure || e.hash == chosen.hash)
    -- at most the allowed number of failures,
    && (pv.filter (·.failure)).length ≤ stragglers
    -- and at least (primary size − allowed stragglers) of them present.
    && (primary c).length ≤ (pv.filter (fun e => !e.failure && e.hash == chosen.hash)).length + stragglers
  else
    let bv := (backups c).filterMap (voteOf received chosen.sched)
    -- a strict majority of the backup workers voted for exactly that result
    (backups c).length < 2 * (bv.filter (fun e => !e.failure && e.hash == chosen.hash)).length

/-- Scheduling priority of the scheduler a commitment is for (lower = higher priority). -/
def rankOf (c : Committee) (e : EC) : Option Nat := schedulerRank c e.round e.sched

/-- `a`'s scheduler has at least the priority of `b`'s scheduler. -/
def prioLE (c : Committee) (a b : EC) : Bool :=
  match rankOf c a, rankOf c b with
  | some x, some y => x ≤ y
  | _, _ => false

/-- C11, second sentence, as a condition on accepting one more commitment: non-members never count,
a member's vote counts at most once per round and scheduler, and nothing is accepted for a scheduler
of lower priority than one that has committed its own proposal. -/
def MayAccept (c : Committee) (received : List EC) (ec : EC) : Bool :=
  isMember c ec.node
  && (voteOf received ec.sched ec.node).isNone
  && received.all (fun e => e.node != e.sched || prioLE c ec e)

/-- "a lower-priority scheduler's proposal is never preferred over a committed higher-priority one". -/
def Preferred (c : Committee) (received : List EC) (chosen : EC) : Bool :=
  received.all (fun e => e.node != e.sched || prioLE c chosen e)

/-! ### histories -/

inductive Op
  | commit (sigOk : Bool) (ec : EC)
  | process (stragglers : Nat) (timeout : Bool)
  deriving Repr

/-- Pool plus the log of accepted commitments (arrival order) . -/
structure St where
  pool : Pool := {}
  log : List EC := []

def step (c : Committee) (round : Nat) (s : St) : Op → St
  | .commit sigOk ec =>
    match submit c round s.pool sigOk ec with
    | (p, none) => { pool := p, log := s.log ++ [ec] }
    | (p, some _) => { s with pool := p }
  | .process stragglers timeout => { s with pool := (process c s.pool stragglers timeout).1 }

def run (c : Committee) (round : Nat) (ops : List Op) : St := ops.foldl (step c round) {}

end OasisModel.Roothash
