import OasisModel.Proto
/- C11 commitment pool: driver stub (not built yet). -/
namespace OasisModel.Roothash.Driver
def main : IO Unit := IO.eprintln "mode not implemented"
end OasisModel.Roothash.Driver
