import OasisModel.Proto
import OasisModel.Roothash.Pool
/-
Driver for the commitment-pool model (`om_pool`), C11.  Every line carries the operation and what the
real `commitment.Pool` answered; the model follows the operation, compares, and evaluates the rule
predicates (`MayAccept`, `MayFinalize`, `Preferred`, timeout rule) on the *implementation's* accepted
commitments, independently of the model pool.

  committee <round> <members>            members: `w<id>`/`b<id>` comma separated, in order (`-` empty); resets
  commit <wire> <node> <sched> <round> <hash> <fail> <res> [MUTATED]   wire: 1 ok, 0 bad signature, 2 refused by ValidateBasic;
        fail: what the real commitment's IsIndicatingFailure() says
  (was) commit <sigOk> ...  VerifyExecutorCommitment + Add...
        MUTATED: the serialized pool differs although the commitment was rejected
  tx <res> <sigOk>,<node>,<sched>,<round>,<hash>,<fail> ...          one executorCommit transaction (real handler):
        all commitments are admitted in order, or — on the first error `res` — none is (pool restored)
  appcommittee <round> <members>         like `committee`; the harness keeps the pool in the application state
  rawadd <node> <sched> <round> <hash> <fail> <res>                  AddVerifiedExecutorCommitment only
  process <stragglers> <timeout> <disc> <res> [<node> <sched> <round> <hash> <fail>]
        disc: pool.Discrepancy after the call; on `ok` the returned sc.Commitment (`nil` if nil)
  finalize <stragglers> <timeout> <retryTimeout> <outcome...>        tryFinalizeRoundInsideTx (real, via hook)
  state <highestRank|max> <disc> <rank>/<commit>/<votes> ...         serialized pool
        commit: `-` or node.sched.round.hash.fail ; votes: `-` or node:hash|node:F comma separated
  rank <round> <node> <res|none>    idx <round> <rank> <res|none>    member <node> <m><w><b>
Answers: `ok`, `DIVERGE <detail>` (model ≠ implementation; afterwards only rule checks continue, answered
`skip`), `SPECFAIL <detail>` (the rule itself is violated by the implementation's answer).
-/
namespace OasisModel.Roothash.Driver
open OasisModel.Proto OasisModel.Roothash

structure DSt where
  c : Committee := []
  round : Nat := 0
  pool : Pool := {}
  log : List EC := []        -- commitments the implementation accepted, arrival order
  raw : Bool := false        -- a `rawadd` bypassed verification (rule checks need verified histories)
  dead : Bool := false

/-- The rule checks are claimed for verified histories and rounds where `round + idx` cannot wrap. -/
def DSt.specOff (st : DSt) : Bool := st.raw || st.round + st.c.length ≥ two64

def parseMember (s : String) : Option Member :=
  match s.toList with
  | 'w' :: r => (String.ofList r).toNat?.map (fun n => { role := .worker, node := n })
  | 'b' :: r => (String.ofList r).toNat?.map (fun n => { role := .backup, node := n })
  | _ => none

def parseCommittee (s : String) : Option Committee :=
  if s == "-" then some [] else (s.splitOn ",").mapM parseMember

def parseBool (s : String) : Option Bool :=
  if s == "1" then some true else if s == "0" then some false else none

def parseEC (n s r h f : String) : Option EC := do
  let n ← n.toNat?
  let s ← s.toNat?
  let r ← r.toNat?
  let h ← h.toNat?
  let f ← parseBool f
  pure { node := n, sched := s, round := r, hash := h, failure := f }

/-- `1` well-formed and correctly signed, `0` bad signature, `2` refused by ValidateBasic. -/
def parseWire (s : String) : Option WireCheck :=
  if s == "1" then some .ok else if s == "0" then some .badSignature
  else if s == "2" then some .malformed else none

/-- `wire,node,sched,round,hash,fail` -/
def parseTxCommit (s : String) : Option (WireCheck × EC) :=
  match s.splitOn "," with
  | [so, n, sc, r, h, f] => do
    let so ← parseWire so
    let e ← parseEC n sc r h f
    pure (so, e)
  | _ => none

def showEC (e : EC) : String :=
  s!"{e.node}.{e.sched}.{e.round}.{e.hash}.{if e.failure then 1 else 0}"

def showECo : Option EC → String
  | none => "-"
  | some e => showEC e

def showRank (r : Nat) : String := if r == maxRank then "max" else toString r

def showVote : Option (Option Nat) → String
  | none => "absent"
  | some none => "F"
  | some (some h) => toString h

def errStr : Option AddErr → String
  | none => "ok"
  | some e => e.toString

/-- Parse `node:hash` / `node:F`. -/
def parseVote (s : String) : Option (Nat × Option Nat) :=
  match s.splitOn ":" with
  | [n, v] => do
    let n ← n.toNat?
    if v == "F" then pure (n, none) else do
      let h ← v.toNat?
      pure (n, some h)
  | _ => none

def parseVotes (s : String) : Option (List (Nat × Option Nat)) :=
  if s == "-" then some [] else (s.splitOn ",").mapM parseVote

structure Entry where
  rank : Nat
  commit : String
  votes : List (Nat × Option Nat)

def parseEntry (s : String) : Option Entry :=
  match s.splitOn "/" with
  | [r, cm, vs] => do
    let r ← r.toNat?
    let vs ← parseVotes vs
    pure { rank := r, commit := cm, votes := vs }
  | _ => none

/-- Compare the serialized implementation pool with the model pool. -/
def checkState (st : DSt) (hr : String) (disc : Bool) (entries : List Entry) : Option String :=
  let p := st.pool
  if showRank p.highestRank != hr then some s!"highest-rank model={showRank p.highestRank} impl={hr}"
  else if p.discrepancy != disc then some s!"discrepancy-flag model={p.discrepancy} impl={disc}"
  else
    let ranks := (List.range (workerTotal st.c + 1)) ++ entries.map (·.rank) ++ [p.highestRank]
    let nodes := st.c.map (·.node) ++ entries.flatMap (fun e => e.votes.map (·.1)) ++ st.log.map (·.node)
    let bad := ranks.filterMap fun r =>
      let ie := entries.find? (fun e => e.rank == r)
      match p.scs r, ie with
      | none, none => none
      | some _, none => some s!"entry rank={r} model=present impl=absent"
      | none, some _ => some s!"entry rank={r} model=absent impl=present"
      | some sc, some e =>
        if showECo sc.commitment != e.commit then
          some s!"entry rank={r} commitment model={showECo sc.commitment} impl={e.commit}"
        else
          let bv := nodes.filterMap fun n =>
            let iv : Option (Option Nat) := (e.votes.find? (fun x => x.1 == n)).map (·.2)
            if showVote (sc.votes n) != showVote iv then
              some s!"entry rank={r} vote of {n} model={showVote (sc.votes n)} impl={showVote iv}"
            else none
          bv.head?
    bad.head?

/-- Rule checks on the implementation's answer to a commit (second sentence of C11). -/
def specAccept (st : DSt) (ec : EC) (res : String) : Option String :=
  if res != "ok" || st.specOff then none
  else if ec.failure && ec.node == ec.sched then
    some s!"scheduler {ec.sched}'s own failure-indicating commitment accepted (a proposal without a result)"
  else if !isMember st.c ec.node then some s!"non-member {ec.node} accepted"
  else if (voteOf st.log ec.sched ec.node).isSome then
    some s!"second vote of node {ec.node} for scheduler {ec.sched} accepted"
  else if !MayAccept st.c st.log ec then
    some s!"commitment for scheduler {ec.sched} accepted although a higher-priority scheduler committed"
  else none

/-- Rule checks on the implementation's answer to a processing call (first and last sentence of C11). -/
def specProcess (st : DSt) (stragglers : Nat) (timeout disc : Bool) (res : String) (ch : Option EC) :
    Option String :=
  if st.specOff then none
  else if res == "still-waiting" && timeout then some "still-waiting although the round timer expired"
  else if res == "ok" then
    match ch with
    | none => some "finalized without a scheduler commitment (nil)"
    | some ch =>
      if !MayFinalize st.c st.log stragglers disc ch then
        some s!"finalized {showEC ch} stragglers={stragglers} discrepancy={disc} although MayFinalize is false"
      else if !Preferred st.c st.log ch then
        some s!"finalized {showEC ch} although a higher-priority scheduler committed"
      else none
  else if ["still-waiting", "discrepancy-detected", "no-scheduler-commitment", "insufficient-votes",
           "bad-scheduler-commitment"].contains res then none
  else some s!"unexpected outcome {res}"

def step (st : DSt) (line : String) : DSt × String :=
  let diverge (st : DSt) (msg : String) : DSt × String :=
    if st.dead then (st, "skip") else ({ st with dead := true }, "DIVERGE " ++ msg)
  let w := words line
  match w with
  | [] => (st, "ok")
  | ["committee", r, ms] =>
    match r.toNat?, parseCommittee ms with
    | some r, some c => ({ c := c, round := r }, "ok")
    | _, _ => diverge st "bad-op"
  | ["appcommittee", r, ms] =>
    match r.toNat?, parseCommittee ms with
    | some r, some c => ({ c := c, round := r }, "ok")
    | _, _ => diverge st "bad-op"
  | "tx" :: res :: cms =>
    match cms.mapM parseTxCommit with
    | none => diverge st "bad-op"
    | some cs =>
      -- rule checks on an accepted transaction: every commitment was acceptable in its turn
      let specBad : Option String :=
        if res != "ok" then none else
        (cs.foldl (fun (acc : DSt × Option String) (x : WireCheck × EC) =>
          match acc with
          | (s, some m) => (s, some m)
          | (s, none) => match specAccept s x.2 "ok" with
            | some m => (s, some m)
            | none => ({ s with log := s.log ++ [x.2] }, none)) (st, none)).2
      match specBad with
      | some m => ({ st with dead := true }, "SPECFAIL " ++ m)
      | none =>
        let st1 := if res == "ok" then { st with log := st.log ++ cs.map (·.2) } else st
        if st.dead then (st1, "skip") else
        -- model: submit in order; the first error aborts the transaction and restores the pool
        let r := cs.foldl (fun (acc : Pool × Option AddErr) (x : WireCheck × EC) =>
          match acc with
          | (p, some e) => (p, some e)
          | (p, none) => submitWire st.c st.round p x.1 x.2) (st.pool, none)
        let st2 := match r.2 with
          | none => { st1 with pool := r.1 }
          | some _ => st1
        if errStr r.2 != res then diverge st2 s!"tx result model={errStr r.2} impl={res}"
        else (st2, "ok")
  | "commit" :: so :: n :: s :: r :: h :: f :: res :: rest =>
    match parseWire so, parseEC n s r h f with
    | some so, some ec =>
      if rest == ["MUTATED"] && !st.specOff then
        ({ st with dead := true }, "SPECFAIL rejected commitment changed the pool")
      else
      match specAccept st ec res with
      | some m => ({ st with dead := true }, "SPECFAIL " ++ m)
      | none =>
        let st1 := if res == "ok" then { st with log := st.log ++ [ec] } else st
        if st.dead then (st1, "skip") else
        let (p, e) := submitWire st.c st.round st.pool so ec
        let st2 := { st1 with pool := p }
        if errStr e != res then diverge st2 s!"commit result model={errStr e} impl={res}"
        else (st2, "ok")
    | _, _ => diverge st "bad-op"
  | "rawadd" :: n :: s :: r :: h :: f :: [res] =>
    match parseEC n s r h f with
    | some ec =>
      let st1 := if res == "ok" then { st with log := st.log ++ [ec] } else st
      -- a raw add is outside the verified histories unless it would have passed verification
      let st1 := { st1 with raw := st1.raw || (verify st.round true ec).isSome }
      if st.dead then (st1, "skip") else
      let (p, e) := add st.c st.pool ec
      let st2 := { st1 with pool := p }
      if errStr e != res then diverge st2 s!"add result model={errStr e} impl={res}"
      else (st2, "ok")
    | none => diverge st "bad-op"
  | "process" :: sg :: to :: dc :: res :: rest =>
    match sg.toNat?, parseBool to, parseBool dc with
    | some sg, some to, some dc =>
      let ch : Option (Option EC) := match rest with
        | [n, s, r, h, f] => (parseEC n s r h f).map some
        | ["nil"] => some none
        | [] => some none
        | _ => none
      match ch with
      | none => diverge st "bad-op"
      | some ch =>
        match specProcess st sg to dc res ch with
        | some m => ({ st with dead := true }, "SPECFAIL " ++ m)
        | none =>
          if st.dead then (st, "skip") else
          let (p, r) := process st.c st.pool sg to
          let st2 := { st with pool := p }
          if r.toString != res then diverge st2 s!"process result model={r.toString} impl={res}"
          else if r == .ok && showECo (chosen p) != showECo ch then
            diverge st2 s!"chosen commitment model={showECo (chosen p)} impl={showECo ch}"
          else if p.discrepancy != dc then diverge st2 s!"discrepancy-flag model={p.discrepancy} impl={dc}"
          else (st2, "ok")
    | _, _, _ => diverge st "bad-op"
  | "finalize" :: sg :: to :: rt :: outcome =>
    match sg.toNat?, parseBool to, parseBool rt with
    | some sg, some to, some rt =>
      let out := " ".intercalate outcome
      if !st.specOff && to && out == "waiting" then
        ({ st with dead := true }, "SPECFAIL finalization keeps waiting although the round timer expired")
      else if st.dead then (st, "skip") else
      let (p, o) := tryFinalize st.c st.pool sg to rt
      let st2 := { st with pool := p }
      let m := o.toString
      let same := m == out || (out == "round-failed" && m.startsWith "round-failed ")
        || (out == "PANIC" && m == "panic")
      if !same then diverge st2 s!"finalize outcome model={m} impl={out}"
      else (st2, "ok")
    | _, _, _ => diverge st "bad-op"
  | "state" :: hr :: dc :: entries =>
    if st.dead then (st, "skip") else
    match parseBool dc, entries.mapM parseEntry with
    | some dc, some es =>
      match checkState st hr dc es with
      | some m => diverge st m
      | none => (st, "ok")
    | _, _ => diverge st "bad-op"
  | ["rank", r, n, res] =>
    match r.toNat?, n.toNat? with
    | some r, some n =>
      let m := match schedulerRank st.c r n with | none => "none" | some x => toString x
      if m != res then diverge st s!"SchedulerRank round={r} node={n} model={m} impl={res}" else (st, "ok")
    | _, _ => diverge st "bad-op"
  | ["idx", r, k, res] =>
    match r.toNat?, k.toNat? with
    | some r, some k =>
      let m := match schedulerIdx st.c r k with | none => "none" | some x => toString x
      if m != res then diverge st s!"SchedulerIdx round={r} rank={k} model={m} impl={res}" else (st, "ok")
    | _, _ => diverge st "bad-op"
  | ["member", n, res] =>
    match n.toNat? with
    | some n =>
      let b (x : Bool) := if x then "1" else "0"
      let m := b (isMember st.c n) ++ b (isWorker st.c n) ++ b (isBackupWorker st.c n)
      if m != res then diverge st s!"membership node={n} model={m} impl={res}" else (st, "ok")
    | none => diverge st "bad-op"
  | _ => diverge st "bad-op"

def main : IO Unit := loop step {}

end OasisModel.Roothash.Driver
