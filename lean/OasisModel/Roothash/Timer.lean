import OasisModel.Roothash.Pool
/-
C11 (timeout clause) — model of the round-timer bookkeeping of the roothash application around the
commitment pool, written as the Go code writes it.

  go/roothash/api/api.go:34-35                                       TimeoutNever = 0
  go/registry/api/runtime.go:92-93,127                               Executor.RoundTimeout (int64, validated > 0)
  go/consensus/cometbft/apps/roothash/state/state.go:27-30,76-112    round-timeout queue: keys (height, H(runtime id)),
                                                                     RuntimesWithRoundTimeouts(height) = the entries with exactly that height
  go/consensus/cometbft/apps/roothash/state/state.go:512-523         ScheduleRoundTimeout / ClearRoundTimeout
  go/consensus/cometbft/apps/roothash/timeout.go:19-34               processRoundTimeouts
  go/consensus/cometbft/apps/roothash/timeout.go:36-51               processRoundTimeout = tryFinalizeRound(…, timeout = true)
  go/consensus/cometbft/apps/roothash/timeout.go:53-82               rearmRoundTimeout
  go/consensus/cometbft/apps/roothash/finalization.go:21-34          tryFinalizeRounds (RuntimesToFinalize, timeout = false)
  go/consensus/cometbft/apps/roothash/finalization.go:36-65          tryFinalizeRound (own transaction; an error discards it)
  go/consensus/cometbft/apps/roothash/finalization.go:67-139         tryFinalizeRoundInsideTx: discrepancy → re-arm → retry
  go/consensus/cometbft/apps/roothash/finalization.go:279-329        finalizeBlock: pool reset, timer := TimeoutNever
  go/consensus/cometbft/apps/roothash/finalization.go:331-358        failRound
  go/consensus/cometbft/apps/roothash/transactions.go:21-42          getRuntimeState: suspended / no committee / no pool are errors
  go/consensus/cometbft/apps/roothash/transactions.go:44-174         executorCommit: arms the timer when HighestRank changed,
                                                                     registers the runtime for finalization
  go/consensus/cometbft/apps/roothash/api/block.go:18-41             RegisterRuntimeForFinalization / RuntimesToFinalize (per block)
  go/consensus/cometbft/apps/roothash/roothash.go:129-252            onRuntimeCommitteeChanged (BeginBlock of an epoch transition)
  go/consensus/cometbft/apps/roothash/roothash.go:343-415            onNewRuntime
  go/consensus/cometbft/apps/roothash/roothash.go:418-428            EndBlock = tryFinalizeRounds; processRoundTimeouts

The commitment pool is abstract here (`PoolOracle`): `process` is `Pool.ProcessCommitments` for the
committee and straggler allowance that travel with the pool, `post` is what the code after a `nil` error
does (runtime messages, liveness, slashing), `reset` is `commitment.NewPool()`. The theorems constrain the
oracle only by facts proved about the real pool model in `OasisProofs.Props.C11` (`timeout_decides`); the
instance for the real pool model is `poolOracle` at the end of this file.

Heights and timeouts are `int64` in Go: `addI64`/`mulI64` wrap, the division truncates toward zero.

An `error` returned to `EndBlock`/`BeginBlock` is `none` here (CometBFT halts the node on it; the
transaction of `tryFinalizeRound` is discarded and the remaining runtimes are not processed).

Order of iteration: the queue is iterated in key order, i.e. by `H(runtime id)` within one height, and
`RuntimesToFinalize` in id order. Each call touches only its own runtime and its own queue entries, and the
theorems hold for every order, so the model keeps insertion order.

Core Lean only.
-/
namespace OasisModel.Roothash.Timer
open OasisModel.Roothash

/-! ### int64 arithmetic -/

def two63 : Int := 9223372036854775808
def two64i : Int := 18446744073709551616

/-- Two's complement wrap-around of an `int64` result. -/
def wrap64 (x : Int) : Int := (x + two63) % two64i - two63

def addI64 (a b : Int) : Int := wrap64 (a + b)
def mulI64 (a b : Int) : Int := wrap64 (a * b)

/-- `roothash.TimeoutNever` (api.go:35). -/
def timeoutNever : Int := 0

/-- transactions.go:147: `ctx.CurrentHeight() + rtState.Runtime.Executor.RoundTimeout`. -/
def commitTimeout (h roundTimeout : Int) : Int := addI64 h roundTimeout

/-- finalization.go:104:
`ctx.CurrentHeight() + (RoundTimeout*backupWorkerTimeoutFactorNumerator)/backupWorkerTimeoutFactorDenominator`
(timeout.go:13-16: 15/10). -/
def backupTimeout (h roundTimeout : Int) : Int := addI64 h (Int.tdiv (mulI64 roundTimeout 15) 10)

/-! ### the pool, abstractly -/

/-- What finalization.go:140-276 does after `ProcessCommitments` returned no error. -/
inductive Post
  /-- `finalizeBlock(ctx, rtState, block.Normal, …)` (finalization.go:276). -/
  | normal
  /-- `verifyRuntimeMessages` failed: `failRound` (finalization.go:175-178). -/
  | badMessages
  /-- any of the `return err` / `return fmt.Errorf(…)` exits (finalization.go:155,173,180,224,259,272). -/
  | abort
  deriving DecidableEq, Repr

/-- The commitment pool of a runtime together with the committee and the runtime parameters it is
processed with. -/
structure PoolOracle (π : Type) where
  /-- `Pool.ProcessCommitments(rtState.Committee, AllowedStragglers, timeout)`: new pool, result. -/
  process : π → Bool → π × Res
  /-- the part of `tryFinalizeRoundInsideTx` after a `nil` error. -/
  post : π → Post
  /-- `Committee.SchedulerIdx(round, 0)` succeeds (`failRound`, finalization.go:346-349). -/
  hasScheduler : π → Bool
  /-- `commitment.NewPool()` for the same committee (finalization.go:321). -/
  reset : π → π

/-! ### state -/

/-- The part of `roothash.RuntimeState` the timer depends on. -/
structure Runtime (π : Type) where
  /-- `Runtime.Executor.RoundTimeout` of the descriptor in `rtState.Runtime` (updated every epoch). -/
  roundTimeout : Int
  suspended : Bool := true
  /-- `rtState.Committee != nil`. -/
  hasCommittee : Bool := false
  /-- `rtState.CommitmentPool` (`nil` after a `Suspended` block and in a new state). -/
  pool : Option π := none
  /-- `rtState.NextTimeout`; 0 = `TimeoutNever`. -/
  nextTimeout : Int := 0

/-- The round-timeout queue: the set of keys `(height, runtime)` (state.go:30). -/
abbrev Queue := List (Int × Nat)

structure State (π : Type) where
  /-- runtime states by runtime id (`runtimeKeyFmt`). -/
  rts : Nat → Option (Runtime π)
  queue : Queue := []
  /-- block context `finalizationPendingRuntimesKey` (api/block.go). -/
  toFinalize : List Nat := []

def State.empty {π : Type} : State π := { rts := fun _ => none }

def setRt {π : Type} (rts : Nat → Option (Runtime π)) (id : Nat) (r : Runtime π) : Nat → Option (Runtime π) :=
  fun j => if j = id then some r else rts j

/-- `NextTimeout` of a runtime; a runtime without state has no timer. -/
def State.timerOf {π : Type} (s : State π) (id : Nat) : Int :=
  match s.rts id with
  | some r => r.nextTimeout
  | none => timeoutNever

/-- `MutableState.ScheduleRoundTimeout` (state.go:513): insert of a key into the key-value store. -/
def schedule (q : Queue) (id : Nat) (t : Int) : Queue :=
  if q.contains (t, id) then q else q ++ [(t, id)]

/-- `MutableState.ClearRoundTimeout` (state.go:520): removal of a key. -/
def clear (q : Queue) (id : Nat) (t : Int) : Queue := q.filter (fun e => !(e == (t, id)))

/-- `ImmutableState.RuntimesWithRoundTimeouts` (state.go:110): the runtimes queued at exactly `h`. -/
def timeoutsAt (q : Queue) (h : Int) : List Nat := (q.filter (fun e => e.1 == h)).map (·.2)

/-- `rearmRoundTimeout` (timeout.go:53-82). -/
def rearm (q : Queue) (id : Nat) (prev next : Int) : Queue :=
  -- Re-arm only if the round timeout has changed.
  if prev = next then q
  else
    let q1 := if prev ≠ timeoutNever then clear q id prev else q
    if next ≠ timeoutNever then schedule q1 id next else q1

/-! ### finalization -/

/-- What one call of `tryFinalizeRound` did to the round. -/
inductive Outcome
  /-- `block.Normal` emitted (`finalizeBlock`), timer cleared. -/
  | finalized
  /-- `failRound`: empty `RoundFailed` block, timer cleared. `why = ok` stands for the runtime-message
  hash mismatch after a successful vote. -/
  | roundFailed (why : Res)
  /-- `ErrStillWaiting` from the first processing call: nothing but the stored pool changes. -/
  | waiting
  /-- discrepancy event emitted, timer re-armed for the backup workers, retry still waiting. -/
  | discrepancyWaiting
  deriving DecidableEq, Repr

/-- Record of one `tryFinalizeRound` call that returned without error. -/
structure Ev where
  rt : Nat
  /-- the `timeout` argument: `true` from `processRoundTimeout`, `false` from `tryFinalizeRounds`. -/
  timeout : Bool
  /-- an `ExecutionDiscrepancyDetectedEvent` was emitted by this call. -/
  discrepancy : Bool
  outcome : Outcome
  /-- `rtState.NextTimeout` as stored by this call. -/
  nextTimeout : Int
  deriving DecidableEq, Repr

/-- `finalizeBlock` (finalization.go:279-329): pool reset (316-322), timer cleared (324-328). -/
def finalizeBlock {π : Type} (id : Nat) (r : Runtime π) (newPool : Option π) (q : Queue) :
    Runtime π × Queue :=
  ({ r with pool := newPool, nextTimeout := timeoutNever }, rearm q id r.nextTimeout timeoutNever)

/-- `failRound` (finalization.go:331-358). -/
def failRound {π : Type} (O : PoolOracle π) (id : Nat) (r : Runtime π) (q : Queue) (p : π) (why : Res)
    (timeout disc : Bool) : Option (Runtime π × Queue × Ev) :=
  if !O.hasScheduler p then none  -- "failed to query primary scheduler, no workers in committee"
  else
    let f := finalizeBlock id r (some (O.reset p)) q
    some (f.1, f.2, { rt := id, timeout := timeout, discrepancy := disc, outcome := .roundFailed why,
                      nextTimeout := f.1.nextTimeout })

/-- The second `switch err` of `tryFinalizeRoundInsideTx` and what follows it (finalization.go:117-276). -/
def conclude {π : Type} (O : PoolOracle π) (id : Nat) (r : Runtime π) (q : Queue) (p : π) (res : Res)
    (timeout disc : Bool) : Option (Runtime π × Queue × Ev) :=
  match res with
  | .ok =>
    match O.post p with
    | .normal =>
      let f := finalizeBlock id r (some (O.reset p)) q
      some (f.1, f.2, { rt := id, timeout := timeout, discrepancy := disc, outcome := .finalized,
                        nextTimeout := f.1.nextTimeout })
    | .badMessages => failRound O id r q p .ok timeout disc
    | .abort => none
  | .stillWaiting =>
    -- "insufficient commitments for finality, waiting": `return nil`, the caller stores `rtState`.
    some ({ r with pool := some p }, q,
          { rt := id, timeout := timeout, discrepancy := disc,
            outcome := if disc then .discrepancyWaiting else .waiting, nextTimeout := r.nextTimeout })
  | .noSchedulerCommitment => failRound O id r q p .noSchedulerCommitment timeout disc
  | .badSchedulerCommitment => failRound O id r q p .badSchedulerCommitment timeout disc
  | .insufficientVotes => failRound O id r q p .insufficientVotes timeout disc
  -- "This was already handled above, so it should not happen": `return err`.
  | .discrepancyDetected => none
  -- nil dereference of `sc.Commitment` (excluded for verified histories by `C11.sc_has_commitment`).
  | .nilDeref => none

/-- `tryFinalizeRoundInsideTx` (finalization.go:67-139) at height `h`. -/
def insideTx {π : Type} (O : PoolOracle π) (h : Int) (id : Nat) (r : Runtime π) (p : π) (q : Queue)
    (timeout : Bool) : Option (Runtime π × Queue × Ev) :=
  let first := O.process p timeout
  if first.2 = Res.discrepancyDetected then
    -- Re-arm round timeout. Give backup workers enough time to submit commitments.
    let next := backupTimeout h r.roundTimeout
    let q1 := rearm q id r.nextTimeout next
    -- Update the timeout flag to correctly handle the case when the round timeout is set to 0.
    let timeout' := next == h
    -- Retry as we may be able to already perform discrepancy resolution.
    let second := O.process first.1 timeout'
    conclude O id { r with nextTimeout := next } q1 second.1 second.2 timeout true
  else
    conclude O id r q first.1 first.2 timeout false

/-- `tryFinalizeRound` (finalization.go:36-65) with `getRuntimeState` (transactions.go:21-42). -/
def tryFinalizeRound {π : Type} (O : PoolOracle π) (h : Int) (timeout : Bool) (s : State π) (id : Nat) :
    Option (State π × Ev) :=
  match s.rts id with
  | none => none  -- "failed to fetch runtime state"
  | some r =>
    if r.suspended then none  -- ErrRuntimeSuspended
    else if !r.hasCommittee then none  -- ErrNoCommittee
    else
      match r.pool with
      | none => none  -- ErrNoExecutorPool
      | some p =>
        match insideTx O h id r p s.queue timeout with
        | none => none
        | some (r', q', ev) => some ({ s with rts := setRt s.rts id r', queue := q' }, ev)

/-- The loops of `tryFinalizeRounds` (finalization.go:24-31) and `processRoundTimeouts`
(timeout.go:27-31) over a list of runtimes fixed before the loop starts; the first error ends it. -/
def finalizeAll {π : Type} (O : PoolOracle π) (h : Int) (timeout : Bool) :
    List Nat → State π → Option (State π × List Ev)
  | [], s => some (s, [])
  | id :: rest, s =>
    match tryFinalizeRound O h timeout s id with
    | none => none
    | some (s1, ev) =>
      match finalizeAll O h timeout rest s1 with
      | none => none
      | some (s2, evs) => some (s2, ev :: evs)

/-- `tryFinalizeRounds` (finalization.go:21-34). -/
def tryFinalizeRounds {π : Type} (O : PoolOracle π) (h : Int) (s : State π) : Option (State π × List Ev) :=
  finalizeAll O h false s.toFinalize s

/-- `processRoundTimeouts` (timeout.go:19-34). -/
def processRoundTimeouts {π : Type} (O : PoolOracle π) (h : Int) (s : State π) :
    Option (State π × List Ev) :=
  finalizeAll O h true (timeoutsAt s.queue h) s

/-- `EndBlock` (roothash.go:418-428). -/
def endBlock {π : Type} (O : PoolOracle π) (h : Int) (s : State π) : Option (State π × List Ev) :=
  match tryFinalizeRounds O h s with
  | none => none
  | some (s1, evs1) =>
    match processRoundTimeouts O h s1 with
    | none => none
    | some (s2, evs2) => some (s2, evs1 ++ evs2)

/-! ### the seeded change C11-r4m1 (not the code): a "do not force finalization twice in one block" guard -/

/-- `processRoundTimeouts` skipping every runtime that is registered for finalization in this block. -/
def processRoundTimeoutsSkipping {π : Type} (O : PoolOracle π) (h : Int) (s : State π) :
    Option (State π × List Ev) :=
  finalizeAll O h true ((timeoutsAt s.queue h).filter (fun id => !s.toFinalize.contains id)) s

def endBlockSkipping {π : Type} (O : PoolOracle π) (h : Int) (s : State π) : Option (State π × List Ev) :=
  match tryFinalizeRounds O h s with
  | none => none
  | some (s1, evs1) =>
    match processRoundTimeoutsSkipping O h s1 with
    | none => none
    | some (s2, evs2) => some (s2, evs1 ++ evs2)

/-! ### the rest of a block -/

/-- `RegisterRuntimeForFinalization` (api/block.go:20): a set, listed in id order by `RuntimesToFinalize`. -/
def register : List Nat → Nat → List Nat
  | [], id => [id]
  | x :: rest, id => if id < x then id :: x :: rest else if id = x then x :: rest else x :: register rest id

/-- What changes the timer state between two `EndBlock`s. -/
inductive Step (π : Type)
  /-- `onNewRuntime` (roothash.go:343): a suspended state without timer, unless a state exists. -/
  | newRuntime (id : Nat) (roundTimeout : Int)
  /-- `onRuntimeCommitteeChanged` (roothash.go:129): `suspend` is the decision of lines 173-206,
  `hasCommittee`/`pool`/`roundTimeout` the new committee, the empty pool for it and the round timeout of
  the runtime's current descriptor. -/
  | committeeChanged (id : Nat) (suspend hasCommittee : Bool) (pool : π) (roundTimeout : Int)
  /-- an `ExecutorCommit` transaction whose commitments were all verified and added (transactions.go:44):
  `pool` is the pool with them, `rankChanged` is `prevRank != rtState.CommitmentPool.HighestRank`. -/
  | executorCommit (id : Nat) (pool : π) (rankChanged : Bool)

/-- `executorCommit` after the commitments were added (transactions.go:128-173). -/
def executorCommitArm {π : Type} (h : Int) (s : State π) (id : Nat) (r : Runtime π) (pool : π)
    (rankChanged : Bool) : State π :=
  let next := if rankChanged then commitTimeout h r.roundTimeout else r.nextTimeout
  -- Re-arm round timeout. Give workers enough time to submit commitments.
  let q := if rankChanged then rearm s.queue id r.nextTimeout next else s.queue
  { rts := setRt s.rts id { r with pool := some pool, nextTimeout := next },
    queue := q,
    -- Try to finalize the runtime during the end block.
    toFinalize := register s.toFinalize id }

/-- One step at height `h`; `none`: the block fails (error from `BeginBlock`). A rejected transaction
leaves the state unchanged. -/
def step {π : Type} (h : Int) (s : State π) : Step π → Option (State π)
  | .newRuntime id roundTimeout =>
    match s.rts id with
    | some _ => some s  -- "state for runtime already exists"
    | none => some { s with rts := setRt s.rts id { roundTimeout := roundTimeout } }
  | .committeeChanged id suspend hasCommittee pool roundTimeout =>
    match s.rts id with
    | none => none  -- "failed to fetch runtime state"
    | some r =>
      -- block.Suspended resets the pool to nil, block.EpochTransition to a new pool
      let f := finalizeBlock id r (if suspend then none else some pool) s.queue
      some { s with
        rts := setRt s.rts id { f.1 with suspended := suspend,
                                         hasCommittee := !suspend && hasCommittee,
                                         roundTimeout := roundTimeout },
        queue := f.2 }
  | .executorCommit id pool rankChanged =>
    match s.rts id with
    | none => some s
    | some r =>
      if r.suspended || !r.hasCommittee || r.pool.isNone then some s  -- getRuntimeState fails the transaction
      else some (executorCommitArm h s id r pool rankChanged)

def steps {π : Type} (h : Int) : List (Step π) → State π → Option (State π)
  | [], s => some s
  | st :: rest, s =>
    match step h s st with
    | none => none
    | some s1 => steps h rest s1

/-- A new block context: no runtime is registered for finalization (api/block.go, `BlockContext`). -/
def beginBlock {π : Type} (s : State π) : State π := { s with toFinalize := [] }

structure Block (π : Type) where
  height : Int
  steps : List (Step π)

/-- One consensus block as far as the roothash timers are concerned. -/
def execBlock {π : Type} (O : PoolOracle π) (b : Block π) (s : State π) : Option (State π × List Ev) :=
  match steps b.height b.steps (beginBlock s) with
  | none => none
  | some s1 => endBlock O b.height s1

/-- The same block with the seeded `EndBlock`. -/
def execBlockSkipping {π : Type} (O : PoolOracle π) (b : Block π) (s : State π) :
    Option (State π × List Ev) :=
  match steps b.height b.steps (beginBlock s) with
  | none => none
  | some s1 => endBlockSkipping O b.height s1

/-- The round timeout a step installs, if any. -/
def Step.roundTimeout? {π : Type} : Step π → Option Int
  | .newRuntime _ rt => some rt
  | .committeeChanged _ _ _ _ rt => some rt
  | .executorCommit _ _ _ => none

/-! ### statements (used by `OasisProofs.Props.C11Timer`) -/

/-- A runtime is in the queue at height `t` iff its `NextTimeout` is `t` and `t` is not `TimeoutNever`. -/
def QueueMatches {π : Type} (s : State π) : Prop :=
  ∀ (t : Int) (id : Nat), (t, id) ∈ s.queue ↔ (s.timerOf id = t ∧ t ≠ timeoutNever)

/-- No `int64` overflow in the two timeout computations up to height `H`, for a round timeout that is
not negative (the registry demands `RoundTimeout > 0`, runtime.go:127; 0 is harmless). -/
def RtOk (H roundTimeout : Int) : Prop :=
  0 ≤ roundTimeout ∧ roundTimeout * 15 < two63 ∧ H + roundTimeout * 15 / 10 < two63

/-- Every round timeout a block installs is fine up to height `H`. -/
def Block.Ok {π : Type} (H : Int) (b : Block π) : Prop :=
  ∀ st ∈ b.steps, ∀ rt, st.roundTimeout? = some rt → RtOk H rt

/-- States of the timer bookkeeping after the `EndBlock` of height `h`: blocks are executed at consecutive
heights (CometBFT executes every height; `RuntimesWithRoundTimeouts` looks a timer up by its exact height
only, so "strictly increasing" would not be enough, see `C11Timer.gap_loses_timer`) starting after any
initial height `h0 ≥ 0` (genesis `InitialHeight - 1`), up to `H`. -/
inductive Reachable {π : Type} (O : PoolOracle π) (H : Int) : Int → State π → Prop
  | init (h0 : Int) : 0 ≤ h0 → Reachable O H h0 State.empty
  | block {h0 : Int} {s s' : State π} {evs : List Ev} (b : Block π) :
      Reachable O H h0 s → b.height = h0 + 1 → b.height ≤ H → b.Ok H →
      execBlock O b s = some (s', evs) → Reachable O H b.height s'

/-- States in which the `EndBlock` of height `h` starts. -/
inductive AtEndBlock {π : Type} (O : PoolOracle π) (H : Int) : Int → State π → Prop
  | mk {h0 : Int} {s s1 : State π} (b : Block π) :
      Reachable O H h0 s → b.height = h0 + 1 → b.height ≤ H → b.Ok H →
      steps b.height b.steps (beginBlock s) = some s1 → AtEndBlock O H b.height s1

/-- `Reachable` with the seeded `EndBlock` (`processRoundTimeoutsSkipping`). -/
inductive ReachableSkipping {π : Type} (O : PoolOracle π) (H : Int) : Int → State π → Prop
  | init (h0 : Int) : 0 ≤ h0 → ReachableSkipping O H h0 State.empty
  | block {h0 : Int} {s s' : State π} {evs : List Ev} (b : Block π) :
      ReachableSkipping O H h0 s → b.height = h0 + 1 → b.height ≤ H → b.Ok H →
      execBlockSkipping O b s = some (s', evs) → ReachableSkipping O H b.height s'

/-- The call decided the round at height `h`: a Normal block, a failed round (timer cleared in both
cases), or discrepancy resolution started with the timer re-armed strictly in the future. -/
def Ev.Decided (h : Int) (ev : Ev) : Prop :=
  ((ev.outcome = .finalized ∨ ∃ why, ev.outcome = .roundFailed why) ∧ ev.nextTimeout = timeoutNever)
  ∨ (ev.outcome = .discrepancyWaiting ∧ ev.discrepancy = true ∧ h < ev.nextTimeout)

/-- The pool fact the timer theorems need (`C11.timeout_decides`). -/
def TimeoutDecides {π : Type} (O : PoolOracle π) : Prop :=
  ∀ p, (O.process p true).2 ≠ Res.stillWaiting

/-! ### the real pool model as an oracle -/

/-- `Pool.ProcessCommitments` of `OasisModel.Roothash` for the committee and straggler allowance stored
with the pool; `post` stays a parameter (runtime messages are outside the pool model). -/
def poolOracle (post : Committee × Nat × Pool → Post) : PoolOracle (Committee × Nat × Pool) where
  process := fun x t =>
    let r := OasisModel.Roothash.process x.1 x.2.2 x.2.1 t
    ((x.1, x.2.1, r.1), r.2)
  post := post
  hasScheduler := fun x => workerTotal x.1 > 0
  reset := fun x => (x.1, x.2.1, Pool.empty)

/-! ### C10 (the roothash `EndBlock` never returns an error): statements used by `OasisProofs.Props.C10Timer`

Added for C10; nothing above is changed. The suspension of a runtime at an epoch transition
(roothash.go:208-222: `registry.SuspendRuntime`, `finalizeBlock(…, block.Suspended, nil)`,
`rtState.Suspended = true`, `rtState.Committee = nil`) is the step `.committeeChanged id true _ _ rt` above:
`finalizeBlock` sets `CommitmentPool = nil` (finalization.go:317-319), `NextTimeout = TimeoutNever` and calls
`rearmRoundTimeout(prev, TimeoutNever)` (finalization.go:324-328), which removes the queue entry. -/

/-- `getRuntimeState` (transactions.go:21-42) returns the state of runtime `id` without error: the state
exists, is not suspended, has a committee and a commitment pool. -/
def State.Live {π : Type} (s : State π) (id : Nat) : Prop :=
  ∃ r p, s.rts id = some r ∧ r.suspended = false ∧ r.hasCommittee = true ∧ r.pool = some p

/-- THE invariant of C10 for the round timers: a runtime with a queued timer (at any height) is not
suspended and has a committee and a pool — `processRoundTimeout` will not fail in `getRuntimeState`. -/
def QueuedLive {π : Type} (s : State π) : Prop := ∀ (t : Int) (id : Nat), (t, id) ∈ s.queue → s.Live id

/-- The same in terms of the runtime states: an armed `NextTimeout` implies a live runtime. -/
def ArmedLive {π : Type} (s : State π) : Prop :=
  ∀ id r, s.rts id = some r → r.nextTimeout ≠ timeoutNever →
    r.suspended = false ∧ r.hasCommittee = true ∧ ∃ p, r.pool = some p

/-- Every runtime registered for finalization in this block (`RuntimesToFinalize`) is live. -/
def RegisteredLive {π : Type} (s : State π) : Prop := ∀ id ∈ s.toFinalize, s.Live id

/-- Every stored commitment pool satisfies `G`. -/
def PoolsGood {π : Type} (G : π → Prop) (s : State π) : Prop :=
  ∀ id r p, s.rts id = some r → r.pool = some p → G p

/-- What C10 needs from the commitment pool and the code after `ProcessCommitments`, on a class `G` of
pools that is closed under processing and reset: none of the `return err` exits of
`tryFinalizeRoundInsideTx` is taken. Each field is shown necessary in `OasisProofs.Props.C10Timer`.
For the pool model of `OasisModel.Roothash`: `retry` is `C11.retry_never_discrepancy`, `no_nil` is the
content of `C11.sc_has_commitment`, `scheduler` is "the committee has a worker". `no_abort` covers
finalization.go:155,173,180,224,259,272 (state unavailable, slashing — `Props/C10Slash`, `Props/C10Ledger`). -/
structure PoolSafe {π : Type} (O : PoolOracle π) (G : π → Prop) : Prop where
  process_good : ∀ p t, G p → G (O.process p t).1
  reset_good : ∀ p, G p → G (O.reset p)
  /-- finalization.go:155,173,180,224,259,272 are not taken. -/
  no_abort : ∀ p, G p → O.post p ≠ Post.abort
  /-- `sc.Commitment` is not nil where it is dereferenced. -/
  no_nil : ∀ p t, G p → (O.process p t).2 ≠ Res.nilDeref
  /-- finalization.go:134-136 ("This was already handled above, so it should not happen"). -/
  retry : ∀ p t t', G p → (O.process p t).2 = Res.discrepancyDetected →
    (O.process (O.process p t).1 t').2 ≠ Res.discrepancyDetected
  /-- finalization.go:346-349: `Committee.SchedulerIdx(round, 0)` finds a worker. -/
  scheduler : ∀ p, G p → O.hasScheduler p = true

/-- The pool a step installs in a runtime state, if any (a suspension installs `nil`). -/
def Step.pool? {π : Type} : Step π → Option π
  | .newRuntime _ _ => none
  | .committeeChanged _ suspend _ p _ => if suspend then none else some p
  | .executorCommit _ p _ => some p

def Step.isCommit {π : Type} : Step π → Bool
  | .executorCommit _ _ _ => true
  | _ => false

def Step.isCommitteeChange {π : Type} : Step π → Bool
  | .committeeChanged _ _ _ _ _ => true
  | _ => false

/-- Every pool a block installs satisfies `G`. -/
def Block.PoolsIn {π : Type} (G : π → Prop) (b : Block π) : Prop :=
  ∀ st ∈ b.steps, ∀ p, st.pool? = some p → G p

/-- The order of one consensus block: `onRuntimeCommitteeChanged` is only called from `BeginBlock`
(roothash.go:88-101), executor commits are transactions (`ExecuteTx`, roothash.go:321-329), so no committee
change follows an executor commit within a block. (`onNewRuntime` is called from a registry transaction
and may come anywhere.) -/
def Block.Ordered {π : Type} (b : Block π) : Prop :=
  b.steps.Pairwise (fun a c => ¬(a.isCommit = true ∧ c.isCommitteeChange = true))

/-- `Reachable` for histories whose blocks install only pools in `G`. -/
inductive ReachableG {π : Type} (O : PoolOracle π) (G : π → Prop) (H : Int) : Int → State π → Prop
  | init (h0 : Int) : 0 ≤ h0 → ReachableG O G H h0 State.empty
  | block {h0 : Int} {s s' : State π} {evs : List Ev} (b : Block π) :
      ReachableG O G H h0 s → b.height = h0 + 1 → b.height ≤ H → b.Ok H → b.PoolsIn G →
      execBlock O b s = some (s', evs) → ReachableG O G H b.height s'

/-! ### the seeded change C10-t1 (not the code): a suspension that forgets the queue -/

/-- `step` in which the suspension resets the in-state field `NextTimeout` (and pool, committee, flag) as
the code does but does NOT call `rearmRoundTimeout`: the queue entry stays. Every other step is `step`. -/
def stepStale {π : Type} (h : Int) (s : State π) (st : Step π) : Option (State π) :=
  match st with
  | .committeeChanged id true _ _ roundTimeout =>
    match s.rts id with
    | none => none
    | some r =>
      some { s with
        rts := setRt s.rts id { r with pool := none, nextTimeout := timeoutNever, suspended := true,
                                       hasCommittee := false, roundTimeout := roundTimeout } }
  | _ => step h s st

def stepsStale {π : Type} (h : Int) : List (Step π) → State π → Option (State π)
  | [], s => some s
  | st :: rest, s =>
    match stepStale h s st with
    | none => none
    | some s1 => stepsStale h rest s1

def execBlockStale {π : Type} (O : PoolOracle π) (b : Block π) (s : State π) : Option (State π × List Ev) :=
  match stepsStale b.height b.steps (beginBlock s) with
  | none => none
  | some s1 => endBlock O b.height s1

/-- `Reachable` with the seeded suspension; `EndBlock` is the code's. -/
inductive ReachableStale {π : Type} (O : PoolOracle π) (H : Int) : Int → State π → Prop
  | init (h0 : Int) : 0 ≤ h0 → ReachableStale O H h0 State.empty
  | block {h0 : Int} {s s' : State π} {evs : List Ev} (b : Block π) :
      ReachableStale O H h0 s → b.height = h0 + 1 → b.height ≤ H → b.Ok H →
      execBlockStale O b s = some (s', evs) → ReachableStale O H b.height s'

end OasisModel.Roothash.Timer
