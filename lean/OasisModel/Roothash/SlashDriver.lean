import OasisModel.Proto
import OasisModel.Roothash.SlashDist
/-
Line protocol (rhdrv -phase dist):
  dist <total> <pct> <n> <common>   →  `ok <runtimePaid> <otherPaid,...|-> <commonLeft>` | `err sub` | `err div`
-/
namespace OasisModel.Roothash.SlashDriver
open OasisModel OasisModel.Roothash.SlashDist

def step (_ : Unit) (line : String) : Unit × String :=
  match Proto.words line with
  | ["dist", t, p, n, c] =>
    match t.toNat?, p.toNat?, n.toNat?, c.toNat? with
    | some t, some p, some n, some c =>
      match distribute t p n with
      | .error .subUnderflow => ((), "err sub")
      | .error .divZero => ((), "err div")
      | .ok d =>
        let (p0, ps, c1) := pay c d n
        ((), s!"ok {p0} {Proto.showNats ps} {c1}")
    | _, _, _, _ => ((), "bad-op")
  | _ => ((), "bad-op")

def main : IO Unit := Proto.loop step ()

end OasisModel.Roothash.SlashDriver
