/-
Distribution of slashed funds by the roothash application (property C10: this code runs inside
EndBlock/BeginBlock round finalization and inside the Evidence transaction; an error returned from
the finalization path is fatal for the block).

Go: go/consensus/cometbft/apps/roothash/slashing.go
  onRuntimeIncorrectResults: every discrepancy causer's entity is slashed (`SlashEscrow`, which
    moves what it could take into the common pool), the amounts are added up; nothing slashed →
    nothing to do; otherwise `distributeSlashedFunds(total, RewardSlashBadResultsRuntimePercent,
    runtime, resolvers)`.
  distributeSlashedFunds: runtime share  r = total * pct / 100  (Mul, Quo(100)) is transferred from
    the common pool to the runtime account; with no other address that is all; otherwise
    other = (total - r) / n  (Sub — the only operation that can fail — then Quo(n)) is transferred
    from the common pool into the escrow of each of the n other addresses.
  `TransferFromCommon` moves `min(amount, common pool)` (quantity.MoveUpTo).
`pct` is a uint8 field of the runtime descriptor; `RuntimeStakingParameters.ValidateBasic`
(go/registry/api/runtime.go) rejects descriptors with a percentage above 100.
Core Lean only.
-/
namespace OasisModel.Roothash.SlashDist

inductive Err where
  | subUnderflow   -- quantity.Sub: ErrInsufficientBalance
  | divZero        -- quantity.Quo by zero
deriving DecidableEq, Repr

/-- What is requested from the common pool. -/
structure Dist where
  runtime : Nat
  other : Nat
deriving DecidableEq, Repr

/-- `quantity.Quo`. -/
def quo (a b : Nat) : Except Err Nat := if b = 0 then .error .divZero else .ok (a / b)

/-- `quantity.Sub`. -/
def sub (a b : Nat) : Except Err Nat := if a < b then .error .subUnderflow else .ok (a - b)

/-- Arithmetic of `distributeSlashedFunds` in source order. -/
def distribute (total pct n : Nat) : Except Err Dist := do
  let r ← quo (total * pct) 100
  if n = 0 then return ⟨r, 0⟩
  let rest ← sub total r
  let o ← quo rest n
  return ⟨r, o⟩

/-- `TransferFromCommon`'s first step: `MoveUpTo(common, amount)`. Returns (paid, common'). -/
def moveUpTo (common amount : Nat) : Nat × Nat := (min amount common, common - min amount common)

/-- The payments of `distributeSlashedFunds` from a common pool holding `common`:
(paid to the runtime account, paid to each other address in order, remaining common pool). -/
def pay (common : Nat) (d : Dist) (n : Nat) : Nat × List Nat × Nat :=
  let (p0, c0) := moveUpTo common d.runtime
  let rec go : Nat → Nat → List Nat × Nat
    | 0, c => ([], c)
    | k + 1, c =>
      let (p, c') := moveUpTo c d.other
      let (ps, c'') := go k c'
      (p :: ps, c'')
  let (ps, c1) := go n c0
  (p0, ps, c1)

/-- Sum of the slashed amounts (`totalSlashed.Add`, never fails). -/
def totalSlashed (slashed : List Nat) : Nat := slashed.sum

/-- `onRuntimeIncorrectResults` after the slashing loop. `none`: nothing slashed, nothing done. -/
def incorrectResults (slashed : List Nat) (pct nResolvers : Nat) : Except Err (Option Dist) :=
  if totalSlashed slashed = 0 then .ok none
  else (distribute (totalSlashed slashed) pct nResolvers).map some

end OasisModel.Roothash.SlashDist
