/-
C09 — domain separation of signatures (go/common/crypto/signature/signer.go).

The Go code signs `SHA-512/256(rawContext ‖ message)` (`PrepareSignerMessage`, signer.go:352-369) where
`rawContext` is built by `PrepareSignerContext` (signer.go:314-349):

    context                                          plain registered context
    context ++ " for chain " ++ chainContext         registered `WithChainSeparation()`
    (base ++ dynSuffix ++ str) [++ " for chain " ++ chainContext]
                                                     derived by `base.WithSuffix(str)` (signer.go:100-124)
                                                     from a base registered `WithDynamicSuffix(dynSuffix, maxLen)`

There is **no length prefix** between context and message.  Bytes are modelled as `List Nat`.
-/
namespace OasisModel.Auth

abbrev Bytes := List Nat

/-- One `signature.NewContext(raw, opts…)` registration. `closed = false` marks an entry whose
first argument is not a string literal (`raw` is then only the literal prefix of a format string and
anything may follow). -/
structure Ctx where
  raw : Bytes
  chain : Bool
  dyn : Option (Bytes × Nat)
  closed : Bool := true
deriving DecidableEq, Repr

/-- `chainContextSeparator = " for chain "` (signer.go:18). -/
def sep : Bytes := [32, 102, 111, 114, 32, 99, 104, 97, 105, 110, 32]

/-- `chainContextMaxSize` (signer.go:17). -/
def chainMax : Nat := 64

/-- `ed25519.ContextMaxSize`. -/
def ctxMax : Nat := 255

def isPrefix : Bytes → Bytes → Bool
  | [], _ => true
  | _ :: _, [] => false
  | a :: as, b :: bs => a == b && isPrefix as bs

/-- `strings.Contains`. -/
def containsSub (hay needle : Bytes) : Bool :=
  match hay with
  | [] => needle.isEmpty
  | _ :: t => isPrefix needle hay || containsSub t needle

/-- The checks `NewContext` makes on one registration (signer.go:128-163), apart from uniqueness. -/
def newContextOk (c : Ctx) : Bool :=
  c.raw.length != 0 &&
  decide (c.raw.length + (if c.chain then sep.length + chainMax else 0)
          + (match c.dyn with | some (d, n) => d.length + n | none => 0) ≤ ctxMax) &&
  !containsSub c.raw sep

/-- Errors of `WithSuffix` / `PrepareSignerContext`, as a small enum. -/
inductive PrepErr where
  | noSuffixConfigured   -- WithSuffix on a context registered without dynamic suffix
  | suffixTooLong        -- len(str) > dynamicSuffixMaxLen
  | noDynamicSuffix      -- base context with dynamic suffix used directly
  | noChainContext       -- chain separation requested, chain context not set
deriving DecidableEq, Repr

def PrepErr.toString : PrepErr → String
  | .noSuffixConfigured => "no-suffix-configured"
  | .suffixTooLong => "suffix-too-long"
  | .noDynamicSuffix => "no-dynamic-suffix"
  | .noChainContext => "no-chain-context"

/-- `ctx.WithSuffix(str)` followed by `PrepareSignerContext` (or `PrepareSignerContext(ctx)` alone when
`suffix = none`) with the process-wide chain context `chainId` (`[]` = not set).
Mirrors the Go control flow: the WithSuffix checks first, then chain separation, then the
"base context with a dynamic suffix cannot be used directly" check. -/
def prepare (c : Ctx) (suffix : Option Bytes) (chainId : Bytes) : Except PrepErr Bytes :=
  match suffix with
  | some s =>
    match c.dyn with
    | none => .error .noSuffixConfigured
    | some (d, n) =>
      if s.length > n then .error .suffixTooLong
      else
        let newCtx := c.raw ++ (d ++ s)
        if c.chain then
          if chainId.isEmpty then .error .noChainContext else .ok (newCtx ++ sep ++ chainId)
        else .ok newCtx
  | none =>
    if c.chain && chainId.isEmpty then .error .noChainContext
    else if c.dyn.isSome then .error .noDynamicSuffix
    else if c.chain then .ok (c.raw ++ sep ++ chainId) else .ok c.raw

/-! ### Head / tail decomposition used by the proofs -/

/-- The part of the effective context fixed by the registration alone. -/
def head (c : Ctx) : Bytes :=
  c.raw ++ (match c.dyn with
    | some (d, _) => d
    | none => if c.chain then sep else [])

/-- The variable part: dynamic suffix value and chain id. -/
def tail (c : Ctx) (suffix chainId : Bytes) : Bytes :=
  match c.dyn with
  | some _ => suffix ++ (if c.chain then sep ++ chainId else [])
  | none => if c.chain then chainId else []

/-- Effective context string of a (possibly suffixed) use of a registration. -/
def effective (c : Ctx) (suffix chainId : Bytes) : Bytes := head c ++ tail c suffix chainId

/-- Pre-image of the signed digest: effective context ‖ message (no length prefix). -/
def signPre (c : Ctx) (suffix chainId msg : Bytes) : Bytes := effective c suffix chainId ++ msg

/-- The signed digest for hash function `H`. -/
def signInput {D : Type} (H : Bytes → D) (c : Ctx) (suffix chainId msg : Bytes) : D :=
  H (signPre c suffix chainId msg)

def comparable (a b : Bytes) : Bool := isPrefix a b || isPrefix b a

/-- No head is a prefix of a head registered at another position (in particular no duplicates). -/
def headsPrefixFree : List Ctx → Bool
  | [] => true
  | c :: cs => cs.all (fun d => !comparable (head c) (head d)) && headsPrefixFree cs

/-- Concrete witness search: the pairs of table positions whose heads are comparable. -/
def comparablePairs (t : List Ctx) : List (Nat × Nat) :=
  let it := t.zipIdx
  it.flatMap fun (c, i) => it.filterMap fun (d, j) =>
    if i < j && comparable (head c) (head d) then some (i, j) else none

def strBytes (s : String) : Bytes := s.toList.map Char.toNat

/-- Import of one row of `Generated.SigContexts.table`. -/
def ofGen (r : Bytes × Bool × Option (Bytes × Nat) × Bool × String) : Ctx :=
  { raw := r.1, chain := r.2.1, dyn := r.2.2.1, closed := r.2.2.2.1 }

/-- The transaction signature context (consensus/api/transaction/transaction.go:34). -/
def txCtx : Ctx :=
  { raw := [111, 97, 115, 105, 115, 45, 99, 111, 114, 101, 47, 99, 111, 110, 115, 101, 110, 115, 117, 115, 58, 32,
            116, 120],
    chain := true, dyn := none }

end OasisModel.Auth
