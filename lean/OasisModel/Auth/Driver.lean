import OasisModel.Proto
import OasisModel.Auth.SigCtx
import OasisModel.Auth.Nonce
import Generated.SigContexts
/-
Driver for mode `auth` (property C09), a checker with witness: every line carries the operation and what
the Go implementation answered; the model answers `ok`, `DIVERGE <detail>` (model and implementation
disagree) or `SPEC <detail>` (the implementation's own outputs violate an executable clause of the
property, independently of the model state).

Signature contexts (registry of go/common/crypto/signature, read through the verif hook):
  reg <rawhex> <chain 0|1> <dynhex|-> <maxlen>          one runtime-registered context: must be in the
                                                         regenerated table (closed entries)
  regdone                                                every closed table entry must have been seen
  newctx <rawhex> <chain> <dynhex|-> <maxlen> <ok|panic> real NewContext on a fresh string
  prep <rawhex> <chain> <dynhex|-> <maxlen> <suffixhex|none> <chainhex|-> <hex | err:<class>>
                                                         real [WithSuffix +] PrepareSignerContext
Sequencing (real AuthenticateAndPayFees / transaction pipeline on the staking state):
  params <minTransactBalance> <maxTxSize> <localMinGasPrice> <ownSigner|-> <reserved ids|->
  acct <signer> <nonce> <balance>
  newblock | restart | noop
  setbal <signer> <balance>
  obs <signer> <nonce> <balance>     committed state of an account after a block (mux stage): the nonce must
                                     be the one the last authentication left (never lower); the balance is a
                                     witness the model adopts (handler effects are outside the model)
  auth <d|c|s> <signer> <nonce> <feeAmt> <feeGas> <ok|auth:…> <nonceBefore> <nonceAfter> <balBefore> <balAfter> <feeAcc>
  tx <idhex> <size> <env> <sig> <txok> <signer> <nonce> <feeAmt> <feeGas> <n|c|s|u> <handlerOk 0|1>
     <class> <nonceBefore> <nonceAfter> <balBefore> <balAfter>
  mtx …same fields…                  mux stage: a real handler ran, balance after an `ok` tx is a witness
After a DIVERGE/SPEC every later line is answered `skip`.
-/
namespace OasisModel.Auth.Driver
open OasisModel.Proto OasisModel.Auth

def genTable : List Ctx := Generated.SigContexts.table.map ofGen

structure St where
  seen : List Ctx := []
  registered : List Bytes := []
  p : Params := { minTransactBalance := 0, maxTxSize := 0 }
  s : State := { acct := fun _ => ⟨0, 0⟩, feeAcc := 0, authed := [], effects := [] }
  decTab : List (Bytes × Decoded) := []
  implAuthed : List Bytes := []
  implNonce : List (Nat × Nat) := []   -- last nonce the implementation reported per signer
  dead : Bool := false

def hexBytes (s : String) : Option Bytes := (parseHex s).map (·.map UInt8.toNat)
def showBytes (b : Bytes) : String := showHex (b.map UInt8.ofNat)

def bit (s : String) : Option Bool :=
  if s == "1" then some true else if s == "0" then some false else none

def parseCtx (raw chain dyn maxlen : String) : Option Ctx := do
  let r ← hexBytes raw
  let c ← bit chain
  let n ← maxlen.toNat?
  if dyn == "-" then pure { raw := r, chain := c, dyn := none }
  else
    let d ← hexBytes dyn
    pure { raw := r, chain := c, dyn := some (d, n) }

def sameReg (a b : Ctx) : Bool := a.raw == b.raw && a.chain == b.chain && a.dyn == b.dyn

def parseKind (s : String) : Option MethodKind :=
  match s with
  | "n" => some .normal | "c" => some .critical | "s" => some .system | "u" => some .unknown
  | _ => none

def parseMode (s : String) : Option Mode :=
  match s with
  | "d" => some .deliver | "c" => some .check | "s" => some .simulate | _ => none

def lookupNonce (l : List (Nat × Nat)) (a : Nat) : Option Nat := (l.find? (·.1 == a)).map (·.2)
def setNonce (l : List (Nat × Nat)) (a n : Nat) : List (Nat × Nat) := (a, n) :: l.filter (·.1 != a)

def step (st : St) (line : String) : St × String :=
  if st.dead then (st, "skip") else
  let diverge (msg : String) : St × String := ({ st with dead := true }, "DIVERGE " ++ msg)
  let spec (msg : String) : St × String := ({ st with dead := true }, "SPEC " ++ msg)
  match words line with
  | [] => (st, "ok")
  | ["reg", raw, chain, dyn, maxlen] =>
    match parseCtx raw chain dyn maxlen with
    | none => diverge "bad-op"
    | some c =>
      if genTable.any (fun g => g.closed && sameReg g c) then ({ st with seen := c :: st.seen }, "ok")
      else diverge s!"runtime-registered context not in the regenerated table: {raw} chain={chain} dyn={dyn}/{maxlen}"
  | ["regdone"] =>
    match genTable.find? (fun g => g.closed && !st.seen.any (sameReg g)) with
    | some g => diverge s!"table entry not registered at run time: {showBytes g.raw}"
    | none => (st, "ok")
  | ["newctx", raw, chain, dyn, maxlen, res] =>
    match parseCtx raw chain dyn maxlen with
    | none => diverge "bad-op"
    | some c =>
      let known := st.registered.contains c.raw || st.seen.any (fun g => g.raw == c.raw)
      let m := if newContextOk c && !known then "ok" else "panic"
      if m != res then diverge s!"NewContext model={m} impl={res} raw={raw}"
      else ({ st with registered := if m == "ok" then c.raw :: st.registered else st.registered }, "ok")
  | ["prep", raw, chain, dyn, maxlen, suffix, chainId, res] =>
    match parseCtx raw chain dyn maxlen, (if suffix == "none" then some none else (hexBytes suffix).map some),
          hexBytes chainId with
    | some c, some sfx, some k =>
      let m := match prepare c sfx k with
        | .ok b => showBytes b
        | .error e => "err:" ++ e.toString
      if m != res then diverge s!"PrepareSignerContext model={m} impl={res}"
      else
        -- executable clause: the result is head ++ tail (what the theorems are about)
        match prepare c sfx k with
        | .ok b => if b == effective c (sfx.getD []) k then (st, "ok") else spec "prepare ≠ effective"
        | .error _ => (st, "ok")
    | _, _, _ => diverge "bad-op"
  | ["params", mtb, mts, lmgp, own, res] =>
    match mtb.toNat?, mts.toNat?, lmgp.toNat?, parseNats res with
    | some a, some b, some c, some r =>
      let own' := if own == "-" then none else own.toNat?
      ({ st with p := { minTransactBalance := a, maxTxSize := b, localMinGasPrice := c, ownSigner := own',
                        reserved := fun x => r.contains x } }, "ok")
    | _, _, _, _ => diverge "bad-op"
  | ["acct", a, n, b] =>
    match a.toNat?, n.toNat?, b.toNat? with
    | some a, some n, some b =>
      ({ st with s := { st.s with acct := setAcct st.s.acct a ⟨n, b⟩ }, implNonce := setNonce st.implNonce a n }, "ok")
    | _, _, _ => diverge "bad-op"
  | ["newblock"] => ({ st with s := OasisModel.Auth.step st.p (fun _ => default) st.s .newBlock }, "ok")
  | ["restart"] => ({ st with s := OasisModel.Auth.step st.p (fun _ => default) st.s .restart }, "ok")
  | ["noop"] => (st, "ok")
  | ["setbal", a, v] =>
    match a.toNat?, v.toNat? with
    | some a, some v => ({ st with s := OasisModel.Auth.step st.p (fun _ => default) st.s (.setBalance a v) }, "ok")
    | _, _ => diverge "bad-op"
  | ["obs", a, n, b] =>
    match a.toNat?, n.toNat?, b.toNat? with
    | some a, some n, some b =>
      match lookupNonce st.implNonce a with
      | some m =>
        if n < m then spec s!"nonce of account {a} decreased outside authentication: {m} -> {n}"
        else if n != m then spec s!"nonce of account {a} changed outside authentication: {m} -> {n}"
        else if (st.s.acct a).nonce != n then diverge s!"account {a} after block: model nonce={(st.s.acct a).nonce} impl nonce={n}"
        else ({ st with s := OasisModel.Auth.step st.p (fun _ => default) st.s (.setBalance a b) }, "ok")
      | none =>
        if (st.s.acct a).nonce != n then diverge s!"account {a} after block: model nonce={(st.s.acct a).nonce} impl nonce={n}"
        else ({ st with s := OasisModel.Auth.step st.p (fun _ => default) st.s (.setBalance a b),
                        implNonce := setNonce st.implNonce a n }, "ok")
    | _, _, _ => diverge "bad-op"
  | ["auth", mode, a, n, fa, fg, res, nb, na, bb, ba, facc] =>
    match parseMode mode, a.toNat?, n.toNat?, fa.toNat?, fg.toNat?, nb.toNat?, na.toNat?, bb.toNat?, ba.toNat?,
          facc.toNat? with
    | some m, some a, some n, some fa, some fg, some nb, some na, some bb, some ba, some facc =>
      if res == "PANIC" then diverge "implementation panicked in AuthenticateAndPayFees" else
      let acc := st.s.acct a
      if acc.nonce != nb || acc.balance != bb then
        diverge s!"account {a} before auth: model nonce={acc.nonce} balance={acc.balance} impl nonce={nb} balance={bb}"
      else
      -- executable clauses on the implementation's outputs alone
      if m == .deliver && res == "ok" && n != nb then spec s!"authenticated with nonce {n} ≠ account nonce {nb}"
      else if m == .deliver && res == "ok" && na != (nb + 1) % nonceMod then spec s!"nonce after authentication {na}, before {nb}"
      else if (m != .deliver || res != "ok") && (na != nb || ba != bb) then
        spec s!"rejected/check/simulate call changed the account: nonce {nb}->{na} balance {bb}->{ba}"
      else
      match authenticate st.p m st.s.acct st.s.feeAcc a n fa fg with
      | .error e =>
        if res != "auth:" ++ e.toString then diverge s!"auth result model=auth:{e.toString} impl={res}"
        else (st, "ok")
      | .ok (acct', fee') =>
        if res != "ok" then diverge s!"auth result model=ok impl={res}"
        else if (acct' a).nonce != na || (acct' a).balance != ba then
          diverge s!"after auth: model nonce={(acct' a).nonce} balance={(acct' a).balance} impl nonce={na} balance={ba}"
        else if fee' != facc then diverge s!"fee accumulator model={fee'} impl={facc}"
        else ({ st with s := { st.s with acct := acct', feeAcc := fee' }, implNonce := setNonce st.implNonce a na }, "ok")
    | _, _, _, _, _, _, _, _, _, _ => diverge "bad-op"
  | [op, id, size, env, sg, txok, a, n, fa, fg, kind, ho, cls, nb, na, bb, ba] =>
    if op != "tx" && op != "mtx" then diverge "bad-op" else
    let wit := op == "mtx"
    match hexBytes id, size.toNat?, bit env, bit sg, bit txok, a.toNat?, n.toNat?, fa.toNat?, fg.toNat? with
    | some id, some size, some env, some sg, some txok, some a, some n, some fa, some fg =>
      match parseKind kind, bit ho, nb.toNat?, na.toNat?, bb.toNat?, ba.toNat? with
      | some kind, some ho, some nb, some na, some bb, some ba =>
        if cls == "PANIC" then diverge "implementation panicked in the transaction pipeline" else
        let d : Decoded := { size := size, envOk := env, sigOk := sg, txOk := txok, signer := a, nonce := n,
                             feeAmt := fa, feeGas := fg, kind := kind }
        -- decoding is a function of the bytes
        match st.decTab.find? (·.1 == id) with
        | some (_, d') =>
          if d' != d then diverge s!"same bytes {showBytes id} decoded differently" else go st wit id d ho cls nb na bb ba
        | none => go { st with decTab := (id, d) :: st.decTab } wit id d ho cls nb na bb ba
      | _, _, _, _, _, _ => diverge "bad-op"
    | _, _, _, _, _, _, _, _, _ => diverge "bad-op"
  | _ => diverge "bad-op"
where
  /- `wit`: the line comes from the mux stage, where a real handler ran for class `ok`: the signer's balance
     after an executed transaction is then a witness (transfers, burns) that the model adopts; for every other
     class, `failed` included, the balance must be exactly what authentication left. -/
  go (st : St) (wit : Bool) (id : Bytes) (d : Decoded) (ho : Bool) (cls : String) (nb na bb ba : Nat) : St × String :=
    let diverge (msg : String) : St × String := ({ st with dead := true }, "DIVERGE " ++ msg)
    let spec (msg : String) : St × String := ({ st with dead := true }, "SPEC " ++ msg)
    let implAuth := cls == "ok" || cls == "failed"
    let a := d.signer
    -- executable clauses of the property on the implementation's outputs alone
    if implAuth && !(d.envOk && d.sigOk && d.txOk) then
      spec s!"authenticated without valid envelope/signature (env={d.envOk} sig={d.sigOk} tx={d.txOk})"
    else if implAuth && d.nonce != nb then spec s!"authenticated with nonce {d.nonce} ≠ account nonce {nb}"
    else if d.envOk && na < nb && !(nb + 1 == nonceMod && na == 0) then
      spec s!"nonce of account {a} decreased during a transaction: {nb} -> {na}"
    else if implAuth && na != (nb + 1) % nonceMod then spec s!"nonce after authenticated tx {na}, before {nb}"
    else if !implAuth && d.envOk && (na != nb || ba != bb) then
      spec s!"rejected tx changed the account: nonce {nb}->{na} balance {bb}->{ba}"
    else if implAuth && st.implAuthed.contains id then spec s!"same bytes authenticated twice: {showBytes id}"
    else if d.envOk && (lookupNonce st.implNonce a).any (· != nb) then
      spec s!"nonce of signer {a} changed between transactions: {lookupNonce st.implNonce a} -> {nb}"
    else
    -- mux stage: earlier handlers of the block may have credited this account; its balance is a witness
    let st := if wit && d.envOk then
        { st with s := OasisModel.Auth.step st.p (fun _ => d) st.s (.setBalance a bb) } else st
    let acc := st.s.acct a
    if d.envOk && (acc.nonce != nb || acc.balance != bb) then
      diverge s!"account {a} before tx: model nonce={acc.nonce} balance={acc.balance} impl nonce={nb} balance={bb}"
    else
    let (s0, r) := deliver st.p (fun _ => d) st.s id ho
    let s' := if wit && r == .ok then OasisModel.Auth.step st.p (fun _ => d) s0 (.setBalance a ba) else s0
    if r.toString != cls then diverge s!"class model={r.toString} impl={cls}"
    else if d.envOk && ((s'.acct a).nonce != na || (s'.acct a).balance != ba) then
      diverge s!"after tx: model nonce={(s'.acct a).nonce} balance={(s'.acct a).balance} impl nonce={na} balance={ba}"
    else
      ({ st with s := s', implAuthed := if implAuth then id :: st.implAuthed else st.implAuthed,
                 implNonce := if d.envOk then setNonce st.implNonce a na else st.implNonce }, "ok")

def main : IO Unit := loop step {}

end OasisModel.Auth.Driver
