import OasisModel.Proto
/- C09 signature contexts, nonces: driver stub (not built yet). -/
namespace OasisModel.Auth.Driver
def main : IO Unit := IO.eprintln "mode not implemented"
end OasisModel.Auth.Driver
