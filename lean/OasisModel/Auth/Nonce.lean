import OasisModel.Auth.SigCtx
/-
C09 — sequencing: the transaction admission pipeline of the consensus mux for one replica.

  decodeTx      go/consensus/cometbft/abci/transaction.go:17-56   size limit, envelope, signature, sanity
  processTx     go/consensus/cometbft/abci/transaction.go:58-128  routing system / critical / normal, auth
  authenticate  go/consensus/cometbft/apps/staking/state/gas.go:32-137 (AuthenticateAndPayFees)

Everything the pipeline learns from the raw bytes is a deterministic function of the bytes (for a fixed
chain context); the model takes it as the record `Decoded` produced by an arbitrary function
`dec : Bytes → Decoded`.  In particular `sigOk` is *the verdict of signature verification for exactly
these bytes* — the ideal-signature abstraction enters only through that bit.
What a method handler does is outside this model: its success is an oracle bit of the operation and
its effect on balances is an arbitrary nonce-preserving update (`Op.setBalance`).
-/
namespace OasisModel.Auth

/-- `Account.General` restricted to what authentication reads and writes. -/
structure Account where
  nonce : Nat
  balance : Nat
deriving DecidableEq, Repr, Inhabited

/-- Go's nonce is a `uint64`; `account.General.Nonce++` wraps. -/
def nonceMod : Nat := 2 ^ 64

inductive Mode where
  | deliver | check | simulate
deriving DecidableEq, Repr, Inhabited

inductive MethodKind where
  | normal     -- registered method of normal priority
  | critical   -- `Method.IsCritical()`: skips AuthenticateTx (transaction.go:74)
  | system     -- member of `consensus.SystemMethods`: routed to processSystemTx
  | unknown    -- no application registered for the method
deriving DecidableEq, Repr, Inhabited

/-- What decoding and verifying a raw transaction yields. -/
structure Decoded where
  size : Nat
  envOk : Bool      -- CBOR envelope (SignedTransaction) decodes
  sigOk : Bool      -- Signature.Verify(tx context ‖ chain, blob) for the envelope's public key
  txOk : Bool       -- blob decodes to a Transaction and passes SanityCheck
  signer : Nat      -- envelope public key (an index)
  nonce : Nat
  feeAmt : Nat
  feeGas : Nat
  kind : MethodKind
deriving DecidableEq, Repr, Inhabited

structure Params where
  minTransactBalance : Nat
  maxTxSize : Nat                 -- 0 = unlimited
  localMinGasPrice : Nat := 0     -- CheckTx only
  ownSigner : Option Nat := none  -- CheckTx only
  reserved : Nat → Bool := fun _ => false

structure State where
  acct : Nat → Account
  feeAcc : Nat              -- per-block fee accumulator
  /-- raw transactions that passed authentication in DeliverTx (most recent first) -/
  authed : List Bytes
  /-- raw transactions whose handler ran to success in DeliverTx (most recent first) -/
  effects : List Bytes

inductive AuthErr where
  | reserved | invalidNonce | balanceTooLow | gasPriceTooLow
deriving DecidableEq, Repr, Inhabited

def AuthErr.toString : AuthErr → String
  | .reserved => "reserved"
  | .invalidNonce => "invalid-nonce"
  | .balanceTooLow => "balance-too-low"
  | .gasPriceTooLow => "gas-price-too-low"

def setAcct (f : Nat → Account) (a : Nat) (v : Account) : Nat → Account :=
  fun x => if x = a then v else f x

/-- `Fee.GasPrice` (consensus/api/transaction/gas.go). -/
def gasPrice (amt gas : Nat) : Nat := if amt = 0 ∨ gas = 0 then 0 else amt / gas

/-- `AuthenticateAndPayFees` on the account map and fee accumulator. -/
def authenticate (p : Params) (m : Mode) (acct : Nat → Account) (feeAcc : Nat)
    (signer nonce feeAmt feeGas : Nat) : Except AuthErr ((Nat → Account) × Nat) :=
  if m = .simulate then .ok (acct, feeAcc)
  else if p.reserved signer then .error .reserved
  else
    let a := acct signer
    if a.nonce ≠ nonce then .error .invalidNonce
    else if a.balance < feeAmt + p.minTransactBalance then .error .balanceTooLow
    else if m = .check then
      if p.ownSigner ≠ some signer ∧ feeGas > 0 ∧ gasPrice feeAmt feeGas < p.localMinGasPrice
      then .error .gasPriceTooLow else .ok (acct, feeAcc)
    else
      .ok (setAcct acct signer { nonce := (a.nonce + 1) % nonceMod, balance := a.balance - feeAmt },
           feeAcc + feeAmt)

/-- Result class of one DeliverTx / CheckTx. -/
inductive Res where
  | oversized | malformed | badSig | badTx | noApp
  | system                  -- accepted as system transaction (no ledger access)
  | authFail (e : AuthErr)
  | failed                  -- authenticated (fee and nonce consumed), later step failed
  | ok                      -- authenticated and executed
  | critFailed              -- critical method (not authenticated), handler failed
  | critOk                  -- critical method (not authenticated), handler ran
deriving DecidableEq, Repr, Inhabited

def Res.toString : Res → String
  | .oversized => "oversized" | .malformed => "malformed" | .badSig => "bad-sig" | .badTx => "bad-tx"
  | .noApp => "no-app" | .system => "system" | .authFail e => "auth:" ++ e.toString
  | .failed => "failed" | .ok => "ok" | .critFailed => "crit-failed" | .critOk => "crit-ok"

/-- executeTx = decodeTx ; processTx in DeliverTx mode. `handlerOk` is the oracle for everything after
authentication (gas for size, minimum gas price, the method handler, PostExecuteTx). -/
def deliver (p : Params) (dec : Bytes → Decoded) (s : State) (b : Bytes) (handlerOk : Bool) : State × Res :=
  let d := dec b
  if p.maxTxSize > 0 ∧ d.size > p.maxTxSize then (s, .oversized)
  else if !d.envOk then (s, .malformed)
  else if !d.sigOk then (s, .badSig)
  else if !d.txOk then (s, .badTx)
  else match d.kind with
    | .system => (s, .system)
    | .unknown => (s, .noApp)
    | .critical =>
      if handlerOk then ({ s with effects := b :: s.effects }, .critOk) else (s, .critFailed)
    | .normal =>
      match authenticate p .deliver s.acct s.feeAcc d.signer d.nonce d.feeAmt d.feeGas with
      | .error e => (s, .authFail e)
      | .ok (acct', fee') =>
        let s' := { s with acct := acct', feeAcc := fee', authed := b :: s.authed }
        if handlerOk then ({ s' with effects := b :: s'.effects }, .ok) else (s', .failed)

/-- Operations on the DeliverTx state of one replica. CheckTx and simulation run on a separate
check state (or are discarded) and never write the DeliverTx state; they appear as no-ops here so
that histories may interleave them. -/
inductive Op where
  | deliver (b : Bytes) (handlerOk : Bool)
  | checkTx (b : Bytes)
  | simulate (b : Bytes)
  | newBlock                          -- fee accumulator handed out and reset
  | restart                           -- process restart: state persisted
  | setBalance (a : Nat) (v : Nat)    -- any handler / block-level effect on a balance

def step (p : Params) (dec : Bytes → Decoded) (s : State) : Op → State
  | .deliver b h => (deliver p dec s b h).1
  | .checkTx _ => s
  | .simulate _ => s
  | .newBlock => { s with feeAcc := 0 }
  | .restart => s
  | .setBalance a v => { s with acct := setAcct s.acct a { s.acct a with balance := v } }

def run (p : Params) (dec : Bytes → Decoded) (s : State) (ops : List Op) : State :=
  ops.foldl (step p dec) s

/-- Did `deliver` authenticate (consume fee and nonce of) the transaction? -/
def Res.authenticated : Res → Bool
  | .ok => true | .failed => true | _ => false

end OasisModel.Auth
