/-
C18 — symbolic model of PCS (DCAP) quote verification, go/common/sgx/pcs.

What is modelled (decision sequence and exact conditions, in the order of the Go code):
  Quote.Verify                       quote.go:142-207
  CertificationData_QEReport.verify  quote.go:544-719  (verifyCertificateChain, verifyPCK, verify)
  QuoteSignatureECDSA_P256.Verify    quote.go:770-799
  TCBBundle.Verify and everything below it  tcb.go:49-397, 600-737
  TdxQuotePolicy.Verify              policy.go:39-87
  report body field offsets          report.go:67-86, 146-173

What is a parameter (`Lib`): ECDSA-P256 verification (with its SHA-256), SHA-256, the curve-point
check of the attestation key, x509 chain building to the Intel root, PEM/x509 parsing, JSON
decoding of the two collateral bodies, RFC-3339 time parsing (inside the JSON oracle) and
TupleHash. They are arbitrary functions here; the theorems in OasisProofs/Props/C18.lean state
the ideal-crypto hypotheses they need explicitly. In the correspondence driver the oracles are
instantiated by the verdicts the harness recorded from the real libraries.

Core Lean only.
-/
namespace OasisModel.Pcs

abbrev Bytes := List UInt8
/-- Nanoseconds since the Unix epoch. -/
abbrev Time := Int

/-! ### small byte helpers -/

def slice (b : Bytes) (off len : Nat) : Bytes := (b.drop off).take len

/-- Little-endian natural. -/
def leNat : Bytes → Nat
  | [] => 0
  | x :: xs => x.toNat + 256 * leNat xs

def zeros (n : Nat) : Bytes := List.replicate n 0

/-- The ASCII strings the verifier compares with, as explicit bytes (kernel-reducible). -/
def sSGX : Bytes := [83, 71, 88]            -- "SGX"
def sTDX : Bytes := [84, 68, 88]            -- "TDX"
def sQE : Bytes := [81, 69]                 -- "QE"
def sTDQE : Bytes := [84, 68, 95, 81, 69]   -- "TD_QE"
def sTDXu : Bytes := [84, 68, 88, 95]       -- "TDX_"

def hexVal (c : UInt8) : Option Nat :=
  if 48 ≤ c.toNat ∧ c.toNat ≤ 57 then some (c.toNat - 48)
  else if 97 ≤ c.toNat ∧ c.toNat ≤ 102 then some (c.toNat - 87)
  else if 65 ≤ c.toNat ∧ c.toNat ≤ 70 then some (c.toNat - 55)
  else none

/-- `encoding/hex.DecodeString` on the bytes of a Go string. -/
def hexDecode : Bytes → Option Bytes
  | [] => some []
  | [_] => none
  | a :: b :: rest =>
    match hexVal a, hexVal b, hexDecode rest with
    | some x, some y, some r => some (UInt8.ofNat (x * 16 + y) :: r)
    | _, _, _ => none

/-! ### rejection stages (one per `return err` of the Go verifier, in source order) -/

inductive Stage
  | disabled | bodyMismatch | mrSignerBlacklisted | debugMismatch | tdxNotAllowed | tdxModule
  | teeUnsupported
  | noChain | chainLen | chainVerify | chainCount | chainRoot | pckNonEcdsa | pckExt | pckNoFmspc
  | qeSig | qeData | noTcb
  | tcbPem | tcbChainLen | tcbChainVerify | tcbChainCount | tcbChainRoot | tcbNonEcdsa
  | qeidSigHex | qeidSig | qeidJson | qeidId | qeidVersion | qeidIssueParse | qeidNextParse
  | qeidFuture | qeidExpired | qeidEvalNum
  | qeidMrSignerMalformed | qeidMrSigner | qeidProdId | qeidMiscMalformed | qeidMisc
  | qeidAttrMalformed | qeidAttr | qeidLevel | qeidStatus
  | tcbSigHex | tcbSig | tcbJson | tcbId | tcbVersion | tcbIssueParse | tcbNextParse
  | tcbFuture | tcbExpired | tcbEvalNum | tcbWhitelist | tcbBlacklist
  | fmspcMalformed | fmspcMismatch
  | levelNone | levelNoStatus | tdxNoSvn | tdxModuleUnsupported | tdxModuleLevel | tdxModuleStatus
  | levelStatus
  | attKey | quoteSig
  deriving DecidableEq, Repr

def Stage.name : Stage → String
  | .disabled => "disabled" | .bodyMismatch => "bodyMismatch"
  | .mrSignerBlacklisted => "mrSignerBlacklisted" | .debugMismatch => "debugMismatch"
  | .tdxNotAllowed => "tdxNotAllowed" | .tdxModule => "tdxModule"
  | .teeUnsupported => "teeUnsupported"
  | .noChain => "noChain" | .chainLen => "chainLen" | .chainVerify => "chainVerify"
  | .chainCount => "chainCount" | .chainRoot => "chainRoot" | .pckNonEcdsa => "pckNonEcdsa"
  | .pckExt => "pckExt" | .pckNoFmspc => "pckNoFmspc"
  | .qeSig => "qeSig" | .qeData => "qeData" | .noTcb => "noTcb"
  | .tcbPem => "tcbPem" | .tcbChainLen => "tcbChainLen" | .tcbChainVerify => "tcbChainVerify"
  | .tcbChainCount => "tcbChainCount" | .tcbChainRoot => "tcbChainRoot"
  | .tcbNonEcdsa => "tcbNonEcdsa"
  | .qeidSigHex => "qeidSigHex" | .qeidSig => "qeidSig" | .qeidJson => "qeidJson"
  | .qeidId => "qeidId" | .qeidVersion => "qeidVersion" | .qeidIssueParse => "qeidIssueParse"
  | .qeidNextParse => "qeidNextParse" | .qeidFuture => "qeidFuture"
  | .qeidExpired => "qeidExpired" | .qeidEvalNum => "qeidEvalNum"
  | .qeidMrSignerMalformed => "qeidMrSignerMalformed" | .qeidMrSigner => "qeidMrSigner"
  | .qeidProdId => "qeidProdId" | .qeidMiscMalformed => "qeidMiscMalformed"
  | .qeidMisc => "qeidMisc" | .qeidAttrMalformed => "qeidAttrMalformed"
  | .qeidAttr => "qeidAttr" | .qeidLevel => "qeidLevel" | .qeidStatus => "qeidStatus"
  | .tcbSigHex => "tcbSigHex" | .tcbSig => "tcbSig" | .tcbJson => "tcbJson"
  | .tcbId => "tcbId" | .tcbVersion => "tcbVersion" | .tcbIssueParse => "tcbIssueParse"
  | .tcbNextParse => "tcbNextParse" | .tcbFuture => "tcbFuture" | .tcbExpired => "tcbExpired"
  | .tcbEvalNum => "tcbEvalNum" | .tcbWhitelist => "tcbWhitelist"
  | .tcbBlacklist => "tcbBlacklist"
  | .fmspcMalformed => "fmspcMalformed" | .fmspcMismatch => "fmspcMismatch"
  | .levelNone => "levelNone" | .levelNoStatus => "levelNoStatus" | .tdxNoSvn => "tdxNoSvn"
  | .tdxModuleUnsupported => "tdxModuleUnsupported" | .tdxModuleLevel => "tdxModuleLevel"
  | .tdxModuleStatus => "tdxModuleStatus" | .levelStatus => "levelStatus"
  | .attKey => "attKey" | .quoteSig => "quoteSig"

/-- `if !cond { return err }`. -/
def chk (b : Bool) (s : Stage) : Except Stage Unit := if b then .ok () else .error s

/-! ### data -/

/-- SGX-specific content of a PCK certificate (x509 extension 1.2.840.113741.1.13.1), as
extracted by `verifyPCK` (quote.go:602-662). `bad` stands for every ASN.1/length/range error. -/
inductive PckExt
  | bad
  | ok (fmspc : Option Bytes) (compSvn : List Int) (pcesvn : Nat)
  deriving DecidableEq, Repr

/-- A parsed x509 certificate: its DER identity, its public key if it is an ECDSA key, and the
SGX extension content. -/
structure Cert where
  der : Bytes
  ecdsaPk : Option Bytes
  ext : PckExt
  /-- PCE-ID of a PCK certificate (SGX extension 1.2.840.113741.1.13.1.3). `verifyPCK` does NOT
  extract it; it is part of the model only so that the property's "collateral belongs to the
  quote's platform" clause can be stated (`pceIdOK`). -/
  pceId : Option Bytes := none
  deriving DecidableEq, Repr

inductive CertData
  | ppid                         -- certification data types 1-3 (accepted by the parser)
  | chain (certs : List Cert)    -- type 5, PEM chain
  deriving DecidableEq, Repr

inductive BodyKind | sgx | td
  deriving DecidableEq, Repr

/-- A parsed quote (what `UnmarshalBinary` produces): header ‖ report body ‖ signature data. -/
structure Quote where
  headerRaw : Bytes            -- 48 bytes
  teeType : Nat                -- v3: 0; v4: header bytes 4..8
  bodyKind : BodyKind
  bodyRaw : Bytes              -- 384 (SGX) or 584 (TDX) bytes
  sig : Bytes                  -- ECDSA r‖s over header ‖ body by the attestation key
  attKey : Bytes               -- 64 bytes
  qeReport : Bytes             -- 384 bytes, SGX report of the quoting enclave
  qeReportSig : Bytes          -- by the PCK key
  authData : Bytes
  certData : CertData
  deriving DecidableEq, Repr

/-- TCB status (tcb.go:500-509): 0 missing, 1 UpToDate, 2 SWHardeningNeeded,
3 ConfigurationNeeded, 4 ConfigurationAndSWHardeningNeeded, 5 OutOfDate,
6 OutOfDateConfigurationNeeded, 7 Revoked. -/
abbrev Status := Nat

structure EnclaveLevel where
  isvsvn : Nat
  status : Status
  deriving DecidableEq, Repr

structure TcbLevel where
  pcesvn : Nat
  sgx : List Int       -- 16 component SVNs
  tdx : List Int       -- 16 component SVNs
  status : Status
  deriving DecidableEq, Repr

structure TdxModuleId where
  id : Bytes
  levels : List EnclaveLevel
  deriving DecidableEq, Repr

/-- Decoded TCB info body (tcb.go:218-230); only the fields the verifier reads.
`issueDate = none` / `nextUpdateOk = false` stand for a `time.Parse` error. -/
structure TcbInfo where
  id : Bytes
  version : Int
  issueDate : Option Time
  nextUpdateOk : Bool
  fmspc : Bytes                 -- the JSON string, not decoded
  evalNum : Nat
  levels : List TcbLevel
  modules : List TdxModuleId
  /-- `pceId` JSON string: decoded by the Go code but never read by the verifier. -/
  pceId : Bytes := []
  deriving DecidableEq, Repr

/-- Decoded QE identity body (tcb.go:584-598). -/
structure QeIdentity where
  id : Bytes
  version : Int
  issueDate : Option Time
  nextUpdateOk : Bool
  evalNum : Nat
  miscSelect : Bytes
  miscSelectMask : Bytes
  attributes : Bytes
  attributesMask : Bytes
  mrSigner : Bytes
  isvProdId : Nat
  levels : List EnclaveLevel
  deriving DecidableEq, Repr

/-- `SignedTCBInfo` / `SignedQEIdentity`: raw JSON body and hex signature string. -/
structure SignedJson where
  raw : Bytes
  sigHex : Bytes
  deriving DecidableEq, Repr

/-- `TCBBundle`. -/
structure Bundle where
  tcbInfo : SignedJson
  qeId : SignedJson
  certs : Bytes                 -- PEM
  deriving DecidableEq, Repr

structure TdxModulePolicy where
  mrSeam : Option Bytes
  mrSignerSeam : Bytes
  deriving DecidableEq, Repr

/-- `QuotePolicy` (policy.go:8-30). -/
structure Policy where
  disabled : Bool
  validity : Nat                -- days (uint16)
  minEval : Nat
  whitelist : List Bytes
  blacklist : List Bytes
  tdx : Option (List TdxModulePolicy)
  deriving DecidableEq, Repr

/-- quote.go:143-150. -/
def defaultPolicy : Policy :=
  { disabled := false, validity := 30, minEval := 12, whitelist := [], blacklist := [], tdx := none }

/-- Process-wide switches (pcs.go:13-18, tcb.go:27). `unsafeSkipVerify` is not modelled: the
model is of the verifying configuration. -/
structure Env where
  allowDebug : Bool
  lax : Bool
  mrSignerBlacklist : List Bytes
  deriving Repr

/-- Library oracles. -/
structure Lib where
  /-- ECDSA-P256 over SHA-256 of the message: public key, message, r‖s. -/
  ecdsaOK : Bytes → Bytes → Bytes → Bool
  sha256 : Bytes → Bytes
  /-- `ecdsa.ParseUncompressedPublicKey(P256, 0x04 ‖ key)` succeeds. -/
  attKeyOK : Bytes → Bool
  /-- `leaf.Verify(Roots: Intel, Intermediates, CurrentTime)`: the chains found. -/
  x509Verify : Cert → List Cert → Time → Option (List (List Cert))
  /-- the loop over `CertFromPEM`. -/
  pem : Bytes → Option (List Cert)
  jsonTcb : Bytes → Option TcbInfo
  jsonQe : Bytes → Option QeIdentity
  /-- TupleHash256[TdEnclaveIdentityContext](MRTD, RTMR0..3), on the concatenation. -/
  tdMr : Bytes → Bytes

/-- `sgx.VerifiedQuote`. -/
structure Verified where
  mrEnclave : Bytes
  mrSigner : Bytes
  reportData : Bytes
  deriving DecidableEq, Repr

/-! ### report body fields (report.go) -/

def sgxMrEnclave (r : Bytes) : Bytes := slice r 64 32
def sgxMrSigner (r : Bytes) : Bytes := slice r 128 32
def sgxReportData (r : Bytes) : Bytes := slice r 320 64
def sgxMiscSelect (r : Bytes) : Nat := leNat (slice r 16 4)
def sgxFlags (r : Bytes) : Nat := leNat (slice r 48 8)
def sgxXfrm (r : Bytes) : Nat := leNat (slice r 56 8)
def sgxIsvProdId (r : Bytes) : Nat := leNat (slice r 256 2)
def sgxIsvSvn (r : Bytes) : Nat := leNat (slice r 258 2)
/-- `attributes.Flags.Contains(AttributeDebug)`, AttributeDebug = 0b10. -/
def sgxDebug (r : Bytes) : Bool := (sgxFlags r) &&& 2 == 2

def tdTeeTcbSvn (r : Bytes) : List Nat := (slice r 0 16).map (·.toNat)
def tdMrSeam (r : Bytes) : Bytes := slice r 16 48
def tdMrSignerSeam (r : Bytes) : Bytes := slice r 64 48
def tdAttributes (r : Bytes) : Nat := leNat (slice r 120 8)
def tdDebug (r : Bytes) : Bool := (tdAttributes r) &&& 1 == 1
/-- MRTD ‖ RTMR0 ‖ RTMR1 ‖ RTMR2 ‖ RTMR3 (offsets 136 and 328..520). -/
def tdMeasurements (r : Bytes) : Bytes := slice r 136 48 ++ slice r 328 192
def tdReportData (r : Bytes) : Bytes := slice r 520 64

/-- What `Quote.Verify` returns on success: a function of the report body alone
(`ReportData()`, `AsEnclaveIdentity()`). -/
def identityOf (L : Lib) (k : BodyKind) (body : Bytes) : Verified :=
  match k with
  | .sgx => { mrEnclave := sgxMrEnclave body, mrSigner := sgxMrSigner body,
              reportData := sgxReportData body }
  | .td => { mrEnclave := L.tdMr (tdMeasurements body), mrSigner := zeros 32,
             reportData := tdReportData body }

/-! ### Quote.Verify, first part: policy on the report body (quote.go:152-194) -/

def teeSGX : Nat := 0
def teeTDX : Nat := 0x81

/-- policy.go:73-87. -/
def TdxModulePolicy.matches (mp : TdxModulePolicy) (body : Bytes) : Bool :=
  (match mp.mrSeam with
   | some m => m == tdMrSeam body
   | none => true) && mp.mrSignerSeam == tdMrSignerSeam body

/-- policy.go:44-59. -/
def tdxModuleAllowed (mods : List TdxModulePolicy) (body : Bytes) : Bool :=
  mods.any (·.matches body) || (mods.isEmpty && tdMrSignerSeam body == zeros 48)

def checkTee (env : Env) (pol : Policy) (q : Quote) : Except Stage Unit :=
  if q.teeType = teeSGX then do
    chk (q.bodyKind == .sgx) .bodyMismatch
    chk (!(env.mrSignerBlacklist.contains (sgxMrSigner q.bodyRaw))) .mrSignerBlacklisted
    chk (env.allowDebug == sgxDebug q.bodyRaw) .debugMismatch
  else if q.teeType = teeTDX then do
    chk (q.bodyKind == .td) .bodyMismatch
    chk (env.allowDebug == tdDebug q.bodyRaw) .debugMismatch
    match pol.tdx with
    | none => .error .tdxNotAllowed
    | some mods => chk (tdxModuleAllowed mods q.bodyRaw) .tdxModule
  else .error .teeUnsupported

/-! ### PCK certificate chain (quote.go:544-665) -/

structure PckInfo where
  pk : Bytes
  fmspc : Bytes
  compSvn : List Int
  pcesvn : Nat
  deriving DecidableEq, Repr

/-- `chain[len(chain)-1].Equal(rootCert)`. -/
def lastIs (chain : List Cert) (root : Cert) : Bool :=
  match chain.getLast? with
  | some c => c.der == root.der
  | none => false

def verifyPCK (L : Lib) (ts : Time) (q : Quote) : Except Stage PckInfo :=
  match q.certData with
  | .ppid => .error .noChain
  | .chain [leaf, inter, root] =>
    match L.x509Verify leaf [inter] ts with
    | none => .error .chainVerify
    | some [chain] => do
      chk (lastIs chain root) .chainRoot
      match leaf.ecdsaPk with
      | none => .error .pckNonEcdsa
      | some pk =>
        match leaf.ext with
        | .bad => .error .pckExt
        | .ok none _ _ => .error .pckNoFmspc
        | .ok (some f) svn pce => .ok { pk := pk, fmspc := f, compSvn := svn, pcesvn := pce }
    | some _ => .error .chainCount
  | .chain _ => .error .chainLen

/-! ### TCB bundle (tcb.go) -/

/-- tcb.go:116-161. -/
def tcbPublicKey (L : Lib) (ts : Time) (b : Bundle) : Except Stage Bytes :=
  match L.pem b.certs with
  | none => .error .tcbPem
  | some [tcbCert, root] =>
    match L.x509Verify tcbCert [] ts with
    | none => .error .tcbChainVerify
    | some [chain] => do
      chk (lastIs chain root) .tcbChainRoot
      match tcbCert.ecdsaPk with
      | none => .error .tcbNonEcdsa
      | some pk => .ok pk
    | some _ => .error .tcbChainCount
  | some _ => .error .tcbChainLen

/-- `SignatureECDSA_P256.UnmarshalHex` (quote.go:815-828). -/
def sigFromHex (h : Bytes) : Option Bytes :=
  match hexDecode h with
  | some b => if b.length = 64 then some b else none
  | none => none

def dayNs : Int := 24 * 3600 * 1000000000

/-- The validity window (tcb.go:262-267 and 629-634): `issueDate.After(ts)` rejects, then
`ts.Sub(issueDate) > validity days` rejects. (`Sub` saturates at ±2^63 ns, which is beyond
65535 days, so exact integers decide identically.) -/
def windowOK (issue ts : Time) (validity : Nat) : Bool := issue ≤ ts && ts - issue ≤ validity * dayNs

/-- `SignedQEIdentity.open` + `QEIdentity.validate` (tcb.go:563-641). -/
def openQeIdentity (L : Lib) (teeType : Nat) (ts : Time) (pol : Policy) (pk : Bytes)
    (s : SignedJson) : Except Stage QeIdentity :=
  match sigFromHex s.sigHex with
  | none => .error .qeidSigHex
  | some sig => do
    chk (L.ecdsaOK pk s.raw sig) .qeidSig
    match L.jsonQe s.raw with
    | none => .error .qeidJson
    | some qe => do
      chk (qe.id == (if teeType = teeSGX then sQE else sTDQE)) .qeidId
      chk (qe.version == 2) .qeidVersion
      match qe.issueDate with
      | none => .error .qeidIssueParse
      | some issue => do
        chk qe.nextUpdateOk .qeidNextParse
        chk (decide (issue ≤ ts)) .qeidFuture
        chk (decide (ts - issue ≤ pol.validity * dayNs)) .qeidExpired
        chk (decide (pol.minEval ≤ qe.evalNum)) .qeidEvalNum
        .ok qe

/-- First level whose ISVSVN is ≤ the report's (tcb.go:715-722, 375-382). -/
def enclaveLevel (levels : List EnclaveLevel) (isvsvn : Nat) : Option EnclaveLevel :=
  levels.find? (fun l => l.isvsvn ≤ isvsvn)

def hexLen (h : Bytes) (n : Nat) : Option Bytes :=
  match hexDecode h with
  | some b => if b.length = n then some b else none
  | none => none

/-- `QEIdentity.verify` (tcb.go:643-737) against the QE report. -/
def qeIdentityVerify (qe : QeIdentity) (rep : Bytes) : Except Stage Unit :=
  match hexLen qe.mrSigner 32 with
  | none => .error .qeidMrSignerMalformed
  | some ms => do
    chk (ms == sgxMrSigner rep) .qeidMrSigner
    chk (qe.isvProdId == sgxIsvProdId rep) .qeidProdId
    match hexLen qe.miscSelect 4, hexLen qe.miscSelectMask 4 with
    | some m, some mm => do
      chk ((sgxMiscSelect rep) &&& (leNat mm) == leNat m) .qeidMisc
      match hexLen qe.attributes 16, hexLen qe.attributesMask 16 with
      | some a, some am => do
        chk ((sgxFlags rep) &&& (leNat (am.take 8)) == leNat (a.take 8)
             && (sgxXfrm rep) &&& (leNat (am.drop 8)) == leNat (a.drop 8)) .qeidAttr
        match enclaveLevel qe.levels (sgxIsvSvn rep) with
        | none => .error .qeidLevel
        | some l => chk (l.status == 1) .qeidStatus
      | _, _ => .error .qeidAttrMalformed
    | _, _ => .error .qeidMiscMalformed

/-- `SignedTCBInfo.open` + `TCBInfo.validate` (tcb.go:182-284). -/
def openTcbInfo (L : Lib) (teeType : Nat) (ts : Time) (pol : Policy) (pk : Bytes)
    (s : SignedJson) : Except Stage TcbInfo :=
  match sigFromHex s.sigHex with
  | none => .error .tcbSigHex
  | some sig => do
    chk (L.ecdsaOK pk s.raw sig) .tcbSig
    match L.jsonTcb s.raw with
    | none => .error .tcbJson
    | some ti => do
      chk (ti.id == (if teeType = teeSGX then sSGX else sTDX)) .tcbId
      chk (ti.version == 3) .tcbVersion
      match ti.issueDate with
      | none => .error .tcbIssueParse
      | some issue => do
        chk ti.nextUpdateOk .tcbNextParse
        chk (decide (issue ≤ ts)) .tcbFuture
        chk (decide (ts - issue ≤ pol.validity * dayNs)) .tcbExpired
        chk (decide (pol.minEval ≤ ti.evalNum)) .tcbEvalNum
        chk (pol.whitelist.isEmpty || pol.whitelist.contains ti.fmspc) .tcbWhitelist
        chk (!(pol.blacklist.contains ti.fmspc)) .tcbBlacklist
        .ok ti

/-- One SVN loop of `TCBLevel.matches` over Go's 16-element arrays, as written
(tcb.go:459-464 and 484-489): `for i, comp := range comps[off:] { if svn[off+i] < comp.SVN
{ return false } }`. `i` is the absolute index, `n` the number of elements still to visit; the
loop leaves at the FIRST lower SVN. Arrays are total (`getD _ 0`: a JSON array shorter than 16
leaves zeros, as Go's fixed-size arrays do). -/
def svnLoop (plat lvl : List Int) : Nat → Nat → Bool
  | _, 0 => true
  | i, n + 1 => if plat.getD i 0 < lvl.getD i 0 then false else svnLoop plat lvl (i + 1) n

/-- The offset rule of step c) (tcb.go:480-483): `var offset int; if tdxCompSvn[1] != 0
{ offset = 2 }`. -/
def tdxOffset (t : List Nat) : Nat := if t.getD 1 0 != 0 then 2 else 0

/-- `TCBLevel.matches` (tcb.go:453-495), statement by statement: a) the 16 SGX component SVNs,
b) PCESVN, c) for TDX the TEE TCB SVNs from `offset` to 15. -/
def TcbLevel.matches (l : TcbLevel) (sgxSvn : List Int) (tdxSvn : Option (List Nat))
    (pcesvn : Nat) : Bool :=
  if !(svnLoop sgxSvn l.sgx 0 16) then false
  else if pcesvn < l.pcesvn then false
  else match tdxSvn with
    | none => true
    | some t => svnLoop (t.map Int.ofNat) l.tdx (tdxOffset t) (16 - tdxOffset t)

def digit (n : Nat) : UInt8 := UInt8.ofNat (48 + n % 10)

/-- `%02d` of a byte value. -/
def twoDigits (n : Nat) : Bytes :=
  if n < 100 then [digit (n / 10), digit n] else [digit (n / 100), digit (n / 10), digit n]

/-- `fmt.Sprintf("TDX_%02d", v)`. -/
def tdxModuleName (v : Nat) : Bytes := sTDXu ++ twoDigits v

/-- `getTCBLevel` (tcb.go:329-397). -/
def getTcbLevel (ti : TcbInfo) (sgxSvn : List Int) (tdxSvn : Option (List Nat)) (pcesvn : Nat) :
    Except Stage TcbLevel :=
  match ti.levels.find? (fun l => l.matches sgxSvn tdxSvn pcesvn) with
  | none => .error .levelNone
  | some lvl => do
    chk (lvl.status != 0) .levelNoStatus
    if ti.id == sTDX then
      match tdxSvn with
      | none => .error .tdxNoSvn
      | some t =>
        let ver := t.getD 1 0
        if 1 ≤ ver then
          match ti.modules.find? (fun m => m.id == tdxModuleName ver) with
          | none => .error .tdxModuleUnsupported
          | some m =>
            match enclaveLevel m.levels (t.getD 0 0) with
            | none => .error .tdxModuleLevel
            | some ml => do
              chk (ml.status == 1) .tdxModuleStatus
              .ok lvl
        else .ok lvl
    else .ok lvl

/-- The status rule of `validateTCBLevel` (tcb.go:309-327). -/
def statusAllowed (lax : Bool) (s : Status) : Bool :=
  s == 1 || s == 2 || (lax && (s == 5 || s == 3 || s == 6))

/-- `verifyTCBInfo` (tcb.go:90-114). -/
def verifyTcbInfo (L : Lib) (env : Env) (teeType : Nat) (ts : Time) (pol : Policy) (pk : Bytes)
    (s : SignedJson) (pck : PckInfo) (tdxSvn : Option (List Nat)) : Except Stage Unit := do
  let ti ← openTcbInfo L teeType ts pol pk s
  match hexDecode ti.fmspc with
  | none => .error .fmspcMalformed
  | some f => do
    chk (pck.fmspc == f) .fmspcMismatch
    let lvl ← getTcbLevel ti pck.compSvn tdxSvn pck.pcesvn
    chk (statusAllowed env.lax lvl.status) .levelStatus

/-- `TCBBundle.Verify` (tcb.go:49-72). -/
def bundleVerify (L : Lib) (env : Env) (teeType : Nat) (ts : Time) (pol : Policy) (b : Bundle)
    (pck : PckInfo) (tdxSvn : Option (List Nat)) (qeReport : Bytes) : Except Stage Unit := do
  let pk ← tcbPublicKey L ts b
  let qe ← openQeIdentity L teeType ts pol pk b.qeId
  qeIdentityVerify qe qeReport
  verifyTcbInfo L env teeType ts pol pk b.tcbInfo pck tdxSvn

/-! ### signature data (quote.go:667-719, 770-799) -/

/-- `CertificationData_QEReport.verify`. -/
def qeVerify (L : Lib) (env : Env) (ts : Time) (pol : Policy) (q : Quote) (tcb : Option Bundle) :
    Except Stage Unit := do
  let pck ← verifyPCK L ts q
  chk (L.ecdsaOK pck.pk q.qeReport q.qeReportSig) .qeSig
  chk (slice (sgxReportData q.qeReport) 0 32 == L.sha256 (q.attKey ++ q.authData)
       && slice (sgxReportData q.qeReport) 32 32 == zeros 32) .qeData
  match tcb with
  | none => .error .noTcb
  | some b =>
    bundleVerify L env q.teeType ts pol b pck
      (if q.teeType = teeTDX then some (tdTeeTcbSvn q.bodyRaw) else none) q.qeReport

/-- `QuoteSignatureECDSA_P256.Verify`. -/
def sigVerify (L : Lib) (env : Env) (ts : Time) (pol : Policy) (q : Quote) (tcb : Option Bundle) :
    Except Stage Unit := do
  qeVerify L env ts pol q tcb
  chk (L.attKeyOK q.attKey) .attKey
  chk (L.ecdsaOK q.attKey (q.headerRaw ++ q.bodyRaw) q.sig) .quoteSig

/-- `Quote.Verify` (quote.go:142-207). -/
def verify (L : Lib) (env : Env) (policy : Option Policy) (ts : Time) (q : Quote)
    (tcb : Option Bundle) : Except Stage Verified := do
  let pol := policy.getD defaultPolicy
  chk (!pol.disabled) .disabled
  checkTee env pol q
  sigVerify L env ts pol q tcb
  .ok (identityOf L q.bodyKind q.bodyRaw)

/-! ### spec-only predicates (NOT checked by the Go code; known findings K1, K2) -/

/-- The TCB info is for the platform's PCE: its `pceId` decodes to the PCE-ID of the quote's PCK
certificate (Intel's verification library requires FMSPC *and* PCE-ID to match). -/
def pceIdOK (q : Quote) (ti : TcbInfo) : Bool :=
  match q.certData with
  | .chain (leaf :: _) =>
    match leaf.pceId, hexDecode ti.pceId with
    | some p, some p' => p == p'
    | _, _ => false
  | _ => false

/-- The TCB info's FMSPC is black-listed when compared as the platform identifier it denotes
(decoded bytes) rather than as a string. -/
def blacklistedByValue (pol : Policy) (ti : TcbInfo) : Bool :=
  match hexDecode ti.fmspc with
  | some f => pol.blacklist.any (fun b => hexDecode b == some f)
  | none => false

/-! ### node registration (go/common/node/sgx.go:218-262): what is bound to the verified quote -/

/-- `SGXAttestation.Verify` up to the RAK binding: the verified identity must be one of the
allowed enclaves and the first 32 bytes of the report data must be the hash of the RAK. -/
def attestationOK (L : Lib) (env : Env) (policy : Option Policy) (ts : Time) (q : Quote)
    (tcb : Option Bundle) (allowed : List (Bytes × Bytes)) (rakHash : Bytes) : Bool :=
  match verify L env policy ts q tcb with
  | .error _ => false
  | .ok v => allowed.contains (v.mrEnclave, v.mrSigner) && slice v.reportData 0 32 == rakHash

/-! ### which policy the verifier ends up with at node registration
(go/common/node/tee.go:35-57 `ApplyDefaultConstraints`, sgx.go:232-235, sgx/quote/quote.go:20-56) -/

/-- `quote.Policy`: the IAS part is opaque here (an identifier), the PCS part is the quote policy. -/
structure QPolicy where
  ias : Option Nat
  pcs : Option Policy
  deriving DecidableEq, Repr

/-- `TEEFeaturesSGX`: the PCS feature flag, the consensus default policy, the signed-attestation
feature flag and the default maximum attestation age (in blocks). -/
structure Features where
  pcs : Bool
  defaultPolicy : Option QPolicy
  signedAttestations : Bool := false
  defaultMaxAge : Nat := 0
  /-- `TDX`: feature flag, TDX policies are accepted in runtime descriptors. -/
  tdx : Bool := false
  deriving DecidableEq, Repr

/-- `ApplyDefaultConstraints` on the descriptor's `SGXConstraints.Policy` (`none` = nil pointer,
`some ⟨none, none⟩` = the empty object `policy: {}`): three INDEPENDENT steps. -/
def applyDefaults (fs : Features) (sc : Option QPolicy) : Option QPolicy :=
  match fs.defaultPolicy with
  | none => sc
  | some d =>
    let p : QPolicy := sc.getD { ias := none, pcs := none }
    let p : QPolicy := if p.ias.isNone then { p with ias := d.ias } else p
    let p : QPolicy := if p.pcs.isNone && fs.pcs then { p with pcs := d.pcs } else p
    some p

/-- The PCS policy that reaches `pcs.Quote.Verify`: `quote.Quote.Verify` turns a nil policy into
the empty one and passes its PCS part, and `none` there selects the built-in default. -/
def effectivePcsPolicy (fs : Features) (sc : Option QPolicy) : Option Policy :=
  ((applyDefaults fs sc).getD { ias := none, pcs := none }).pcs

/-- The descriptor sets a PCS policy of its own. -/
def descriptorSetsPcs (sc : Option QPolicy) : Bool :=
  match sc with
  | some p => p.pcs.isSome
  | none => false

/-- `SGXAttestation.Verify` including the resolution of the policy. -/
def registrationOK (L : Lib) (env : Env) (fs : Features) (sc : Option QPolicy) (ts : Time)
    (q : Quote) (tcb : Option Bundle) (allowed : List (Bytes × Bytes)) (rakHash : Bytes) : Bool :=
  attestationOK L env (effectivePcsPolicy fs sc) ts q tcb allowed rakHash

/-! ### descriptor validation (go/common/node/sgx.go:99-128, go/common/sgx/quote/quote.go:62-76) -/

/-- `quote.Policy.Validate`: before feature version 26.1 the FMSPC white list must be empty. -/
def QPolicy.validate (p : QPolicy) (is261 : Bool) : Bool :=
  if is261 then true
  else match p.pcs with
    | none => true
    | some x => x.whitelist.isEmpty

/-- `SGXConstraints.ValidateBasic` (with a non-nil feature set): structure version `v`, the
descriptor's policy. `true` = `nil` error. -/
def constraintsValidateBasic (fs : Features) (is261 : Bool) (v : Nat) (policy : Option QPolicy) :
    Bool :=
  if !fs.pcs && v != 0 then false
  else if v > 1 then false
  else match policy with
    | none => true
    | some p =>
      if !fs.tdx && (match p.pcs with
                     | some x => x.tdx.isSome
                     | none => false) then false
      else p.validate is261

/-! ### signed attestations (go/common/node/sgx.go:247-283, tee.go:53-56) -/

/-- What `HashAttestation` hashes: TupleHash[AttestationSignatureContext](reportData, nodeID,
height, *rek). Kept as the tuple; the RAK signature check is an oracle on it. -/
structure AttMsg where
  reportData : Bytes
  nodeId : Bytes
  height : Nat
  rek : Option Bytes
  deriving DecidableEq, Repr

/-- The fields of `SGXAttestation` next to the quote. -/
structure SignedAtt where
  height : Nat
  sig : Bytes
  deriving DecidableEq, Repr

/-- Outcome of `SGXAttestation.Verify`, one constructor per `return`. -/
inductive AttResult
  | ok | quote | identity | rak | sig | future | stale
  deriving DecidableEq, Repr

def AttResult.name : AttResult → String
  | .ok => "ok" | .quote => "quote" | .identity => "identity" | .rak => "rak"
  | .sig => "sig" | .future => "future" | .stale => "stale"

/-- Second step of `ApplyDefaultConstraints`: `if sc.MaxAttestationAge == 0 { sc.MaxAttestationAge
= fs.DefaultMaxAttestationAge }`. -/
def effectiveMaxAge (fs : Features) (scMaxAge : Nat) : Nat :=
  if scMaxAge == 0 then fs.defaultMaxAge else scMaxAge

/-- `SGXAttestation.Verify` in full: policy resolution, quote verification, allowed enclave
identity, RAK binding, and with `SignedAttestations` the RAK signature over
(verified report data, node id, attestation height, REK) and the freshness window
`sa.Height ≤ height ∧ height - sa.Height ≤ MaxAttestationAge`. -/
def attestationVerify (L : Lib) (rakVerify : Bytes → AttMsg → Bytes → Bool) (env : Env)
    (fs : Features) (sc : Option QPolicy) (scMaxAge : Nat) (ts : Time) (now : Nat) (q : Quote)
    (tcb : Option Bundle) (allowed : List (Bytes × Bytes)) (rak rakHash : Bytes)
    (rek : Option Bytes) (nodeId : Bytes) (sa : SignedAtt) : AttResult :=
  match verify L env (effectivePcsPolicy fs sc) ts q tcb with
  | .error _ => .quote
  | .ok v =>
    if !(allowed.contains (v.mrEnclave, v.mrSigner)) then .identity
    else if slice v.reportData 0 32 != rakHash then .rak
    else if !fs.signedAttestations then .ok
    else if !(rakVerify rak ⟨v.reportData, nodeId, sa.height, rek⟩ sa.sig) then .sig
    else if sa.height > now then .future
    else if now - sa.height > effectiveMaxAge fs scMaxAge then .stale
    else .ok

end OasisModel.Pcs
