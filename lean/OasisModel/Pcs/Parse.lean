import OasisModel.Pcs.Symbolic
/-
C18 — byte-level model of `Quote.UnmarshalBinary` (quote.go:52-137, 271-296, 338-369, 475-542,
734-767, 894-906; report.go:146-173, 219-231): raw quote bytes to the parts the verifier uses.
PEM/x509 decoding of the certification data is left to the `Lib.pem` oracle.
Core Lean only.
-/
namespace OasisModel.Pcs

inductive ParseErr
  | len | version | reserved | tee | vendor | bodylen | tdattr | trailing | keytype | siglen
  | v4size | v4type | qeNoBody | qeNoSig | qeNoAuthSize | qeAuthSize | qeNoCdType | qeNoCdSize
  | qeCdSize | cdtype | ppidlen | pem
  deriving DecidableEq, Repr

def ParseErr.name : ParseErr → String
  | .len => "len" | .version => "version" | .reserved => "reserved" | .tee => "tee"
  | .vendor => "vendor" | .bodylen => "bodylen" | .tdattr => "tdattr" | .trailing => "trailing"
  | .keytype => "keytype" | .siglen => "siglen" | .v4size => "v4size" | .v4type => "v4type"
  | .qeNoBody => "qeNoBody" | .qeNoSig => "qeNoSig" | .qeNoAuthSize => "qeNoAuthSize"
  | .qeAuthSize => "qeAuthSize" | .qeNoCdType => "qeNoCdType" | .qeNoCdSize => "qeNoCdSize"
  | .qeCdSize => "qeCdSize" | .cdtype => "cdtype" | .ppidlen => "ppidlen" | .pem => "pem"

def pchk (b : Bool) (e : ParseErr) : Except ParseErr Unit := if b then .ok () else .error e

/-- QEVendorID_Intel. -/
def intelVendor : Bytes :=
  [0x93, 0x9a, 0x72, 0x33, 0xf7, 0x9c, 0x4c, 0xa9, 0x94, 0x0a, 0x0d, 0xb3, 0x95, 0x7f, 0x06, 0x07]

/-- Bits of TdAttributes that may be set: DEBUG (0), SEPT_VE_DISABLE (28), PKS (30), KL (31),
PERFMON (63). -/
def tdAttrAllowed : Nat := 1 + 2 ^ 28 + 2 ^ 30 + 2 ^ 31 + 2 ^ 63

/-- The parts of a quote before PEM decoding. -/
structure RawQuote where
  headerRaw : Bytes
  version : Nat
  teeType : Nat
  bodyKind : BodyKind
  bodyRaw : Bytes
  sig : Bytes
  attKey : Bytes
  qeReport : Bytes
  qeReportSig : Bytes
  authData : Bytes
  isChain : Bool
  certDataRaw : Bytes
  deriving DecidableEq, Repr

/-- `CertificationData_QEReport.UnmarshalBinary`. Returns QE report, signature, auth data,
whether the certification data is a PEM chain, and the certification data. -/
def parseQE (e : Bytes) : Except ParseErr (Bytes × Bytes × Bytes × Bool × Bytes) := do
  pchk (decide (384 ≤ e.length)) .qeNoBody
  pchk (decide (448 ≤ e.length)) .qeNoSig
  pchk (decide (450 ≤ e.length)) .qeNoAuthSize
  let authSize := leNat (slice e 448 2)
  pchk (decide (450 + authSize ≤ e.length)) .qeAuthSize
  let off := 450 + authSize
  pchk (decide (off + 2 ≤ e.length)) .qeNoCdType
  let cdt := leNat (slice e off 2)
  pchk (decide (off + 6 ≤ e.length)) .qeNoCdSize
  let cds := leNat (slice e (off + 2) 4)
  pchk (decide (off + 6 + cds ≤ e.length)) .qeCdSize
  let cd := slice e (off + 6) cds
  if cdt = 1 ∨ cdt = 2 ∨ cdt = 3 then do
    pchk (decide (cd.length = 404)) .ppidlen
    .ok (slice e 0 384, slice e 384 64, slice e 450 authSize, false, cd)
  else if cdt = 5 then
    .ok (slice e 0 384, slice e 384 64, slice e 450 authSize, true, cd)
  else .error .cdtype

/-- `QuoteHeaderV3/V4.UnmarshalBinary` on the 48 header bytes (after the version switch of
quote.go:68-84): version, attestation key type, TEE type. -/
def parseHeader (hdr : Bytes) : Except ParseErr (Nat × Nat × Nat) :=
  let version := leNat (slice hdr 0 2)
  let keyType := leNat (slice hdr 2 2)
  if version = 3 then do
    pchk (leNat (slice hdr 4 4) == 0) .reserved
    pure (version, keyType, teeSGX)
  else if version = 4 then do
    let t := leNat (slice hdr 4 4)
    pchk (t == teeSGX || t == teeTDX) .tee
    pchk (leNat (slice hdr 8 2) == 0 && leNat (slice hdr 10 2) == 0) .reserved
    pure (version, keyType, t)
  else .error .version

/-- The report body type is selected by the header's TEE type (quote.go:92-111). -/
def kindOf (teeType : Nat) : BodyKind := if teeType = teeSGX then .sgx else .td

def bodyLenOf (k : BodyKind) : Nat :=
  match k with
  | .sgx => 384
  | .td => 584

/-- The TD report length check and `TdAttributes.UnmarshalBinary` (reserved bits). -/
def checkTdBody (kind : BodyKind) (data : Bytes) : Except ParseErr Unit :=
  if kind = .td then do
    pchk (decide (636 ≤ data.length)) .bodylen
    pchk ((leNat (slice data (48 + 120) 8)) &&& (2 ^ 64 - 1 - tdAttrAllowed) == 0) .tdattr
  else .ok ()

/-- Offset of the QE certification data inside the signature data: v4 quotes have an outer
(type, size) envelope that must be exact and of type 6 (quote.go:747-758). -/
def qeOffset (version : Nat) (d : Bytes) : Except ParseErr Nat :=
  if version = 4 then do
    pchk (decide (d.length - 134 = leNat (slice d 130 4))) .v4size
    pchk (leNat (slice d 128 2) == 6) .v4type
    pure 134
  else pure 128

/-- `Quote.UnmarshalBinary` (no trailing data allowed). -/
def parseQuote (data : Bytes) : Except ParseErr RawQuote := do
  pchk (decide (436 ≤ data.length)) .len
  let hdr := slice data 0 48
  let h ← parseHeader hdr            -- (version, key type, TEE type)
  pchk (slice hdr 12 16 == intelVendor) .vendor
  let kind := kindOf h.2.2
  checkTdBody kind data
  let off := 48 + bodyLenOf kind
  let sigLen := leNat (slice data off 4)
  pchk (decide (data.length = off + 4 + sigLen)) .trailing
  pchk (h.2.1 == 2) .keytype
  let d := slice data (off + 4) sigLen
  pchk (decide (584 ≤ d.length)) .siglen
  let qeOff ← qeOffset h.1 d
  let x ← parseQE (d.drop qeOff)     -- (QE report, signature, auth data, is chain, cert data)
  .ok { headerRaw := hdr, version := h.1, teeType := h.2.2, bodyKind := kind,
        bodyRaw := slice data 48 (bodyLenOf kind), sig := slice d 0 64, attKey := slice d 64 64,
        qeReport := x.1, qeReportSig := x.2.1, authData := x.2.2.1, isChain := x.2.2.2.1,
        certDataRaw := x.2.2.2.2 }

/-- Raw quote to the structured quote of the symbolic model, with PEM decoding by the oracle. -/
def RawQuote.toQuote (L : Lib) (r : RawQuote) : Except ParseErr Quote :=
  if r.isChain then
    match L.pem r.certDataRaw with
    | none => .error .pem
    | some cs => .ok { headerRaw := r.headerRaw, teeType := r.teeType, bodyKind := r.bodyKind,
                       bodyRaw := r.bodyRaw, sig := r.sig, attKey := r.attKey,
                       qeReport := r.qeReport, qeReportSig := r.qeReportSig,
                       authData := r.authData, certData := .chain cs }
  else .ok { headerRaw := r.headerRaw, teeType := r.teeType, bodyKind := r.bodyKind,
             bodyRaw := r.bodyRaw, sig := r.sig, attKey := r.attKey, qeReport := r.qeReport,
             qeReportSig := r.qeReportSig, authData := r.authData, certData := .ppid }

/-- `QuoteBundle.Verify` (pcs.go:47-53) on raw bytes: a parse failure rejects. -/
def verifyRaw (L : Lib) (env : Env) (policy : Option Policy) (ts : Time) (raw : Bytes)
    (tcb : Option Bundle) : Option Verified :=
  match parseQuote raw with
  | .error _ => none
  | .ok r =>
    match r.toQuote L with
    | .error _ => none
    | .ok q =>
      match verify L env policy ts q tcb with
      | .ok v => some v
      | .error _ => none

end OasisModel.Pcs
