import OasisModel.Proto
import OasisModel.Pcs.Symbolic
import OasisModel.Pcs.Parse
/-
Driver for the symbolic PCS quote verifier (`om_pcs`), used by harness/cmd/pcsdrv.

One verification per line: space separated `key=value` tokens.
The harness parses quote and collateral with the real Go code, re-evaluates every primitive
(each ECDSA check, each x509 chain, SHA-256, PEM/JSON decoding) itself and sends the verdicts;
the model runs the decision sequence `OasisModel.Pcs.verify` with its oracles instantiated
by these verdicts and compares with what the implementation answered (`impl=`):

  impl=accept:<mrenclave>:<mrsigner>:<reportdata>     or     impl=reject:<stage>

Answer: `ok` or `DIVERGE model=<..> impl=<..>`.

Keys (hex values; `-` or empty is the empty string):
  dbg lax bl            process switches: allow-debug, lax, MRSIGNER blacklist (comma list)
  pol=nil | pol=set dis val min wl blk tdx=nil|<mrseam|-:mrsignerseam;...>|-
  ts                    verification time, ns since epoch (decimal, may be negative)
  hdr tee kind body sig ak qer qes auth          parsed quote parts
  cd=ppid|chain  certs=<id>:<pk|->:<ext>;...      ext: na | bad | ok/<fmspc|~>/<svn,..>/<pcesvn>
  pckx=fail|<n>:<lastid>                          x509 verdict for the PCK chain
  vqe vq vtcb vqeid akok h tdmr                   ECDSA verdicts, key check, SHA-256, TupleHash
  tcb=nil|set  pem=fail|<certs>  tcbx=fail|<n>:<lastid>  tis qis   (signature hex strings)
  ti=none|<id|version|issue|next|fmspc|eval|levels|modules>
  qi=none|<id|version|issue|next|eval|misc|miscmask|attr|attrmask|mrsigner|prodid|levels>
  raw=<hex>             optional: the raw quote; the model parses it itself (Parse.lean) and
                        its parts must equal the ones above (`rawerr=<class>` if Go rejected it)
-/
namespace OasisModel.Pcs.Driver
open OasisModel.Proto OasisModel.Pcs

abbrev KV := List (String × String)

def kvs (line : String) : KV :=
  (words line).filterMap fun w =>
    match w.splitOn "=" with
    | [k, v] => some (k, v)
    | [k] => some (k, "")
    | _ => none

def get (m : KV) (k : String) : Option String := (m.find? (·.1 == k)).map (·.2)

def hex (s : String) : Option Bytes := if s == "" then some [] else parseHex s

def getHex (m : KV) (k : String) : Except String Bytes :=
  match get m k with
  | none => .error s!"missing {k}"
  | some v => match hex v with
    | some b => .ok b
    | none => .error s!"bad hex {k}"

def parseInt (s : String) : Option Int :=
  if s.startsWith "-" then (s.drop 1).toNat?.map (fun n => - (n : Int)) else s.toNat?.map (fun n => (n : Int))

def getNat (m : KV) (k : String) : Except String Nat :=
  match (get m k).bind String.toNat? with
  | some n => .ok n
  | none => .error s!"bad nat {k}"

def getBool (m : KV) (k : String) : Except String Bool :=
  match get m k with
  | some "1" => .ok true
  | some "0" => .ok false
  | _ => .error s!"bad bool {k}"

def listOf (s : String) (sep : String) : List String :=
  if s == "-" || s == "" then [] else s.splitOn sep

def hexList (s : String) : Except String (List Bytes) :=
  (listOf s ",").mapM fun x => match hex x with
    | some b => .ok b
    | none => .error "bad hex list"

/-- List of strings, each element written as `x<hex>` (so that the empty string is visible). -/
def strList (s : String) : Except String (List Bytes) :=
  (listOf s ",").mapM fun x => match hex (x.drop 1).toString with
    | some b => .ok b
    | none => .error "bad string list"

def ints (s : String) : Except String (List Int) :=
  (listOf s ",").mapM fun x => match parseInt x with
    | some b => .ok b
    | none => .error "bad int list"

def parseExt (s : String) : Except String PckExt :=
  if s == "na" || s == "bad" then .ok .bad else
  match s.splitOn "/" with
  | ["ok", f, svn, pce] => do
    let f ← if f == "~" then pure none else match hex f with
      | some b => pure (some b)
      | none => throw "bad fmspc"
    let svn ← ints svn
    match pce.toNat? with
    | some p => pure (.ok f svn p)
    | none => throw "bad pcesvn"
  | _ => .error "bad ext"

def parseCerts (s : String) : Except String (List Cert) :=
  (listOf s ";").mapM fun c =>
    match c.splitOn ":" with
    | id :: pk :: ext :: rest => do
      let some id := hex id | throw "bad cert id"
      let pk ← if pk == "-" then pure none else match hex pk with
        | some b => pure (some b)
        | none => throw "bad cert pk"
      let ext ← parseExt ext
      let pce ← match rest with
        | [] => pure none
        | ["~"] => pure none
        | [p] => match hex p with
          | some b => pure (some b)
          | none => throw "bad cert pceid"
        | _ => throw "bad cert"
      pure { der := id, ecdsaPk := pk, ext := ext, pceId := pce }
    | _ => .error "bad cert"

def parseX (s : String) (leaf : Option Cert) : Except String (Option (List (List Cert))) :=
  if s == "fail" then .ok none else
  match s.splitOn ":" with
  | [n, last] =>
    match n.toNat?, hex last with
    | some n, some last =>
      let l := match leaf with
        | some c => [c]
        | none => []
      .ok (some (List.replicate n (l ++ [{ der := last, ecdsaPk := none, ext := .bad }])))
    | _, _ => .error "bad x509 verdict"
  | _ => .error "bad x509 verdict"

def parseEnclaveLevels (s : String) : Except String (List EnclaveLevel) :=
  (listOf s ",").mapM fun l =>
    match l.splitOn "." with
    | [a, b] => match a.toNat?, b.toNat? with
      | some a, some b => .ok { isvsvn := a, status := b }
      | _, _ => .error "bad enclave level"
    | _ => .error "bad enclave level"

def parseTcbLevels (s : String) : Except String (List TcbLevel) :=
  (listOf s ";").mapM fun l =>
    match l.splitOn ":" with
    | [p, a, b, st] => do
      let a ← ints a
      let b ← ints b
      match p.toNat?, st.toNat? with
      | some p, some st => pure { pcesvn := p, sgx := a, tdx := b, status := st }
      | _, _ => throw "bad tcb level"
    | _ => .error "bad tcb level"

def parseModules (s : String) : Except String (List TdxModuleId) :=
  (listOf s ";").mapM fun l =>
    match l.splitOn ":" with
    | [id, lv] => do
      let some id := hex id | throw "bad module id"
      let lv ← parseEnclaveLevels lv
      pure { id := id, levels := lv }
    | _ => .error "bad module"

def parseTime (s : String) : Except String (Option Time) :=
  if s == "x" then .ok none else match parseInt s with
    | some t => .ok (some t)
    | none => .error "bad time"

def parseTi (s : String) : Except String (Option TcbInfo) :=
  if s == "none" then .ok none else
  match s.splitOn "|" with
  | id :: ver :: issue :: next :: fmspc :: ev :: lv :: mods :: rest => do
    let pce ← match rest with
      | [] => pure []
      | [p] => match hex p with
        | some b => pure b
        | none => throw "bad ti pceid"
      | _ => throw "bad ti"
    let some id := hex id | throw "bad ti id"
    let some ver := parseInt ver | throw "bad ti version"
    let issue ← parseTime issue
    let some fmspc := hex fmspc | throw "bad ti fmspc"
    let some ev := ev.toNat? | throw "bad ti eval"
    let lv ← parseTcbLevels lv
    let mods ← parseModules mods
    pure (some { id := id, version := ver, issueDate := issue, nextUpdateOk := next == "1",
                 fmspc := fmspc, evalNum := ev, levels := lv, modules := mods, pceId := pce })
  | _ => .error "bad ti"

def parseQi (s : String) : Except String (Option QeIdentity) :=
  if s == "none" then .ok none else
  match s.splitOn "|" with
  | [id, ver, issue, next, ev, misc, miscm, attr, attrm, mrs, prod, lv] => do
    let some id := hex id | throw "bad qi id"
    let some ver := parseInt ver | throw "bad qi version"
    let issue ← parseTime issue
    let some ev := ev.toNat? | throw "bad qi eval"
    let some misc := hex misc | throw "bad qi misc"
    let some miscm := hex miscm | throw "bad qi miscmask"
    let some attr := hex attr | throw "bad qi attr"
    let some attrm := hex attrm | throw "bad qi attrmask"
    let some mrs := hex mrs | throw "bad qi mrsigner"
    let some prod := prod.toNat? | throw "bad qi prodid"
    let lv ← parseEnclaveLevels lv
    pure (some { id := id, version := ver, issueDate := issue, nextUpdateOk := next == "1",
                 evalNum := ev, miscSelect := misc, miscSelectMask := miscm, attributes := attr,
                 attributesMask := attrm, mrSigner := mrs, isvProdId := prod, levels := lv })
  | _ => .error "bad qi"

def parseTdxMods (s : String) : Except String (List TdxModulePolicy) :=
  (listOf s ";").mapM fun l =>
    match l.splitOn ":" with
    | [seam, signer] => do
      let seam ← if seam == "-" then pure none else match hex seam with
        | some b => pure (some b)
        | none => throw "bad mrseam"
      let some signer := hex signer | throw "bad mrsignerseam"
      pure { mrSeam := seam, mrSignerSeam := signer }
    | _ => .error "bad tdx module policy"

/-- A quote policy written with the keys `<pre>pol <pre>dis <pre>val <pre>min <pre>wl <pre>blk <pre>tdx`. -/
def parsePolicyP (m : KV) (pre : String) : Except String (Option Policy) :=
  match get m (pre ++ "pol") with
  | some "nil" => .ok none
  | some "set" => do
    let dis ← getBool m (pre ++ "dis")
    let val ← getNat m (pre ++ "val")
    let min ← getNat m (pre ++ "min")
    let wl ← strList ((get m (pre ++ "wl")).getD "-")
    let blk ← strList ((get m (pre ++ "blk")).getD "-")
    let tdx ← match get m (pre ++ "tdx") with
      | some "nil" => pure none
      | some s => do pure (some (← parseTdxMods s))
      | none => throw "missing tdx"
    pure (some { disabled := dis, validity := val, minEval := min, whitelist := wl,
                 blacklist := blk, tdx := tdx })
  | _ => .error ("bad " ++ pre ++ "pol")

def parsePolicy (m : KV) : Except String (Option Policy) := parsePolicyP m ""

/-- Node registration inputs: `regpol=nil|set regias=0|1 regpcs=0|1` (descriptor constraints; a set
PCS part is the line's `pol`), `fspcs=0|1 def=nil|set defias=0|1` and the default PCS policy under
the prefix `d` (`dpol=nil|set ...`). Absent: the policy of the line is used as it is. -/
def parseRegistration (m : KV) (pol : Option Policy) : Except String (Option (Features × Option QPolicy)) :=
  match get m "regpol" with
  | none => .ok none
  | some rp => do
    let regias ← getBool m "regias"
    let regpcs ← getBool m "regpcs"
    let fspcs ← getBool m "fspcs"
    let sc : Option QPolicy :=
      if rp == "nil" then none
      else some { ias := if regias then some 1 else none, pcs := if regpcs then pol else none }
    let defp ← match get m "def" with
      | some "nil" => pure none
      | some "set" => do
        let dias ← getBool m "defias"
        let dp ← parsePolicyP m "d"
        pure (some ({ ias := if dias then some 2 else none, pcs := dp } : QPolicy))
      | _ => throw "bad def"
    pure (some ({ pcs := fspcs, defaultPolicy := defp }, sc))

/-- Symbolic stand-ins for the two signed JSON bodies (the model never looks inside them). -/
def tagTcb : Bytes := [1]
def tagQe : Bytes := [2]
def tagPem : Bytes := [3]

structure Case where
  L : Lib
  env : Env
  pol : Option Policy
  ts : Time
  q : Quote
  tcb : Option Bundle

def parseCase (m : KV) : Except String Case := do
  let dbg ← getBool m "dbg"
  let lax ← getBool m "lax"
  let bl ← hexList ((get m "bl").getD "-")
  let pol ← parsePolicy m
  let some ts := (get m "ts").bind parseInt | throw "bad ts"
  let hdr ← getHex m "hdr"
  let tee ← getNat m "tee"
  let kind ← match get m "kind" with
    | some "sgx" => pure BodyKind.sgx
    | some "td" => pure BodyKind.td
    | _ => throw "bad kind"
  let body ← getHex m "body"
  let sig ← getHex m "sig"
  let ak ← getHex m "ak"
  let qer ← getHex m "qer"
  let qes ← getHex m "qes"
  let auth ← getHex m "auth"
  let cd ← match get m "cd" with
    | some "ppid" => pure CertData.ppid
    | some "chain" => do pure (CertData.chain (← parseCerts ((get m "certs").getD "-")))
    | _ => throw "bad cd"
  let q : Quote := { headerRaw := hdr, teeType := tee, bodyKind := kind, bodyRaw := body, sig := sig,
                     attKey := ak, qeReport := qer, qeReportSig := qes, authData := auth,
                     certData := cd }
  let leaf := match cd with
    | .chain (c :: _) => some c
    | _ => none
  let pckx ← parseX ((get m "pckx").getD "fail") leaf
  let vqe ← getBool m "vqe"
  let vq ← getBool m "vq"
  let akok ← getBool m "akok"
  let h ← getHex m "h"
  let tdmr ← getHex m "tdmr"
  let pckPk := match leaf with
    | some c => c.ecdsaPk.getD []
    | none => []
  match get m "tcb" with
  | some "nil" =>
    let L : Lib := {
      ecdsaOK := fun pk msg s =>
        if pk == pckPk && msg == qer && s == qes then vqe
        else if pk == ak && msg == hdr ++ body && s == sig then vq else false
      sha256 := fun x => if x == ak ++ auth then h else []
      attKeyOK := fun _ => akok
      x509Verify := fun _ inters _ => if inters.isEmpty then none else pckx
      pem := fun _ => none
      jsonTcb := fun _ => none
      jsonQe := fun _ => none
      tdMr := fun _ => tdmr }
    pure { L := L, env := { allowDebug := dbg, lax := lax, mrSignerBlacklist := bl }, pol := pol,
           ts := ts, q := q, tcb := none }
  | some "set" =>
    let pem ← match get m "pem" with
      | some "fail" => pure none
      | some s => do pure (some (← parseCerts s))
      | none => throw "missing pem"
    let tcbLeaf := match pem with
      | some (c :: _) => some c
      | _ => none
    let tcbx ← parseX ((get m "tcbx").getD "fail") tcbLeaf
    let tis ← getHex m "tis"
    let qis ← getHex m "qis"
    let vtcb ← getBool m "vtcb"
    let vqeid ← getBool m "vqeid"
    let ti ← parseTi ((get m "ti").getD "none")
    let qi ← parseQi ((get m "qi").getD "none")
    let tcbPk := match tcbLeaf with
      | some c => c.ecdsaPk.getD []
      | none => []
    let L : Lib := {
      ecdsaOK := fun pk msg s =>
        if pk == pckPk && msg == qer && s == qes then vqe
        else if pk == ak && msg == hdr ++ body && s == sig then vq
        else if pk == tcbPk && msg == tagTcb && some s == sigFromHex tis then vtcb
        else if pk == tcbPk && msg == tagQe && some s == sigFromHex qis then vqeid
        else false
      sha256 := fun x => if x == ak ++ auth then h else []
      attKeyOK := fun _ => akok
      x509Verify := fun _ inters _ => if inters.isEmpty then tcbx else pckx
      pem := fun _ => pem
      jsonTcb := fun r => if r == tagTcb then ti else none
      jsonQe := fun r => if r == tagQe then qi else none
      tdMr := fun _ => tdmr }
    pure { L := L, env := { allowDebug := dbg, lax := lax, mrSignerBlacklist := bl }, pol := pol,
           ts := ts, q := q,
           tcb := some { tcbInfo := { raw := tagTcb, sigHex := tis },
                         qeId := { raw := tagQe, sigHex := qis }, certs := tagPem } }
  | _ => throw "bad tcb"

def showResult : Except Stage Verified → String
  | .ok v => s!"accept:{showHex v.mrEnclave}:{showHex v.mrSigner}:{showHex v.reportData}"
  | .error s => s!"reject:{s.name}"

/-- Compare the model's own parse of the raw quote with the parts the Go parser produced. -/
def checkRaw (m : KV) (c : Option Case) : Option String :=
  match get m "raw" with
  | none => none
  | some r =>
    match hex r with
    | none => some "bad raw hex"
    | some raw =>
      let res := parseQuote raw
      match get m "rawerr", res, c with
      | some e, .error pe, _ =>
        if e == pe.name || e == "?" then none else some s!"parse error class model={pe.name} impl={e}"
      | some e, .ok p, _ =>
        -- PEM/x509 decoding of the chain is an oracle: the model's structural parse succeeds
        if (e == "pem" && p.isChain) || e == "?" then none else some s!"parse model=ok impl=error:{e}"
      | none, .error pe, _ => some s!"parse model=error:{pe.name} impl=ok"
      | none, .ok _, none => some "parse ok but no parts given"
      | none, .ok p, some c =>
        let q := c.q
        if p.headerRaw != q.headerRaw then some "parse: header differs"
        else if p.teeType != q.teeType then some "parse: tee type differs"
        else if p.bodyKind != q.bodyKind then some "parse: body kind differs"
        else if p.bodyRaw != q.bodyRaw then some "parse: body differs"
        else if p.sig != q.sig then some "parse: signature differs"
        else if p.attKey != q.attKey then some "parse: attestation key differs"
        else if p.qeReport != q.qeReport then some "parse: QE report differs"
        else if p.qeReportSig != q.qeReportSig then some "parse: QE report signature differs"
        else if p.authData != q.authData then some "parse: auth data differs"
        else if p.isChain != (match q.certData with | .chain _ => true | .ppid => false) then
          some "parse: certification data type differs"
        else none

/-- Node registration (`SGXAttestation.Verify`): `att=<hash of the RAK>`, `allowed=<mre:mrs;..>`,
`implatt=ok|identity|rak|quote`. -/
def checkAtt (m : KV) (c : Case) (res : Except Stage Verified) : Option String :=
  match get m "att", get m "implatt" with
  | some a, some ia =>
    match hex a, (listOf ((get m "allowed").getD "-") ";").mapM (fun p =>
        match p.splitOn ":" with
        | [x, y] => match hex x, hex y with
          | some x, some y => some (x, y)
          | _, _ => none
        | _ => none) with
    | some rak, some allowed =>
      match parseRegistration m c.pol with
      | .error e => some ("bad registration fields: " ++ e)
      | .ok reg =>
      -- the policy that reaches the verifier: resolved from descriptor constraints and defaults
      let eff := match reg with
        | some (fs, sc) => effectivePcsPolicy fs sc
        | none => c.pol
      let res := match reg with
        | some _ => verify c.L c.env eff c.ts c.q c.tcb
        | none => res
      let want := match res with
        | .error _ => "quote"
        | .ok v =>
          if !(allowed.contains (v.mrEnclave, v.mrSigner)) then "identity"
          else if slice v.reportData 0 32 != rak then "rak" else "ok"
      let ok := match reg with
        | some (fs, sc) => registrationOK c.L c.env fs sc c.ts c.q c.tcb allowed rak
        | none => attestationOK c.L c.env c.pol c.ts c.q c.tcb allowed rak
      if want != ia then some s!"attestation model={want} impl={ia}"
      else if ok != (ia == "ok") then some s!"attestationOK={ok} impl={ia}"
      else none
    | _, _ => some "bad attestation fields"
  | _, _ => none

/-- Spec-only clauses evaluated on accepted inputs (the Go code does not check them; the harness
evaluates the same clauses itself and the two must agree). -/
def specNotes (c : Case) (res : Except Stage Verified) : String :=
  match res, c.tcb with
  | .ok _, some b =>
    match c.L.jsonTcb b.tcbInfo.raw with
    | some ti =>
      (if pceIdOK c.q ti then "" else " spec=pceid") ++
      (if blacklistedByValue (c.pol.getD defaultPolicy) ti then " spec=blacklist-case" else "")
    | none => ""
  | _, _ => ""

def step (_ : Unit) (line : String) : Unit × String :=
  let m := kvs line
  if m.isEmpty then ((), "ok") else
  match get m "rawerr" with
  | some _ =>
    -- the Go parser rejected the raw quote: only the parse verdict is compared
    match checkRaw m none with
    | none => ((), "ok")
    | some d => ((), "DIVERGE " ++ d)
  | none =>
  match parseCase m with
  | .error e => ((), "DIVERGE bad-line " ++ e)
  | .ok c =>
    match checkRaw m (some c) with
    | some d => ((), "DIVERGE " ++ d)
    | none =>
    let res := verify c.L c.env c.pol c.ts c.q c.tcb
    let r := showResult res
    let impl := (get m "impl").getD ""
    match checkAtt m c res with
    | some d => ((), "DIVERGE " ++ d)
    | none =>
    if r == impl then ((), "ok" ++ specNotes c res)
    else if impl == "reject:?" && r.startsWith "reject:" then ((), "ok " ++ r)
    else ((), s!"DIVERGE model={r} impl={impl}")

def main : IO Unit := loop step ()

end OasisModel.Pcs.Driver
