import OasisModel.Proto
/- C18 quote verification: driver stub (not built yet). -/
namespace OasisModel.Pcs.Driver
def main : IO Unit := IO.eprintln "mode not implemented"
end OasisModel.Pcs.Driver
