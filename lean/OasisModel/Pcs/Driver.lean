import OasisModel.Proto
import OasisModel.Pcs.Symbolic
import OasisModel.Pcs.Parse
/-
Driver for the symbolic PCS quote verifier (`om_pcs`), used by harness/cmd/pcsdrv.

One verification per line: space separated `key=value` tokens.
The harness parses quote and collateral with the real Go code, re-evaluates every primitive
(each ECDSA check, each x509 chain, SHA-256, PEM/JSON decoding) itself and sends the verdicts;
the model runs the decision sequence `OasisModel.Pcs.verify` with its oracles instantiated
by these verdicts and compares with what the implementation answered (`impl=`):

  impl=accept:<mrenclave>:<mrsigner>:<reportdata>     or     impl=reject:<stage>

Answer: `ok` or `DIVERGE model=<..> impl=<..>`.

Keys (hex values; `-` or empty is the empty string):
  dbg lax bl            process switches: allow-debug, lax, MRSIGNER blacklist (comma list)
  pol=nil | pol=set dis val min wl blk tdx=nil|<mrseam|-:mrsignerseam;...>|-
  ts                    verification time, ns since epoch (decimal, may be negative)
  hdr tee kind body sig ak qer qes auth          parsed quote parts
  cd=ppid|chain  certs=<id>:<pk|->:<ext>;...      ext: na | bad | ok/<fmspc|~>/<svn,..>/<pcesvn>
  pckx=fail|<n>:<lastid>                          x509 verdict for the PCK chain
  vqe vq vtcb vqeid akok h tdmr                   ECDSA verdicts, key check, SHA-256, TupleHash
  tcb=nil|set  pem=fail|<certs>  tcbx=fail|<n>:<lastid>  tis qis   (signature hex strings)
  ti=none|<id|version|issue|next|fmspc|eval|levels|modules>
  qi=none|<id|version|issue|next|eval|misc|miscmask|attr|attrmask|mrsigner|prodid|levels>
  lv=<idx>:<status>|err:<stage>   optional: what the real getTCBLevel returned for the TCB info
                        of `ti`, the PCK certificate's SVNs and the TD report's TEE TCB SVNs
                        (index into tcbLevels and status of the selected level)
  mt=<0|1 per level>    optional: the real TCBLevel.matches for every level of `ti`
  vt=ok|<stage>         optional: the real validateTCBLevel (under the line's lax switch)
  ood=<status>          optional: Status of the TCBOutOfDateError Quote.Verify returned
  vb=<12 x 0|1>         optional (with the registration keys): SGXConstraints.ValidateBasic for
                        TDX feature off/on x feature version 26.1 off/on x structure version 0,1,2
  dq=ok|<stage>         optional: QEIdentity.validate then QEIdentity.verify, called directly on
                        the decoded QE identity of `qi` and the QE report (no signature involved)
  dt=ok|<stage>         optional: TCBInfo.validate, validateFMSPC, validateTCBLevel called directly
                        on the decoded TCB info of `ti` with the PCK certificate's FMSPC and SVNs
  raw=<hex>             optional: the raw quote; the model parses it itself (Parse.lean) and
                        its parts must equal the ones above (`rawerr=<class>` if Go rejected it)
-/
namespace OasisModel.Pcs.Driver
open OasisModel.Proto OasisModel.Pcs

abbrev KV := List (String × String)

def kvs (line : String) : KV :=
  (words line).filterMap fun w =>
    match w.splitOn "=" with
    | [k, v] => some (k, v)
    | [k] => some (k, "")
    | _ => none

def get (m : KV) (k : String) : Option String := (m.find? (·.1 == k)).map (·.2)

def hex (s : String) : Option Bytes := if s == "" then some [] else parseHex s

def getHex (m : KV) (k : String) : Except String Bytes :=
  match get m k with
  | none => .error s!"missing {k}"
  | some v => match hex v with
    | some b => .ok b
    | none => .error s!"bad hex {k}"

def parseInt (s : String) : Option Int :=
  if s.startsWith "-" then (s.drop 1).toNat?.map (fun n => - (n : Int)) else s.toNat?.map (fun n => (n : Int))

def getNat (m : KV) (k : String) : Except String Nat :=
  match (get m k).bind String.toNat? with
  | some n => .ok n
  | none => .error s!"bad nat {k}"

def getBool (m : KV) (k : String) : Except String Bool :=
  match get m k with
  | some "1" => .ok true
  | some "0" => .ok false
  | _ => .error s!"bad bool {k}"

def listOf (s : String) (sep : String) : List String :=
  if s == "-" || s == "" then [] else s.splitOn sep

def hexList (s : String) : Except String (List Bytes) :=
  (listOf s ",").mapM fun x => match hex x with
    | some b => .ok b
    | none => .error "bad hex list"

/-- List of strings, each element written as `x<hex>` (so that the empty string is visible). -/
def strList (s : String) : Except String (List Bytes) :=
  (listOf s ",").mapM fun x => match hex (x.drop 1).toString with
    | some b => .ok b
    | none => .error "bad string list"

def ints (s : String) : Except String (List Int) :=
  (listOf s ",").mapM fun x => match parseInt x with
    | some b => .ok b
    | none => .error "bad int list"

def parseExt (s : String) : Except String PckExt :=
  if s == "na" || s == "bad" then .ok .bad else
  match s.splitOn "/" with
  | ["ok", f, svn, pce] => do
    let f ← if f == "~" then pure none else match hex f with
      | some b => pure (some b)
      | none => throw "bad fmspc"
    let svn ← ints svn
    match pce.toNat? with
    | some p => pure (.ok f svn p)
    | none => throw "bad pcesvn"
  | _ => .error "bad ext"

def parseCerts (s : String) : Except String (List Cert) :=
  (listOf s ";").mapM fun c =>
    match c.splitOn ":" with
    | id :: pk :: ext :: rest => do
      let some id := hex id | throw "bad cert id"
      let pk ← if pk == "-" then pure none else match hex pk with
        | some b => pure (some b)
        | none => throw "bad cert pk"
      let ext ← parseExt ext
      let pce ← match rest with
        | [] => pure none
        | ["~"] => pure none
        | [p] => match hex p with
          | some b => pure (some b)
          | none => throw "bad cert pceid"
        | _ => throw "bad cert"
      pure { der := id, ecdsaPk := pk, ext := ext, pceId := pce }
    | _ => .error "bad cert"

def parseX (s : String) (leaf : Option Cert) : Except String (Option (List (List Cert))) :=
  if s == "fail" then .ok none else
  match s.splitOn ":" with
  | [n, last] =>
    match n.toNat?, hex last with
    | some n, some last =>
      let l := match leaf with
        | some c => [c]
        | none => []
      .ok (some (List.replicate n (l ++ [{ der := last, ecdsaPk := none, ext := .bad }])))
    | _, _ => .error "bad x509 verdict"
  | _ => .error "bad x509 verdict"

def parseEnclaveLevels (s : String) : Except String (List EnclaveLevel) :=
  (listOf s ",").mapM fun l =>
    match l.splitOn "." with
    | [a, b] => match a.toNat?, b.toNat? with
      | some a, some b => .ok { isvsvn := a, status := b }
      | _, _ => .error "bad enclave level"
    | _ => .error "bad enclave level"

def parseTcbLevels (s : String) : Except String (List TcbLevel) :=
  (listOf s ";").mapM fun l =>
    match l.splitOn ":" with
    | [p, a, b, st] => do
      let a ← ints a
      let b ← ints b
      match p.toNat?, st.toNat? with
      | some p, some st => pure { pcesvn := p, sgx := a, tdx := b, status := st }
      | _, _ => throw "bad tcb level"
    | _ => .error "bad tcb level"

def parseModules (s : String) : Except String (List TdxModuleId) :=
  (listOf s ";").mapM fun l =>
    match l.splitOn ":" with
    | [id, lv] => do
      let some id := hex id | throw "bad module id"
      let lv ← parseEnclaveLevels lv
      pure { id := id, levels := lv }
    | _ => .error "bad module"

def parseTime (s : String) : Except String (Option Time) :=
  if s == "x" then .ok none else match parseInt s with
    | some t => .ok (some t)
    | none => .error "bad time"

def parseTi (s : String) : Except String (Option TcbInfo) :=
  if s == "none" then .ok none else
  match s.splitOn "|" with
  | id :: ver :: issue :: next :: fmspc :: ev :: lv :: mods :: rest => do
    let pce ← match rest with
      | [] => pure []
      | [p] => match hex p with
        | some b => pure b
        | none => throw "bad ti pceid"
      | _ => throw "bad ti"
    let some id := hex id | throw "bad ti id"
    let some ver := parseInt ver | throw "bad ti version"
    let issue ← parseTime issue
    let some fmspc := hex fmspc | throw "bad ti fmspc"
    let some ev := ev.toNat? | throw "bad ti eval"
    let lv ← parseTcbLevels lv
    let mods ← parseModules mods
    pure (some { id := id, version := ver, issueDate := issue, nextUpdateOk := next == "1",
                 fmspc := fmspc, evalNum := ev, levels := lv, modules := mods, pceId := pce })
  | _ => .error "bad ti"

def parseQi (s : String) : Except String (Option QeIdentity) :=
  if s == "none" then .ok none else
  match s.splitOn "|" with
  | [id, ver, issue, next, ev, misc, miscm, attr, attrm, mrs, prod, lv] => do
    let some id := hex id | throw "bad qi id"
    let some ver := parseInt ver | throw "bad qi version"
    let issue ← parseTime issue
    let some ev := ev.toNat? | throw "bad qi eval"
    let some misc := hex misc | throw "bad qi misc"
    let some miscm := hex miscm | throw "bad qi miscmask"
    let some attr := hex attr | throw "bad qi attr"
    let some attrm := hex attrm | throw "bad qi attrmask"
    let some mrs := hex mrs | throw "bad qi mrsigner"
    let some prod := prod.toNat? | throw "bad qi prodid"
    let lv ← parseEnclaveLevels lv
    pure (some { id := id, version := ver, issueDate := issue, nextUpdateOk := next == "1",
                 evalNum := ev, miscSelect := misc, miscSelectMask := miscm, attributes := attr,
                 attributesMask := attrm, mrSigner := mrs, isvProdId := prod, levels := lv })
  | _ => .error "bad qi"

def parseTdxMods (s : String) : Except String (List TdxModulePolicy) :=
  (listOf s ";").mapM fun l =>
    match l.splitOn ":" with
    | [seam, signer] => do
      let seam ← if seam == "-" then pure none else match hex seam with
        | some b => pure (some b)
        | none => throw "bad mrseam"
      let some signer := hex signer | throw "bad mrsignerseam"
      pure { mrSeam := seam, mrSignerSeam := signer }
    | _ => .error "bad tdx module policy"

/-- A quote policy written with the keys `<pre>pol <pre>dis <pre>val <pre>min <pre>wl <pre>blk <pre>tdx`. -/
def parsePolicyP (m : KV) (pre : String) : Except String (Option Policy) :=
  match get m (pre ++ "pol") with
  | some "nil" => .ok none
  | some "set" => do
    let dis ← getBool m (pre ++ "dis")
    let val ← getNat m (pre ++ "val")
    let min ← getNat m (pre ++ "min")
    let wl ← strList ((get m (pre ++ "wl")).getD "-")
    let blk ← strList ((get m (pre ++ "blk")).getD "-")
    let tdx ← match get m (pre ++ "tdx") with
      | some "nil" => pure none
      | some s => do pure (some (← parseTdxMods s))
      | none => throw "missing tdx"
    pure (some { disabled := dis, validity := val, minEval := min, whitelist := wl,
                 blacklist := blk, tdx := tdx })
  | _ => .error ("bad " ++ pre ++ "pol")

def parsePolicy (m : KV) : Except String (Option Policy) := parsePolicyP m ""

/-- Node registration inputs: `regpol=nil|set regias=0|1 regpcs=0|1` (descriptor constraints; a set
PCS part is the line's `pol`), `fspcs=0|1 def=nil|set defias=0|1` and the default PCS policy under
the prefix `d` (`dpol=nil|set ...`). Absent: the policy of the line is used as it is. -/
def parseRegistration (m : KV) (pol : Option Policy) : Except String (Option (Features × Option QPolicy)) :=
  match get m "regpol" with
  | none => .ok none
  | some rp => do
    let regias ← getBool m "regias"
    let regpcs ← getBool m "regpcs"
    let fspcs ← getBool m "fspcs"
    let sc : Option QPolicy :=
      if rp == "nil" then none
      else some { ias := if regias then some 1 else none, pcs := if regpcs then pol else none }
    let defp ← match get m "def" with
      | some "nil" => pure none
      | some "set" => do
        let dias ← getBool m "defias"
        let dp ← parsePolicyP m "d"
        pure (some ({ ias := if dias then some 2 else none, pcs := dp } : QPolicy))
      | _ => throw "bad def"
    let satt := (get m "satt") == some "1"
    let defage := ((get m "defage").bind String.toNat?).getD 0
    pure (some ({ pcs := fspcs, defaultPolicy := defp, signedAttestations := satt, defaultMaxAge := defage }, sc))

/-- Symbolic stand-ins for the two signed JSON bodies (the model never looks inside them). -/
def tagTcb : Bytes := [1]
def tagQe : Bytes := [2]
def tagPem : Bytes := [3]

structure Case where
  L : Lib
  env : Env
  pol : Option Policy
  ts : Time
  q : Quote
  tcb : Option Bundle

def parseCase (m : KV) : Except String Case := do
  let dbg ← getBool m "dbg"
  let lax ← getBool m "lax"
  let bl ← hexList ((get m "bl").getD "-")
  let pol ← parsePolicy m
  let some ts := (get m "ts").bind parseInt | throw "bad ts"
  let hdr ← getHex m "hdr"
  let tee ← getNat m "tee"
  let kind ← match get m "kind" with
    | some "sgx" => pure BodyKind.sgx
    | some "td" => pure BodyKind.td
    | _ => throw "bad kind"
  let body ← getHex m "body"
  let sig ← getHex m "sig"
  let ak ← getHex m "ak"
  let qer ← getHex m "qer"
  let qes ← getHex m "qes"
  let auth ← getHex m "auth"
  let cd ← match get m "cd" with
    | some "ppid" => pure CertData.ppid
    | some "chain" => do pure (CertData.chain (← parseCerts ((get m "certs").getD "-")))
    | _ => throw "bad cd"
  let q : Quote := { headerRaw := hdr, teeType := tee, bodyKind := kind, bodyRaw := body, sig := sig,
                     attKey := ak, qeReport := qer, qeReportSig := qes, authData := auth,
                     certData := cd }
  let leaf := match cd with
    | .chain (c :: _) => some c
    | _ => none
  let pckx ← parseX ((get m "pckx").getD "fail") leaf
  let vqe ← getBool m "vqe"
  let vq ← getBool m "vq"
  let akok ← getBool m "akok"
  let h ← getHex m "h"
  let tdmr ← getHex m "tdmr"
  let pckPk := match leaf with
    | some c => c.ecdsaPk.getD []
    | none => []
  match get m "tcb" with
  | some "nil" =>
    let L : Lib := {
      ecdsaOK := fun pk msg s =>
        if pk == pckPk && msg == qer && s == qes then vqe
        else if pk == ak && msg == hdr ++ body && s == sig then vq else false
      sha256 := fun x => if x == ak ++ auth then h else []
      attKeyOK := fun _ => akok
      x509Verify := fun _ inters _ => if inters.isEmpty then none else pckx
      pem := fun _ => none
      jsonTcb := fun _ => none
      jsonQe := fun _ => none
      tdMr := fun _ => tdmr }
    pure { L := L, env := { allowDebug := dbg, lax := lax, mrSignerBlacklist := bl }, pol := pol,
           ts := ts, q := q, tcb := none }
  | some "set" =>
    let pem ← match get m "pem" with
      | some "fail" => pure none
      | some s => do pure (some (← parseCerts s))
      | none => throw "missing pem"
    let tcbLeaf := match pem with
      | some (c :: _) => some c
      | _ => none
    let tcbx ← parseX ((get m "tcbx").getD "fail") tcbLeaf
    let tis ← getHex m "tis"
    let qis ← getHex m "qis"
    let vtcb ← getBool m "vtcb"
    let vqeid ← getBool m "vqeid"
    let ti ← parseTi ((get m "ti").getD "none")
    let qi ← parseQi ((get m "qi").getD "none")
    let tcbPk := match tcbLeaf with
      | some c => c.ecdsaPk.getD []
      | none => []
    let L : Lib := {
      ecdsaOK := fun pk msg s =>
        if pk == pckPk && msg == qer && s == qes then vqe
        else if pk == ak && msg == hdr ++ body && s == sig then vq
        else if pk == tcbPk && msg == tagTcb && some s == sigFromHex tis then vtcb
        else if pk == tcbPk && msg == tagQe && some s == sigFromHex qis then vqeid
        else false
      sha256 := fun x => if x == ak ++ auth then h else []
      attKeyOK := fun _ => akok
      x509Verify := fun _ inters _ => if inters.isEmpty then tcbx else pckx
      pem := fun _ => pem
      jsonTcb := fun r => if r == tagTcb then ti else none
      jsonQe := fun r => if r == tagQe then qi else none
      tdMr := fun _ => tdmr }
    pure { L := L, env := { allowDebug := dbg, lax := lax, mrSignerBlacklist := bl }, pol := pol,
           ts := ts, q := q,
           tcb := some { tcbInfo := { raw := tagTcb, sigHex := tis },
                         qeId := { raw := tagQe, sigHex := qis }, certs := tagPem } }
  | _ => throw "bad tcb"

def showResult : Except Stage Verified → String
  | .ok v => s!"accept:{showHex v.mrEnclave}:{showHex v.mrSigner}:{showHex v.reportData}"
  | .error s => s!"reject:{s.name}"

/-- Compare the model's own parse of the raw quote with the parts the Go parser produced. -/
def checkRaw (m : KV) (c : Option Case) : Option String :=
  match get m "raw" with
  | none => none
  | some r =>
    match hex r with
    | none => some "bad raw hex"
    | some raw =>
      let res := parseQuote raw
      match get m "rawerr", res, c with
      | some e, .error pe, _ =>
        if e == pe.name || e == "?" then none else some s!"parse error class model={pe.name} impl={e}"
      | some e, .ok p, _ =>
        -- PEM/x509 decoding of the chain is an oracle: the model's structural parse succeeds
        if (e == "pem" && p.isChain) || e == "?" then none else some s!"parse model=ok impl=error:{e}"
      | none, .error pe, _ => some s!"parse model=error:{pe.name} impl=ok"
      | none, .ok _, none => some "parse ok but no parts given"
      | none, .ok p, some c =>
        let q := c.q
        if p.headerRaw != q.headerRaw then some "parse: header differs"
        else if p.teeType != q.teeType then some "parse: tee type differs"
        else if p.bodyKind != q.bodyKind then some "parse: body kind differs"
        else if p.bodyRaw != q.bodyRaw then some "parse: body differs"
        else if p.sig != q.sig then some "parse: signature differs"
        else if p.attKey != q.attKey then some "parse: attestation key differs"
        else if p.qeReport != q.qeReport then some "parse: QE report differs"
        else if p.qeReportSig != q.qeReportSig then some "parse: QE report signature differs"
        else if p.authData != q.authData then some "parse: auth data differs"
        else if p.isChain != (match q.certData with | .chain _ => true | .ppid => false) then
          some "parse: certification data type differs"
        else none

/-- Node registration (`SGXAttestation.Verify`): `att=<hash of the RAK>`, `allowed=<mre:mrs;..>`,
`implatt=ok|identity|rak|quote`. -/
def checkAtt (m : KV) (c : Case) (res : Except Stage Verified) : Option String :=
  match get m "att", get m "implatt" with
  | some a, some ia =>
    match hex a, (listOf ((get m "allowed").getD "-") ";").mapM (fun p =>
        match p.splitOn ":" with
        | [x, y] => match hex x, hex y with
          | some x, some y => some (x, y)
          | _, _ => none
        | _ => none) with
    | some rak, some allowed =>
      match parseRegistration m c.pol with
      | .error e => some ("bad registration fields: " ++ e)
      | .ok reg =>
      -- the policy that reaches the verifier: resolved from descriptor constraints and defaults
      let eff := match reg with
        | some (fs, sc) => effectivePcsPolicy fs sc
        | none => c.pol
      let res := match reg with
        | some _ => verify c.L c.env eff c.ts c.q c.tcb
        | none => res
      let want := match res with
        | .error _ => "quote"
        | .ok v =>
          if !(allowed.contains (v.mrEnclave, v.mrSigner)) then "identity"
          else if slice v.reportData 0 32 != rak then "rak" else "ok"
      let ok := match reg with
        | some (fs, sc) => registrationOK c.L c.env fs sc c.ts c.q c.tcb allowed rak
        | none => attestationOK c.L c.env c.pol c.ts c.q c.tcb allowed rak
      let vbBad : Option String :=
        match get m "vb" with
        | none => none
        | some ivb =>
          let (fs0, sc0) : Features × Option QPolicy := match reg with
            | some (fs, sc) => (fs, sc)
            | none => ({ pcs := true, defaultPolicy := none }, some { ias := none, pcs := c.pol })
          let combos := [false, true].flatMap fun t => [false, true].flatMap fun f => [0, 1, 2].map fun v => (t, f, v)
          let mine := String.join (combos.map fun (t, f, v) =>
            if constraintsValidateBasic { fs0 with tdx := t } f v sc0 then "1" else "0")
          if mine != ivb then some s!"attestation validate-basic model={mine} impl={ivb}" else none
      match vbBad with
      | some d => some d
      | none =>
      match get m "satt" with
      | some sattS =>
        -- signed attestations: the full SGXAttestation.Verify
        let nat (k : String) : Nat := ((get m k).bind String.toNat?).getD 0
        let vsa := get m "vsa" == some "1"
        let rek : Option Bytes := match get m "rek" with
          | some "-" => none
          | some r => hex r
          | none => none
        let nid := ((get m "nid").bind hex).getD []
        let (fs, sc) : Features × Option QPolicy := match reg with
          | some (fs, sc) => (fs, sc)
          | none => ({ pcs := true, defaultPolicy := none, signedAttestations := sattS == "1",
                       defaultMaxAge := nat "defage" }, some { ias := none, pcs := c.pol })
        let expected : AttMsg :=
          { reportData := (identityOf c.L c.q.bodyKind c.q.bodyRaw).reportData, nodeId := nid,
            height := nat "sah", rek := rek }
        let r := attestationVerify c.L (fun _ msg _ => msg == expected && vsa) c.env fs sc
          (nat "scage") c.ts (nat "nowh") c.q c.tcb allowed [] rak rek nid
          { height := nat "sah", sig := [] }
        if r.name != ia then some s!"attestation model={r.name} impl={ia}"
        else if !fs.signedAttestations && ok != (ia == "ok") then some s!"attestationOK={ok} impl={ia}"
        else none
      | none =>
      if want != ia then some s!"attestation model={want} impl={ia}"
      else if ok != (ia == "ok") then some s!"attestationOK={ok} impl={ia}"
      else none
    | _, _ => some "bad attestation fields"
  | _, _ => none

/-- Spec-only clauses evaluated on accepted inputs (the Go code does not check them; the harness
evaluates the same clauses itself and the two must agree). -/
def specNotes (c : Case) (res : Except Stage Verified) : String :=
  match res, c.tcb with
  | .ok _, some b =>
    match c.L.jsonTcb b.tcbInfo.raw with
    | some ti =>
      (if pceIdOK c.q ti then "" else " spec=pceid") ++
      (if blacklistedByValue (c.pol.getD defaultPolicy) ti then " spec=blacklist-case" else "")
    | none => ""
  | _, _ => ""

/-- SVNs of the platform as the PCK certificate states them (whether or not the chain verifies). -/
def platOf (q : Quote) : Option (List Int × Nat) :=
  match q.certData with
  | .chain (leaf :: _) =>
    match leaf.ext with
    | .ok _ svn pce => some (svn, pce)
    | .bad => none
  | _ => none

def tdxOf (q : Quote) : Option (List Nat) :=
  if q.teeType = teeTDX then some (tdTeeTcbSvn q.bodyRaw) else none

def tiOf (c : Case) : Option TcbInfo := c.tcb.bind fun b => c.L.jsonTcb b.tcbInfo.raw
def qiOf (c : Case) : Option QeIdentity := c.tcb.bind fun b => c.L.jsonQe b.qeId.raw

def showLevel (ti : TcbInfo) (sgx : List Int) (tdx : Option (List Nat)) (pce : Nat) : String :=
  match getTcbLevel ti sgx tdx pce with
  | .error s => "err:" ++ s.name
  | .ok lvl =>
    match ti.levels.findIdx? (fun l => l.matches sgx tdx pce) with
    | some i => s!"{i}:{lvl.status}"
    | none => "?"

/-- The status a `TCBOutOfDateError` carries, for the three stages that return one. -/
def oodStatus (c : Case) (st : Stage) : Option Nat :=
  match st with
  | .levelStatus =>
    match tiOf c, platOf c.q with
    | some ti, some (svn, pce) =>
      match getTcbLevel ti svn (tdxOf c.q) pce with
      | .ok lvl => some lvl.status
      | .error _ => none
    | _, _ => none
  | .tdxModuleStatus =>
    match tiOf c, tdxOf c.q with
    | some ti, some t =>
      (ti.modules.find? (fun m => m.id == tdxModuleName (t.getD 1 0))).bind fun m =>
        (enclaveLevel m.levels (t.getD 0 0)).map (·.status)
    | _, _ => none
  | .qeidStatus =>
    (qiOf c).bind fun qe => (enclaveLevel qe.levels (sgxIsvSvn c.q.qeReport)).map (·.status)
  | _ => none

/-- TCB level selection compared directly with the real `getTCBLevel`, `matches`,
`validateTCBLevel` and with the status inside the returned error. -/
def checkLevel (m : KV) (c : Case) (res : Except Stage Verified) : Option String :=
  let direct : Option String :=
    match get m "lv", tiOf c, platOf c.q with
    | some lv, some ti, some (svn, pce) =>
      let tdx := tdxOf c.q
      let mine := showLevel ti svn tdx pce
      if mine != lv then some s!"tcblevel model={mine} impl={lv}" else
      let mt := String.join (ti.levels.map fun l => if l.matches svn tdx pce then "1" else "0")
      let mt := if mt == "" then "-" else mt
      match get m "mt" with
      | some imt => if imt != mt then some s!"tcbmatches model={mt} impl={imt}" else
        match get m "vt" with
        | some vt =>
          let mv := match getTcbLevel ti svn tdx pce with
            | .error s => s.name
            | .ok lvl => if statusAllowed c.env.lax lvl.status then "ok" else "levelStatus"
          if mv != vt then some s!"tcbvalidate model={mv} impl={vt}" else none
        | none => none
      | none => none
    | _, _, _ => none
  match direct with
  | some d => some d
  | none =>
    match get m "ood", res with
    | some o, .error st =>
      match oodStatus c st with
      | some s => if toString s != o then some s!"tcbstatus model={s} impl={o} stage={st.name}" else none
      | none => some s!"tcbstatus model=none impl={o} stage={st.name}"
    | some o, .ok _ => some s!"tcbstatus model=accept impl={o}"
    | none, _ => none

/-- A well-formed signature string (128 hex digits) for the direct calls. -/
def someSigHex : Bytes := List.replicate 128 48

/-- The pure decision functions compared directly: the model's `openQeIdentity` / `qeIdentityVerify`
and `verifyTcbInfo` are run with the signature oracle answering `true`, which leaves exactly
`QEIdentity.validate` + `verify` and `TCBInfo.validate` + `validateFMSPC` + `validateTCBLevel`. -/
def checkDirect (m : KV) (c : Case) : Option String :=
  let pol := c.pol.getD defaultPolicy
  let dq : Option String :=
    match get m "dq", qiOf c with
    | some idq, some qe =>
      let L' : Lib := { c.L with ecdsaOK := fun _ _ _ => true, jsonQe := fun _ => some qe }
      let mine := match openQeIdentity L' c.q.teeType c.ts pol [] ⟨[], someSigHex⟩ with
        | .error s => s.name
        | .ok qe' => match qeIdentityVerify qe' c.q.qeReport with
          | .error s => s.name
          | .ok _ => "ok"
      if mine != idq then some s!"direct-qe model={mine} impl={idq}" else none
    | _, _ => none
  match dq with
  | some d => some d
  | none =>
    match get m "dt", tiOf c, c.q.certData with
    | some idt, some ti, .chain (leaf :: _) =>
      match leaf.ext with
      | .ok (some f) svn pce =>
        let L' : Lib := { c.L with ecdsaOK := fun _ _ _ => true, jsonTcb := fun _ => some ti }
        let pck : PckInfo := { pk := [], fmspc := f, compSvn := svn, pcesvn := pce }
        let mine := match verifyTcbInfo L' c.env c.q.teeType c.ts pol [] ⟨[], someSigHex⟩ pck (tdxOf c.q) with
          | .error s => s.name
          | .ok _ => "ok"
        if mine != idt then some s!"direct-tcbinfo model={mine} impl={idt}" else none
      | _ => none
    | _, _, _ => none

def step (_ : Unit) (line : String) : Unit × String :=
  let m := kvs line
  if m.isEmpty then ((), "ok") else
  match get m "rawerr" with
  | some _ =>
    -- the Go parser rejected the raw quote: only the parse verdict is compared
    match checkRaw m none with
    | none => ((), "ok")
    | some d => ((), "DIVERGE " ++ d)
  | none =>
  match parseCase m with
  | .error e => ((), "DIVERGE bad-line " ++ e)
  | .ok c =>
    match checkRaw m (some c) with
    | some d => ((), "DIVERGE " ++ d)
    | none =>
    let res := verify c.L c.env c.pol c.ts c.q c.tcb
    let r := showResult res
    let impl := (get m "impl").getD ""
    match checkAtt m c res with
    | some d => ((), "DIVERGE " ++ d)
    | none =>
    match checkLevel m c res with
    | some d => ((), "DIVERGE " ++ d)
    | none =>
    match checkDirect m c with
    | some d => ((), "DIVERGE " ++ d)
    | none =>
    if r == impl then ((), "ok" ++ specNotes c res)
    else if impl == "reject:?" && r.startsWith "reject:" then ((), "ok " ++ r)
    else ((), s!"DIVERGE model={r} impl={impl}")

def main : IO Unit := loop step ()

end OasisModel.Pcs.Driver
