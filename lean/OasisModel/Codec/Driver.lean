import OasisModel.Proto
/- C16 decoders: driver stub (not built yet). -/
namespace OasisModel.Codec.Driver
def main : IO Unit := IO.eprintln "mode not implemented"
end OasisModel.Codec.Driver
