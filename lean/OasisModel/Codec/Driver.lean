import OasisModel.Proto
import OasisModel.Codec.Proof
import OasisModel.Codec.Quote
/-
Driver for the codec model (`om_codec`), used as a checker: every input line carries the
bytes fed to the real Go decoder/encoder *and* what the implementation answered; the model
recomputes the answer and replies `ok` or `DIVERGE <detail>`.

  consts <emptyHash> <PrefixLeafNode> <PrefixInternalNode> <PrefixNilNode> <hash.Size> <DepthSize>
  depth <in> err <class> | ok <consumed> <value>
  key   <in> err <class> | ok <consumed> <re-marshalled>
  leaf  <in> err <class> | ok <consumed> <key> <value> <marshal>
  inode <in> err <class> | ok <consumed> <bits> <label> <leaf> <left> <right> <full> <cv0> <cv1>
  node  <in> err <class> | ok L|I <full> <cv0> <cv1>
  entry <in|~> err <class> | ok nil|full|hash
  proof <v> <entries> err <class> | ok <writelog>
  quote <allowTrailing 0|1> <in> err <class> | ok <consumed> <version> <teeType> <cdType>
        (PCS quote framing; when the certification data is a PEM chain the implementation may also
         answer `err pem`: PEM/x509 decoding is outside the model)
  enc-key <key> <bytes>
  enc-leaf <key> <value> <bytes>
  enc-inode <bits> <label> <leaf> <left> <right> <full> <cv0> <cv1>
Hex fields: `-` is the empty byte string, `~` a nil pointer / nil entry; a leaf is `key:value`;
entry lists and write logs are comma separated, `none` when empty.
-/
namespace OasisModel.Codec.Driver
open OasisModel.Proto OasisModel.Codec

def optHex (s : String) : Option (Option Bytes) :=
  if s == "~" then some none else (parseHex s).map some

def showOptHex : Option Bytes → String
  | none => "~"
  | some b => showHex b

def parseLeafSlot (s : String) : Option (Option Leaf) :=
  if s == "~" then some none else
  match s.splitOn ":" with
  | [k, v] => do
    let k ← parseHex k
    let v ← parseHex v
    pure (some { key := k, value := v })
  | _ => none

def showLeafSlot : Option Leaf → String
  | none => "~"
  | some l => showHex l.key ++ ":" ++ showHex l.value

def parseEntries (s : String) : Option (List (Option Bytes)) :=
  if s == "none" then some [] else (s.splitOn ",").mapM optHex

def showWriteLog (wl : List (Bytes × Bytes)) : String :=
  if wl.isEmpty then "none" else ",".intercalate (wl.map fun (k, v) => showHex k ++ ":" ++ showHex v)

def showRes {α : Type} (f : α → Nat → String) : Except Err (α × Nat) → String
  | .error e => "err " ++ e.toString
  | .ok (x, n) => "ok " ++ f x n

def expect (model impl : String) : String :=
  if model == impl then "ok" else s!"DIVERGE model=[{model}] impl=[{impl}]"

def showInternal (n : Internal) : String :=
  let c := n.children.getD (none, none)
  s!"{n.labelBits} {showHex n.label} {showLeafSlot n.leaf} {showOptHex c.1} {showOptHex c.2}"

def marshals (n : Internal) : String :=
  s!"{showHex (encodeInternalFull n)} {showHex (encodeInternalCompactV0 n)} {showHex (encodeInternalCompactV1 n)}"

def nodeAnswer : Node → String
  | .leaf l => let b := showHex (encodeLeaf l); s!"L {b} {b} {b}"
  | .internal n => "I " ++ marshals n

def entryKind : Entry → String
  | .nil => "nil"
  | .full _ => "full"
  | .hash _ => "hash"

def step (_ : Unit) (line : String) : Unit × String :=
  let ws := words line
  let answer : String :=
    match ws with
    | [] => "ok"
    | "consts" :: rest =>
      -- emptyHash, PrefixLeafNode, PrefixInternalNode, PrefixNilNode, hash.Size, DepthSize
      expect s!"{showHex emptyHash} 0 1 2 {hashSize} 2" (" ".intercalate rest)
    | "depth" :: inp :: rest =>
      match parseHex inp with
      | none => "DIVERGE bad-op"
      | some d => expect (showRes (fun v n => s!"{n} {v}") (decodeDepth d)) (" ".intercalate rest)
    | "key" :: inp :: rest =>
      match parseHex inp with
      | none => "DIVERGE bad-op"
      | some d => expect (showRes (fun k n => s!"{n} {showHex (encodeKey k)}") (decodeKey d)) (" ".intercalate rest)
    | "leaf" :: inp :: rest =>
      match parseHex inp with
      | none => "DIVERGE bad-op"
      | some d =>
        expect (showRes (fun l n => s!"{n} {showHex l.key} {showHex l.value} {showHex (encodeLeaf l)}") (decodeLeaf d))
          (" ".intercalate rest)
    | "inode" :: inp :: rest =>
      match parseHex inp with
      | none => "DIVERGE bad-op"
      | some d =>
        expect (showRes (fun nd n => s!"{n} {showInternal nd} {marshals nd}") (decodeInternal d)) (" ".intercalate rest)
    | "node" :: inp :: rest =>
      match parseHex inp with
      | none => "DIVERGE bad-op"
      | some d => expect (showRes (fun nd _ => nodeAnswer nd) (unmarshalNode d)) (" ".intercalate rest)
    | "entry" :: inp :: rest =>
      match optHex inp with
      | none => "DIVERGE bad-op"
      | some e => expect (showRes (fun en _ => entryKind en) (decodeEntry e)) (" ".intercalate rest)
    | "proof" :: v :: ents :: rest =>
      match v.toNat?, parseEntries ents with
      | some v, some es =>
        let m := match (verifyProof v es).2 with
          | .error e => "err " ++ e.toString
          | .ok t => "ok " ++ showWriteLog t.writeLog
        expect m (" ".intercalate rest)
      | _, _ => "DIVERGE bad-op"
    | "quote" :: tr :: inp :: rest =>
      match parseHex inp with
      | none => "DIVERGE bad-op"
      | some d =>
        let impl := " ".intercalate rest
        match parseQuoteFrame d (tr == "1") with
        | .error e => expect ("err " ++ e.name) impl
        | .ok f =>
          let m := s!"ok {f.consumed} {f.version} {f.teeType} {f.cdType}"
          if f.isChain && impl == "err pem" then "ok" else expect m impl
    | ["enc-key", k, b] =>
      match parseHex k with
      | some k => expect (showHex (encodeKey k)) b
      | none => "DIVERGE bad-op"
    | ["enc-leaf", k, v, b] =>
      match parseHex k, parseHex v with
      | some k, some v => expect (showHex (encodeLeaf { key := k, value := v })) b
      | _, _ => "DIVERGE bad-op"
    | ["enc-inode", bits, label, leaf, l, r, full, cv0, cv1] =>
      match bits.toNat?, parseHex label, parseLeafSlot leaf, optHex l, optHex r with
      | some bits, some label, some leaf, some l, some r =>
        expect (marshals { labelBits := bits, label := label, leaf := leaf, children := some (l, r) }) s!"{full} {cv0} {cv1}"
      | _, _, _, _, _ => "DIVERGE bad-op"
    | _ => "DIVERGE bad-op"
  ((), answer)

def main : IO Unit := loop step ()

end OasisModel.Codec.Driver
