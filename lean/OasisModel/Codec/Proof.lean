import OasisModel.Codec.Node
/-
C16 — proof entries and the recursion skeleton of `syncer.ProofVerifier.verifyProof`
(go/storage/mkvs/syncer/proof.go:301-428).

What is modelled: entry decoding, the index/depth guards, the order of the recursive calls
for proof versions 0 and 1, error propagation, the rebuilt pointer tree and the write log.
What is not: hashing (the final root comparison) — the codec driver obtains the root the real
verifier computed and checks the rest.
The definition is by well-founded recursion on `maxProofDepth + 1 - depth`: it is accepted by
Lean only because of the depth guard (remove the guard and the termination proof fails).
-/
namespace OasisModel.Codec

/-- `maxProofDepth` (syncer/proof.go:20); compared with the Go value on every run. -/
def maxProofDepth : Nat := 128

/-- A decoded proof entry. -/
inductive Entry
  | nil                 -- Go nil entry: empty subtree
  | full (n : Node)     -- 0x01 ++ compact node
  | hash (h : Bytes)    -- 0x02 ++ 32 bytes
  deriving DecidableEq, Repr

/-- Decoding of one proof entry as done at the top of `verifyProof`.  `none` is a nil entry
(CBOR null), `some []` an empty non-nil byte string. -/
def decodeEntryA : Option Bytes → Dec Entry
  | none => ⟨[], .ok (.nil, 0)⟩
  | some e =>
    if e.length = 0 then .fail [] .malformedProof else
    if byteAt e 0 = 1 then
      let n := unmarshalNodeA (e.drop 1)
      match n.res with
      | .error err => .fail n.allocs err
      | .ok (nd, sz) => ⟨n.allocs, .ok (.full nd, 1 + sz)⟩
    else if byteAt e 0 = 2 then
      let h := decodeHashA (e.drop 1)
      match h.res with
      | .error err => .fail [] err
      | .ok (hh, sz) => ⟨[], .ok (.hash hh, 1 + sz)⟩
    else .fail [] .unexpectedEntry

def decodeEntry (e : Option Bytes) := (decodeEntryA e).res

/-- Entry encoder (what `ProofBuilder.build` emits). -/
def encodeEntry (v : Nat) : Entry → Option Bytes
  | .nil => none
  | .hash h => some ((2 : UInt8) :: h)
  | .full (.leaf l) => some ((1 : UInt8) :: encodeLeaf l)
  | .full (.internal n) =>
    some ((1 : UInt8) :: (if v = 0 then encodeInternalCompactV0 n else encodeInternalCompactV1 n))

/-- The pointer tree rebuilt by the verifier. -/
inductive PTree
  | nil
  | hash (h : Bytes)
  | leaf (l : Leaf)
  | inode (n : Internal) (lf l r : PTree)
  deriving Repr

def PTree.ofLeafSlot : Option Leaf → PTree
  | none => .nil
  | some l => .leaf l

/-- Number of non-nil pointers in the rebuilt tree. -/
def PTree.size : PTree → Nat
  | .nil => 0
  | .hash _ => 1
  | .leaf _ => 1
  | .inode _ lf l r => 1 + lf.size + l.size + r.size

/-- The write log `VerifyProofToWriteLog` produces (leaves in pre-order). -/
def PTree.writeLog : PTree → List (Bytes × Bytes)
  | .nil => []
  | .hash _ => []
  | .leaf l => [(l.key, l.value)]
  | .inode _ lf l r => lf.writeLog ++ l.writeLog ++ r.writeLog

/-- Work counters threaded through the recursion. -/
structure VStats where
  calls : Nat := 0          -- number of `verifyProof` invocations
  maxDepth : Nat := 0       -- deepest `depth` argument of any invocation (stack depth)
  allocBytes : Nat := 0     -- sum of all `make` lengths of the entry decoders
  deriving Repr

def VStats.enter (s : VStats) (depth : Nat) : VStats :=
  { s with calls := s.calls + 1, maxDepth := max s.maxDepth depth }

/-- `ProofVerifier.verifyProof(proof, idx, depth)`; returns the next index and the subtree. -/
def verify (v : Nat) (es : List (Option Bytes)) (idx depth : Nat) (s : VStats) :
    VStats × Except Err (Nat × PTree) :=
  let s := s.enter depth
  if idx ≥ es.length then (s, .error .malformedProof)
  else if _h2 : depth > maxProofDepth then (s, .error .maxDepth)
  else
    let e := decodeEntryA (es.getD idx none)
    let s := { s with allocBytes := s.allocBytes + e.allocs.sum }
    match e.res with
    | .error err => (s, .error err)
    | .ok (.nil, _) => (s, .ok (idx + 1, .nil))
    | .ok (.hash h, _) => (s, .ok (idx + 1, .hash h))
    | .ok (.full (.leaf l), _) => (s, .ok (idx + 1, .leaf l))
    | .ok (.full (.internal n), _) =>
      -- leaf slot: embedded (version 0) or the next entry (version 1)
      let rl : VStats × Except Err (Nat × PTree) :=
        if v = 0 then (s, .ok (idx + 1, PTree.ofLeafSlot n.leaf))
        else verify v es (idx + 1) (depth + 1) s
      match rl with
      | (s, .error err) => (s, .error err)
      | (s, .ok (pos, lf)) =>
        match verify v es pos (depth + 1) s with
        | (s, .error err) => (s, .error err)
        | (s, .ok (pos, l)) =>
          match verify v es pos (depth + 1) s with
          | (s, .error err) => (s, .error err)
          | (s, .ok (pos, r)) => (s, .ok (pos, .inode n lf l r))
termination_by maxProofDepth + 1 - depth
decreasing_by all_goals omega

/-- `verifyProofOpts` without the two root-hash comparisons. -/
def verifyProof (v : Nat) (es : List (Option Bytes)) : VStats × Except Err PTree :=
  if v > 1 then ({}, .error .badVersion)
  else if es.length = 0 then ({}, .error .emptyProof)
  else match verify v es 0 0 {} with
    | (s, .error err) => (s, .error err)
    | (s, .ok (idx, t)) => if idx ≠ es.length then (s, .error .unusedEntries) else (s, .ok t)

end OasisModel.Codec
