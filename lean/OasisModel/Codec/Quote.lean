import OasisModel.Codec.Basic
/-
C16 — byte-level model of the framing of a PCS (DCAP) attestation quote, i.e. of the hand-written
length-prefixed decoder `Quote.UnmarshalBinaryWithTrailing` and everything it calls up to (not
including) PEM/x509:

  go/common/sgx/pcs/quote.go   Quote.UnmarshalBinaryWithTrailing          (:61-137)
                               QuoteHeaderV3/V4.UnmarshalBinary           (:272-296, :339-369)
                               QuoteSignatureECDSA_P256.UnmarshalBinary   (:735-767)
                               CertificationData_QEReport.UnmarshalBinary (:476-542)
                               CertificationData_PPID.UnmarshalBinary     (:895-906)
  go/common/sgx/pcs/report.go  SgxReport / TdReport / TdAttributes.UnmarshalBinary

  header (48) | report body (384 SGX / 584 TDX) | u32 signature-data length | signature data:
    signature (64) | attestation key (64) | [v4: u16 type = 6 | u32 size (exact)] |
    QE report (384) | QE report signature (64) | u16 auth-data size | auth data |
    u16 certification-data type | u32 certification-data size | certification data

The decoder is INSTRUMENTED: `reads` lists, in program order, every slice expression `data[a:b]`
and every fixed-width read `data[a:]` (as `a, a+width`) the Go code evaluates, as absolute offsets
into the input together with the length `lim` of the (sub)slice it is evaluated on; `allocs` lists
the lengths passed to `make`. Props/C16.lean proves `a ≤ b ≤ lim ≤ length` for every entry on every
path and for every declared size (all 2^16 / 2^32 values): no slice expression is out of range,
which in Go would be a run-time panic.

All arithmetic is on unbounded naturals: the Go code converts the declared sizes to `int` (64 bit)
before adding, so no sum wraps; a variant computing `uint32(offset)+size` would differ from this
model exactly on the declared sizes ≥ 2^32 - offset, where the correspondence driver sends probes.
Core Lean only.
-/
namespace OasisModel.Codec

/-- The decoder's error returns, by message. -/
inductive QErr
  | len | version | reserved | tee | vendor | bodylen | tdattr | trailing | keytype | siglen
  | v4size | v4type | qeNoBody | qeNoSig | qeNoAuthSize | qeAuthSize | qeNoCdType | qeNoCdSize
  | qeCdSize | cdtype | ppidlen
  deriving DecidableEq, Repr

def QErr.name : QErr → String
  | .len => "len" | .version => "version" | .reserved => "reserved" | .tee => "tee"
  | .vendor => "vendor" | .bodylen => "bodylen" | .tdattr => "tdattr" | .trailing => "trailing"
  | .keytype => "keytype" | .siglen => "siglen" | .v4size => "v4size" | .v4type => "v4type"
  | .qeNoBody => "qeNoBody" | .qeNoSig => "qeNoSig" | .qeNoAuthSize => "qeNoAuthSize"
  | .qeAuthSize => "qeAuthSize" | .qeNoCdType => "qeNoCdType" | .qeNoCdSize => "qeNoCdSize"
  | .qeCdSize => "qeCdSize" | .cdtype => "cdtype" | .ppidlen => "ppidlen"

/-- What the framing yields: the declared sizes and where the parts are. `isChain`: the
certification data is a PEM certificate chain, whose decoding (encoding/pem, crypto/x509) is
outside this model and may still reject the quote. -/
structure QFrame where
  version : Nat
  teeType : Nat
  bodyLen : Nat
  sigLen : Nat
  authSize : Nat
  cdType : Nat
  cdSize : Nat
  cdOff : Nat
  isChain : Bool
  consumed : Nat
  deriving DecidableEq, Repr

/-- One evaluated slice expression: `data[a:b]` on a (sub)slice that ends at absolute offset `lim`. -/
structure QRead where
  a : Nat
  b : Nat
  lim : Nat
  deriving DecidableEq, Repr

structure QDec where
  reads : List QRead
  allocs : List Nat
  res : Except QErr QFrame

def QDec.fail (reads : List QRead) (allocs : List Nat) (e : QErr) : QDec := ⟨reads, allocs, .error e⟩

/-- `binary.LittleEndian.Uint64(data[pos:pos+8])`. -/
def le64At (d : Bytes) (pos : Nat) : Nat := le32At d pos + 4294967296 * le32At d (pos + 4)

/-- `QEVendorID_Intel`. -/
def qeVendorIntel : Bytes :=
  [0x93, 0x9a, 0x72, 0x33, 0xf7, 0x9c, 0x4c, 0xa9, 0x94, 0x0a, 0x0d, 0xb3, 0x95, 0x7f, 0x06, 0x07]

/-- `TdAttributeReserved`: every bit except DEBUG (0), SEPT_VE_DISABLE (28), PKS (30), KL (31),
PERFMON (63). -/
def tdAttrReserved : Nat := 2 ^ 64 - 1 - (1 + 2 ^ 28 + 2 ^ 30 + 2 ^ 31 + 2 ^ 63)

/-- `CertificationData_QEReport.UnmarshalBinary(data)` where `data` is `d[base:lim]`; `rs` are the
reads made so far. `v` / `tee` / `body` / `sigLen` are only carried into the result. -/
def parseQEI (d : Bytes) (base lim : Nat) (rs : List QRead) (v tee body sigLen consumed : Nat) : QDec :=
  -- if len(data) < reportBodySgxLen
  if lim < base + 384 then .fail rs [] .qeNoBody else
  -- qe.QEReport.UnmarshalBinary(data[0:384])
  let rs := rs ++ [⟨base, base + 384, lim⟩]
  -- if len(data) < offset+64 ; copy(sig, data[384:])
  if lim < base + 448 then .fail rs [] .qeNoSig else
  let rs := rs ++ [⟨base + 384, lim, lim⟩]
  if lim < base + 450 then .fail rs [] .qeNoAuthSize else
  -- binary.LittleEndian.Uint16(data[448:])
  let rs := rs ++ [⟨base + 448, base + 450, lim⟩]
  let authSize := le16At d (base + 448)
  if lim < base + 450 + authSize then .fail rs [] .qeAuthSize else
  -- make([]byte, authDataSize); copy(_, data[450:450+authDataSize])
  let al := [authSize]
  let rs := rs ++ [⟨base + 450, base + 450 + authSize, lim⟩]
  let off := base + 450 + authSize
  if lim < off + 2 then .fail rs al .qeNoCdType else
  let rs := rs ++ [⟨off, off + 2, lim⟩]
  let cdt := le16At d off
  if lim < off + 6 then .fail rs al .qeNoCdSize else
  let rs := rs ++ [⟨off + 2, off + 6, lim⟩]
  let cds := le32At d (off + 2)
  if lim < off + 6 + cds then .fail rs al .qeCdSize else
  -- certData := data[offset : offset+certDataSize]
  let rs := rs ++ [⟨off + 6, off + 6 + cds, lim⟩]
  let frame (chain : Bool) : QFrame :=
    { version := v, teeType := tee, bodyLen := body, sigLen := sigLen, authSize := authSize,
      cdType := cdt, cdSize := cds, cdOff := off + 6, isChain := chain, consumed := consumed }
  if cdt = 1 ∨ cdt = 2 ∨ cdt = 3 then
    -- CertificationData_PPID.UnmarshalBinary: len(data) != 404, then reads at 0, 384, 400, 402
    if cds ≠ 404 then .fail rs al .ppidlen else
    ⟨rs ++ [⟨off + 6, off + 6 + 404, off + 6 + cds⟩, ⟨off + 6 + 384, off + 6 + 404, off + 6 + cds⟩,
            ⟨off + 6 + 400, off + 6 + 402, off + 6 + cds⟩, ⟨off + 6 + 402, off + 6 + 404, off + 6 + cds⟩],
     al, .ok (frame false)⟩
  else if cdt = 5 then ⟨rs, al, .ok (frame true)⟩
  else .fail rs al .cdtype

/-- `QuoteSignatureECDSA_P256.UnmarshalBinary(version, data)` where `data` is `d[base:lim]`. -/
def parseSigI (d : Bytes) (base lim : Nat) (rs : List QRead) (v tee body sigLen consumed : Nat) : QDec :=
  -- if len(data) < 584
  if lim < base + 584 then .fail rs [] .siglen else
  -- copy(signature, data[0:]) ; copy(attestationPublicKey, data[64:])
  let rs := rs ++ [⟨base, lim, lim⟩, ⟨base + 64, lim, lim⟩]
  if v = 4 then
    -- Uint16(data[128:]), Uint32(data[130:]), len(data[134:]) != certDataSize
    let rs := rs ++ [⟨base + 128, base + 130, lim⟩, ⟨base + 130, base + 134, lim⟩, ⟨base + 134, lim, lim⟩]
    if lim - (base + 134) ≠ le32At d (base + 130) then .fail rs [] .v4size else
    if le16At d (base + 128) ≠ 6 then .fail rs [] .v4type else
    parseQEI d (base + 134) lim (rs ++ [⟨base + 134, lim, lim⟩]) v tee body sigLen consumed
  else
    parseQEI d (base + 128) lim (rs ++ [⟨base + 128, lim, lim⟩]) v tee body sigLen consumed

/-- `Quote.UnmarshalBinaryWithTrailing` from the signature length on: the report body of `body`
bytes has been decoded. -/
def parseRestI (d : Bytes) (allowTrailing : Bool) (v tee body : Nat) (rs : List QRead) : QDec :=
  let n := d.length
  let off := 48 + body
  -- sigLen := int(Uint32(data[offset:]))
  let rs := rs ++ [⟨off, off + 4, n⟩]
  let sigLen := le32At d off
  if n < off + 4 + sigLen then .fail rs [] .trailing else
  if allowTrailing = false ∧ n ≠ off + 4 + sigLen then .fail rs [] .trailing else
  if le16At d 2 ≠ 2 then .fail rs [] .keytype else
  -- qs.UnmarshalBinary(version, data[offset:offset+sigLen])
  let rs := rs ++ [⟨off + 4, off + 4 + sigLen, n⟩]
  parseSigI d (off + 4) (off + 4 + sigLen) rs v tee body sigLen (off + 4 + sigLen)

/-- From the QE vendor check on: the header (version `v`, TEE type `tee`) has been decoded. -/
def parseBodyI (d : Bytes) (allowTrailing : Bool) (v tee : Nat) (rs : List QRead) : QDec :=
  let n := d.length
  if slice d 12 16 ≠ qeVendorIntel then .fail rs [] .vendor else
  if tee = 0 then
    -- SgxReport.UnmarshalBinary(data[48:432])
    parseRestI d allowTrailing v tee 384 (rs ++ [⟨48, 48 + 384, n⟩])
  else
    if n < 48 + 584 + 4 then .fail rs [] .bodylen else
    -- TdReport.UnmarshalBinary(data[48:632]): tdAttributes.UnmarshalBinary(data[120:128]) (reserved bits)
    let rs := rs ++ [⟨48, 48 + 584, n⟩, ⟨48 + 120, 48 + 128, 48 + 584⟩]
    if (le64At d 168) &&& tdAttrReserved ≠ 0 then .fail rs [] .tdattr else
    parseRestI d allowTrailing v tee 584 rs

/-- `Quote.UnmarshalBinaryWithTrailing(data, allowTrailing)`. -/
def parseQuoteI (d : Bytes) (allowTrailing : Bool) : QDec :=
  let n := d.length
  -- if len(data) < 48+384+4
  if n < 436 then .fail [] [] .len else
  -- version := Uint16(data[0:]); qh.UnmarshalBinary(data[0:48]) and the reads inside the header slice
  let v := le16At d 0
  let rs : List QRead := [⟨0, 2, n⟩, ⟨0, 48, n⟩, ⟨0, 2, 48⟩, ⟨2, 4, 48⟩, ⟨4, 8, 48⟩, ⟨8, 10, 48⟩, ⟨10, 12, 48⟩,
    ⟨12, 48, 48⟩, ⟨28, 48, 48⟩]
  if v = 3 then
    -- QuoteHeaderV3: reserved word; TeeType() is SGX
    if le32At d 4 ≠ 0 then .fail rs [] .reserved else
    parseBodyI d allowTrailing 3 0 rs
  else if v = 4 then
    -- QuoteHeaderV4: TEE type SGX (0) or TDX (0x81), two reserved half-words
    let tee := le32At d 4
    if tee ≠ 0 ∧ tee ≠ 0x81 then .fail rs [] .tee else
    if le16At d 8 ≠ 0 ∨ le16At d 10 ≠ 0 then .fail rs [] .reserved else
    parseBodyI d allowTrailing 4 tee rs
  else .fail [⟨0, 2, n⟩] [] .version

/-- The decoder's answer without the instrumentation. -/
def parseQuoteFrame (d : Bytes) (allowTrailing : Bool) : Except QErr QFrame := (parseQuoteI d allowTrailing).res

end OasisModel.Codec
