/-
C16 — byte-level helpers for the hand-written MKVS decoders (core Lean only).

Byte strings are `List UInt8`.  All accessors are total: reading outside the list yields 0,
but every decoder below guards each read with the same length check the Go code performs,
and the theorems in OasisProofs/Props/C16.lean show that no read is ever out of range
(`consumed ≤ length`).
-/
namespace OasisModel.Codec

abbrev Bytes := List UInt8

/-- `data[pos]` (0 when out of range; decoders never rely on that). -/
def byteAt (d : Bytes) (pos : Nat) : Nat := (d.getD pos 0).toNat

/-- `data[pos:pos+n]`. -/
def slice (d : Bytes) (pos n : Nat) : Bytes := (d.drop pos).take n

/-- `binary.LittleEndian.Uint16(data[pos:pos+2])`. -/
def le16At (d : Bytes) (pos : Nat) : Nat := byteAt d pos + 256 * byteAt d (pos + 1)

/-- `binary.LittleEndian.Uint32(data[pos:pos+4])`. -/
def le32At (d : Bytes) (pos : Nat) : Nat :=
  byteAt d pos + 256 * byteAt d (pos + 1) + 65536 * byteAt d (pos + 2) + 16777216 * byteAt d (pos + 3)

/-- `binary.LittleEndian.PutUint16(_, uint16(n))` — the conversion truncates modulo 2^16. -/
def enc16 (n : Nat) : Bytes := [UInt8.ofNat (n % 256), UInt8.ofNat (n / 256 % 256)]

/-- `binary.LittleEndian.AppendUint32(_, uint32(n))` — the conversion truncates modulo 2^32. -/
def enc32 (n : Nat) : Bytes :=
  [UInt8.ofNat (n % 256), UInt8.ofNat (n / 256 % 256), UInt8.ofNat (n / 65536 % 256),
   UInt8.ofNat (n / 16777216 % 256)]

/-- `Depth.ToBytes`: bytes needed for the given number of bits. -/
def toBytes (bits : Nat) : Nat := bits / 8 + (if bits % 8 ≠ 0 then 1 else 0)

/-- `hash.Size`. -/
def hashSize : Nat := 32

/-- SHA-512/256 of the empty string (`hash.emptyHash`); compared with the Go value on every run
(`consts` line of the codec protocol). -/
def emptyHash : Bytes :=
  [0xc6, 0x72, 0xb8, 0xd1, 0xef, 0x56, 0xed, 0x28, 0xab, 0x87, 0xc3, 0x62, 0x2c, 0x51, 0x14, 0x06,
   0x9b, 0xdd, 0x3a, 0xd7, 0xb8, 0xf9, 0x73, 0x74, 0x98, 0xd0, 0xc0, 0x1e, 0xce, 0xf0, 0x96, 0x7a]

/-- Decoder errors, as far as the Go code distinguishes them by sentinel (`errors.Is`). -/
inductive Err
  | malformedNode     -- node.ErrMalformedNode
  | malformedKey      -- node.ErrMalformedKey
  | malformedHash     -- hash.ErrMalformed
  | malformedProof    -- "verifier: malformed proof"
  | maxDepth          -- "verifier: max proof depth exceeded"
  | unexpectedEntry   -- "verifier: unexpected entry in proof"
  | emptyProof        -- "verifier: empty proof"
  | unusedEntries     -- "verifier: unused entries in proof"
  | badVersion        -- "verifier: unsupported proof version"
  deriving DecidableEq, Repr

def Err.toString : Err → String
  | .malformedNode => "node"
  | .malformedKey => "key"
  | .malformedHash => "hash"
  | .malformedProof => "malformed-proof"
  | .maxDepth => "max-depth"
  | .unexpectedEntry => "unexpected-entry"
  | .emptyProof => "empty-proof"
  | .unusedEntries => "unused-entries"
  | .badVersion => "bad-version"

/-- Result of an instrumented decoder: `allocs` lists, in program order, every length the Go
decoder passes to `make` (also on paths that fail afterwards); `res` is the decoder's answer:
the value and the number of bytes consumed (the Go `Sized…` return value). -/
structure Dec (α : Type) where
  allocs : List Nat
  res : Except Err (α × Nat)

def Dec.fail {α : Type} (allocs : List Nat) (e : Err) : Dec α := ⟨allocs, .error e⟩

end OasisModel.Codec
