import OasisModel.Codec.Basic
/-
C16 — byte-exact model of the hand-written MKVS node codecs.

Go sources modelled (line by line, positional like the Go code):
  go/storage/mkvs/node/depth.go   Depth.{MarshalBinary,UnmarshalBinary,ToBytes}
  go/storage/mkvs/node/key.go     Key.{MarshalBinary,SizedUnmarshalBinary}
  go/storage/mkvs/node/node.go    LeafNode.{MarshalBinary,CompactMarshalBinaryV0/V1,SizedUnmarshalBinary}
                                  InternalNode.{MarshalBinary,CompactMarshalBinaryV0/V1,SizedUnmarshalBinary}
                                  node.UnmarshalBinary
The node value types are this module's own (the trie model lives elsewhere); cached hashes
(`Hash`, `Clean`) are derived data and not part of the decoded value.
-/
namespace OasisModel.Codec

/-- LeafNode (key, value). -/
structure Leaf where
  key : Bytes
  value : Bytes
  deriving DecidableEq, Repr

/-- InternalNode.  `children = none` is the compact serialization (no child hashes present);
`some (l, r)` is the full one, where `none` stands for a nil pointer (serialized as the hash of
the empty string). -/
structure Internal where
  labelBits : Nat
  label : Bytes
  leaf : Option Leaf
  children : Option (Option Bytes × Option Bytes)
  deriving DecidableEq, Repr

inductive Node
  | leaf (l : Leaf)
  | internal (n : Internal)
  deriving DecidableEq, Repr

/-! ### Encoders -/

/-- `Depth.MarshalBinary`. -/
def encodeDepth (bits : Nat) : Bytes := enc16 bits

/-- `Key.MarshalBinary`: `uint16(len(k))` then the key. -/
def encodeKey (k : Bytes) : Bytes := enc16 k.length ++ k

/-- `LeafNode.MarshalBinary` = `CompactMarshalBinaryV0` = `CompactMarshalBinaryV1`. -/
def encodeLeaf (l : Leaf) : Bytes :=
  (0 : UInt8) :: (encodeKey l.key ++ (enc32 l.value.length ++ l.value))

/-- The leaf slot of an internal node: `PrefixNilNode` or the marshalled leaf. -/
def encodeLeafSlot : Option Leaf → Bytes
  | none => [2]
  | some l => encodeLeaf l

/-- `Pointer.GetHash()` of a child pointer: nil pointers yield the empty hash. -/
def hashOrEmpty : Option Bytes → Bytes
  | none => emptyHash
  | some h => h

/-- `InternalNode.CompactMarshalBinaryV0`: prefix, label bit length, label, leaf slot. -/
def encodeInternalCompactV0 (n : Internal) : Bytes :=
  (1 : UInt8) :: (enc16 n.labelBits ++ (n.label ++ encodeLeafSlot n.leaf))

/-- `InternalNode.CompactMarshalBinaryV1`: the leaf is never included. -/
def encodeInternalCompactV1 (n : Internal) : Bytes :=
  (1 : UInt8) :: (enc16 n.labelBits ++ (n.label ++ [2]))

/-- `InternalNode.MarshalBinary`: compact V0 form followed by the two child hashes. -/
def encodeInternalFull (n : Internal) : Bytes :=
  let c := n.children.getD (none, none)
  encodeInternalCompactV0 n ++ (hashOrEmpty c.1 ++ hashOrEmpty c.2)

/-- The serialization a decoded internal node came from (full iff hashes were present). -/
def encodeInternal (n : Internal) : Bytes :=
  match n.children with
  | none => encodeInternalCompactV0 n
  | some _ => encodeInternalFull n

def encodeNode : Node → Bytes
  | .leaf l => encodeLeaf l
  | .internal n => encodeInternal n

/-! ### Decoders (instrumented with the allocation log) -/

/-- `Depth.UnmarshalBinary`. -/
def decodeDepthA (d : Bytes) : Dec Nat :=
  if d.length < 2 then .fail [] .malformedNode
  else ⟨[], .ok (le16At d 0, 2)⟩

/-- `Key.SizedUnmarshalBinary`. -/
def decodeKeyA (d : Bytes) : Dec Bytes :=
  if d.length < 2 then .fail [] .malformedKey else
  let keyLen := le16At d 0
  if d.length < 2 + keyLen then .fail [] .malformedKey else
  -- *k = make([]byte, keyLen)
  ⟨[keyLen], .ok (slice d 2 keyLen, 2 + keyLen)⟩

/-- `LeafNode.SizedUnmarshalBinary`. -/
def decodeLeafA (d : Bytes) : Dec Leaf :=
  if d.length < 1 + 2 + 4 ∨ byteAt d 0 ≠ 0 then .fail [] .malformedNode else
  let k := decodeKeyA (d.drop 1)
  match k.res with
  | .error e => .fail k.allocs e
  | .ok (key, keySize) =>
    let pos := 1 + keySize
    if pos + 4 > d.length then .fail k.allocs .malformedNode else
    let valueSize := le32At d pos
    let pos := pos + 4
    if pos + valueSize > d.length then .fail k.allocs .malformedNode else
    -- value := make([]byte, valueSize)
    ⟨k.allocs ++ [valueSize], .ok ({ key := key, value := slice d pos valueSize }, pos + valueSize)⟩

/-- A child hash read from a full serialization: the empty hash means a nil pointer. -/
def optHash (h : Bytes) : Option Bytes := if h = emptyHash then none else some h

/-- The leaf slot of an internal node at `data[pos:]`. -/
def decodeLeafSlotA (d : Bytes) (pos : Nat) : Dec (Option Leaf) :=
  if byteAt d pos = 2 then ⟨[], .ok (none, 1)⟩ else
  let l := decodeLeafA (d.drop pos)
  match l.res with
  | .error e => .fail l.allocs e
  | .ok (lf, sz) => ⟨l.allocs, .ok (some lf, sz)⟩

/-- `InternalNode.SizedUnmarshalBinary`. -/
def decodeInternalA (d : Bytes) : Dec Internal :=
  if d.length < 1 + 2 + 1 then .fail [] .malformedNode else
  if byteAt d 0 ≠ 1 then .fail [] .malformedNode else
  -- LabelBitLength.UnmarshalBinary(data[1:]) cannot fail: at least 3 bytes remain
  let bits := le16At d 1
  let labelLen := toBytes bits
  let pos := 1 + 2
  if pos + labelLen > d.length then .fail [] .malformedNode else
  -- n.Label = make(Key, labelLen)
  let label := slice d pos labelLen
  let pos := pos + labelLen
  if pos ≥ d.length then .fail [labelLen] .malformedNode else
  let s := decodeLeafSlotA d pos
  match s.res with
  | .error e => .fail (labelLen :: s.allocs) e
  | .ok (leaf, sz) =>
    let pos := pos + sz
    if d.length ≥ pos + hashSize * 2 then
      ⟨labelLen :: s.allocs,
       .ok ({ labelBits := bits, label := label, leaf := leaf,
              children := some (optHash (slice d pos hashSize), optHash (slice d (pos + hashSize) hashSize)) },
            pos + hashSize * 2)⟩
    else
      ⟨labelLen :: s.allocs,
       .ok ({ labelBits := bits, label := label, leaf := leaf, children := none }, pos)⟩

/-- `node.UnmarshalBinary`: dispatch on the first byte.  (Go drops the consumed size here; the
model keeps it so that the bounds theorems speak about it.) -/
def unmarshalNodeA (d : Bytes) : Dec Node :=
  if d.length > 1 then
    if byteAt d 0 = 0 then
      let l := decodeLeafA d
      match l.res with
      | .error e => .fail l.allocs e
      | .ok (lf, sz) => ⟨l.allocs, .ok (.leaf lf, sz)⟩
    else if byteAt d 0 = 1 then
      let n := decodeInternalA d
      match n.res with
      | .error e => .fail n.allocs e
      | .ok (nd, sz) => ⟨n.allocs, .ok (.internal nd, sz)⟩
    else .fail [] .malformedNode
  else .fail [] .malformedNode

/-- `hash.Hash.UnmarshalBinary`: exactly 32 bytes. -/
def decodeHashA (d : Bytes) : Dec Bytes :=
  if d.length ≠ hashSize then .fail [] .malformedHash else ⟨[], .ok (d, hashSize)⟩

/-! Plain (uninstrumented) views. -/
def decodeDepth (d : Bytes) := (decodeDepthA d).res
def decodeKey (d : Bytes) := (decodeKeyA d).res
def decodeLeaf (d : Bytes) := (decodeLeafA d).res
def decodeInternal (d : Bytes) := (decodeInternalA d).res
def unmarshalNode (d : Bytes) := (unmarshalNodeA d).res
def decodeHash (d : Bytes) := (decodeHashA d).res

/-! ### Well-formedness: the values that serializations can represent -/

def Leaf.WF (l : Leaf) : Prop := l.key.length < 65536 ∧ l.value.length < 4294967296

def hashWF : Option Bytes → Prop
  | none => True
  | some h => h.length = hashSize ∧ h ≠ emptyHash

def Internal.WF (n : Internal) : Prop :=
  n.labelBits < 65536 ∧ n.label.length = toBytes n.labelBits ∧
  (∀ l, n.leaf = some l → l.WF) ∧
  (∀ c, n.children = some c → hashWF c.1 ∧ hashWF c.2)

def Node.WF : Node → Prop
  | .leaf l => l.WF
  | .internal n => n.WF

end OasisModel.Codec
