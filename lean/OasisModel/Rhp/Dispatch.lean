/-
C16 (runtime-host protocol) — small-step model of the response dispatcher of the runtime host protocol
connection, written as the Go code writes it.

  go/runtime/host/protocol/connection.go:155-156   pendingRequests map[uint64]chan<- *Body, nextRequestID uint64
  go/runtime/host/protocol/connection.go:200-218   Close: conn.Close(); quitWg.Wait()   (waits for workerIncoming)
  go/runtime/host/protocol/connection.go:241-294   call: respCh := make(chan *Body, 1) (262); under c.Lock():
                                                   id := nextRequestID; nextRequestID++; pendingRequests[id] = respCh
                                                   (264-268); deferred delete(pendingRequests, id) under c.Lock()
                                                   (270-274); sendMessage (283); readResponse (288)
  go/runtime/host/protocol/connection.go:307-321   readResponse: select { resp := <-respCh | <-closeCh | <-ctx.Done() }
  go/runtime/host/protocol/connection.go:390-404   handleMessage, case MessageResponse: c.Lock(); respCh, ok :=
                                                   pendingRequests[id]; delete(pendingRequests, id); c.Unlock() (392-395);
                                                   !ok: log and drop (397-402); respCh <- &message.Body (404) — a plain
                                                   send, no select: it has no way out other than a receiver or buffer space
  go/runtime/host/protocol/connection.go:412-447   workerIncoming: one goroutine per frame (wg.Go, 439-445);
                                                   `defer wg.Wait()` (415) — so Close waits for every handler goroutine

What is modelled. The peer (an untrusted runtime) chooses the frames: any ids (unknown, duplicate, replayed,
late), any bodies (a body is a `Nat` here: only its identity matters). The scheduler chooses the interleaving of
handler goroutines, callers and cancellations. One handler goroutine is two atomic actions: the critical section
392-395 (`lookup`) and the channel send 404 (`send`); `response` is the two back to back. A caller is
`call`, then `recv` (the `resp := <-respCh` branch of the select, possible only when the buffer holds a body) or
`giveUp` (the `closeCh` / `ctx.Done()` branches, or `sendMessage` failing at 283-285), each followed by the
deferred delete. When both branches of the select are ready Go picks either: both steps are enabled.

A Go channel of capacity 1 is `Chan.buf` (at most one body) plus `Chan.blocked`, the queue of goroutines parked
in `respCh <- body` (FIFO, runtime/chan.go). A receive takes the buffered body and then the first parked sender
completes its send into the freed slot. A parked sender has no other way to continue: it stays in `blocked`
(and counted in `started - returned`, the WaitGroup counter of workerIncoming) until a receive frees it.

Ghost fields (no counterpart in the code, they only observe): `Chan.sends`, `started`, `returned`, `dropped`,
`delivered`.

Not modelled: `nextRequestID` is a `uint64` and wraps after 2^64 calls (ids are `Nat` here); the
`MessageRequest` branch (its only send, `sendMessage` 296-305, selects on `closeCh` and `ctx.Done()`).

`responseNoDelete` is NOT the code: it is a seeded mutation (lookup without the delete at 394), kept apart in
`MStep` for the negative witness.

Core Lean only.
-/
namespace OasisModel.Rhp.Dispatch

/-- A response body; only its identity matters. -/
abbrev Body := Nat

/-- One `respCh` (connection.go:262) together with the state of the caller that owns it. -/
structure Chan where
  /-- contents of the buffer, capacity 1 -/
  buf : List Body := []
  /-- the caller took a body (`resp := <-respCh`, connection.go:309) -/
  received : Bool := false
  /-- the caller left through `closeCh` / `ctx.Done()` (connection.go:316-319, 283-285) -/
  gaveUp : Bool := false
  /-- bodies of the handler goroutines parked in `respCh <- body` (connection.go:404), oldest first -/
  blocked : List Body := []
  /-- ghost: number of times `respCh <- body` was executed on this channel (completed or parked) -/
  sends : Nat := 0
deriving DecidableEq, Repr, Inhabited

/-- Number of bodies in the buffer (0 or 1). -/
def Chan.buffered (c : Chan) : Nat := c.buf.length

/-- `respCh <- body` on a channel of capacity 1: into the buffer if it is empty, otherwise the goroutine
parks. The flag says whether the send completed. -/
def Chan.send (c : Chan) (b : Body) : Chan × Bool :=
  if c.buf.length < 1 then ({ c with buf := c.buf ++ [b], sends := c.sends + 1 }, true)
  else ({ c with blocked := c.blocked ++ [b], sends := c.sends + 1 }, false)

/-- After a receive removed the head of the buffer (`rest` is what is left of it): the oldest parked sender,
if any, completes its send. The flag says whether a sender was freed. -/
def Chan.afterRecv (c : Chan) (rest : List Body) : Chan × Bool :=
  match c.blocked with
  | [] => ({ c with buf := rest, received := true }, false)
  | b' :: bl => ({ c with buf := rest ++ [b'], blocked := bl, received := true }, true)

structure State where
  /-- `c.nextRequestID` -/
  nextId : Nat := 0
  /-- key set of `c.pendingRequests` -/
  pending : List Nat := []
  /-- the channel made by the call that got this id -/
  chans : Nat → Chan := fun _ => {}
  /-- handler goroutines between `c.Unlock()` (395) and the send (404): they hold `respCh` of that id -/
  inflight : List (Nat × Body) := []
  /-- ghost: handler goroutines started (`wg.Go`, 439) -/
  started : Nat := 0
  /-- ghost: handler goroutines that returned (`wg.Done`) -/
  returned : Nat := 0
  /-- ghost: response frames logged and dropped (397-402) -/
  dropped : Nat := 0
  /-- ghost: bodies returned by `call` to its caller, oldest first -/
  delivered : List (Nat × Body) := []

def init : State := {}

/-- `delete(c.pendingRequests, id)`. -/
def del (p : List Nat) (id : Nat) : List Nat := p.filter (fun j => j != id)

def State.setChan (s : State) (id : Nat) (c : Chan) : State :=
  { s with chans := fun j => if j = id then c else s.chans j }

/-- connection.go:262-268. -/
def call (s : State) : State :=
  { s with nextId := s.nextId + 1, pending := s.nextId :: s.pending,
           chans := fun j => if j = s.nextId then {} else s.chans j }

/-- connection.go:404 executed by a handler goroutine that holds `respCh` of `id`; it returns iff the send
completes. -/
def doSend (s : State) (id : Nat) (b : Body) : State :=
  let r := (s.chans id).send b
  { s.setChan id r.1 with returned := if r.2 then s.returned + 1 else s.returned }

/-- connection.go:392-402: a new handler goroutine runs its critical section. -/
def lookup (s : State) (id : Nat) (b : Body) : State :=
  if id ∈ s.pending then
    { s with started := s.started + 1, pending := del s.pending id, inflight := s.inflight ++ [(id, b)] }
  else
    { s with started := s.started + 1, returned := s.returned + 1, dropped := s.dropped + 1 }

/-- connection.go:404: one of the handler goroutines past its critical section performs its send. -/
def send (s : State) (id : Nat) (b : Body) : State :=
  if (id, b) ∈ s.inflight then doSend { s with inflight := s.inflight.erase (id, b) } id b else s

/-- connection.go:392-404 without another goroutine in between. -/
def response (s : State) (id : Nat) (b : Body) : State :=
  if id ∈ s.pending then
    doSend { s with started := s.started + 1, pending := del s.pending id } id b
  else
    { s with started := s.started + 1, returned := s.returned + 1, dropped := s.dropped + 1 }

/-- The caller of `id` is still inside `call` (it has neither received nor given up). -/
def waiting (s : State) (id : Nat) : Bool :=
  decide (id < s.nextId) && !(s.chans id).received && !(s.chans id).gaveUp

/-- connection.go:309-315 then 270-274: enabled when the caller is waiting and the buffer holds a body. -/
def recv (s : State) (id : Nat) : State :=
  if waiting s id then
    match (s.chans id).buf with
    | [] => s
    | b :: rest =>
      let r := (s.chans id).afterRecv rest
      { s.setChan id r.1 with
          pending := del s.pending id, delivered := s.delivered ++ [(id, b)],
          returned := if r.2 then s.returned + 1 else s.returned }
  else s

/-- connection.go:316-319 (or 283-285) then 270-274. -/
def giveUp (s : State) (id : Nat) : State :=
  if waiting s id then
    { s.setChan id { s.chans id with gaveUp := true } with pending := del s.pending id }
  else s

/-- SEEDED MUTATION, not the code: the lookup at 393 without the delete at 394 (e.g. under a read lock). -/
def responseNoDelete (s : State) (id : Nat) (b : Body) : State :=
  if id ∈ s.pending then doSend { s with started := s.started + 1 } id b
  else { s with started := s.started + 1, returned := s.returned + 1, dropped := s.dropped + 1 }

/-- The steps of the code. -/
inductive Step where
  | call
  | response (id : Nat) (b : Body)
  | lookup (id : Nat) (b : Body)
  | send (id : Nat) (b : Body)
  | recv (id : Nat)
  | giveUp (id : Nat)
deriving DecidableEq, Repr

/-- Steps in which a handler goroutine is not split into its two actions. -/
def Step.atomic : Step → Bool
  | .lookup _ _ => false
  | .send _ _ => false
  | _ => true

def step (s : State) : Step → State
  | .call => call s
  | .response id b => response s id b
  | .lookup id b => lookup s id b
  | .send id b => send s id b
  | .recv id => recv s id
  | .giveUp id => giveUp s id

def run (s : State) (steps : List Step) : State := steps.foldl step s

/-- The steps of the mutated dispatcher: everything the code does, plus `responseNoDelete`. -/
inductive MStep where
  | genuine (st : Step)
  | responseNoDelete (id : Nat) (b : Body)
deriving DecidableEq, Repr

def mstep (s : State) : MStep → State
  | .genuine st => step s st
  | .responseNoDelete id b => responseNoDelete s id b

def mrun (s : State) (steps : List MStep) : State := steps.foldl mstep s

/-- The WaitGroup counter of workerIncoming (connection.go:414-415): handler goroutines that have not
returned. `Close` returns only when it is 0. -/
def State.unreturned (s : State) : Nat := s.started - s.returned

/-- Run every handler goroutine that is past its critical section up to its send. -/
def drain (s : State) : State :=
  s.inflight.foldl (fun t p => send t p.1 p.2) s

end OasisModel.Rhp.Dispatch
