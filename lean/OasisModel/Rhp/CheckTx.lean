/-
C16 (runtime-host protocol, check-tx) — what the node does with a DECODED check-tx batch response of the
untrusted runtime, written as the Go code writes it, with the partial operations of Go made explicit.

  go/runtime/host/protocol/types.go:316-322   CheckTxResult { Error Error; Meta *CheckTxMetadata (omitempty) }
  go/runtime/host/protocol/types.go:325-336   CheckTxMetadata { Priority, Sender, SenderSeq, SenderStateSeq }
  go/runtime/host/protocol/types.go:339-341   IsSuccess: Error.Code == CodeNoError (= 0)
  go/runtime/host/helpers.go:68-104           richRuntime.CheckTx: r.Call; shape checks of the response:
                                              err != nil (90); RuntimeCheckTxBatchResponse == nil (92);
                                              len(Results) != len(batch) (94); every successful result carries
                                              metadata (97-102, since /repo 2aebad9)
  go/runtime/txpool/txpool.go:459-656         checkTxBatch: pop (488); CheckTx (493-503); on error
                                              retryBatch(batch), return err (521-526); notifySubmitter (530-537);
                                              first loop `for i, res := range results` (542-574) indexing
                                              `batch[i]` (546, 554, 561, 568, 570, 572); kick (577-579); early
                                              return (581-583); second loop `for i, pct := range goodPcts`
                                              (592-639): `batchIndices[i]` (593), `results[idx]` (594),
                                              `res.Meta.Sender` (599), state-seq workaround (599-604),
                                              mainQueue.Add(pct.TxQueueMeta, res.Meta) (606), notify (618, 623),
                                              seenCache.Put (637); Broadcast(newTxs) (641-651)
  go/runtime/txpool/check_queue.go:49-57      retryBatch: PushFront of every element in order

What is modelled. The runtime is untrusted: the reply is ANY of {call error, a body of another kind, a
check-tx response with ANY list of results}; a result is an error code and an OPTIONAL metadata record. The
batch is any list of pending transactions with their flags. Go's partial operations are explicit: `index l i`
(slice indexing `l[i]`) and `deref o` (reading a field through a pointer) return the distinguished outcome
`panic` when out of range / nil; everything else is total. `checkTxBatch` below is lines 528-655 (the part that
consumes `results`), `checkWorker` is the whole function from the pop on (488-655).

Ghost fields (no counterpart in the code, they only observe): the batch index stored with each notification
and each `mainQueue.Add` call.

`mainQueue.Add` is not modelled here (it is `TxPool/Sched.lean`): its verdict is an arbitrary function
`addFails` of the calls made so far and of the arguments, which covers every deterministic queue.

Pointer aliasing at 594-604, 618/623: `res := results[idx]` copies the struct, `res.Meta` still points to the
record of `results[idx]`; the write `res.Meta.SenderStateSeq = seq` is therefore seen by the submitter, who gets
`&results[idx]`; the write `res.Error = …` (613) goes to the copy and is NOT seen by the submitter. The model
does exactly that: the notified result is `results[idx]` with the metadata record after the write, error code
unchanged. (Every index occurs at most once in `batchIndices`, so no later iteration reads the written record.)

Not modelled: the checks before the pop (461-485: runtime version, dispatch info, round synced), metrics other
than the two counters, time stamps of `seenCache.Put`, the republish kick (644-647), the runtime abort on
context cancellation (506-519: it falls through to the same `retryBatch`).

`richCheckTxLt` and `richCheckTxNoMeta` are NOT the code: the first is a seeded mutation (`!=` relaxed to `<` at
helpers.go:94), the second is the code before 2aebad9 (no metadata check); kept apart for the negative witnesses.

Core Lean only.
-/
namespace OasisModel.Rhp.CheckTx

/-! ### data -/

/-- `protocol.CheckTxMetadata` (types.go:325-336). `sender` is `Sender []byte`: only its identity matters (it is
used as a map key, txpool.go:599). -/
structure Meta where
  priority : Nat := 0
  sender : Nat := 0
  senderSeq : Nat := 0
  senderStateSeq : Nat := 0
deriving DecidableEq, Repr, Inhabited

/-- `protocol.CheckTxResult` (types.go:316-322): `code` is `Error.Code`, `md` is the pointer `Meta`
(`none` = nil: the field is absent, or the whole array element is CBOR null). -/
structure Result where
  code : Nat := 0
  md : Option Meta := none
deriving DecidableEq, Repr, Inhabited

/-- types.go:339-341. -/
def Result.isSuccess (r : Result) : Bool := r.code == 0

/-- `PendingCheckTransaction` (transaction.go:8-19). `hash` stands for the embedded `*TxQueueMeta`,
`hasNotify` is `notifyCh != nil`. -/
structure Pct where
  hash : Nat := 0
  isLocal : Bool := false
  discard : Bool := false
  checked : Bool := false
  hasNotify : Bool := false
deriving DecidableEq, Repr, Inhabited

/-- What came back from `r.Call` (helpers.go:80-88). -/
inductive Reply
  /-- `err != nil` (helpers.go:90): also context cancellation / deadline -/
  | callError
  /-- a body whose `RuntimeCheckTxBatchResponse` is nil (helpers.go:92) -/
  | otherBody
  /-- a check-tx batch response with these results -/
  | checkTx (results : List Result)
deriving DecidableEq, Repr, Inhabited

/-- The errors of `richRuntime.CheckTx` (all `ErrInternal` with a context string). -/
inductive Err
  | callFailed       -- helpers.go:91
  | malformed        -- helpers.go:93
  | incorrectCount   -- helpers.go:95
  | missingMeta      -- helpers.go:100
deriving DecidableEq, Repr, Inhabited

/-! ### the shape checks of `richRuntime.CheckTx` -/

/-- helpers.go:97-102: no successful result without metadata. -/
def metaPresent : List Result → Bool
  | [] => true
  | r :: rs => if r.isSuccess && r.md.isNone then false else metaPresent rs

/-- `richRuntime.CheckTx` after the call (helpers.go:89-103); `n` is `len(batch)`. -/
def richCheckTx (reply : Reply) (n : Nat) : Except Err (List Result) :=
  match reply with
  | .callError => .error .callFailed
  | .otherBody => .error .malformed
  | .checkTx results =>
    if results.length != n then .error .incorrectCount
    else if !metaPresent results then .error .missingMeta
    else .ok results

/-- NOT the code — seeded mutation: `!=` relaxed to `<` at helpers.go:94. -/
def richCheckTxLt (reply : Reply) (n : Nat) : Except Err (List Result) :=
  match reply with
  | .callError => .error .callFailed
  | .otherBody => .error .malformed
  | .checkTx results =>
    if results.length < n then .error .incorrectCount
    else if !metaPresent results then .error .missingMeta
    else .ok results

/-- NOT the code — the code before 2aebad9: no metadata check. -/
def richCheckTxNoMeta (reply : Reply) (n : Nat) : Except Err (List Result) :=
  match reply with
  | .callError => .error .callFailed
  | .otherBody => .error .malformed
  | .checkTx results =>
    if results.length != n then .error .incorrectCount
    else .ok results

/-! ### Go's partial operations -/

/-- The two run-time panics that untrusted `results` could cause. -/
inductive Panic
  | indexOutOfRange
  | nilDeref
deriving DecidableEq, Repr, Inhabited

/-- The outcome of a piece of Go code: it ran to the end, or it panicked. -/
inductive Outcome (α : Type) where
  | done (a : α)
  | panic (p : Panic)
deriving Repr

namespace Outcome

@[inline] def bind {α β : Type} (x : Outcome α) (f : α → Outcome β) : Outcome β :=
  match x with
  | .done a => f a
  | .panic p => .panic p

instance : Monad Outcome where
  pure := .done
  bind := Outcome.bind

instance {α : Type} [DecidableEq α] : DecidableEq (Outcome α) := fun a b =>
  match a, b with
  | .done x, .done y => if h : x = y then isTrue (by rw [h]) else isFalse (by intro h'; cases h'; exact h rfl)
  | .panic x, .panic y => if h : x = y then isTrue (by rw [h]) else isFalse (by intro h'; cases h'; exact h rfl)
  | .done _, .panic _ => isFalse (by intro h; cases h)
  | .panic _, .done _ => isFalse (by intro h; cases h)

end Outcome

/-- Slice indexing `l[i]`: panics when `i` is out of range. -/
def index {α : Type} (l : List α) (i : Nat) : Outcome α :=
  match l[i]? with
  | some a => .done a
  | none => .panic .indexOutOfRange

/-- Reading through a pointer: panics on nil. -/
def deref {α : Type} (o : Option α) : Outcome α :=
  match o with
  | some a => .done a
  | none => .panic .nilDeref

/-! ### outputs -/

/-- One call `mainQueue.Add(pct.TxQueueMeta, res.Meta)` (txpool.go:606). `idx` is a ghost (the batch index),
`failed` is `err != nil`. -/
structure AddCall where
  idx : Nat
  tx : Pct
  md : Meta
  failed : Bool
deriving DecidableEq, Repr, Inhabited

/-- Everything `checkTxBatch` does to the rest of the node. -/
structure Out where
  /-- `rejectedTransactions.Inc()` (544) -/
  rejected : Nat := 0
  /-- `acceptedTransactions.Inc()` (569) -/
  accepted : Nat := 0
  /-- `seenCache.Remove(hash)` (554), in order -/
  seenRemoved : List Nat := []
  /-- `pct.notifyCh <- &results[i]` (536): ghost batch index and the result pointed to -/
  notifs : List (Nat × Result) := []
  /-- calls of `mainQueue.Add` (606), in order -/
  adds : List AddCall := []
  /-- `seenCache.Put(hash, …)` (637), in order -/
  seenPut : List Nat := []
  /-- `checkTxCh.In() <- struct{}{}` (577-579) -/
  kick : Bool := false
  /-- `checkTxNotifier.Broadcast(newTxs)` (650): the hashes; `[]` = no broadcast (641) -/
  broadcast : List Nat := []
deriving DecidableEq, Repr, Inhabited

/-- The verdict of `mainQueue.Add`: any function of the calls made so far and of the arguments. -/
abbrev AddOracle := List AddCall → Pct → Meta → Bool

/-! ### `checkTxBatch` -/

/-- `notifySubmitter` (txpool.go:530-537): `pct := batch[i]`; nothing if `notifyCh == nil`; else send
`&results[i]`. -/
def notifySubmitter (batch : List Pct) (results : List Result) (i : Nat) (out : Out) : Outcome Out := do
  let pct ← index batch i
  if pct.hasNotify then
    let r ← index results i
    pure { out with notifs := out.notifs ++ [(i, r)] }
  else
    pure out

/-- The locals of the first loop (txpool.go:539-541) and the outputs so far. -/
structure Acc where
  newTxs : List Pct := []
  goodPcts : List Pct := []
  batchIndices : List Nat := []
  out : Out := {}
deriving DecidableEq, Repr, Inhabited

/-- First loop, `for i, res := range results` (txpool.go:542-574). The third argument is the part of `results`
not yet visited, `i` its position. `res` is the range copy (no indexing); `batch[i]` is indexed. -/
def classify (batch : List Pct) (results : List Result) : List Result → Nat → Acc → Outcome Acc
  | [], _, acc => .done acc
  | res :: rest, i, acc =>
    if !res.isSuccess then do
      -- 543-559: batch[i].Raw(), batch[i].Hash() (546, 547, 554), notifySubmitter(i), continue
      let pct ← index batch i
      let out := { acc.out with rejected := acc.out.rejected + 1,
                                seenRemoved := acc.out.seenRemoved ++ [pct.hash] }
      let out ← notifySubmitter batch results i out
      classify batch results rest (i + 1) { acc with out := out }
    else do
      -- 561: batch[i].discard
      let pct ← index batch i
      if pct.discard then do
        let out ← notifySubmitter batch results i acc.out
        classify batch results rest (i + 1) { acc with out := out }
      else
        -- 568-573
        let acc := if !pct.checked then
            { acc with newTxs := acc.newTxs ++ [pct],
                       out := { acc.out with accepted := acc.out.accepted + 1 } }
          else acc
        classify batch results rest (i + 1)
          { acc with goodPcts := acc.goodPcts ++ [pct], batchIndices := acc.batchIndices ++ [i] }

/-- The locals of the second loop: `stateSeqNums` (txpool.go:591) as an association list, and the outputs. -/
structure QSt where
  seqs : List (Nat × Nat) := []
  out : Out := {}
deriving DecidableEq, Repr, Inhabited

/-- Second loop, `for i, pct := range goodPcts` (txpool.go:592-639). The fourth argument is the part of
`goodPcts` not yet visited, `i` its position. -/
def queueGood (addFails : AddOracle) (batch : List Pct) (results : List Result) (batchIndices : List Nat) :
    List Pct → Nat → QSt → Outcome QSt
  | [], _, st => .done st
  | pct :: rest, i, st => do
    let idx ← index batchIndices i          -- 593
    let res ← index results idx             -- 594
    let m ← deref res.md                    -- 599: res.Meta.Sender
    -- 599-604: the state-seq workaround
    let (m', seqs') := match st.seqs.lookup m.sender with
      | some seq => ({ m with senderStateSeq := seq }, st.seqs)
      | none => (m, (m.sender, m.senderStateSeq) :: st.seqs)
    -- 606
    let failed := addFails st.out.adds pct m'
    let out := { st.out with adds := st.out.adds ++ [{ idx := idx, tx := pct, md := m', failed := failed }] }
    -- 618 / 623: the submitter gets &results[idx], whose Meta record was written at 601 (see the header)
    let out ← notifySubmitter batch (results.set idx { res with md := some m' }) idx out
    -- 625-638
    let out := if !failed && !pct.checked then { out with seenPut := out.seenPut ++ [pct.hash] } else out
    queueGood addFails batch results batchIndices rest (i + 1) { seqs := seqs', out := out }

/-- txpool.go:528-655: what `checkTxBatch` does with `results` once `CheckTx` returned without error.
`queueSize` is `t.checkTxQueue.size()` after the pop. -/
def checkTxBatch (addFails : AddOracle) (batch : List Pct) (queueSize : Nat) (results : List Result) :
    Outcome Out := do
  let acc ← classify batch results results 0 {}
  -- 577-579
  let out := { acc.out with kick := decide (queueSize > 0) }
  -- 581-583
  if acc.goodPcts.length == 0 then
    pure out
  else do
    let st ← queueGood addFails batch results acc.batchIndices acc.goodPcts 0 { seqs := [], out := out }
    -- 641-651
    if acc.newTxs.length != 0 then
      pure { st.out with broadcast := acc.newTxs.map (·.hash) }
    else
      pure st.out

/-- `checkTxQueue.retryBatch` (check_queue.go:49-57): every element is pushed to the front, in order. -/
def retryBatch (batch queue : List Pct) : List Pct :=
  batch.foldl (fun q pct => pct :: q) queue

/-- What the check worker is left with after one `checkTxBatch` call. -/
structure WorkerResult where
  /-- the error returned (`nil` = none) -/
  err : Option Err
  /-- the check queue afterwards -/
  queue : List Pct
  out : Out
deriving DecidableEq, Repr, Inhabited

/-- txpool.go:488-655 with a given shape check `rich` (the code: `richCheckTx`): `batch` is what `pop`
returned, `queue` what it left. -/
def checkWorkerWith (rich : Reply → Nat → Except Err (List Result)) (addFails : AddOracle) (reply : Reply)
    (batch queue : List Pct) : Outcome WorkerResult :=
  -- 489-491
  if batch.length == 0 then .done { err := none, queue := queue, out := {} } else
  match rich reply batch.length with
  | .error e =>
    -- 521-526
    .done { err := some e, queue := retryBatch batch queue, out := {} }
  | .ok results => do
    let out ← checkTxBatch addFails batch queue.length results
    pure { err := none, queue := queue, out := out }

/-- The code: `richRuntime.CheckTx` followed by the rest of `checkTxBatch`. -/
def checkWorker (addFails : AddOracle) (reply : Reply) (batch queue : List Pct) : Outcome WorkerResult :=
  checkWorkerWith richCheckTx addFails reply batch queue

end OasisModel.Rhp.CheckTx
