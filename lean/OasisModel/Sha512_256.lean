/-
SHA-512/256 (FIPS 180-4 §5.3.6.2, §6.4, §6.7) in core Lean, used by the executable models so that
root hashes can be compared *byte for byte* with the Go implementation (`hash.Hash.FromBytes`,
go/common/crypto/hash/hash.go:94 = `sha512.New512_256`).  The theorems never unfold this function:
they are stated for an arbitrary `H` under the hypothesis `Function.Injective H`.

Constants lifted from Go's crypto/sha512 (sha512.go init*_256, sha512block.go _K).
Validated against Go on every correspondence run (every committed root hash).
-/
namespace OasisModel.Sha512_256

def K : Array UInt64 := #[
    0x428a2f98d728ae22, 0x7137449123ef65cd, 0xb5c0fbcfec4d3b2f, 0xe9b5dba58189dbbc,
    0x3956c25bf348b538, 0x59f111f1b605d019, 0x923f82a4af194f9b, 0xab1c5ed5da6d8118,
    0xd807aa98a3030242, 0x12835b0145706fbe, 0x243185be4ee4b28c, 0x550c7dc3d5ffb4e2,
    0x72be5d74f27b896f, 0x80deb1fe3b1696b1, 0x9bdc06a725c71235, 0xc19bf174cf692694,
    0xe49b69c19ef14ad2, 0xefbe4786384f25e3, 0x0fc19dc68b8cd5b5, 0x240ca1cc77ac9c65,
    0x2de92c6f592b0275, 0x4a7484aa6ea6e483, 0x5cb0a9dcbd41fbd4, 0x76f988da831153b5,
    0x983e5152ee66dfab, 0xa831c66d2db43210, 0xb00327c898fb213f, 0xbf597fc7beef0ee4,
    0xc6e00bf33da88fc2, 0xd5a79147930aa725, 0x06ca6351e003826f, 0x142929670a0e6e70,
    0x27b70a8546d22ffc, 0x2e1b21385c26c926, 0x4d2c6dfc5ac42aed, 0x53380d139d95b3df,
    0x650a73548baf63de, 0x766a0abb3c77b2a8, 0x81c2c92e47edaee6, 0x92722c851482353b,
    0xa2bfe8a14cf10364, 0xa81a664bbc423001, 0xc24b8b70d0f89791, 0xc76c51a30654be30,
    0xd192e819d6ef5218, 0xd69906245565a910, 0xf40e35855771202a, 0x106aa07032bbd1b8,
    0x19a4c116b8d2d0c8, 0x1e376c085141ab53, 0x2748774cdf8eeb99, 0x34b0bcb5e19b48a8,
    0x391c0cb3c5c95a63, 0x4ed8aa4ae3418acb, 0x5b9cca4f7763e373, 0x682e6ff3d6b2b8a3,
    0x748f82ee5defb2fc, 0x78a5636f43172f60, 0x84c87814a1f0ab72, 0x8cc702081a6439ec,
    0x90befffa23631e28, 0xa4506cebde82bde9, 0xbef9a3f7b2c67915, 0xc67178f2e372532b,
    0xca273eceea26619c, 0xd186b8c721c0c207, 0xeada7dd6cde0eb1e, 0xf57d4f7fee6ed178,
    0x06f067aa72176fba, 0x0a637dc5a2c898a6, 0x113f9804bef90dae, 0x1b710b35131c471b,
    0x28db77f523047d84, 0x32caab7b40c72493, 0x3c9ebe0a15c9bebc, 0x431d67c49c100d4c,
    0x4cc5d4becb3e42b6, 0x597f299cfc657e2a, 0x5fcb6fab3ad6faec, 0x6c44198c4a475817]

def iv : Array UInt64 := #[
    0x22312194fc2bf72c, 0x9f555fa3c84c64c2, 0x2393b86b6f53b151, 0x963877195940eabd,
    0x96283ee2a88effe3, 0xbe5e1e2553863992, 0x2b0199fc2c85b8aa, 0x0eb72ddc81c52ca2]

@[inline] def rotr (x : UInt64) (n : UInt64) : UInt64 := (x >>> n) ||| (x <<< (64 - n))

/-- Padding: 0x80, zeros up to 112 mod 128, then the bit length as a 128-bit big-endian number. -/
def pad (msg : List UInt8) : Array UInt8 := Id.run do
  let len := msg.length
  let mut a : Array UInt8 := msg.toArray
  a := a.push 0x80
  let z := (240 - (len + 1) % 128) % 128   -- (112 - (len+1)) mod 128
  for _ in [0:z] do
    a := a.push 0
  let bits := len * 8
  for i in [0:16] do
    a := a.push (UInt8.ofNat ((bits >>> (8 * (15 - i))) % 256))
  return a

def word (a : Array UInt8) (off : Nat) : UInt64 := Id.run do
  let mut w : UInt64 := 0
  for i in [0:8] do
    w := (w <<< 8) ||| (a[off + i]!).toUInt64
  return w

def block (h : Array UInt64) (a : Array UInt8) (off : Nat) : Array UInt64 := Id.run do
  let mut w : Array UInt64 := Array.mkEmpty 80
  for i in [0:16] do
    w := w.push (word a (off + 8 * i))
  for i in [16:80] do
    let v1 := w[i - 2]!
    let t1 := rotr v1 19 ^^^ rotr v1 61 ^^^ (v1 >>> 6)
    let v2 := w[i - 15]!
    let t2 := rotr v2 1 ^^^ rotr v2 8 ^^^ (v2 >>> 7)
    w := w.push (t1 + w[i - 7]! + t2 + w[i - 16]!)
  let mut a0 := h[0]!
  let mut b := h[1]!
  let mut c := h[2]!
  let mut d := h[3]!
  let mut e := h[4]!
  let mut f := h[5]!
  let mut g := h[6]!
  let mut hh := h[7]!
  for i in [0:80] do
    let t1 := hh + (rotr e 14 ^^^ rotr e 18 ^^^ rotr e 41) + ((e &&& f) ^^^ ((~~~ e) &&& g)) + K[i]! + w[i]!
    let t2 := (rotr a0 28 ^^^ rotr a0 34 ^^^ rotr a0 39) + ((a0 &&& b) ^^^ (a0 &&& c) ^^^ (b &&& c))
    hh := g
    g := f
    f := e
    e := d + t1
    d := c
    c := b
    b := a0
    a0 := t1 + t2
  return #[h[0]! + a0, h[1]! + b, h[2]! + c, h[3]! + d, h[4]! + e, h[5]! + f, h[6]! + g, h[7]! + hh]

/-- SHA-512/256 of a byte string: 32 bytes. -/
def hash (msg : List UInt8) : List UInt8 := Id.run do
  let a := pad msg
  let mut h := iv
  for i in [0:a.size / 128] do
    h := block h a (128 * i)
  let mut out : Array UInt8 := Array.mkEmpty 32
  for i in [0:4] do
    let x := h[i]!
    for j in [0:8] do
      out := out.push (x >>> (8 * (7 - UInt64.ofNat j))).toUInt8
  return out.toList

end OasisModel.Sha512_256
