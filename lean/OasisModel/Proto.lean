/-
Line-protocol helpers shared by all model drivers (core Lean only).
One operation per input line, one answer per output line.
-/
namespace OasisModel.Proto

def words (s : String) : List String :=
  (s.trimAscii.toString.splitOn " ").filter (· ≠ "")

/-- Comma separated naturals; `-` is the empty list. -/
def parseNats (s : String) : Option (List Nat) :=
  if s == "-" then some [] else (s.splitOn ",").mapM String.toNat?

def showNats (l : List Nat) : String :=
  if l.isEmpty then "-" else ",".intercalate (l.map toString)

def hexNib (c : Char) : Option Nat :=
  if c.isDigit then some (c.toNat - 48)
  else if 'a' ≤ c ∧ c ≤ 'f' then some (c.toNat - 87)
  else if 'A' ≤ c ∧ c ≤ 'F' then some (c.toNat - 55)
  else none

/-- Hex string to bytes; `-` is the empty byte string. -/
def parseHex (s : String) : Option (List UInt8) :=
  if s == "-" then some [] else
  let rec go : List Char → Option (List UInt8)
    | [] => some []
    | [_] => none
    | a :: b :: rest => do
      let x ← hexNib a
      let y ← hexNib b
      let r ← go rest
      pure (UInt8.ofNat (x * 16 + y) :: r)
  go s.toList

def hexDigit (n : Nat) : Char :=
  if n < 10 then Char.ofNat (48 + n) else Char.ofNat (87 + n)

def showHex (b : List UInt8) : String :=
  if b.isEmpty then "-" else
  String.ofList (b.flatMap fun x => [hexDigit (x.toNat / 16), hexDigit (x.toNat % 16)])

/-- Run a line-by-line interpreter over stdin. `step` returns the new state and the answer. -/
partial def loop {σ : Type} (step : σ → String → σ × String) (s : σ) : IO Unit := do
  let stdin ← IO.getStdin
  let stdout ← IO.getStdout
  let rec go (s : σ) : IO Unit := do
    let line ← stdin.getLine
    if line.isEmpty then
      stdout.flush
      return ()
    let (s', out) := step s line
    stdout.putStrLn out
    go s'
  go s

end OasisModel.Proto
