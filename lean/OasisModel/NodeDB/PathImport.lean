/-
Checkpoint chunk import of the path-keyed backend (C12, pathbadger).  Core Lean only.

What the Go code does (go/storage/mkvs):
  * checkpoint/chunk.go:268-344 `restoreChunk`: a chunk is a Merkle proof; `VerifyProof` rebuilds the
    partial tree it contains (full nodes on the paths from the root, hash-only pointers for everything
    else), `ndb.NewBatch(emptyRoot, version, chunk = true)`, `doRestoreChunk`, `batch.Commit(chunk.Root)`.
  * checkpoint/chunk.go:346-392 `doRestoreChunk`: PRE-ORDER walk.  For every non-nil pointer
    `VisitDirtyNode(ptr, parent)`; for an internal node then the internal leaf, Left, Right, and at the
    end `PutNode(ptr)`; for a leaf `PutNode(ptr)`; for a hash-only pointer (`ptr.Node == nil`) nothing
    is stored, but it WAS visited — it owns a database index from then on.
  * db/pathbadger/node.go:175-215 `refreshDbPtr`: a pointer without `DBInternal` gets one: index 0
    (`indexRootNode`) for the root, `lastIndex.Add(1)` otherwise; `lastIndex` is shared by all chunk
    batches of the restore (pathbadger.go:725-726, multipart.go:59-60 starts it at 0).  Then, during a
    multipart restore, the record stored under that index (root: under the root key of the restore,
    node.go:204-209) is looked up in `readTxn` — a snapshot taken when the batch was created
    (pathbadger.go:721), so the batch's own writes are not seen — and merged.
  * db/pathbadger/multipart.go:168-225 `multipartMergeWithExisting`: if a record exists and both
    copies are internal nodes, then for each of the three slots Left, Right, LeafNode INDEPENDENTLY
    (`continue`): if both pointers are non-nil and carry the same hash, the freshly re-imported
    pointer takes over the `DBInternal` of the stored one.  Hence the children are visited with the
    index that was assigned when the parent was imported for the first time.
  * db/pathbadger/node.go:218-253 `PutNode` / 266-310 `nodeToDb` / 330-420 `nodeFromDb`: the record of
    an internal node holds (hash, version, index) for Left and Right and the internal leaf INLINE (key,
    value); read back, the internal leaf pointer carries the invalid `dbPtr` (node.go:408-413), so a
    re-imported internal leaf inherits "invalid", gets no index and is not stored (node.go:225-227).
    The first time it does get an index and a stand-alone record nobody points to.
  * chunk batches are serialised by `mpLock` (pathbadger.go:727-748), the writes of one batch reach
    the database together at `Commit` (pathbadger.go:964-971).

There is NO hash→index table in the Go code: "already imported" means "a record exists under the index
inherited from the parent's record" (`readTxn.Get(dbKey)`, multipart.go:173).  The model follows the
code; `importedTable` below is the derived hash→position listing of the stored records.

Model.  Hashes are an abstract type `H` (the theorems need nothing of them: that a chunk is a view of
the checkpointed tree is what proof verification, C04, establishes).  `PTree`: nil pointer / hash-only
pointer / materialised node with its inline internal leaf (by hash) and two children.  A Go `LeafNode`
is `node h none nil nil`: for non-internal nodes multipart.go:183-186 / 198-201 return before the loop,
which is what the loop does on three nil slots.  Outside the model (`importable` in PathImportView.lean; never the case for checkpoint chunks, which
are version-0 proofs, file.go:28): a V1 proof whose materialised
internal node has a hash-only internal leaf (`nodeToDb`, node.go:299 type-asserts `*node.LeafNode` and
panics: the batch is never committed); versions (one restore = one version); key encoding.
-/
namespace OasisModel.NodeDB.PathImport

/-- Direction from a node to one of its three slots. -/
inductive Dir where
  | leaf | left | right
  deriving DecidableEq, Repr, Inhabited

/-- Partial tree rebuilt from a chunk (and, without `stub`, the checkpointed tree itself). -/
inductive PTree (H : Type) where
  | nil                                             -- nil pointer
  | stub (h : H)                                    -- `Pointer{Hash: h, Node: nil}`
  | node (h : H) (lf : Option H) (l r : PTree H)    -- materialised node, inline internal leaf
  deriving DecidableEq, Repr, Inhabited

/-- Stored record (`nodeToDb`): own hash, inline internal leaf, (hash, index) of Left and Right. -/
structure Rec (H : Type) where
  hash : H
  leaf : Option H
  left : Option (H × Nat)
  right : Option (H × Nat)
  deriving DecidableEq, Repr, Inhabited

/-- The node key space of the restore: index ↦ record (index 0 ≙ the root key). Newest binding first. -/
abbrev Store (H : Type) := List (Nat × Rec H)

variable {H : Type}

def sget : Store H → Nat → Option (Rec H)
  | [], _ => none
  | (k, v) :: rest, p => if k = p then some v else sget rest p

/-- `Commit`: the buffered writes of the batch reach the store in order (a later write wins). -/
def commit (old : Store H) (w : List (Nat × Rec H)) : Store H :=
  w.foldl (fun s kv => kv :: s) old

namespace PTree

def isNil : PTree H → Bool
  | .nil => true
  | _ => false

/-- `ptr.Hash` of a non-nil pointer. -/
def hash? : PTree H → Option H
  | .nil => none
  | .stub h => some h
  | .node h _ _ _ => some h

/-- The pointer alone, nothing materialised below it. -/
def asStub : PTree H → PTree H
  | .nil => .nil
  | .stub h => .stub h
  | .node h _ _ _ => .stub h

def depth : PTree H → Nat
  | .nil => 0
  | .stub _ => 0
  | .node _ _ l r => max l.depth r.depth + 1

/-- Materialised nodes (and inline leaves) with their paths from the root. -/
def nodes : PTree H → List (List Dir × H)
  | .nil => []
  | .stub _ => []
  | .node h lf l r =>
    ([], h) :: ((match lf with
                 | some hl => [([Dir.leaf], hl)]
                 | none => []) ++
      (l.nodes.map (fun x => (Dir.left :: x.1, x.2)) ++ r.nodes.map (fun x => (Dir.right :: x.1, x.2))))

/-- Hash of the pointer found at a path (materialised or not). -/
def hashAt : PTree H → List Dir → Option H
  | t, [] => t.hash?
  | .node _ lf _ _, [Dir.leaf] => lf
  | .node _ _ l _, Dir.left :: π => l.hashAt π
  | .node _ _ _ r, Dir.right :: π => r.hashAt π
  | _, _ => none

/-- No hash-only pointers: a complete tree. -/
def full : PTree H → Bool
  | .nil => true
  | .stub _ => false
  | .node _ _ l r => l.full && r.full

end PTree

section
variable [DecidableEq H]

/-- `leB c t`: `c` is a partial view of `t` — same pointers, `c` materialises fewer of them. -/
def leB : PTree H → PTree H → Bool
  | .nil, t => t.isNil
  | .stub h, t => decide (t.hash? = some h)
  | .node h lf l r, .node h' lf' l' r' => decide (h = h') && decide (lf = lf') && leB l l' && leB r r'
  | .node .., _ => false

/-- `Le c t`: what a verified chunk `c` is with respect to the checkpointed tree `t` (every
materialised node of `c` is the node of `t` at the same path and, by construction of `PTree`, comes
with the whole path from the root). -/
def Le (c t : PTree H) : Prop := leB c t = true

instance (c t : PTree H) : Decidable (Le c t) := inferInstanceAs (Decidable (leB c t = true))

/-- Union of two views of the same tree. -/
def join : PTree H → PTree H → PTree H
  | .node h lf l r, .node _ _ l' r' => .node h lf (join l l') (join r r')
  | .node h lf l r, _ => .node h lf l r
  | _, b => b

/-! ### the merge (multipart.go:203-222) -/

/-- What `multipartMergeWithExisting` hands to the three child pointers of the re-imported copy:
the internal leaf inherits the invalid pointer, Left / Right inherit an index. -/
structure Inh where
  leaf : Bool
  left : Option Nat
  right : Option Nat
  deriving DecidableEq, Repr

/-- multipart.go:212 `p.new == nil || p.existing == nil`. -/
def slotNil (e : Option (H × Nat)) (c : PTree H) : Bool := e.isNone || c.isNil

/-- One loop iteration for Left / Right: both non-nil (212), same hash (215), the stored pointer has
an index — always, `ptrFromDb` — and the new one has none — always, it comes from `VerifyProof` and
its own `refreshDbPtr` runs later (218): take over the index (221). -/
def slotPos (e : Option (H × Nat)) (c : PTree H) : Option Nat :=
  match e, c.hash? with
  | some (eh, q), some h => if eh = h then some q else none
  | _, _ => none

/-- The loop. `brk = false` is the code. `brk = true` is the seeded mutation `break` for the
`continue` of line 213: the loop stops at the first slot that is nil in either copy. Slot order:
Left, Right, LeafNode (multipart.go:208-210). -/
def mergeExisting (brk : Bool) (e : Rec H) (lf : Option H) (l r : PTree H) : Inh :=
  if brk && slotNil e.left l then ⟨false, none, none⟩
  else if brk && slotNil e.right r then ⟨false, slotPos e.left l, none⟩
  else
    ⟨(match e.leaf, lf with
      | some a, some b => decide (a = b)
      | _, _ => false),
     slotPos e.left l, slotPos e.right r⟩

/-! ### the walk -/

/-- `refreshDbPtr` node.go:176-194 for a non-root pointer: keep the inherited index or take the next
one. Returns (index, lastIndex). -/
def alloc (dbi : Option Nat) (last : Nat) : Nat × Nat :=
  match dbi with
  | some p => (p, last)
  | none => (last + 1, last + 1)

/-- Visit of the internal leaf: first import — an index and a stand-alone record; re-import — the
inherited invalid pointer: nothing (node.go:225-227). -/
def leafWrites (lf : Option H) (inherited : Bool) (last : Nat) : List (Nat × Rec H) :=
  match lf with
  | some hl => if inherited then [] else [(last + 1, ⟨hl, none, none, none⟩)]
  | none => []

/-- The pointer serialised into the parent's record (`ptrToDb`). -/
def mkChild (c : PTree H) (pos : Option Nat) : Option (H × Nat) :=
  match c.hash?, pos with
  | some h, some q => some (h, q)
  | _, _ => none

structure Res (H : Type) where
  pos : Option Nat             -- `DBInternal` of the visited pointer
  last : Nat                   -- `lastIndex`
  writes : List (Nat × Rec H)  -- `PutNode`s, in order

/-- `doRestoreChunk` with the pathbadger batch. `old` is the snapshot `readTxn` reads, `dbi` the
`DBInternal` the pointer got from its parent's merge. -/
def imp (old : Store H) (brk : Bool) : PTree H → Option Nat → Nat → Res H
  | .nil, _, last => ⟨none, last, []⟩
  | .stub _, dbi, last => ⟨some (alloc dbi last).1, (alloc dbi last).2, []⟩
  | .node h lf l r, dbi, last =>
    let p := (alloc dbi last).1
    let last1 := (alloc dbi last).2
    let inh : Inh :=
      match sget old p with
      | some e => mergeExisting brk e lf l r
      | none => ⟨false, none, none⟩
    let wlf := leafWrites lf inh.leaf last1
    let rl := imp old brk l inh.left (last1 + wlf.length)
    let rr := imp old brk r inh.right rl.last
    ⟨some p, rr.last,
     wlf ++ (rl.writes ++ (rr.writes ++ [(p, ⟨h, lf, mkChild l rl.pos, mkChild r rr.pos⟩)]))⟩

/-- State of a multipart restore for one root type. -/
structure St (H : Type) where
  store : Store H
  last : Nat

/-- `StartMultipartInsert` (multipart.go:59-60): nothing stored, `lastIndex = indexRootNode = 0`. -/
def St.init : St H := ⟨[], 0⟩

/-- `restoreChunk` after verification: walk from the root (index 0, node.go:180-182; its record is
looked up under the root key ≙ position 0) and commit the batch. -/
def importChunkWith (brk : Bool) (st : St H) (c : PTree H) : St H :=
  let r := imp st.store brk c (some 0) st.last
  ⟨commit st.store r.writes, r.last⟩

def importChunk (st : St H) (c : PTree H) : St H := importChunkWith false st c

def importAllWith (brk : Bool) (cs : List (PTree H)) : St H := cs.foldl (importChunkWith brk) St.init

def importAll (cs : List (PTree H)) : St H := cs.foldl importChunk St.init

end

/-! ### reading the stored structure -/

/-- Follow stored child positions (what `GetNode` does with the `dbPtr` of a pointer read from a
record, node.go:69-87): the tree found under a stored pointer, positions erased. -/
def readBack (s : Store H) : Nat → Option (H × Nat) → PTree H
  | _, none => .nil
  | 0, some (h, _) => .stub h
  | f + 1, some (h, p) =>
    match sget s p with
    | none => .stub h
    | some e => .node e.hash e.leaf (readBack s f e.left) (readBack s f e.right)

/-- Pointer to the root of the restore. -/
def rootPtr (t : PTree H) : Option (H × Nat) := t.hash?.map (fun h => (h, 0))

/-- `Reach s p π h`: from position `p`, following the stored child positions along `π`, one arrives at
a record with hash `h` (for a path ending in `Dir.leaf`: at the inline leaf with hash `h`). -/
inductive Reach (s : Store H) : Nat → List Dir → H → Prop where
  | here {p : Nat} {e : Rec H} : sget s p = some e → Reach s p [] e.hash
  | leaf {p : Nat} {e : Rec H} {hl : H} : sget s p = some e → e.leaf = some hl → Reach s p [Dir.leaf] hl
  | left {p q : Nat} {e : Rec H} {hc h : H} {π : List Dir} :
      sget s p = some e → e.left = some (hc, q) → Reach s q π h → Reach s p (Dir.left :: π) h
  | right {p q : Nat} {e : Rec H} {hc h : H} {π : List Dir} :
      sget s p = some e → e.right = some (hc, q) → Reach s q π h → Reach s p (Dir.right :: π) h

/-- Derived listing hash ↦ position of the stored records (only the newest binding of a position). -/
def importedTableAux (seen : List Nat) : Store H → List (H × Nat)
  | [] => []
  | (k, v) :: rest =>
    if seen.contains k then importedTableAux seen rest else (v.hash, k) :: importedTableAux (k :: seen) rest

def importedTable (s : Store H) : List (H × Nat) := importedTableAux [] s

end OasisModel.NodeDB.PathImport
