import OasisModel.NodeDB.Spec
/-
Bookkeeping model of the badger node database backend
(`go/storage/mkvs/db/badger/badger.go`, `metadata.go`), property C06.

Badger is modelled as an MVCC store: per key and per timestamp the last write (a value or a
tombstone); a read at timestamp `t` sees the newest write with timestamp `≤ t`
(`db.NewTransactionAt(versionToTs(v))`).  Version `v` is used as the timestamp directly
(`versionToTs` only shifts by 2; everything written at `tsMetadata` is a plain map here because
it is always read with a newer timestamp).

Modelled state (key formats of `badger.go:31-69`):
  * `node`      nodeKeyFmt(hash)            written at the version timestamp
  * `rootNode`  rootNodeKeyFmt(typed hash)  written at the version timestamp
  * `rmeta`     rootsMetadataKeyFmt(version): root ↦ derived roots        (tsMetadata)
  * `upd`       rootUpdatedNodesKeyFmt(version, root): [(removed, hash)]   (tsMetadata)
  * `earliest`, `last`  metadataKeyFmt
Write logs and multipart restore are not part of this file (see Crash.lean for the latter).

Nodes are content addressed: the model is parametrised by `cl : Nat → List Nat`, the set of
node hashes a reader fetches for the tree below a root hash (`cl 0` is `[0]`; the node with
hash 0 is never stored, which is why `Prune` does not traverse an empty root), and by
`clv ⊇ cl`, which additionally contains the leaves embedded in internal nodes: those are
serialized inside their parent (`InternalNode.MarshalBinary`) and never fetched by a reader,
but `doCommit` also stores them under their own key and `Prune`'s visitor looks that key up.

What the tree hands to a batch is an input of `commit`: `added` (PutNode) and `removed`
(RemoveNodes) hashes.  Core Lean only.
-/
namespace OasisModel.NodeDB.Badger
open OasisModel.NodeDB

/-! ### MVCC store

Finite maps are association lists with the newest binding first (the executable is run on long
histories; function-valued state would be re-evaluated on every lookup). -/

/-- log of writes, newest first: (key, timestamp, `true` value / `false` tombstone) -/
abbrev MV := List (Nat × Nat × Bool)

def MV.empty : MV := []

def MV.write (m : MV) (k ts : Nat) (b : Bool) : MV := (k, ts, b) :: m

/-- The last write to key `k` at exactly timestamp `t`. -/
def MV.at (m : MV) (k t : Nat) : Option Bool :=
  match m with
  | [] => none
  | e :: rest => if e.1 = k ∧ e.2.1 = t then some e.2.2 else MV.at rest k t

/-- The entry a transaction reading at timestamp `t` sees: `(item.Version(), live)`. -/
def MV.get (m : MV) (k : Nat) : Nat → Option (Nat × Bool)
  | 0 => (m.at k 0).map (fun b => (0, b))
  | t + 1 => match m.at k (t + 1) with
    | some b => some (t + 1, b)
    | none => MV.get m k t

def MV.live (m : MV) (k t : Nat) : Bool :=
  match m.get k t with
  | some (_, true) => true
  | _ => false

def MV.writeAll (m : MV) (ks : List Nat) (ts : Nat) (b : Bool) : MV :=
  ks.foldl (fun m k => m.write k ts b) m

/-! ### state -/

/-- `api.TypedHash`: (type, hash). -/
abbrev TH := Nat × Nat

def encTH (th : TH) : Nat := 2 * th.2 + th.1

abbrev RootsMeta := List (TH × List TH)

structure St where
  node : MV
  rootNode : MV
  rmetaL : List (Nat × RootsMeta)                    -- newest binding first
  updL : List ((Nat × TH) × Option (List (Bool × Nat)))  -- newest binding first; `none` = deleted
  earliest : Nat
  last : Option Nat

def init : St :=
  { node := MV.empty, rootNode := MV.empty, rmetaL := [], updL := [], earliest := 0, last := none }

def getMeta (l : List (Nat × RootsMeta)) (v : Nat) : RootsMeta :=
  match l with
  | [] => []
  | e :: rest => if e.1 = v then e.2 else getMeta rest v

def St.rmeta (s : St) (v : Nat) : RootsMeta := getMeta s.rmetaL v

def getUpd (l : List ((Nat × TH) × Option (List (Bool × Nat)))) (v : Nat) (th : TH) : Option (List (Bool × Nat)) :=
  match l with
  | [] => none
  | e :: rest => if e.1 = (v, th) then e.2 else getUpd rest v th

def St.upd (s : St) (v : Nat) (th : TH) : Option (List (Bool × Nat)) := getUpd s.updL v th

def finalizedGE (s : St) (v : Nat) : Bool :=
  match s.last with
  | some l => decide (v ≤ l)
  | none => false

def hasKey (rm : RootsMeta) (th : TH) : Bool := rm.any (fun e => e.1 == th)

/-! ### Commit (`badgerBatch.Commit`, badger.go:1015-1140) -/

/-- rootsMeta of the new version with the new root added ("Create root with no derived roots"). -/
def metaWithRoot (s : St) (new : Root) : List (Nat × RootsMeta) :=
  (new.ver, s.rmeta new.ver ++ [((new.typ, new.hash), [])]) :: s.rmetaL

def commitErr (s : St) (old new : Root) : Option Err :=
  if !Spec.follows new old then some .mustFollowOld
  else if finalizedGE s new.ver then some .alreadyFinalized
  else if hasKey (s.rmeta new.ver) (new.typ, new.hash) then none   -- "Root already exists": batch is reset
  else if old.hash != 0 then
    if old.ver < s.earliest && old.ver != new.ver then some .prevMismatch
    else if !hasKey (getMeta (metaWithRoot s new) old.ver) (old.typ, old.hash) then some .rootNotFound
    else none
  else none

/-- The writes of a commit that creates a new root: root link of the old root, updated-nodes
index, node keys and the root node key (all at the version timestamp), rootsMetadata. -/
def commitSt (s : St) (old new : Root) (added removed : List Nat) : St :=
  let th : TH := (new.typ, new.hash)
  let oth : TH := (old.typ, old.hash)
  let meta1 := metaWithRoot s new
  { s with
    rmetaL := if old.hash != 0 then
        (old.ver, (getMeta meta1 old.ver).map (fun e => if e.1 == oth then (e.1, e.2 ++ [th]) else e)) :: meta1
      else meta1
    updL := ((new.ver, th), some (added.map (fun h => (false, h)) ++ removed.map (fun h => (true, h)))) :: s.updL
    node := s.node.writeAll added new.ver true
    rootNode := s.rootNode.write (encTH th) new.ver true }

def commit (s : St) (old new : Root) (added removed : List Nat) : Except Err St :=
  match commitErr s old new with
  | some e => .error e
  | none => .ok (if hasKey (s.rmeta new.ver) (new.typ, new.hash) then s else commitSt s old new added removed)

/-! ### Finalize (badger.go:548-733) -/

/-- One round of "a parent root is finalized if a derived root is". -/
def closeStep (rm : List (TH × List TH)) (fin : List TH) : List TH :=
  rm.foldl (fun fin e => if !fin.contains e.1 && e.2.any (fun d => fin.contains d) then fin ++ [e.1] else fin) fin

/-- The fixpoint loop `for updated := true; updated; {…}`; `rm.length + 1` rounds suffice. -/
def closeFin (rm : List (TH × List TH)) (fin : List TH) : List TH :=
  (List.range (rm.length + 1)).foldl (fun fin _ => closeStep rm fin) fin

structure FinPlan where
  finalized : List TH       -- finalizedRoots after the closure
  maybeLone : List Nat
  notLone : List Nat
  dels : List Nat           -- node keys deleted at the version timestamp
  keep : List (TH × List TH) -- rootsMeta.Roots afterwards

def updOf (s : St) (v : Nat) (th : TH) : List (Bool × Nat) := (s.upd v th).getD []

def finPlan (s : St) (v : Nat) (chosen : List TH) : FinPlan :=
  let rm := s.rmeta v
  let fin := closeFin rm chosen
  let isFin (th : TH) : Bool := fin.contains th
  let maybeLone := rm.flatMap (fun e =>
    if isFin e.1 then ((updOf s v e.1).filter (·.1)).map (·.2)
    else ((updOf s v e.1).filter (fun u => !u.1)).map (·.2))
  let notLone := rm.flatMap (fun e =>
    if isFin e.1 then ((updOf s v e.1).filter (fun u => !u.1)).map (·.2) else [])
  { finalized := fin, maybeLone := maybeLone, notLone := notLone,
    dels := maybeLone.filter (fun h => !notLone.contains h),
    keep := rm.filter (fun e => isFin e.1) }

def chosenTH (chosen : List Root) : List TH := chosen.map (fun r => (r.typ, r.hash))

/-- `version > 0 && exists && lastFinalizedVersion < version-1` -/
def gapBefore (s : St) (v : Nat) : Bool :=
  match s.last with
  | some l => decide (0 < v ∧ l + 1 < v)
  | none => false

def finalizeErr (s : St) (v : Nat) (chosen : List Root) : Option Err :=
  if chosen.isEmpty then some .noRoots
  else if gapBefore s v then some .notFinalized
  else if finalizedGE s v then some .alreadyFinalized
  else if chosen.any (fun r => r.ver != v) then some .versionMismatch
  else if (finPlan s v (chosenTH chosen)).finalized.any (fun th => !hasKey (s.rmeta v) th && th.2 != 0)
    then some .rootNotFound
  else none

def finalizeSt (s : St) (v : Nat) (chosen : List Root) : St :=
  let p := finPlan s v (chosenTH chosen)
  { s with
    node := s.node.writeAll p.dels v false
    rmetaL := (v, p.keep) :: s.rmetaL
    updL := (s.rmeta v).map (fun e => ((v, e.1), none)) ++ s.updL
    last := some v
    earliest := if s.last.isNone then v else s.earliest }

def finalize (s : St) (v : Nat) (chosen : List Root) : Except Err St :=
  match finalizeErr s v chosen with
  | some e => .error e
  | none => .ok (finalizeSt s v chosen)

/-! ### reading -/

/-- `GetNode(root, ptr)` finds the node: root version not pruned, root node key and node key visible. -/
def nodeVisible (s : St) (r : Root) (h : Nat) : Bool :=
  decide (s.earliest ≤ r.ver) && s.rootNode.live (encTH (r.typ, r.hash)) r.ver && s.node.live h r.ver

/-- Every node of the tree under `r` can be fetched (an empty tree needs no node). -/
def readable (cl : Nat → List Nat) (s : St) (r : Root) : Bool :=
  r.hash == 0 || (cl r.hash).all (fun h => nodeVisible s r h)

/-! ### Prune (badger.go:735-850) -/

/-- Node keys deleted while visiting the lone root `th` of version `v`: those whose visible
item was written at exactly this version. -/
def loneDeletes (clv : Nat → List Nat) (s : St) (v : Nat) (th : TH) : List Nat :=
  (clv th.2).filter (fun h => match s.node.get h v with | some (ts, live) => live && ts == v | none => false)

/-- The lone roots of a version (no derived roots). -/
def loneRoots (s : St) (v : Nat) : List (TH × List TH) := (s.rmeta v).filter (fun e => e.2.isEmpty)

/-- The lone roots `Prune` actually traverses: not the empty root (nothing to traverse; its
root-node key is just deleted), and not a root whose root-node key is already gone — `Visit`
then returns `ErrRootNotFound`, which `Prune` takes as "removed by an earlier, interrupted prune
of this version" and carries on. -/
def visitedRoots (s : St) (v : Nat) : List (TH × List TH) :=
  (loneRoots s v).filter (fun e => e.1.2 != 0 && s.rootNode.live (encTH e.1) v)

/-- `api.Visit` fetches every node a reader fetches through GetNode and fails on the first
missing one. The visitor's own `tx.Get(nodeKey)` additionally fails for an embedded leaf whose
separate copy is gone, but that failure is never reported: the visitor only records it in
`innerErr` and returns `false` (the leaf has no children to skip), and the next visited node —
there always is one, an internal node with an embedded leaf has at least one child, visited after
the leaf — overwrites `innerErr` with `nil`. So such a leaf is simply not deleted. -/
def visitFails (cl _clv : Nat → List Nat) (s : St) (v : Nat) : Bool :=
  (visitedRoots s v).any (fun e =>
    (cl e.1.2).any (fun h => !nodeVisible s { ver := v, typ := e.1.1, hash := e.1.2 } h))

def pruneErr (cl clv : Nat → List Nat) (s : St) (v : Nat) : Option Err :=
  match s.last with
  | none => some .notFinalized
  | some l =>
    if l < v then some .notFinalized
    else if v != s.earliest then some .notEarliest
    else if v == l then some .cannotPruneLatest
    else if visitFails cl clv s v then some .nodeNotFound  -- whatever error Visit / the visitor raised
    else none

def pruneDels (clv : Nat → List Nat) (s : St) (v : Nat) : List Nat :=
  (visitedRoots s v).flatMap (fun e => loneDeletes clv s v e.1)

def pruneSt (clv : Nat → List Nat) (s : St) (v : Nat) : St :=
  { s with
    node := s.node.writeAll (pruneDels clv s v) v false
    rootNode := s.rootNode.writeAll ((loneRoots s v).map (fun e => encTH e.1)) v false
    rmetaL := (v, []) :: s.rmetaL
    earliest := v + 1 }

def prune (cl clv : Nat → List Nat) (s : St) (v : Nat) : Except Err St :=
  match pruneErr cl clv s v with
  | some e => .error e
  | none => .ok (pruneSt clv s v)

/-! ### the restriction under which finalized roots stay readable

The lone-node rule of `Finalize` and the lone-root rule of `Prune` only know what each root put or
removed in its own version, not what it inherits or shares.  The three predicates below say, in
terms of that bookkeeping, when a step deletes nothing a reported root needs; `badger_readable_inv_partial`
(OasisProofs/Props/C06.lean) proves that histories whose steps satisfy them keep every reported root
readable, and dbdrv classifies every generated history by them: the known findings D1 / D3 / D5
are exactly the histories outside. -/

/-- Versions that have (or had) roots metadata. -/
def metaVersions (s : St) : List Nat := s.rmetaL.map (·.1)

/-- A reader at timestamp `w` sees an entry of `n` written after timestamp `v`: a tombstone written
at `v` cannot hide it. -/
def shielded (s : St) (n v w : Nat) : Bool :=
  match s.node.get n w with
  | some (ts, _) => decide (v < ts)
  | none => false

/-- What the tree hands to a batch that creates a root: every node of the new tree is put by the
batch or already visible at the new version. -/
def commitSafe (cl : Nat → List Nat) (s : St) (new : Root) (added : List Nat) : Bool :=
  new.hash == 0 || (cl new.hash).all (fun n => added.contains n || s.node.live n new.ver)

/-- `Finalize(v)` deletes no node of a root it keeps (in particular: no discarded candidate re-put
a node a kept root inherits — D3 —, no kept root removed a node another kept root needs — D5),
nor an unshielded node of a root of a later version. -/
def finalizeSafe (cl : Nat → List Nat) (s : St) (v : Nat) (chosen : List Root) : Bool :=
  let p := finPlan s v (chosenTH chosen)
  p.keep.all (fun e => e.1.2 == 0 || (cl e.1.2).all (fun n => !p.dels.contains n)) &&
  (metaVersions s).all (fun w => decide (w ≤ v) ||
    (s.rmeta w).all (fun e => e.1.2 == 0 || (cl e.1.2).all (fun n => !p.dels.contains n || shielded s n v w)))

/-- `Prune(v)` deletes no unshielded node of a root of a later version (no lone root shares a node
created in its version with a root that lives on — D1). -/
def pruneSafe (cl clv : Nat → List Nat) (s : St) (v : Nat) : Bool :=
  (metaVersions s).all (fun w => decide (w ≤ v) ||
    (s.rmeta w).all (fun e => e.1.2 == 0 ||
      (cl e.1.2).all (fun n => !(pruneDels clv s v).contains n || shielded s n v w)))

/-! ### observers -/

def hasRoot (s : St) (r : Root) : Bool :=
  r.hash == 0 || (decide (s.earliest ≤ r.ver) && hasKey (s.rmeta r.ver) (r.typ, r.hash))

def rootsFor (s : St) (v : Nat) : List Root :=
  if v < s.earliest then [] else (s.rmeta v).map (fun e => { ver := v, typ := e.1.1, hash := e.1.2 })

end OasisModel.NodeDB.Badger
