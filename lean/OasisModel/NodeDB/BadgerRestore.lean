import OasisModel.NodeDB.Badger
/-
Checkpoint (multipart) restore of the badger node database backend into a database that may be
NON-EMPTY (`go/storage/mkvs/db/badger/badger.go`, `go/storage/mkvs/checkpoint/{restorer,chunk}.go`),
property C06.  Adds definitions to the bookkeeping model of `Badger.lean`; nothing there is changed.

What the code does for a restore of root `new` (version `new.ver`):

  * `StartMultipartInsert(new.ver)` (badger.go:874-905) only records the multipart version (metadata).
  * every chunk is imported by `restoreChunk` (checkpoint/chunk.go:268-343): ONE chunk batch
    `NewBatch(emptyRoot, new.ver, chunk=true)` (badger.go:914-952: `bat` writes at the timestamp of
    `new.ver`, `readTxn` reads at that timestamp), `doRestoreChunk` (chunk.go:345-394) calls `PutNode`
    for every node of the chunk's subtree — internal nodes, leaves and the leaves embedded in
    internal nodes (`n.LeafNode`, chunk.go:366) —, then `batch.Commit(chunk.Root)`.
  * `badgerBatch.PutNode` (badger.go:1183-1202): in multipart mode the probe
    `ba.readTxn.Get(nodeKey)` (l.1193) ONLY decides whether the hash is also recorded in the multipart
    restore log (used by `AbortMultipartInsert` to undo the import); the node itself is ALWAYS written,
    `return ba.bat.Set(nodeKey, data)` (l.1201), i.e. at timestamp `new.ver`, whether or not an older
    version of the database already holds a node with that hash.
  * `badgerBatch.Commit` for a chunk batch (badger.go:1039-1150): writes the root node key at
    `new.ver` (l.1071), creates the root "with no derived roots" if it is not there yet (l.1088-1095;
    several chunks commit the same root), stores an EMPTY updated-nodes index (l.1097-1102) and skips
    the root link of the old root: an imported root is not recorded as derived from any older root.
  * `Finalize([new])` (badger.go:554-742): the gap check `lastFinalizedVersion < version-1` (l.580) is
    skipped while a multipart restore is in progress, so `new.ver` may lie anywhere above the last
    finalized version; the updated-nodes index of the only root is empty, hence `maybeLoneNodes` is
    empty and no node is deleted; the index entry is deleted, `last := new.ver`
    (`setLastFinalizedVersion`, metadata.go:67-81, which also sets `earliest` when nothing was finalized
    before), and the multipart log is cleaned (l.736-741).

`restoreSt` is the state after all of this.  `restoreSkipVisibleSt` is the variant in which `PutNode`
writes only the nodes its probe does NOT find ("the node is already there"), the shortcut that is
observationally the same on an empty database (`C06Restore.skip_visible_same_on_empty`) and loses
nodes of the restored root on a non-empty one once older versions are pruned
(`C06Restore.skip_visible_loses_nodes`).  Core Lean only.
-/
namespace OasisModel.NodeDB.Badger
open OasisModel.NodeDB

/-- The state after a completed restore of `new` in which exactly the node hashes `written` were
`bat.Set` at the timestamp of `new.ver`. -/
def restoreCore (s : St) (new : Root) (written : List Nat) : St :=
  let th : TH := (new.typ, new.hash)
  { s with
    node := s.node.writeAll written new.ver true                 -- PutNode, badger.go:1201
    rootNode := s.rootNode.write (encTH th) new.ver true         -- Commit, badger.go:1071
    rmetaL := (new.ver, [(th, [])]) :: s.rmetaL                  -- "Create root with no derived roots", l.1088-1095
    updL := ((new.ver, th), none) :: s.updL                      -- [] stored by Commit (l.1097-1102), deleted by Finalize (l.697)
    last := some new.ver                                         -- Finalize, l.726 (gap check l.580 skipped)
    earliest := if s.last.isNone then new.ver else s.earliest }  -- metadata.go:75-77

/-- **The code**: every node of the restored tree (`nodes` = all hashes `doRestoreChunk` hands to
`PutNode` over all chunks, including separately stored embedded leaves) is written at `new.ver`. -/
def restoreSt (s : St) (new : Root) (nodes : List Nat) : St := restoreCore s new nodes

/-- The nodes the probe `readTxn.Get(nodeKey)` of `PutNode` does not find: not visible at the
timestamp of the restored version. (A hash put a second time during the same restore is found by
the probe of a later chunk batch, and written already: the result is the same.) -/
def notVisible (s : St) (new : Root) (nodes : List Nat) : List Nat :=
  nodes.filter (fun h => !s.node.live h new.ver)

/-- **The seeded variant**: `PutNode` skips the write when the probe finds the key. -/
def restoreSkipVisibleSt (s : St) (new : Root) (nodes : List Nat) : St :=
  restoreCore s new (notVisible s new nodes)

/-! ### the restore chunk by chunk

`restoreSt` describes the END of a restore.  The finer model below performs it the way the code does
— one chunk batch per chunk, then the ordinary `finalizeSt` of `Badger.lean` — and
`C06Restore.restoreChunks_refines` shows that it reaches the same state as far as any reader,
`Finalize` or `Prune` can tell (same entry per key and timestamp, same roots metadata, window). -/

/-- One chunk batch (`restoreChunk`, checkpoint/chunk.go:268-343): `PutNode` for every node of the
chunk, then `Commit(chunk.Root)` with `chunk = true` (badger.go:1039-1150): root node key, root
created with no derived roots unless an earlier chunk created it, EMPTY updated-nodes index, no
root link. -/
def chunkCommitSt (s : St) (new : Root) (chunk : List Nat) : St :=
  let th : TH := (new.typ, new.hash)
  { s with
    node := s.node.writeAll chunk new.ver true
    rootNode := s.rootNode.write (encTH th) new.ver true
    rmetaL := if hasKey (s.rmeta new.ver) th then s.rmetaL
              else (new.ver, s.rmeta new.ver ++ [(th, [])]) :: s.rmetaL
    updL := ((new.ver, th), some []) :: s.updL }

def importChunks (s : St) (new : Root) (chunks : List (List Nat)) : St :=
  chunks.foldl (fun s c => chunkCommitSt s new c) s

/-- All chunks, then `Finalize([new])` (the restorer's caller finalizes once every chunk is in). -/
def restoreChunksSt (s : St) (new : Root) (chunks : List (List Nat)) : St :=
  finalizeSt (importChunks s new chunks) new.ver [new]

/-- Several prunes in a row, without the API's guards (`pruneSt` is what an accepted `Prune` does). -/
def pruneAll (clv : Nat → List Nat) (s : St) (vs : List Nat) : St := vs.foldl (pruneSt clv) s

end OasisModel.NodeDB.Badger
