import OasisModel.NodeDB.Spec
/-
Bookkeeping model of the pathbadger node database backend
(`go/storage/mkvs/db/pathbadger/{pathbadger.go,node.go,metadata.go}`), property C06.

Nodes are not keyed by hash but by the place they were created: `(creation version, index)`
(`dbPtr`, node.go:500), the index being assigned per batch starting from 1; the root node of a
tree is stored separately under `(version, typed root hash)` and carries index 0.  Every node
value records, for each child, the child's key *and* the child's hash (`ptrToDb`).

Competing roots of one version would collide on `(version, index)`.  Each batch therefore
reserves a per-(version, type) *sequence number* in `NewBatch`; sequence number 0 writes its nodes
straight into the finalized key space (`finalizedNodeKeyFmt(type, key)`, at the version's
timestamp), any other sequence number into a pending key space
(`pendingNodeKeyFmt(version, type, seqNo, key)`, at the metadata timestamp).  `Finalize` copies the
nodes of the finalized root out of its pending space (if its sequence number is not 0), then deletes
the lone nodes, the root-node keys of the discarded roots, the updated-nodes indices and the whole
pending space of the version.  Only one root per type can be finalized, io roots cannot have
children, child roots inside one version are refused.  `Prune` deletes the io nodes created in the
pruned version and the io root-node keys; state nodes die at the `Finalize` that removed them.

Stores are association lists, newest binding first.  The finalized key space is MVCC (value or
tombstone per timestamp, a reader at timestamp `t` sees the newest write `≤ t`).  Core Lean only.
-/
namespace OasisModel.NodeDB.PathBadger
open OasisModel.NodeDB

/-- `dbPtr`: (creation version, index). -/
abbrev Key := Nat × Nat
/-- `api.TypedHash`: (type, hash). -/
abbrev TH := Nat × Nat

/-- A stored node: its hash and, per child pointer, the child's key and hash. -/
structure NodeVal where
  hash : Nat
  kids : List (Key × Nat)
deriving DecidableEq, Repr, Inhabited

/-! ### the finalized key space (MVCC) -/

/-- log of writes, newest first: ((type, key), timestamp, value / tombstone) -/
abbrev FinStore := List ((Nat × Key) × Nat × Option NodeVal)

def finAt (m : FinStore) (k : Nat × Key) (t : Nat) : Option (Option NodeVal) :=
  match m with
  | [] => none
  | e :: rest => if e.1 = k ∧ e.2.1 = t then some e.2.2 else finAt rest k t

/-- What a transaction reading at timestamp `t` sees under `k`. -/
def finGet (m : FinStore) (k : Nat × Key) : Nat → Option NodeVal
  | 0 => (finAt m k 0).getD none
  | t + 1 => match finAt m k (t + 1) with
    | some v => v
    | none => finGet m k t

def finWrite (m : FinStore) (k : Nat × Key) (ts : Nat) (v : Option NodeVal) : FinStore := (k, ts, v) :: m

def finWriteAll (m : FinStore) (ws : List ((Nat × Key) × Option NodeVal)) (ts : Nat) : FinStore :=
  ws.foldl (fun m w => finWrite m w.1 ts w.2) m

/-! ### plain maps -/

def lookupD {α β : Type} [DecidableEq α] (l : List (α × β)) (k : α) (d : β) : β :=
  match l with
  | [] => d
  | e :: rest => if e.1 = k then e.2 else lookupD rest k d

structure St where
  /-- rootNodeKeyFmt(version, typed hash) ↦ root node value (`none`: deleted) -/
  rootNode : List ((Nat × TH) × Option NodeVal)
  fin : FinStore
  /-- pendingNodeKeyFmt: per version, (type, seqNo, key) ↦ value; `Finalize` drops the whole version -/
  pend : List (Nat × List ((Nat × Nat × Key) × NodeVal))
  /-- rootUpdatedNodesKeyFmt(version, root) ↦ [(removed, key)] -/
  upd : List ((Nat × TH) × Option (List (Bool × Key)))
  /-- metadata.NextPendingRootSeq: per version, type ↦ next sequence number -/
  nextSeq : List (Nat × List (Nat × Nat))
  /-- metadata.PendingRootSeqs: per version, root ↦ sequence number -/
  pendSeq : List (Nat × List (TH × Nat))
  earliest : Nat
  last : Option Nat
  /-- GHOST (not in the database): per root, the keys of the nodes its tree may point to — the nodes
  its own batch put plus the nodes inherited from the old root that the batch did not remove. -/
  uses : List ((Nat × TH) × List Key) := []

def init : St :=
  { rootNode := [], fin := [], pend := [], upd := [], nextSeq := [], pendSeq := [], earliest := 0, last := none,
    uses := [] }

def usesOf (s : St) (v : Nat) (th : TH) : List Key := lookupD s.uses (v, th) []

def rootVal (s : St) (v : Nat) (th : TH) : Option NodeVal := lookupD s.rootNode (v, th) none

def pendAt (s : St) (v : Nat) : List ((Nat × Nat × Key) × NodeVal) := lookupD s.pend v []

def pendGet (s : St) (v t seq : Nat) (k : Key) : Option NodeVal :=
  ((pendAt s v).find? (fun e => e.1 == (t, seq, k))).map (·.2)

def seqOf (s : St) (v : Nat) (th : TH) : Nat := lookupD (lookupD s.pendSeq v []) th 0

def nextSeqOf (s : St) (v t : Nat) : Nat := lookupD (lookupD s.nextSeq v []) t 0

def updOf (s : St) (v : Nat) (th : TH) : List (Bool × Key) := (lookupD s.upd (v, th) none).getD []

def finalizedGE (s : St) (v : Nat) : Bool :=
  match s.last with
  | some l => decide (v ≤ l)
  | none => false

/-- The roots whose root-node key exists at version `v` (a root may be listed more than once). -/
def rootsAt (s : St) (v : Nat) : List TH :=
  ((s.rootNode.filter (fun e => e.1.1 == v)).map (·.1.2)).filter (fun th => (rootVal s v th).isSome)

/-! ### NewBatch + Commit (pathbadger.go:639-740, 846-950) -/

inductive Res where
  | ok
  | err (e : Err)
  | restricted    -- a refusal specific to this backend (io children, same-version children, two roots of a type)
deriving DecidableEq, Repr

/-- Input of a commit: what the tree handed to the batch. -/
structure Batch where
  /-- non-root nodes put (PutNode), with their keys -/
  puts : List (Key × NodeVal)
  /-- keys marked removed (RemoveNodes, and nodes that became the root) -/
  removed : List Key
  /-- the root node, if the tree wrote one (`none`: the root is unchanged and is copied from the old root) -/
  root : Option NodeVal

/-- `NewBatch` refuses before reserving a sequence number. -/
def newBatchRes (s : St) (old new : Root) : Res :=
  if !(new.ver == old.ver || new.ver == old.ver + 1) then .err .mustFollowOld
  else if old.hash != 0 then
    if old.typ == 1 then .restricted           -- io roots cannot have child roots
    else if old.ver == new.ver then .restricted -- child roots in the same version not supported
    else if (rootVal s old.ver (old.typ, old.hash)).isNone then .err .rootNotFound
    else .ok
  else .ok

def bumpSeq (s : St) (v t : Nat) : St :=
  let cur := lookupD s.nextSeq v []
  { s with nextSeq := (v, (t, nextSeqOf s v t + 1) :: cur) :: s.nextSeq }

/-- The root node value stored for the new root: what the tree wrote, or (unchanged root) a copy of
the old root's node. -/
def newRootVal (s : St) (old new : Root) (b : Batch) : NodeVal :=
  match b.root with
  | some v => v
  | none => if new.hash == 0 then { hash := 0, kids := [] }
            else (rootVal s old.ver (old.typ, old.hash)).getD { hash := new.hash, kids := [] }

/-- GHOST: keys the new tree may point to. -/
def newUses (s : St) (old : Root) (b : Batch) : List Key :=
  b.puts.map (fun (p : Key × NodeVal) => p.1) ++
  (if old.hash == 0 then [] else
    (usesOf s old.ver (old.typ, old.hash)).filter (fun k => !b.removed.contains k))

/-- The writes of a commit that creates a new root, with the sequence number reserved by `NewBatch`. -/
def commitSt (s : St) (old new : Root) (b : Batch) : St :=
  let seq := nextSeqOf s new.ver old.typ
  let th : TH := (new.typ, new.hash)
  { s with
    nextSeq := (bumpSeq s new.ver old.typ).nextSeq
    uses := ((new.ver, th), newUses s old b) :: s.uses
    pendSeq := (new.ver, (th, seq) :: lookupD s.pendSeq new.ver []) :: s.pendSeq
    upd := ((new.ver, th), some (b.puts.map (fun (p : Key × NodeVal) => (false, p.1)) ++
                                 b.removed.map (fun (k : Key) => (true, k)))) :: s.upd
    rootNode := ((new.ver, th), some (newRootVal s old new b)) :: s.rootNode
    fin := if seq == 0 then
        finWriteAll s.fin (b.puts.map (fun (p : Key × NodeVal) => ((new.typ, p.1), some p.2))) new.ver
      else s.fin
    pend := if seq == 0 then s.pend else
        (new.ver, b.puts.map (fun (p : Key × NodeVal) => ((new.typ, seq, p.1), p.2)) ++ pendAt s new.ver) :: s.pend }

/-- Returns the result and the state (a reserved sequence number stays reserved even when the
commit is then refused or turns out to be a re-commit). -/
def commit (s : St) (old new : Root) (b : Batch) : Res × St :=
  match newBatchRes s old new with
  | .err e => (.err e, s)
  | .restricted => (.restricted, s)
  | .ok =>
    if !Spec.follows new old then (.err .mustFollowOld, bumpSeq s new.ver old.typ)
    else if finalizedGE s new.ver then (.err .alreadyFinalized, bumpSeq s new.ver old.typ)
    else if (rootVal s new.ver (new.typ, new.hash)).isSome then (.ok, bumpSeq s new.ver old.typ)  -- root exists
    else (.ok, commitSt s old new b)

/-! ### Finalize (pathbadger.go:242-520) -/

def nodupNat : List Nat → Bool
  | [] => true
  | a :: l => !l.contains a && nodupNat l

/-- `lastFinalizedVersion+1 != version` -/
def notNext (s : St) (v : Nat) : Bool :=
  match s.last with
  | some l => l + 1 != v
  | none => false

def finalizeRes (s : St) (v : Nat) (chosen : List Root) : Res :=
  if chosen.isEmpty then .err .noRoots
  else if finalizedGE s v then .err .alreadyFinalized
  else if notNext s v then .err .notFinalized
  else if chosen.any (fun r => r.ver != v) then .err .versionMismatch
  else if !nodupNat (chosen.map (·.typ)) then .restricted
  else if chosen.any (fun r => r.hash != 0 && (rootVal s v (r.typ, r.hash)).isNone) then .err .rootNotFound
  else .ok

structure FinPlan where
  copies : List ((Nat × Key) × Option NodeVal)   -- finalized-space writes of the first flush
  dels : List ((Nat × Key) × Option NodeVal)     -- finalized-space tombstones of the second flush
  discarded : List TH                            -- roots whose root-node key is deleted

def finPlan (s : St) (v : Nat) (chosen : List Root) : FinPlan :=
  let roots := rootsAt s v
  let isFin (th : TH) : Bool := chosen.any (fun r => (r.typ, r.hash) == th)
  let finRoots := roots.filter isFin
  let disc := roots.filter (fun th => !isFin th)
  let notLone : List (Nat × Key) := finRoots.flatMap (fun th =>
    ((updOf s v th).filter (fun u => !u.1)).map (fun u => (th.1, u.2)))
  let maybeLone : List (Nat × Key) :=
    finRoots.flatMap (fun th => ((updOf s v th).filter (·.1)).map (fun u => (th.1, u.2))) ++
    disc.flatMap (fun th => if seqOf s v th == 0 then
        ((updOf s v th).filter (fun u => !u.1)).map (fun u => (th.1, u.2)) else [])
  -- copy the put nodes of a finalized root with a non-zero sequence number out of its pending space
  let copies := finRoots.flatMap (fun th =>
    let seq := seqOf s v th
    if seq == 0 then [] else
      ((updOf s v th).filter (fun u => !u.1)).filterMap (fun u =>
        (pendGet s v th.1 seq u.2).map (fun val => ((th.1, u.2), some val))))
  { copies := copies,
    dels := (maybeLone.filter (fun k => !notLone.contains k)).map (fun k => (k, none)),
    discarded := disc }

def finalizeSt (s : St) (v : Nat) (chosen : List Root) : St :=
  let p := finPlan s v chosen
  { s with
    fin := finWriteAll (finWriteAll s.fin p.copies v) p.dels v
    rootNode := p.discarded.map (fun th => ((v, th), none)) ++ s.rootNode
    upd := (rootsAt s v).map (fun th => ((v, th), none)) ++ s.upd
    pend := (v, []) :: s.pend
    nextSeq := (v, []) :: s.nextSeq
    pendSeq := (v, []) :: s.pendSeq
    last := some v
    earliest := if s.last.isNone then v else s.earliest }

def finalize (s : St) (v : Nat) (chosen : List Root) : Res × St :=
  match finalizeRes s v chosen with
  | .err e => (.err e, s)
  | .restricted => (.restricted, s)
  | .ok =>
    (.ok, finalizeSt s v chosen)

/-! ### Prune (pathbadger.go:522-636) -/

def pruneErr (s : St) (v : Nat) : Option Err :=
  match s.last with
  | none => some .notFinalized
  | some l =>
    if l < v then some .notFinalized
    else if v != s.earliest then some .notEarliest
    else if v == l then some .cannotPruneLatest
    else none

/-- The io (type 1) nodes created in version `v` that a reader at `v` still sees. -/
def ioKeysOf (s : St) (v : Nat) : List (Nat × Key) :=
  ((s.fin.map (·.1)).filter (fun k => k.1 == 1 && k.2.1 == v)).filter
    (fun k => (finGet s.fin k v).isSome)

def pruneSt (s : St) (v : Nat) : St :=
  { s with
    fin := finWriteAll s.fin ((ioKeysOf s v).map (fun k => (k, none))) v
    rootNode := ((rootsAt s v).filter (fun th => th.1 == 1)).map (fun th => ((v, th), none)) ++ s.rootNode
    earliest := v + 1 }

def prune (s : St) (v : Nat) : Res × St :=
  match pruneErr s v with
  | some e => (.err e, s)
  | none =>
    (.ok, pruneSt s v)

/-! ### reading -/

inductive ReadOutcome where
  | ok          -- every pointer resolves to a node with the recorded hash
  | notFound    -- some pointer does not resolve (ErrNodeNotFound / ErrRootNotFound)
  | foreign     -- every pointer resolves, but some to a node with a different hash
deriving DecidableEq, Repr

/-- `GetNode(root, ptr)` for a non-root pointer with key `k` (node.go:66-90). -/
def getNode (s : St) (r : Root) (k : Key) : Option NodeVal :=
  let seq := seqOf s r.ver (r.typ, r.hash)
  if seq == 0 then finGet s.fin (r.typ, k) r.ver
  else match pendGet s r.ver r.typ seq k with
    | some v => some v
    | none => finGet s.fin (r.typ, k) r.ver

/-- Walk the tree below the pointers `ps` (fuel bounds the depth): `(all resolved, all hashes right)`. -/
def walk (s : St) (r : Root) : Nat → List (Key × Nat) → Bool × Bool
  | 0, _ => (true, true)
  | fuel + 1, ps => ps.foldl (fun acc p =>
      match getNode s r p.1 with
      | none => (false, acc.2)
      | some val =>
        let sub := walk s r fuel val.kids
        (acc.1 && sub.1, acc.2 && decide (val.hash = p.2) && sub.2)) (true, true)

def read (s : St) (r : Root) : ReadOutcome :=
  if r.hash == 0 then .ok
  else if r.ver < s.earliest then .notFound
  else match rootVal s r.ver (r.typ, r.hash) with
    | none => .notFound
    | some rv =>
      let w := walk s r 70 rv.kids
      if !w.1 then .notFound else if !(w.2 && rv.hash == r.hash) then .foreign else .ok

/-! ### what a tree hands to a batch (hypotheses of the theorems, checked on every real commit) -/

def nodupB : List Key → Bool
  | [] => true
  | a :: l => !l.contains a && nodupB l

/-- A child pointer of the new tree points to a node of this batch, or to a node the old root's
tree uses, that this batch does not remove and that reads back with the recorded hash. -/
def ptrOK (s : St) (old : Root) (b : Batch) (p : Key × Nat) : Bool :=
  b.puts.any (fun q => q.1 == p.1 && q.2.hash == p.2) ||
  (old.hash != 0 && (usesOf s old.ver (old.typ, old.hash)).contains p.1 && !b.removed.contains p.1 &&
    (match getNode s old p.1 with | some v => v.hash == p.2 | none => false))

def batchOK (s : St) (old new : Root) (b : Batch) : Bool :=
  -- the candidate derives from a FINALIZED root (or from nothing)
  (old.hash == 0 || finalizedGE s old.ver) &&
  -- fresh, distinct keys of the batch's own version
  b.puts.all (fun p => p.1.1 == new.ver) && nodupB (b.puts.map (·.1)) &&
  -- removed nodes are nodes of older versions
  b.removed.all (fun k => decide (k.1 < new.ver)) &&
  (match b.root with
   | some rv => rv.hash == new.hash && rv.kids.all (ptrOK s old b)
   | none => new.hash == 0 || (new.hash == old.hash && b.puts.isEmpty && b.removed.isEmpty)) &&
  b.puts.all (fun p => p.2.kids.all (ptrOK s old b)) &&
  -- a kept inherited node keeps its children
  (old.hash == 0 || (usesOf s old.ver (old.typ, old.hash)).all (fun k => b.removed.contains k ||
      (match getNode s old k with
       | some v => v.kids.all (fun c => !b.removed.contains c.1)
       | none => true)))

/-! ### observers -/

def hasRoot (s : St) (r : Root) : Bool :=
  r.hash == 0 || (decide (s.earliest ≤ r.ver) && (rootVal s r.ver (r.typ, r.hash)).isSome)

def rootsFor (s : St) (v : Nat) : List Root :=
  if v < s.earliest then [] else (rootsAt s v).eraseDups.map (fun th => { ver := v, typ := th.1, hash := th.2 })

end OasisModel.NodeDB.PathBadger
