import OasisModel.Proto
/- C06/C07 node database: driver stub (not built yet). -/
namespace OasisModel.NodeDB.Driver
def main : IO Unit := IO.eprintln "mode not implemented"
end OasisModel.NodeDB.Driver
