import OasisModel.Proto
import OasisModel.NodeDB.Spec
import OasisModel.NodeDB.Badger
import OasisModel.NodeDB.Crash
import OasisModel.NodeDB.Pruner
import OasisModel.NodeDB.PathBadger
/-
Driver of the node-database models (properties C06 / C07), executable `om_nodedb`.
The first input line selects the sub-mode:

  mode spec      the abstract contract `Spec` as a checker with witness (dbdrv)
  mode badger    the bookkeeping model `Badger` of the badger backend as an exact oracle (dbdrv)

### mode pathbadger — the REAL pathbadger backend, node level (dbdrv)
  commit <t> <v> <sv> <sh> <h> <res> <root h/kids|-> <puts ver.idx=h/kids,..|-> <removed ver.idx,..|->
        kids: `ver.idx~hash;..`  (key and hash of each child pointer, as `ptrToDb` stores them)
  finalize <v> <chosen t:h,..|-> <res>;  prune <v> <res>;  obs / has as in mode badger
  readclass <v> <t> <h> <ok|notfound|foreign>   full read-back of a root the DB claims to have
The model (`PathBadger`) must predict every result (including the backend-specific refusals,
`restricted`), every observer and the outcome of every read-back.

### mode pruner — the REAL abci genericPruner over a scripted node database (dbdrv)
  new
  prune <keepN> <latest> <dbEarliest> <vetoed|-> <notEarliest|-> <failing|-> <syncOk 0|1>
        <asked|-> <err 0|1> <lastRetained afterwards> <lastRetained seen inside Sync | ->
The model (`Pruner.prune`, state carried from call to call) must give the same sequence of
ndb.Prune calls, the same error flag, the same retained version afterwards and the same retained
version while Sync runs (Sync precedes the advance; after a failed Sync it has not moved).

### mode crash — crashdrv (property C07)
  plan <backend> <commit|finalize|prune> <res> <facts|-> <boundary,..|->   boundaries the real op passed
  crash <backend> <kind> <facts|-> <boundary index> <class>              what was observed after a crash there
`facts`: `exists=0|1` (commit: the root was already there), `loneio=0|1` (prune). The boundary
sequence must equal the model's write plan (`Crash.badgerNames` / `Crash.pathbadgerNames`); the
observed class must be among the ones the model predicts (`Crash.badgerCrashClasses`; for
pathbadger, which has no bookkeeping model, what the property demands: old/mid/new with a retry
that completes, and `new` at the last boundary).

### mode badger — the REAL badger backend, node level
  commit <t> <v> <sv> <sh> <h> <res> <added h:left.right:embeddedleaf,..|-> <removed h,..|->   PutNode / RemoveNodes as issued
  finalize <v> <chosen t:h,..|-> <res>
  prune <v> <res>
  obs / has as above;  readable <v> <t> <h> <0|1>   (only for roots the DB claims to have)
  nodes <v> <t> <h> <n> <visible ids|->   GetNode under the reported root (v,t,h) for EVERY node id 1..n
The model must predict every result, every observer and exactly which claimed roots read back
completely.  A commit / finalize / prune that takes effect but violates its safety predicate
(`Badger.commitSafe` / `finalizeSafe` / `pruneSafe`, the restriction of `badger_readable_inv_partial`)
is answered `ok unsafe=<kind>`: dbdrv requires that no reported root is unreadable before the first
such step of a history.  When model and implementation agree that a claimed root is unreadable the answer is
`ok note=<cause>`, naming the bookkeeping rule that deleted the missing node.

### mode spec — one line per operation / observation of a REAL backend
  commit <t> <v> <sv> <sh> <h> <res> <contents>    tree derived from (sv,t,sh) committed as (v,t,h)
  finalize <v> <chosen t:h,..|-> <res> <keep t:h,..|->   keep = GetRootsForVersion(v) afterwards
  prune <v> <res>
  reopen
  obs <latest|-> <earliest> <roots v:t:h,..|->     GetLatestVersion / GetEarliestVersion / all roots
  has <v> <t> <h> <0|1>                            HasRoot
  read <v> <t> <h> <contents|!err>                 full read-back under a root the DB claims to have
`res` is `ok`, an API error name (`Err.toString`), `restricted` (a backend-specific refusal that
the API allows: the operation must then have had no effect) or `src_unreadable`.
Answers: `ok` or `DIVERGE <signature> <detail>`. Divergences in observations and refused operations are
reported and checking continues (the contract state follows the implementation); after any other
divergence every line is answered `skip`.
-/
namespace OasisModel.NodeDB.Driver
open OasisModel.Proto OasisModel.NodeDB

def parseTH (v : Nat) (s : String) : Option Root :=
  match s.splitOn ":" with
  | [t, h] => do pure { ver := v, typ := (← t.toNat?), hash := (← h.toNat?) }
  | _ => none

def parseTHs (v : Nat) (s : String) : Option (List Root) :=
  if s == "-" then some [] else (s.splitOn ",").mapM (parseTH v)

def parseVTH (s : String) : Option Root :=
  match s.splitOn ":" with
  | [v, t, h] => do pure { ver := (← v.toNat?), typ := (← t.toNat?), hash := (← h.toNat?) }
  | _ => none

def parseVTHs (s : String) : Option (List Root) :=
  if s == "-" then some [] else (s.splitOn ",").mapM parseVTH

def showRoot (r : Root) : String := s!"{r.ver}:{r.typ}:{r.hash}"

def rootLe (a b : Root) : Bool :=
  a.ver < b.ver || (a.ver == b.ver && (a.typ < b.typ || (a.typ == b.typ && a.hash ≤ b.hash)))

def sortRoots (l : List Root) : List Root := l.mergeSort rootLe

structure SpecSt where
  s : Spec.St := Spec.init
  dead : Bool := false
  /-- roots built (directly or indirectly) on a discarded root the backend still claimed -/
  tainted : List Root := []
  /-- roots already reported unreadable / foreign (a commit from them may fail without a new report) -/
  bad : List Root := []

def errNames (l : List Err) : String := ",".intercalate (l.map Err.toString)

/-- Judge the result string of an operation against the error sets of the contract.
Returns `none` if acceptable, and whether the operation took effect. -/
def judge (res : String) (must may : List Err) : Except String Bool :=
  if res == "ok" then
    if must.isEmpty then .ok true else .error s!"result-mismatch impl=ok spec-errors={errNames must}"
  else if res == "restricted" then
    .ok false
  else if must.isEmpty then
    if (may.map Err.toString).contains res then .ok false
    else .error s!"result-mismatch impl={res} spec=ok"
  else if (must.map Err.toString).contains res || (may.map Err.toString).contains res then .ok false
  else .error s!"result-mismatch impl={res} spec-errors={errNames must}"

def specStep (st : SpecSt) (line : String) : SpecSt × String :=
  if st.dead then (st, "skip") else
  let fail (msg : String) : SpecSt × String := ({ st with dead := true }, "DIVERGE " ++ msg)
  -- a divergence after which the contract state is still meaningful (an observation, or an
  -- operation the implementation refused): reported, and checking continues
  let soft (msg : String) : SpecSt × String := (st, "DIVERGE " ++ msg)
  let s := st.s
  match words line with
  | ["commit", t, v, sv, sh, h, res, c] =>
    match t.toNat?, v.toNat?, sv.toNat?, sh.toNat?, h.toNat? with
    | some t, some v, some sv, some sh, some h =>
      let old : Root := { ver := sv, typ := t, hash := sh }
      let new : Root := { ver := v, typ := t, hash := h }
      if res == "src_unreadable" then
        -- the tree could not even be built from the source root: fine iff the source is not a present root
        if sh != 0 && ((Spec.read s old).isNone || st.bad.contains old) then (st, "ok")
        else soft s!"src-unreadable source root {showRoot old} is present but could not be read"
      else if res.startsWith "panic" then fail s!"panic commit {res}"
      else
      match judge res (Spec.commitErrs s old new) (Spec.commitMayErrs s old new) with
      | .error e => if res == "ok" then fail s!"commit-{e}" else soft s!"commit-{e}"
      | .ok false => (st, "ok")
      | .ok true =>
        match Spec.commit s old new c with
        | .error e => fail s!"commit-internal {e.toString}"
        | .ok s' =>
          -- content addressing: the same (type,hash) must always carry the same contents
          match s.present.find? (fun e => e.1.hash == h && e.2 != c) with
          | some e => fail s!"hash-collision hash {h} stands for `{e.2}` and `{c}`"
          | none =>
            let discardedSrc := sh != 0 && Spec.finalizedGE s sv && !Spec.retained s old
            let t := if discardedSrc || st.tainted.contains old then new :: st.tainted else st.tainted
            ({ st with s := s', tainted := t }, "ok")
    | _, _, _, _, _ => fail "bad-op"
  | ["finalize", v, chosen, res, keep] =>
    match v.toNat? with
    | none => fail "bad-op"
    | some v =>
    match parseTHs v chosen, parseTHs v keep with
    | some chosen, some keep =>
      if res.startsWith "panic" then fail s!"panic finalize {res}" else
      match judge res (Spec.finalizeErrs s v chosen) [] with
      | .error e => if res == "ok" then fail s!"finalize-{e}" else soft s!"finalize-{e}"
      | .ok false => (st, "ok")
      | .ok true =>
        if !Spec.keepOk s v chosen keep then
          fail s!"finalize-keep chosen roots must stay and only committed roots may stay: keep={keep.map showRoot}"
        else match Spec.finalize s v chosen keep with
        | .error e => fail s!"finalize-internal {e.toString}"
        | .ok s' => ({ st with s := s' }, "ok")
    | _, _ => fail "bad-op"
  | ["prune", v, res] =>
    match v.toNat? with
    | none => fail "bad-op"
    | some v =>
      if res.startsWith "panic" then fail s!"panic prune {res}" else
      match judge res (Spec.pruneErrs s v) [] with
      | .error e => if res == "ok" then fail s!"prune-{e}" else soft s!"prune-{e}"
      | .ok false => (st, "ok")
      | .ok true =>
        match Spec.prune s v with
        | .error e => fail s!"prune-internal {e.toString}"
        | .ok s' => ({ st with s := s' }, "ok")
  | ["reopen"] => (st, "ok")
  | ["obs", latest, earliest, roots] =>
    match earliest.toNat?, parseVTHs roots with
    | some e, some roots =>
      let lat := match s.last with | some l => toString l | none => "-"
      if lat != latest then soft s!"latest-mismatch impl={latest} spec={lat}"
      else if e != s.earliest then soft s!"earliest-mismatch impl={e} spec={s.earliest}"
      else
        let want := sortRoots ((s.present.map (·.1)).filter (fun r => decide (s.earliest ≤ r.ver)))
        let got := sortRoots roots
        match s.fin.find? (fun r => !got.contains r) with
        | some r => soft s!"finalized-root-missing {showRoot r} not in GetRootsForVersion"
        | none =>
          if got != want then soft s!"roots-mismatch impl={got.map showRoot} spec={want.map showRoot}"
          else (st, "ok")
    | _, _ => fail "bad-op"
  | ["has", v, t, h, b] =>
    match v.toNat?, t.toNat?, h.toNat? with
    | some v, some t, some h =>
      let r : Root := { ver := v, typ := t, hash := h }
      let want := Spec.hasRoot s r
      let got := b == "1"
      if got == want then (st, "ok")
      else if Spec.retained s r then soft s!"finalized-root-missing HasRoot({showRoot r}) = false"
      else soft s!"hasroot-mismatch HasRoot({showRoot r}) impl={got} spec={want}"
    | _, _, _ => fail "bad-op"
  | ["read", v, t, h, c] =>
    match v.toNat?, t.toNat?, h.toNat? with
    | some v, some t, some h =>
      let r : Root := { ver := v, typ := t, hash := h }
      let kind := if Spec.retained s r then "finalized" else
        if st.tainted.contains r then "discarded-derived" else
        if Spec.finalizedGE s v then "discarded" else "pending"
      let soft (msg : String) : SpecSt × String := ({ st with bad := r :: st.bad }, "DIVERGE " ++ msg)
      match Spec.read s r with
      | none =>
        if h == 0 then (if c == "-" then (st, "ok") else soft s!"foreign-contents empty root {showRoot r} reads `{c}`")
        else if c.startsWith "!" then (st, "ok")
        else soft s!"read-of-absent-root {showRoot r} is not a root of the contract but reads `{c}`"
      | some want =>
        if c == want then (st, "ok")
        else if c.startsWith "!" then soft s!"{kind}-root-unreadable {showRoot r}: {c}"
        else soft s!"foreign-contents-{kind} root {showRoot r} reads `{c}`, committed `{want}`"
    | _, _, _ => fail "bad-op"
  | [] => (st, "ok")
  | _ => fail "bad-op"

/-! ### mode badger -/

structure BSt where
  s : Badger.St := Badger.init
  kids : List (Nat × List Nat) := []    -- node ↦ left/right children (what a reader fetches)
  kidsV : List (Nat × List Nat) := []   -- node ↦ children including the embedded leaf (what Prune visits)
  causes : List (Nat × Nat × String) := []   -- (node, timestamp, rule that wrote the tombstone)
  dead : Bool := false

def kidsOf (kids : List (Nat × List Nat)) (h : Nat) : List Nat :=
  match kids.find? (fun e => e.1 == h) with
  | some e => e.2
  | none => []

def reach (kids : List (Nat × List Nat)) : Nat → Nat → List Nat
  | 0, h => [h]
  | f + 1, h => h :: (kidsOf kids h).flatMap (reach kids f)

/-- All node hashes of the tree below root hash `h` (`[0]` for the empty hash). -/
def closure (kids : List (Nat × List Nat)) (h : Nat) : List Nat := (reach kids 80 h).eraseDups

/-- `h:left.right:embedded` ↦ (h, reader children, embedded leaf list) -/
def parseAdded (s : String) : Option (List (Nat × List Nat × List Nat)) :=
  if s == "-" then some [] else
  (s.splitOn ",").mapM fun e =>
    match e.splitOn ":" with
    | [h, ks, lf] => do
      let h ← h.toNat?
      let ks ← if ks == "" then some [] else (ks.splitOn ".").mapM String.toNat?
      let lf ← if lf == "" then some [] else (lf.splitOn ".").mapM String.toNat?
      pure (h, ks, lf)
    | _ => none

def causeOf (st : BSt) (r : Root) : String :=
  let cl := closure st.kids
  if !st.s.rootNode.live (Badger.encTH (r.typ, r.hash)) r.ver then "root-node-key-not-visible"
  else match (cl r.hash).find? (fun h => !st.s.node.live h r.ver) with
    | none => "pruned-version"
    | some h => match st.s.node.get h r.ver with
      | none => "node-never-written"
      | some (ts, _) => match st.causes.find? (fun c => c.1 == h && c.2.1 == ts) with
        | some c => c.2.2
        | none => "unknown-tombstone"

def badgerStep (st : BSt) (line : String) : BSt × String :=
  if st.dead then (st, "skip") else
  let fail (msg : String) : BSt × String := ({ st with dead := true }, "DIVERGE " ++ msg)
  let s := st.s
  match words line with
  | ["commit", t, v, sv, sh, h, res, added, removed] =>
    match t.toNat?, v.toNat?, sv.toNat?, sh.toNat?, h.toNat?, parseAdded added, parseNats removed with
    | some t, some v, some sv, some sh, some h, some added, some removed =>
      let old : Root := { ver := sv, typ := t, hash := sh }
      let new : Root := { ver := v, typ := t, hash := h }
      if res == "src_unreadable" then
        if sh != 0 && Badger.hasRoot s old && Badger.readable (closure st.kids) s old then
          fail s!"src-unreadable-mismatch model can read source {showRoot old}"
        else (st, "ok")
      else
      let addedV : List (Nat × List Nat) := added.map (fun a => (a.1, a.2.1 ++ a.2.2))
      let added : List (Nat × List Nat) := added.map (fun a => (a.1, a.2.1))
      match Badger.commit s old new (added.map (·.1)) removed with
      | .error e =>
        if res == e.toString then (st, "ok") else fail s!"commit-result-mismatch impl={res} model={e.toString}"
      | .ok s' =>
        if res != "ok" then fail s!"commit-result-mismatch impl={res} model=ok" else
        -- content addressing: a known hash keeps its children
        match added.find? (fun a => (st.kids.any (fun k => k.1 == a.1)) && kidsOf st.kids a.1 != a.2) with
        | some a => fail s!"hash-collision node {a.1} has two different child lists"
        | none =>
          let kids' := st.kids ++ added.filter (fun a => !st.kids.any (fun k => k.1 == a.1))
          let kidsV' := st.kidsV ++ addedV.filter (fun a => !st.kidsV.any (fun k => k.1 == a.1))
          -- the hypotheses of the theorems about what a tree hands to a batch (checked on the real tree):
          -- the old tree including its embedded leaves: their separately stored copies are what a
          -- derived tree points to when an embedded leaf becomes an ordinary child
          let clOld := if sh == 0 then [] else closure kidsV' sh
          let clNew := if h == 0 then [] else closure kids' h
          let addedH := added.map (·.1)
          if !clNew.all (fun n => clOld.contains n || addedH.contains n) then
            fail s!"commit-hyp new tree has a node that is neither inherited nor put: new={clNew} old={clOld} added={addedH}"
          else if !removed.all (fun n => !clNew.contains n || addedH.contains n) then
            fail s!"commit-hyp removed node still in the new tree without being put again: removed={removed} new={clNew}"
          else
            -- classification by the restriction of `badger_readable_inv_partial`
            let created := !Badger.hasKey (s.rmeta v) (t, h)
            let safe := !created || Badger.commitSafe (closure kids') s new addedH
            ({ st with s := s', kids := kids', kidsV := kidsV' }, if safe then "ok" else "ok unsafe=commit")
    | _, _, _, _, _, _, _ => fail "bad-op"
  | ["finalize", v, chosen, res] =>
    match v.toNat? with
    | none => fail "bad-op"
    | some v =>
    match parseTHs v chosen with
    | none => fail "bad-op"
    | some chosen =>
      match Badger.finalize s v chosen with
      | .error e =>
        if res == e.toString then (st, "ok") else fail s!"finalize-result-mismatch impl={res} model={e.toString}"
      | .ok s' =>
        if res != "ok" then fail s!"finalize-result-mismatch impl={res} model=ok" else
        let p := Badger.finPlan s v (chosen.map (fun r => (r.typ, r.hash)))
        -- classify every deletion by the rule that produced it
        let rm := s.rmeta v
        let removedByFin := rm.flatMap (fun e => if p.finalized.contains e.1 then ((Badger.updOf s v e.1).filter (·.1)).map (·.2) else [])
        let cs := p.dels.map (fun h => (h, v,
          if removedByFin.contains h then "finalize:removed-by-a-finalized-root-but-used-by-another-kept-root"
          else "finalize:put-by-a-discarded-root-but-inherited-by-a-kept-root"))
        let safe := Badger.finalizeSafe (closure st.kids) s v chosen
        ({ st with s := s', causes := cs ++ st.causes }, if safe then "ok" else "ok unsafe=finalize")
  | ["prune", v, res] =>
    match v.toNat? with
    | none => fail "bad-op"
    | some v =>
      let cl := closure st.kids
      let clv := closure st.kidsV
      match Badger.prune cl clv s v with
      | .error e =>
        let same := res == e.toString ||
          (e == .nodeNotFound && (res == "root_not_found" || res.startsWith "other:Key_not_found"))
        if same then
          (st, if e == .nodeNotFound then "ok note=prune:visit-of-a-lone-root-fails" else "ok")
        else fail s!"prune-result-mismatch impl={res} model={e.toString}"
      | .ok s' =>
        if res != "ok" then fail s!"prune-result-mismatch impl={res} model=ok" else
        let dels := Badger.pruneDels clv s v
        let cs := dels.map (fun h => (h, v, "prune:lone-root-deletes-node-shared-with-a-later-root"))
        let safe := Badger.pruneSafe cl clv s v
        ({ st with s := s', causes := cs ++ st.causes }, if safe then "ok" else "ok unsafe=prune")
  | ["reopen"] => (st, "ok")
  | ["obs", latest, earliest, roots] =>
    match earliest.toNat?, parseVTHs roots with
    | some e, some roots =>
      let lat := match s.last with | some l => toString l | none => "-"
      if lat != latest then fail s!"latest-mismatch impl={latest} model={lat}"
      else if e != s.earliest then fail s!"earliest-mismatch impl={e} model={s.earliest}"
      else
        let maxv := roots.foldl (fun m r => max m r.ver) 0
        let want := sortRoots ((List.range (maxv + 3)).flatMap (Badger.rootsFor s))
        let got := sortRoots roots
        if got != want then fail s!"roots-mismatch impl={got.map showRoot} model={want.map showRoot}"
        else (st, "ok")
    | _, _ => fail "bad-op"
  | ["has", v, t, h, b] =>
    match v.toNat?, t.toNat?, h.toNat? with
    | some v, some t, some h =>
      let r : Root := { ver := v, typ := t, hash := h }
      if Badger.hasRoot s r == (b == "1") then (st, "ok")
      else fail s!"hasroot-mismatch HasRoot({showRoot r}) impl={b} model={Badger.hasRoot s r}"
    | _, _, _ => fail "bad-op"
  | ["nodes", v, t, h, n, vis] =>
    match v.toNat?, t.toNat?, h.toNat?, n.toNat?, parseNats vis with
    | some v, some t, some h, some n, some vis =>
      let r : Root := { ver := v, typ := t, hash := h }
      let want := ((List.range n).map (· + 1)).filter (fun x => Badger.nodeVisible s r x)
      if want == vis then (st, "ok")
      else
        let implOnly := vis.filter (fun x => !want.contains x)
        let modelOnly := want.filter (fun x => !vis.contains x)
        fail s!"node-store-mismatch at version {v}: visible only in the implementation {implOnly}, only in the model {modelOnly}"
    | _, _, _, _, _ => fail "bad-op"
  | ["readable", v, t, h, b] =>
    match v.toNat?, t.toNat?, h.toNat? with
    | some v, some t, some h =>
      let r : Root := { ver := v, typ := t, hash := h }
      let want := Badger.readable (closure st.kids) s r
      if want != (b == "1") then fail s!"readable-mismatch root {showRoot r} impl={b} model={want} ({causeOf st r})"
      else if want then (st, "ok")
      else (st, s!"ok note={causeOf st r}")
    | _, _, _ => fail "bad-op"
  | [] => (st, "ok")
  | _ => fail "bad-op"

/-! ### mode crash -/

def crashStep (line : String) : String :=
  match words line with
  | ["plan", backend, kind, res, facts, seq] =>
    let got := if seq == "-" then [] else seq.splitOn ","
    let chunks := ((facts.splitOn "=").getD 1 "0").toNat?.getD 0
    let want :=
      if kind == "restore" then (if res == "ok" then Crash.restoreNames backend chunks else got)
      else if backend == "badger" then Crash.badgerNames kind (res != "ok" || facts == "exists=1")
      else Crash.pathbadgerNames kind res (facts == "exists=1")
    if got == want then "ok"
    else s!"DIVERGE plan-mismatch:{backend}.{kind} real operation passed {got}, the model's plan is {want}"
  | ["crash", backend, kind, facts, bi, cls] =>
    match bi.toNat? with
    | none => "DIVERGE bad-op"
    | some bi =>
      let chunks := ((facts.splitOn "=").getD 1 "0").toNat?.getD 0
      if kind == "restore" then
        if backend == "badger" then
          let allowed := Crash.badgerRestoreClasses chunks bi
          if allowed.contains cls then "ok"
          else s!"DIVERGE crash-class-mismatch:{backend}.restore observed {cls} at boundary {bi} of {chunks} chunks, model predicts {allowed}"
        else
          -- no model of pathbadger: the driver judges the class against the property itself; here
          -- only "the last boundary is the new state"
          let lastB := bi + 1 == (Crash.restoreNames backend chunks).length
          if !lastB || cls == "new" then "ok"
          else s!"DIVERGE crash-class-mismatch:{backend}.restore observed {cls} at the last boundary"
      else if backend == "badger" then
        let allowed := Crash.badgerCrashClasses kind bi (facts == "loneio=1")
        if allowed.contains cls then "ok"
        else s!"DIVERGE crash-class-mismatch:{backend}.{kind}.{bi} observed {cls}, model predicts {allowed}"
      else
        let n := (Crash.pathbadgerNames kind "ok" false).length - (if kind == "commit" then 2 else 0)
        let lastB := bi + 1 == (if kind == "commit" then n + 2 else n)
        if !lastB || cls == "new" then "ok"
        else s!"DIVERGE crash-class-mismatch:{backend}.{kind}.{bi} observed {cls} at the last boundary"
  | [] => "ok"
  | _ => "DIVERGE bad-op"

/-! ### mode pathbadger -/

def parseKey (s : String) : Option PathBadger.Key :=
  match s.splitOn "." with
  | [a, b] => do pure ((← a.toNat?), (← b.toNat?))
  | _ => none

def parseKids (s : String) : Option (List (PathBadger.Key × Nat)) :=
  if s == "" then some [] else
  (s.splitOn ";").mapM fun e =>
    match e.splitOn "~" with
    | [k, h] => do pure ((← parseKey k), (← h.toNat?))
    | _ => none

def parseVal (s : String) : Option PathBadger.NodeVal :=
  match s.splitOn "/" with
  | [h, ks] => do pure { hash := (← h.toNat?), kids := (← parseKids ks) }
  | _ => none

def parsePuts (s : String) : Option (List (PathBadger.Key × PathBadger.NodeVal)) :=
  if s == "-" then some [] else
  (s.splitOn ",").mapM fun e =>
    match e.splitOn "=" with
    | [k, v] => do pure ((← parseKey k), (← parseVal v))
    | _ => none

def parseKeys (s : String) : Option (List PathBadger.Key) :=
  if s == "-" then some [] else (s.splitOn ",").mapM parseKey

def resStr : PathBadger.Res → String
  | .ok => "ok"
  | .err e => e.toString
  | .restricted => "restricted"

structure PSt where
  s : PathBadger.St := PathBadger.init
  dead : Bool := false

def pathStep (st : PSt) (line : String) : PSt × String :=
  if st.dead then (st, "skip") else
  let fail (msg : String) : PSt × String := ({ st with dead := true }, "DIVERGE " ++ msg)
  let s := st.s
  match words line with
  | ["commit", t, v, sv, sh, h, res, root, puts, removed] =>
    match t.toNat?, v.toNat?, sv.toNat?, sh.toNat?, h.toNat?, parsePuts puts, parseKeys removed with
    | some t, some v, some sv, some sh, some h, some puts, some removed =>
      let old : Root := { ver := sv, typ := t, hash := sh }
      let new : Root := { ver := v, typ := t, hash := h }
      if res == "src_unreadable" then
        if sh != 0 && PathBadger.hasRoot s old && PathBadger.read s old == .ok then
          fail s!"src-unreadable-mismatch model can read source {showRoot old}"
        else (st, "ok")
      else
      let rootV := if root == "-" then some none else (parseVal root).map some
      match rootV with
      | none => fail "bad-op"
      | some rootV =>
        let b : PathBadger.Batch := { puts := puts, removed := removed, root := rootV }
        let (r, s') := PathBadger.commit s old new b
        if resStr r != res then fail s!"commit-result-mismatch impl={res} model={resStr r}"
        -- the hypotheses of the theorems about what a tree hands to a batch, on the real tree
        -- (only for commits that create a root; the driver keeps sources finalized)
        else if res == "ok" && (PathBadger.rootVal s v (t, h)).isNone && !PathBadger.batchOK s old new b then
          fail s!"commit-hyp batch of {showRoot new} from {showRoot old} violates batchOK"
        else ({ st with s := s' }, "ok")
    | _, _, _, _, _, _, _ => fail "bad-op"
  | ["finalize", v, chosen, res] =>
    match v.toNat? with
    | none => fail "bad-op"
    | some v =>
    match parseTHs v chosen with
    | none => fail "bad-op"
    | some chosen =>
      let (r, s') := PathBadger.finalize s v chosen
      if resStr r == res then ({ st with s := s' }, "ok")
      else fail s!"finalize-result-mismatch impl={res} model={resStr r}"
  | ["prune", v, res] =>
    match v.toNat? with
    | none => fail "bad-op"
    | some v =>
      let (r, s') := PathBadger.prune s v
      if resStr r == res then ({ st with s := s' }, "ok")
      else fail s!"prune-result-mismatch impl={res} model={resStr r}"
  | ["reopen"] => (st, "ok")
  | ["obs", latest, earliest, roots] =>
    match earliest.toNat?, parseVTHs roots with
    | some e, some roots =>
      let lat := match s.last with | some l => toString l | none => "-"
      if lat != latest then fail s!"latest-mismatch impl={latest} model={lat}"
      else if e != s.earliest then fail s!"earliest-mismatch impl={e} model={s.earliest}"
      else
        let maxv := roots.foldl (fun m r => max m r.ver) 0
        let want := sortRoots ((List.range (maxv + 3)).flatMap (PathBadger.rootsFor s))
        let got := sortRoots roots
        if got != want then fail s!"roots-mismatch impl={got.map showRoot} model={want.map showRoot}"
        else (st, "ok")
    | _, _ => fail "bad-op"
  | ["has", v, t, h, b] =>
    match v.toNat?, t.toNat?, h.toNat? with
    | some v, some t, some h =>
      let r : Root := { ver := v, typ := t, hash := h }
      if PathBadger.hasRoot s r == (b == "1") then (st, "ok")
      else fail s!"hasroot-mismatch HasRoot({showRoot r}) impl={b} model={PathBadger.hasRoot s r}"
    | _, _, _ => fail "bad-op"
  | ["readclass", v, t, h, c] =>
    match v.toNat?, t.toNat?, h.toNat? with
    | some v, some t, some h =>
      let r : Root := { ver := v, typ := t, hash := h }
      let want := match PathBadger.read s r with | .ok => "ok" | .notFound => "notfound" | .foreign => "foreign"
      if want == c then (st, "ok")
      else fail s!"read-mismatch root {showRoot r} impl={c} model={want}"
    | _, _, _ => fail "bad-op"
  | [] => (st, "ok")
  | _ => fail "bad-op"

/-! ### mode pruner -/

def prunerStep (p : Pruner.PSt) (line : String) : Pruner.PSt × String :=
  match words line with
  | ["new"] => ({ earliest := 0, lastRetained := 0 }, "ok")
  | ["prune", k, latest, dbE, veto, ne, fl, sync, asked, err, ret, ras] =>
    match k.toNat?, latest.toNat?, dbE.toNat?, parseNats veto, parseNats ne, parseNats fl, parseNats asked, ret.toNat? with
    | some k, some latest, some dbE, some veto, some ne, some fl, some asked, some ret =>
      let db : Nat → Pruner.DbRes := fun v =>
        if fl.contains v then .fail else if ne.contains v then .notEarliest else .ok
      let o := Pruner.prune k latest dbE (fun v => veto.contains v) db p (sync == "1")
      let rasM := match o.retainedAtSync with | some r => toString r | none => "-"
      let errM := if o.err then "1" else "0"
      if o.asked != asked then (o.st, s!"DIVERGE pruner-calls ndb.Prune called for {asked}, model {o.asked}")
      else if errM != err then (o.st, s!"DIVERGE pruner-error impl={err} model={errM}")
      else if rasM != ras then
        (o.st, s!"DIVERGE pruner-sync-order last retained version while Sync runs: impl={ras} model={rasM}")
      else if o.st.lastRetained != ret then
        (o.st, s!"DIVERGE pruner-last-retained impl={ret} model={o.st.lastRetained}")
      else (o.st, "ok")
    | _, _, _, _, _, _, _, _ => (p, "DIVERGE bad-op")
  | [] => (p, "ok")
  | _ => (p, "DIVERGE bad-op")

inductive Mode where
  | unset
  | spec (st : SpecSt)
  | badger (st : BSt)
  | crash
  | pruner (p : Pruner.PSt)
  | pathbadger (st : PSt)

def step (m : Mode) (line : String) : Mode × String :=
  match m with
  | .unset =>
    match words line with
    | ["mode", "spec"] => (.spec {}, "ok")
    | ["mode", "badger"] => (.badger {}, "ok")
    | ["mode", "crash"] => (.crash, "ok")
    | ["mode", "pathbadger"] => (.pathbadger {}, "ok")
    | ["mode", "pruner"] => (.pruner { earliest := 0, lastRetained := 0 }, "ok")
    | _ => (.unset, "DIVERGE bad-mode")
  | .spec st => let (st', out) := specStep st line; (.spec st', out)
  | .badger st => let (st', out) := badgerStep st line; (.badger st', out)
  | .crash => (.crash, crashStep line)
  | .pruner p => let (p', out) := prunerStep p line; (.pruner p', out)
  | .pathbadger st => let (st', out) := pathStep st line; (.pathbadger st', out)

def main : IO Unit := loop step .unset

end OasisModel.NodeDB.Driver
