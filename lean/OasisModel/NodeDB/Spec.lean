/-
Abstract contract of the MKVS node database (`go/storage/mkvs/db/api/api.go`, interface
`NodeDB`), property C06.

The contract is a state machine over

  * `present`  — the roots the database may report (`HasRoot`, `GetRootsForVersion`) together
                 with the contents that were committed under them (opaque `Contents`),
  * `fin`      — ghost: the roots that were *chosen* in a successful `Finalize` and whose
                 version has not been pruned,
  * `last`     — last finalized version (`GetLatestVersion`),
  * `earliest` — earliest retained version (`GetEarliestVersion`).

`commit`, `finalize`, `prune` return the API's error in exactly the cases in which both
backends return it (`badger.go:548-850,1015-1140`, `pathbadger.go:242-636,846-950`).

`Finalize` is specified with a *witness*: the API says "all non-finalized roots *can* be
discarded", so the set `keep` of roots of that version that remain reported is chosen by the
backend (badger keeps the transitive closure over derived roots; pathbadger keeps every root
node key).  The contract only requires `chosen ⊆ keep ⊆ present`.

Hashes are opaque identifiers (`Nat`); `0` stands for the empty hash.  Core Lean only.
-/
namespace OasisModel.NodeDB

abbrev Contents := String

/-- `node.Root` without the namespace (one namespace per database). -/
structure Root where
  ver : Nat
  typ : Nat      -- 0 = state, 1 = io
  hash : Nat     -- 0 = empty hash
deriving DecidableEq, Repr, Inhabited

inductive Err where
  | alreadyFinalized      -- ErrAlreadyFinalized
  | notFinalized          -- ErrNotFinalized
  | rootNotFound          -- ErrRootNotFound
  | mustFollowOld         -- ErrRootMustFollowOld
  | prevMismatch          -- ErrPreviousVersionMismatch
  | notEarliest           -- ErrNotEarliest
  | cannotPruneLatest     -- ErrCannotPruneLatestVersion
  | noRoots               -- "need at least one root to finalize"
  | versionMismatch       -- "roots to finalize don't have matching versions"
  | nodeNotFound          -- ErrNodeNotFound (also stands for a failed `Visit` inside badger's Prune)
deriving DecidableEq, Repr, Inhabited

def Err.toString : Err → String
  | .alreadyFinalized => "already_finalized"
  | .notFinalized => "not_finalized"
  | .rootNotFound => "root_not_found"
  | .mustFollowOld => "must_follow"
  | .prevMismatch => "prev_mismatch"
  | .notEarliest => "not_earliest"
  | .cannotPruneLatest => "cannot_prune_latest"
  | .noRoots => "no_roots"
  | .versionMismatch => "version_mismatch"
  | .nodeNotFound => "node_not_found"

namespace Spec

structure St where
  present : List (Root × Contents)
  fin : List Root
  last : Option Nat
  earliest : Nat
deriving Repr, Inhabited

def init : St := { present := [], fin := [], last := none, earliest := 0 }

def lookup (s : St) (r : Root) : Option Contents :=
  (s.present.find? (fun e => e.1 == r)).map (·.2)

def isPresent (s : St) (r : Root) : Bool := s.present.any (fun e => e.1 == r)

/-- `last ≥ v` (a version that is already finalized). -/
def finalizedGE (s : St) (v : Nat) : Bool :=
  match s.last with
  | some l => decide (v ≤ l)
  | none => false

/-- `Root.Follows`: same type, version equal or one higher. -/
def follows (new old : Root) : Bool :=
  new.typ == old.typ && (new.ver == old.ver || new.ver == old.ver + 1)

/-- The error `Batch.Commit(root)` returns for a tree derived from `old` (hash 0: derived from
nothing), in badger's order of checks. -/
def commitErr (s : St) (old new : Root) : Option Err :=
  if !follows new old then some .mustFollowOld
  else if finalizedGE s new.ver then some .alreadyFinalized
  else if isPresent s new then none
  else if old.hash != 0 && old.ver < s.earliest && old.ver != new.ver then some .prevMismatch
  else if old.hash != 0 && !isPresent s old then some .rootNotFound
  else none

def commit (s : St) (old new : Root) (c : Contents) : Except Err St :=
  match commitErr s old new with
  | some e => .error e
  | none => .ok (if isPresent s new then s else { s with present := s.present ++ [(new, c)] })

def rootsAt (s : St) (v : Nat) : List Root :=
  (s.present.filter (fun e => e.1.ver == v)).map (·.1)

/-- The previous version is not finalized yet: `last + 1 < v`. -/
def gapBefore (s : St) (v : Nat) : Bool :=
  match s.last with
  | some l => decide (l + 1 < v)
  | none => false

def finalizeErr (s : St) (v : Nat) (chosen : List Root) : Option Err :=
  if chosen.isEmpty then some .noRoots
  else if finalizedGE s v then some .alreadyFinalized
  else if gapBefore s v then some .notFinalized
  else if chosen.any (fun r => r.ver != v) then some .versionMismatch
  else if chosen.any (fun r => r.hash != 0 && !isPresent s r) then some .rootNotFound
  else none

/-- `Finalize(roots)`: `chosen` all of version `v`; `keep` is the backend's choice of what stays. -/
def finalize (s : St) (v : Nat) (chosen keep : List Root) : Except Err St :=
  match finalizeErr s v chosen with
  | some e => .error e
  | none =>
    .ok { present := s.present.filter (fun e => e.1.ver != v || keep.contains e.1)
          fin := s.fin ++ chosen.filter (fun r => isPresent s r)
          last := some v
          earliest := if s.last.isNone then v else s.earliest }

/-- The side condition on the backend's witness. -/
def keepOk (s : St) (v : Nat) (chosen keep : List Root) : Bool :=
  (chosen.filter (fun r => isPresent s r)).all (fun r => keep.contains r) &&
  keep.all (fun r => r.ver == v && isPresent s r)

def pruneErr (s : St) (v : Nat) : Option Err :=
  match s.last with
  | none => some .notFinalized
  | some l =>
    if l < v then some .notFinalized
    else if v != s.earliest then some .notEarliest
    else if v == l then some .cannotPruneLatest
    else none

/-- `Prune(version)`. -/
def prune (s : St) (v : Nat) : Except Err St :=
  match pruneErr s v with
  | some e => .error e
  | none => .ok { s with present := s.present.filter (fun e => e.1.ver != v)
                         fin := s.fin.filter (fun r => r.ver != v)
                         earliest := v + 1 }

/-! ### error sets

The two backends test the error conditions in different orders (pathbadger checks the old
root in `NewBatch` before `Commit` looks at the last finalized version), so the driver accepts
any error whose condition holds; an operation must succeed iff no condition holds. -/

def commitErrs (s : St) (old new : Root) : List Err :=
  (if !follows new old then [.mustFollowOld] else []) ++
  (if finalizedGE s new.ver then [.alreadyFinalized] else []) ++
  (if old.hash != 0 && old.ver < s.earliest && old.ver != new.ver && !isPresent s new then [.prevMismatch] else []) ++
  (if old.hash != 0 && !isPresent s old && !isPresent s new then [.rootNotFound] else [])

/-- Errors a backend *may* return although the contract's canonical order succeeds
(re-commit of an existing root from an old root that is gone: badger returns early with
success, pathbadger's `NewBatch` refuses). The state is unchanged either way. -/
def commitMayErrs (s : St) (old _new : Root) : List Err :=
  if old.hash != 0 && !isPresent s old then [.rootNotFound] else []

def finalizeErrs (s : St) (v : Nat) (chosen : List Root) : List Err :=
  (if chosen.isEmpty then [.noRoots] else []) ++
  (if finalizedGE s v then [.alreadyFinalized] else []) ++
  (if gapBefore s v then [.notFinalized] else []) ++
  (if chosen.any (fun r => r.ver != v) then [.versionMismatch] else []) ++
  (if chosen.any (fun r => r.hash != 0 && !isPresent s r) then [.rootNotFound] else [])

def pruneErrs (s : St) (v : Nat) : List Err :=
  match s.last with
  | none => [.notFinalized]
  | some l =>
    (if l < v then [.notFinalized] else []) ++
    (if v != s.earliest then [.notEarliest] else []) ++
    (if v == l then [.cannotPruneLatest] else [])

/-! ### observations -/

/-- `HasRoot`. -/
def hasRoot (s : St) (r : Root) : Bool :=
  r.hash == 0 || (decide (s.earliest ≤ r.ver) && isPresent s r)

/-- `GetRootsForVersion`. -/
def rootsFor (s : St) (v : Nat) : List Root :=
  if v < s.earliest then [] else rootsAt s v

/-- Full read-back of a root: its contents, if the database has it. -/
def read (s : St) (r : Root) : Option Contents :=
  if r.ver < s.earliest then none else lookup s r

/-- A root is *retained finalized*: chosen by a `Finalize` and inside `[earliest,last]`. -/
def retained (s : St) (r : Root) : Bool := s.fin.contains r

/-! ### histories -/

inductive Op where
  | commit (old new : Root) (c : Contents)
  | finalize (v : Nat) (chosen keep : List Root)
  | prune (v : Nat)
deriving Repr

/-- One step; an operation that returns an error leaves the state unchanged. A `finalize`
whose witness violates `keepOk` is not a behaviour of any conforming backend and is skipped. -/
def step (s : St) : Op → St
  | .commit o n c => match commit s o n c with | .ok s' => s' | .error _ => s
  | .finalize v ch k =>
    if keepOk s v ch k then (match finalize s v ch k with | .ok s' => s' | .error _ => s) else s
  | .prune v => match prune s v with | .ok s' => s' | .error _ => s

def run (s : St) (ops : List Op) : St := ops.foldl step s

/-- Well-formedness: one contents per root, finalized roots are present and in the window. -/
def WF (s : St) : Prop :=
  (∀ r ∈ s.fin, isPresent s r = true ∧ s.earliest ≤ r.ver ∧ ∃ l, s.last = some l ∧ r.ver ≤ l) ∧
  (∀ e ∈ s.present, s.earliest ≤ e.1.ver ∨ s.last = none) ∧
  (∀ l, s.last = some l → s.earliest ≤ l)

end Spec
end OasisModel.NodeDB
