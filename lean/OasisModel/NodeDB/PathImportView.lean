import OasisModel.Mkvs.Proof
import OasisModel.NodeDB.PathImport
/-
Bridge from the MKVS models to the chunk-import model (C12, pathbadger).  Core Lean only.

`ofTrie H t`: the checkpointed tree `t` (`OasisModel.Mkvs.Trie`) as a `PTree` over byte-string hashes;
`ofPT H s`: the pointer tree `s` rebuilt by `VerifyProof` (`OasisModel.Mkvs.PT`) as the `PTree` that
`doRestoreChunk` walks; `importable H s`: what the pathbadger batch can serialise at all —
  * the internal leaf of a materialised internal node is nil or a leaf (`nodeToDb`, node.go:299
    type-asserts `n.LeafNode.Node.(*node.LeafNode)`: a hash-only internal leaf panics; checkpoint
    chunks are version-0 proofs — built with `NewProofBuilderV0`, chunk.go:94 / subtree.go:106, read
    with `p.V = v1ProofsVersion = 0`, chunk.go:277 / file.go:28 — where the leaf is embedded in its
    node, so the verifier never rebuilds anything else there),
  * no hash-only pointer carries the empty hash (`ptrToDb`, node.go:431 panics; the proof builder
    writes a nil entry for an empty hash, proof.go:227-231).
-/
namespace OasisModel.NodeDB.PathImport
open OasisModel.Mkvs

def leafHash (H : Bytes → Bytes) : Option (Bytes × Bytes) → Option Bytes
  | none => none
  | some (k, v) => some (H (leafEnc k v))

def ofTrie (H : Bytes → Bytes) : Trie → PTree Bytes
  | .nil => .nil
  | .leaf k v => .node (H (leafEnc k v)) none .nil .nil
  | .node lab lf l r => .node (hashWith H (.node lab lf l r)) (leafHash H lf) (ofTrie H l) (ofTrie H r)

def ptLeafHash (H : Bytes → Bytes) : PT → Option Bytes
  | .leaf k v => some (H (leafEnc k v))
  | _ => none

def ofPT (H : Bytes → Bytes) : PT → PTree Bytes
  | .nil => .nil
  | .hash h => .stub h
  | .leaf k v => .node (H (leafEnc k v)) none .nil .nil
  | .node bits label lf l r =>
    .node ((PT.node bits label lf l r).hashOf H) (ptLeafHash H lf) (ofPT H l) (ofPT H r)

def leafSlotOK : PT → Bool
  | .nil => true
  | .leaf _ _ => true
  | _ => false

def importable (H : Bytes → Bytes) : PT → Bool
  | .nil => true
  | .hash h => h != H []
  | .leaf _ _ => true
  | .node _ _ lf l r => leafSlotOK lf && importable H l && importable H r

end OasisModel.NodeDB.PathImport
