/-
The arithmetic of the ABCI state pruner (`go/consensus/cometbft/abci/prune.go:117-200`,
`genericPruner.Prune`) as a pure function.

Inputs of one call: `latest` (latest version), the pruner's `keepN`, its remembered
`earliest` / `lastRetained`, the database's `GetEarliestVersion()` (`dbEarliest`), the prune
handlers' verdict per version (`veto v = true`: some handler refuses), the database's answer
to `Prune(v)` per version (`db v`) and whether `ndb.Sync()` succeeds (`syncOk`).  Output: the
versions for which `ndb.Prune` returned `nil`, the new `earliest` / `lastRetained`, whether the
call returned an error, and — if `Sync` was reached — the retained version a concurrent
`GetLastRetainedVersion` sees while `Sync` runs: the code syncs BEFORE it advances the retained
version ("otherwise things can be pruned and in case of a crash replay will not be possible").
Core Lean only.
-/
namespace OasisModel.NodeDB.Pruner

inductive DbRes where
  | ok            -- nil
  | notEarliest   -- ErrNotEarliest: skipped (`continue`)
  | fail          -- any other error: returned to the caller
deriving DecidableEq, Repr

structure PSt where
  earliest : Nat
  lastRetained : Nat
deriving DecidableEq, Repr

structure Out where
  st : PSt
  pruned : List Nat    -- versions the database accepted to prune, in order
  asked : List Nat     -- versions passed to ndb.Prune, in order
  err : Bool
  /-- `some r`: `ndb.Sync()` was called while `lastRetainedVersion` was `r` -/
  retainedAtSync : Option Nat := none
deriving Repr

/-- The `for i := p.earliest; i <= latestVersion; i++` loop, `n` iterations left. Returns the
new `p.earliest` (unchanged if the loop ran off the end), the calls made and the error flag. -/
def loop (preserveFrom : Nat) (veto : Nat → Bool) (db : Nat → DbRes) :
    Nat → Nat → Nat → List Nat → List Nat → (Nat × List Nat × List Nat × Bool)
  | 0, _, e, pr, ak => (e, pr, ak, false)
  | n + 1, i, e, pr, ak =>
    if i ≥ preserveFrom then (i, pr, ak, false)
    else if veto i then (i, pr, ak, false)
    else match db i with
      | .ok => loop preserveFrom veto db n (i + 1) e (pr ++ [i]) (ak ++ [i])
      | .notEarliest => loop preserveFrom veto db n (i + 1) e pr (ak ++ [i])
      | .fail => (e, pr, ak ++ [i], true)

def prune (keepN latest dbEarliest : Nat) (veto : Nat → Bool) (db : Nat → DbRes) (p : PSt)
    (syncOk : Bool := true) : Out :=
  if latest < keepN then { st := p, pruned := [], asked := [], err := false }
  else
    let p1 : PSt := if p.earliest = 0 then { earliest := dbEarliest, lastRetained := dbEarliest } else p
    if p1.earliest = 0 then { st := p1, pruned := [], asked := [], err := false }
    else
      let r := loop (latest - keepN) veto db (latest + 1 - p1.earliest) p1.earliest p1.earliest [] []
      if r.2.2.2 then { st := p1, pruned := r.2.1, asked := r.2.2.1, err := true }
      else if !syncOk then
        -- Sync failed: the error is returned, the retained version has not moved
        { st := { earliest := r.1, lastRetained := p1.lastRetained }, pruned := r.2.1, asked := r.2.2.1,
          err := true, retainedAtSync := some p1.lastRetained }
      else { st := { earliest := r.1, lastRetained := r.1 }, pruned := r.2.1, asked := r.2.2.1, err := false,
             retainedAtSync := some p1.lastRetained }

end OasisModel.NodeDB.Pruner
