import OasisModel.NodeDB.PathBadger
/-
Write-ordering model of the pathbadger backend for property C07
(`pathbadger.go`: `NewBatch` 712-716, `badgerBatch.Commit` 917-946, `Finalize` 454-510,
`Prune` 620-629; `multipart.go`).

As in `Crash.lean`, an operation is a plan of atomic durable steps in the code's order, every
payload computed from the state at the start of the operation, and a crash is a prefix:

  * `metaCommit`  — `meta.commit(tx)`: sequence-number tables, last finalized, earliest
  * `metaFlush`   — one flush of the batch at the metadata timestamp: updated-nodes indices and
                    the pending key space
  * `dataFlush`   — one flush of the batch at the version timestamp: finalized key space and
                    root-node keys

Also here: the checkpoint-restore path (`StartMultipartInsert`, chunk commits, Abort) as far as
the loss of a repeated restore (finding D10) needs it.  Core Lean only.
-/
namespace OasisModel.NodeDB.PathCrash
open OasisModel.NodeDB OasisModel.NodeDB.PathBadger

inductive Durable where
  | metaCommit (name : String) (nextSeq : List (Nat × List (Nat × Nat))) (pendSeq : List (Nat × List (TH × Nat)))
      (last : Option Nat) (earliest : Nat)
  | metaFlush (name : String) (upd : List ((Nat × TH) × Option (List (Bool × Key))))
      (pend : List (Nat × List ((Nat × Nat × Key) × NodeVal)))
  | dataFlush (name : String) (ts : Nat) (fin : List ((Nat × Key) × Option NodeVal))
      (roots : List ((Nat × TH) × Option NodeVal))

def Durable.name : Durable → String
  | .metaCommit n .. => n
  | .metaFlush n .. => n
  | .dataFlush n .. => n

/-- `upd` / `pend` / `roots` payloads are prepended (newest binding first), `fin` writes go to the
MVCC store at the step's timestamp. -/
def applyStep (s : St) : Durable → St
  | .metaCommit _ ns ps last earliest => { s with nextSeq := ns, pendSeq := ps, last := last, earliest := earliest }
  | .metaFlush _ up pe => { s with upd := up ++ s.upd, pend := pe ++ s.pend }
  | .dataFlush _ ts fw rw => { s with fin := finWriteAll s.fin fw ts, rootNode := rw ++ s.rootNode }

def applyAll (s : St) (plan : List Durable) : St := plan.foldl applyStep s

def applyPrefix (k : Nat) (s : St) (plan : List Durable) : St := applyAll s (plan.take k)

/-- `NewBatch` + `Commit` creating a new root (the ghost key set is not part of the database). -/
def planCommit (s : St) (old new : Root) (b : Batch) : List Durable :=
  let s' := commitSt s old new b
  let seq := nextSeqOf s new.ver old.typ
  let th : TH := (new.typ, new.hash)
  [ .metaCommit "pathbadger.newbatch.1-after-meta-commit" s'.nextSeq s.pendSeq s.last s.earliest,
    .metaCommit "pathbadger.commit.1-after-meta-commit" s'.nextSeq s'.pendSeq s.last s.earliest,
    .metaFlush "pathbadger.commit.2-after-batmeta-flush"
      [((new.ver, th), some (b.puts.map (fun (p : Key × NodeVal) => (false, p.1)) ++
                             b.removed.map (fun (k : Key) => (true, k))))]
      (if seq == 0 then [] else
        [(new.ver, b.puts.map (fun (p : Key × NodeVal) => ((new.typ, seq, p.1), p.2)) ++ pendAt s new.ver)]),
    .dataFlush "pathbadger.commit.3-after-batch-flush" new.ver
      (if seq == 0 then b.puts.map (fun (p : Key × NodeVal) => ((new.typ, p.1), some p.2)) else [])
      [((new.ver, th), some (newRootVal s old new b))] ]

/-- `Finalize`: copy, (write-log deletions), delete, metadata deletions, metadata commit. -/
def planFinalize (s : St) (v : Nat) (chosen : List Root) : List Durable :=
  let p := finPlan s v chosen
  let s' := finalizeSt s v chosen
  [ .dataFlush "pathbadger.finalize.1-after-copy-flush" v p.copies [],
    .metaFlush "pathbadger.finalize.2-after-copymeta-flush" [] [],
    .dataFlush "pathbadger.finalize.3-after-delete-flush" v p.dels (p.discarded.map (fun th => ((v, th), none))),
    .metaFlush "pathbadger.finalize.4-after-deletemeta-flush" ((rootsAt s v).map (fun th => ((v, th), none))) [(v, [])],
    .metaCommit "pathbadger.finalize.5-after-meta-commit" s'.nextSeq s'.pendSeq s'.last s'.earliest ]

/-- `Prune`. -/
def planPrune (s : St) (v : Nat) : List Durable :=
  [ .dataFlush "pathbadger.prune.1-after-batch-flush" v ((ioKeysOf s v).map (fun k => (k, none)))
      (((rootsAt s v).filter (fun th => th.1 == 1)).map (fun th => ((v, th), none))),
    .metaFlush "pathbadger.prune.2-after-batchmeta-flush" [] [],
    .metaCommit "pathbadger.prune.3-after-meta-commit" s.nextSeq s.pendSeq s.last (v + 1) ]

/-! ### checkpoint restore (multipart) -/

/-- `StartMultipartInsert(v)`: a sequence number is reserved for every root type. -/
def startMultipart (s : St) (v : Nat) : St := bumpSeq (bumpSeq s v 0) v 1

/-- A chunk `Commit` of a restore of version `v` whose batches carry sequence number `seq` (the one
reserved by `StartMultipartInsert`): the nodes go to the finalized or the pending key space as in a
normal commit and the root's sequence number is recorded, but — `if !ba.chunk` — NO updated-nodes
index is written. -/
def chunkCommit (s : St) (new : Root) (seq : Nat) (puts : List (Key × NodeVal)) (root : NodeVal) : St :=
  let th : TH := (new.typ, new.hash)
  { s with
    pendSeq := (new.ver, (th, seq) :: lookupD s.pendSeq new.ver []) :: s.pendSeq
    rootNode := ((new.ver, th), some root) :: s.rootNode
    fin := if seq == 0 then finWriteAll s.fin (puts.map (fun (p : Key × NodeVal) => ((new.typ, p.1), some p.2))) new.ver
           else s.fin
    pend := if seq == 0 then s.pend else
      (new.ver, puts.map (fun (p : Key × NodeVal) => ((new.typ, seq, p.1), p.2)) ++ pendAt s new.ver) :: s.pend }

/-- `AbortMultipartInsert` / the cleanup on reopen after nothing (or only the multipart flag) was
written: the journal is empty, the flag is cleared — and the reserved sequence numbers stay
reserved (`NextPendingRootSeq` is not reset). -/
def abortEmptyMultipart (s : St) : St := s

/-! ## reopen, retry, observers (added for `Props/C07Path.lean`; definitions only) -/

/-- **Observational equality**: everything a client of the `NodeDB` API can see of the database
`q` is what it sees of `s` — `GetLatestVersion`, `GetEarliestVersion`, `GetRootsForVersion` of every
version, `HasRoot` of every root, the stored root node of every root and the outcome of the full
read-back (`read`: every pointer below the root resolves to a node with the recorded hash) of every
root, finalized or pending.  Sequence numbers, the pending key space, the updated-nodes indices
and the ghost key sets are NOT observable. -/
structure ObsEq (s q : St) : Prop where
  last : q.last = s.last
  earliest : q.earliest = s.earliest
  roots : ∀ v, rootsFor q v = rootsFor s v
  hasRoot : ∀ r, PathBadger.hasRoot q r = PathBadger.hasRoot s r
  rootNode : ∀ v th, rootVal q v th = rootVal s v th
  read : ∀ r, PathBadger.read q r = PathBadger.read s r

/-- The database together with the persisted multipart marker
(`serializedMetadata.MultipartVersion` / `MultipartSeqs`, metadata.go:26-30; 0 = no restore in
progress). -/
structure PSt where
  db : St
  mpVersion : Nat
  mpSeqs : List (Nat × Nat)

/-- Durable steps of a checkpoint restore: the steps of the chunk commits / of the Finalize, and the
`meta.commit` calls that write the multipart fields (together with the sequence-number table, as
`meta.commit` always writes the whole metadata). -/
inductive MDurable where
  | db (d : Durable)
  | mpMeta (name : String) (nextSeq : List (Nat × List (Nat × Nat))) (ver : Nat) (seqs : List (Nat × Nat))

def MDurable.name : MDurable → String
  | .db d => d.name
  | .mpMeta n .. => n

def applyMStep (p : PSt) : MDurable → PSt
  | .db d => { p with db := applyStep p.db d }
  | .mpMeta _ ns ver seqs => { db := { p.db with nextSeq := ns }, mpVersion := ver, mpSeqs := seqs }

def applyMAll (p : PSt) (plan : List MDurable) : PSt := plan.foldl applyMStep p

/-- `StartMultipartInsert(v)` (multipart.go:31-77): one metadata commit carrying the reserved
sequence numbers and the multipart marker. -/
def planStartMp (s : St) (v : Nat) : List MDurable :=
  [ .mpMeta "pathbadger.startmp.1-after-meta-commit" (startMultipart s v).nextSeq v
      [(0, nextSeqOf s v 0), (1, nextSeqOf s v 1)] ]

/-- A chunk `Commit` (pathbadger.go:868-976 with `ba.chunk`): `NewBatch` commits no metadata
(720-728), the updated-nodes index is not written (946), the root node is (re)written last. -/
def planChunk (s : St) (new : Root) (seq : Nat) (puts : List (Key × NodeVal)) (root : NodeVal) : List Durable :=
  let th : TH := (new.typ, new.hash)
  [ .metaCommit "pathbadger.commit.1-after-meta-commit" s.nextSeq (chunkCommit s new seq puts root).pendSeq
      s.last s.earliest,
    .metaFlush "pathbadger.commit.2-after-batmeta-flush" []
      (if seq == 0 then [] else
        [(new.ver, puts.map (fun (p : Key × NodeVal) => ((new.typ, seq, p.1), p.2)) ++ pendAt s new.ver)]),
    .dataFlush "pathbadger.commit.3-after-batch-flush" new.ver
      (if seq == 0 then puts.map (fun (p : Key × NodeVal) => ((new.typ, p.1), some p.2)) else [])
      [((new.ver, th), some root)] ]

/-- `cleanMultipartLocked` (multipart.go:88-166), called by `New` on every open (pathbadger.go:53)
and by `AbortMultipartInsert`: it deletes what the journal `multipartRestoreNodeLogKeyFmt` lists —
and this backend never writes that journal (its only other mention is keyformat.go:55), so the
batch is empty — then clears the multipart fields of the metadata. -/
def planCleanMp (p : PSt) : List MDurable :=
  if p.mpVersion = 0 then [] else
    [ .db (.dataFlush "pathbadger.cleanmp.1-after-batch-flush" p.mpVersion [] []),
      .mpMeta "pathbadger.cleanmp.2-after-meta-commit" p.db.nextSeq 0 [] ]

/-- Reopen (`New`, pathbadger.go:25-73): the metadata is loaded as it was last committed and the
leftovers of a multipart restore are cleaned.  Nothing else is repaired. -/
def recover (p : PSt) : PSt := applyMAll p (planCleanMp p)

end OasisModel.NodeDB.PathCrash
