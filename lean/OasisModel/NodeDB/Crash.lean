import OasisModel.NodeDB.Badger
/-
Write-ordering model of the badger node database backend for property C07
(`badger.go`: `badgerBatch.Commit` 1120-1140, `Finalize` 705-733, `Prune` 833-850,
`StartMultipartInsert`, `cleanMultipartLocked`, `New`).

Every mutating operation is a *plan*: the list of atomic durable steps the code performs, in the
code's order, each computed from the state at the start of the operation (the code computes
everything it writes before the first flush):

  * `dataFlush`  — one `WriteBatch.Flush()` at the version timestamp (node keys, root-node keys)
  * `metaCommit` — one `tx.CommitAt(tsMetadata)` (rootsMetadata, updated-nodes index, metadata)
  * `logFlush` / `logClear` / `mpSet` — the multipart restore journal and its metadata flag

A crash is a prefix of the plan; `recover` is what `New` does on reopen (metadata is simply
re-read; leftovers of a multipart restore are removed).  The `verifCrashPoint` hooks in the Go
code sit exactly between these steps (`Durable.name`), and crashdrv checks on every run that
each real operation passes exactly the boundaries of its plan.  Core Lean only.
-/
namespace OasisModel.NodeDB.Crash
open OasisModel.NodeDB OasisModel.NodeDB.Badger

/-- Persistent state: the badger bookkeeping state plus the multipart restore journal. -/
structure PSt where
  b : Badger.St
  mpVersion : Nat := 0            -- metadata.MultipartVersion (0 = none)
  mpLog : List (Nat × Bool) := [] -- multipartRestoreNodeLogKeyFmt: (key, isRootNodeKey)

inductive Durable where
  | dataFlush (name : String) (ts : Nat) (nodes : List Nat) (nodeLive : Bool) (roots : List Nat) (rootLive : Bool)
  | metaCommit (name : String) (rmetaL : List (Nat × RootsMeta))
      (updL : List ((Nat × TH) × Option (List (Bool × Nat)))) (last : Option Nat) (earliest : Nat)
  | logFlush (name : String) (entries : List (Nat × Bool))
  | logClear (name : String)
  | mpSet (name : String) (v : Nat)

def Durable.name : Durable → String
  | .dataFlush n .. => n
  | .metaCommit n .. => n
  | .logFlush n _ => n
  | .logClear n => n
  | .mpSet n _ => n

def applyStep (p : PSt) : Durable → PSt
  | .dataFlush _ ts nodes nl roots rl =>
    { p with b := { p.b with node := p.b.node.writeAll nodes ts nl, rootNode := p.b.rootNode.writeAll roots ts rl } }
  | .metaCommit _ rm up last earliest =>
    { p with b := { p.b with rmetaL := rm, updL := up, last := last, earliest := earliest } }
  | .logFlush _ es => { p with mpLog := p.mpLog ++ es }
  | .logClear _ => { p with mpLog := [] }
  | .mpSet _ v => { p with mpVersion := v }

def applyAll (p : PSt) (plan : List Durable) : PSt := plan.foldl applyStep p

/-- The state a crash after the first `k` durable steps leaves on disk. -/
def applyPrefix (k : Nat) (p : PSt) (plan : List Durable) : PSt := applyAll p (plan.take k)

inductive Op where
  | commit (old new : Root) (added removed : List Nat)
  | finalize (v : Nat) (chosen : List Root)
  | prune (v : Nat)

def Op.version : Op → Nat
  | .commit _ n _ _ => n.ver
  | .finalize v _ => v
  | .prune v => v

/-- The operation returns before its first durable write (an API error, or a re-commit of an
existing root). -/
def noop (cl clv : Nat → List Nat) (s : Badger.St) : Op → Bool
  | .commit o n _ _ => (commitErr s o n).isSome || hasKey (s.rmeta n.ver) (n.typ, n.hash)
  | .finalize v ch => (finalizeErr s v ch).isSome
  | .prune v => (pruneErr cl clv s v).isSome

/-- The write plan of an operation outside a multipart restore. -/
def plan (cl clv : Nat → List Nat) (s : Badger.St) (op : Op) : List Durable :=
  if noop cl clv s op then [] else
  match op with
  | .commit o n a r =>
    let s' := commitSt s o n a r
    [ .dataFlush "badger.commit.2-after-batch-flush" n.ver a true [encTH (n.typ, n.hash)] true,
      .metaCommit "badger.commit.3-after-meta-commit" s'.rmetaL s'.updL s'.last s'.earliest ]
  | .finalize v ch =>
    let s' := finalizeSt s v ch
    [ .dataFlush "badger.finalize.1-after-batch-flush" v (finPlan s v (chosenTH ch)).dels false [] false,
      .metaCommit "badger.finalize.2-after-meta-commit" s'.rmetaL s'.updL s'.last s'.earliest ]
  | .prune v =>
    let s' := pruneSt clv s v
    [ .dataFlush "badger.prune.1-after-batch-flush" v (pruneDels clv s v) false
        ((loneRoots s v).map (fun e => encTH e.1)) false,
      .metaCommit "badger.prune.2-after-meta-commit" s'.rmetaL s'.updL s'.last s'.earliest ]

/-- The uninterrupted operation of the bookkeeping model. -/
def run (cl clv : Nat → List Nat) (s : Badger.St) : Op → Except Err Badger.St
  | .commit o n a r => Badger.commit s o n a r
  | .finalize v ch => Badger.finalize s v ch
  | .prune v => Badger.prune cl clv s v

/-! ### multipart restore (checkpoint chunks) -/

/-- `StartMultipartInsert(v)`. -/
def planStartMp (v : Nat) : List Durable := [.mpSet "badger.startmp.1-after-meta-commit" v]

/-- A chunk `Commit` during a restore of version `v`: journal first, then data, then metadata.
`fresh` are the put nodes that did not exist before (only those are journalled). -/
def planChunk (s : Badger.St) (new : Root) (added fresh : List Nat) : List Durable :=
  let th : TH := (new.typ, new.hash)
  let rm := if hasKey (s.rmeta new.ver) th then s.rmetaL else metaWithRoot s new
  [ .logFlush "badger.commit.1-after-mplog-flush" (fresh.map (fun h => (h, false)) ++ [(encTH th, true)]),
    .dataFlush "badger.commit.2-after-batch-flush" new.ver added true [encTH th] true,
    .metaCommit "badger.commit.3-after-meta-commit" rm (((new.ver, th), some []) :: s.updL) s.last s.earliest ]

/-- `Finalize` at the end of a restore: the normal plan, then `cleanMultipartLocked(false)`. -/
def planFinalizeMp (cl clv : Nat → List Nat) (s : Badger.St) (v : Nat) (ch : List Root) : List Durable :=
  plan cl clv s (.finalize v ch) ++
  [ .logClear "badger.cleanmp.1-after-batch-flush", .mpSet "badger.cleanmp.2-after-meta-commit" 0 ]

/-- What `New` does on reopen: `cleanMultipartLocked(true)` if the metadata still names a
multipart version — every journalled key is deleted at that version's timestamp. -/
def recover (p : PSt) : PSt :=
  if p.mpVersion = 0 then p
  else
    { b := { p.b with
        node := p.b.node.writeAll ((p.mpLog.filter (fun e => !e.2)).map (·.1)) p.mpVersion false
        rootNode := p.b.rootNode.writeAll ((p.mpLog.filter (·.2)).map (·.1)) p.mpVersion false }
      mpVersion := 0
      mpLog := [] }

/-! ### boundary names (the tie to the hooks) -/

/-- Names crashdrv must see for an operation outside a restore: a marker before the first write,
then one per durable step. -/
def badgerNames (kind : String) (noop : Bool) : List String :=
  if noop then [] else
  match kind with
  | "commit" => ["badger.commit.0-before-writes", "badger.commit.2-after-batch-flush", "badger.commit.3-after-meta-commit"]
  | "finalize" => ["badger.finalize.0-before-writes", "badger.finalize.1-after-batch-flush", "badger.finalize.2-after-meta-commit"]
  | "prune" => ["badger.prune.0-before-writes", "badger.prune.1-after-batch-flush", "badger.prune.2-after-meta-commit"]
  | _ => []

/-- pathbadger has no bookkeeping model here; its write order is recorded as a table
(`pathbadger.go` NewBatch 712-716, Commit 917-946, Finalize 454-510, Prune 620-629). -/
def pathbadgerNames (kind res : String) (exists_ : Bool) : List String :=
  let nb := ["pathbadger.newbatch.0-before-writes", "pathbadger.newbatch.1-after-meta-commit"]
  match kind with
  | "commit" =>
    if res == "ok" && !exists_ then
      nb ++ ["pathbadger.commit.0-before-writes", "pathbadger.commit.1-after-meta-commit",
             "pathbadger.commit.2-after-batmeta-flush", "pathbadger.commit.3-after-batch-flush"]
    else if res == "ok" || res == "already_finalized" then nb
    else []
  | "finalize" =>
    if res == "ok" then
      ["pathbadger.finalize.0-before-writes", "pathbadger.finalize.1-after-copy-flush",
       "pathbadger.finalize.2-after-copymeta-flush", "pathbadger.finalize.3-after-delete-flush",
       "pathbadger.finalize.4-after-deletemeta-flush", "pathbadger.finalize.5-after-meta-commit"]
    else []
  | "prune" =>
    if res == "ok" then
      ["pathbadger.prune.0-before-writes", "pathbadger.prune.1-after-batch-flush",
       "pathbadger.prune.2-after-batchmeta-flush", "pathbadger.prune.3-after-meta-commit"]
    else []
  | _ => []

/-- Boundaries of a complete checkpoint restore with `n` chunks: StartMultipartInsert, `n` chunk
commits, Finalize, cleanMultipartLocked(false). -/
def restoreNames (backend : String) (n : Nat) : List String :=
  let chunk := if backend == "badger" then
      ["badger.commit.0-before-writes", "badger.commit.1-after-mplog-flush",
       "badger.commit.2-after-batch-flush", "badger.commit.3-after-meta-commit"]
    else
      ["pathbadger.commit.0-before-writes", "pathbadger.commit.1-after-meta-commit",
       "pathbadger.commit.2-after-batmeta-flush", "pathbadger.commit.3-after-batch-flush"]
  [backend ++ ".startmp.0-before-writes", backend ++ ".startmp.1-after-meta-commit"] ++
  (List.replicate n chunk).flatten ++
  (if backend == "badger" then badgerNames "finalize" false else pathbadgerNames "finalize" "ok" false) ++
  [backend ++ ".cleanmp.0-before-writes", backend ++ ".cleanmp.1-after-batch-flush",
   backend ++ ".cleanmp.2-after-meta-commit"]

/-- Model prediction for a crash at boundary `bi` of a badger restore with `n` chunks. Between the
Finalize's metadata commit and the deletion of the journal the restored version is finalized while
the journal still exists: reopening removes the journalled nodes
(`restore_crash_after_finalize_destroys_finalized_version`), and the restore cannot be repeated
because the version is already finalized. -/
def badgerRestoreClasses (n bi : Nat) : List String :=
  let fin2 := 2 + 4 * n + 2
  if bi < fin2 then ["old+retry-ok", "mid+retry-ok"]
  else if bi ≤ fin2 + 1 then ["finalized-damaged"]
  else ["new"]

/-- What the model predicts an observer sees after a crash at boundary `bi` of a successful
badger operation (`old`/`mid`/`new`, and whether retrying completes). `loneNonEmpty`: the pruned
version has a lone root with a non-empty tree. -/
def badgerCrashClasses (kind : String) (bi : Nat) (loneNonEmpty : Bool) : List String :=
  match kind, bi with
  | _, 0 => ["old+retry-ok"]
  | "commit", 1 => ["old+retry-ok"]
  | "finalize", 1 => ["old+retry-ok", "mid+retry-ok"]
  | "prune", 1 => if loneNonEmpty then ["mid+retry-ok"] else ["old+retry-ok", "mid+retry-ok"]
  | _, _ => ["new"]

end OasisModel.NodeDB.Crash
