import OasisModel.NodeDB.PathBadger
/-
What a LONG-LIVED in-memory tree hands to a pathbadger batch (property C06).

`go/storage/mkvs/commit.go:152-249` (`doCommit`) walks the in-memory tree; for every pointer it
calls the batch of the path-keyed backend (`go/storage/mkvs/db/pathbadger/node.go`):

* dirty pointer   → `VisitDirtyNode` (node.go:170) = `refreshDbPtr` (node.go:175-192): a pointer
  without database position (`DBInternal == nil`) gets `dbPtr{version: ba.version, index}` with
  `index = 0` (`indexRootNode`, node.go:27) when `parent == nil` and `ba.lastIndex.Add(1)`
  otherwise; then (after the children) `PutNode` (node.go:218-251);
* clean pointer   → `VisitCleanNode` (node.go:118-167), and `doCommit` does NOT descend
  (commit.go:166-171).

A `dbPtr` is a pair `(version, index)` (node.go:497-500); the pair
`(0xffffffffffffffff, 0xffffffff)` is the *invalid* marker (node.go:22-30, 518-520) carried by a leaf
that `nodeFromDb` found embedded in its parent (node.go:408-413).  `isRoot` is `index == 0`
(node.go:511-513).

The same in-memory tree commits version after version: the positions written into the pointers by
one commit are still there at the next one.  That is what this model is about: `Ptr.pos` is the
`DBInternal` field as left behind by earlier commits (or by loading from the database).

Simplifications, all stated here:
* multipart restore (`refreshDbPtr`, node.go:194-214) is off (`multipartVersionNone`);
* the index counter is a `Nat` (the `uint32` wrap-around after 2^32-1 nodes in one batch is not
  modelled);
* the field `hash` of a dirty pointer stands for the hash `UpdateHash` computes during this commit
  (commit.go:209, 229): it is a function of the contents only, never of the positions;
* the tree returned by the walk is the tree after the `OnCommit` hooks ran (commit.go:216-218,
  236-238, 242-246: everything clean), i.e. the commit succeeded;
* two places where the Go code would panic are total here and excluded by the well-formedness
  hypothesis of the theorems: `ptr.DBInternal.(*dbPtr)` on a clean non-root pointer without position
  (node.go:126) is modelled as "nothing happens"; `ptrToDb` of a child pointer without / with the
  invalid position (node.go:426-429) writes the invalid key (theorem (1) shows it never happens).

Core Lean only.
-/
namespace OasisModel.NodeDB.PathPtr
open OasisModel.NodeDB.PathBadger (Key NodeVal Batch)

/-- `versionInvalid` (node.go:24). -/
def versionInvalid : Nat := 0xffffffffffffffff
/-- `indexInvalid` (node.go:29). -/
def indexInvalid : Nat := 0xffffffff
/-- `newInvalidDbPtr` (node.go:503-508). -/
def invalidKey : Key := (versionInvalid, indexInvalid)
/-- `dbPtr.isInvalid` (node.go:518-520). -/
def isInvalid (k : Key) : Bool := k.1 == versionInvalid && k.2 == indexInvalid
/-- `dbPtr.isRoot` (node.go:511-513): index 0. -/
def isRootKey (k : Key) : Bool := k.2 == 0

/-- `node.Pointer` (node/node.go:170-180): `Clean`, `DBInternal` (`none` = nil), `Hash`. -/
structure Ptr where
  clean : Bool
  pos : Option Key
  hash : Nat
deriving DecidableEq, Repr, Inhabited

/-- The in-memory tree: nil pointer, pointer to a leaf, pointer to an internal node with an optional
embedded leaf (`InternalNode.LeafNode`, always resident with its parent) and two children.  A clean
pointer whose node is not resident is represented as a `leaf` (nothing below it is ever looked at). -/
inductive Tree where
  | nil
  | leaf (p : Ptr)
  | node (p : Ptr) (emb : Option Ptr) (l r : Tree)
deriving DecidableEq, Repr, Inhabited

def Tree.ptr? : Tree → Option Ptr
  | .nil => none
  | .leaf p => some p
  | .node p _ _ _ => some p

/-- The state of one `badgerBatch` during the walk: `lastIndex` (pathbadger.go:740-741: starts at
`indexRootNode`), the put entries and the `Removed` entries of `updatedNodes` (in order),
`newRootValue`. -/
structure Walk where
  last : Nat := 0
  puts : List (Key × NodeVal) := []
  removed : List Key := []
  root : Option NodeVal := none
deriving DecidableEq, Repr, Inhabited

/-- `refreshDbPtr` (node.go:175-192). -/
def refreshDbPtr (v : Nat) (pos : Option Key) (isRoot : Bool) (w : Walk) : Key × Walk :=
  match pos with
  | some k => (k, w)
  | none => if isRoot then ((v, 0), w) else ((v, w.last + 1), { w with last := w.last + 1 })

/-- `PutNode` (node.go:218-251): nothing for the invalid marker, `newRootValue` for index 0,
otherwise an `updatedNodes` entry and a database write under the key. -/
def putNode (k : Key) (val : NodeVal) (w : Walk) : Walk :=
  if isInvalid k then w
  else if isRootKey k then { w with root := some val }
  else { w with puts := w.puts ++ [(k, val)] }

/-- `ptrToDb` (node.go:425-438) of a child pointer: key and hash. -/
def kidOf (t : Tree) : List (Key × Nat) :=
  match t.ptr? with
  | none => []
  | some p => [(p.pos.getD invalidKey, p.hash)]

/-- `nodeToDb` (node.go:279-297): the left and the right pointer; the embedded leaf is serialised by
value (node.go:298-303), not as a pointer. -/
def kidsOf (l r : Tree) : List (Key × Nat) := kidOf l ++ kidOf r

/-- `VisitCleanNode` (node.go:118-167).  `isRoot` is `parent == nil`, `emb` is
`parent.Node.LeafNode == ptr` (node.go:148-152), `val` is what `nodeToDb(ptr)` would serialise.

`gc = true` is the SEEDED MUTATION of theorem (4) (`embedded_leaf_gc_breaks_resolution`): a clean
standalone leaf that is now embedded is recorded as removed, the in-memory position is left alone.
The code is `gc = false`. -/
def visitClean (gc : Bool) (v : Nat) (p : Ptr) (isRoot emb : Bool) (val : NodeVal) (w : Walk) : Ptr × Walk :=
  match p.pos with
  | none => (p, w)          -- node.go:120-125 for the root; a panic (node.go:126) otherwise
  | some k =>
    let wasRoot := isRootKey k
    -- node.go:129-143
    let changed := wasRoot != isRoot
    let w1 := if changed && isRoot then { w with removed := w.removed ++ [k] } else w
    -- node.go:146-157
    let wasInvalid := isInvalid k
    let reput := wasInvalid && !emb
    -- the mutation
    let w2 := if gc && !wasInvalid && emb then { w1 with removed := w1.removed ++ [k] } else w1
    let pos' := if changed || reput then none else some k
    -- node.go:159-166
    let (k', w3) := refreshDbPtr v pos' isRoot w2
    let w4 := if changed || reput then putNode k' val w3 else w3
    ({ p with pos := some k' }, w4)

/-- `doCommit` for the embedded leaf of a dirty internal node (commit.go:196-199; `parent` is the
internal node).  A DIRTY embedded leaf is treated like any dirty leaf: it gets a fresh index and is
put as a node of its own (commit.go:220-239, node.go:176-191, 218-251) although its parent also
carries it by value. -/
def walkEmb (gc : Bool) (v : Nat) (e : Option Ptr) (w : Walk) : Option Ptr × Walk :=
  match e with
  | none => (none, w)
  | some p =>
    if p.clean then
      let r := visitClean gc v p false true ⟨p.hash, []⟩ w
      (some r.1, r.2)
    else
      let r := refreshDbPtr v p.pos false w
      (some { clean := true, pos := some r.1, hash := p.hash }, putNode r.1 ⟨p.hash, []⟩ r.2)

/-- `doCommit` (commit.go:152-249) with the batch callbacks inlined.  `isRoot` is `parent == nil`. -/
def walk (gc : Bool) (v : Nat) : Tree → Bool → Walk → Tree × Walk
  | .nil, _, w => (.nil, w)                                   -- commit.go:160-164
  | .leaf p, isRoot, w =>
    if p.clean then                                            -- commit.go:165-170
      let r := visitClean gc v p isRoot false ⟨p.hash, []⟩ w
      (.leaf r.1, r.2)
    else                                                       -- commit.go:220-239
      let r := refreshDbPtr v p.pos isRoot w
      (.leaf { clean := true, pos := some r.1, hash := p.hash }, putNode r.1 ⟨p.hash, []⟩ r.2)
  | .node p e l r, isRoot, w =>
    if p.clean then                                            -- commit.go:165-170: no descent
      let c := visitClean gc v p isRoot false ⟨p.hash, kidsOf l r⟩ w
      (.node c.1 e l r, c.2)
    else                                                       -- commit.go:185-219
      let a := refreshDbPtr v p.pos isRoot w                   -- VisitDirtyNode first
      let b := walkEmb gc v e a.2                              -- the embedded leaf
      let c := walk gc v l false b.2                           -- Left, then Right
      let d := walk gc v r false c.2
      (.node { clean := true, pos := some a.1, hash := p.hash } b.1 c.1 d.1,
       putNode a.1 ⟨p.hash, kidsOf c.1 d.1⟩ d.2)                -- PutNode after the children

/-- `RemoveNodes` (pathbadger.go:846-866) on `t.pendingRemovedNodes` (commit.go:131): pointers
never persisted and root positions are skipped. -/
def removeNodes (pending : List (Option Key)) : List Key :=
  pending.filterMap (fun o => match o with
    | none => none
    | some k => if isRootKey k then none else some k)

/-- One `Commit` of the tree at version `v` (commit.go:88, 131): the tree afterwards and the batch
state.  `pending` are the `DBInternal` fields of `t.pendingRemovedNodes`. -/
def commitWalkG (gc : Bool) (v : Nat) (t : Tree) (pending : List (Option Key)) : Tree × Walk :=
  let r := walk gc v t true {}
  (r.1, { r.2 with removed := r.2.removed ++ removeNodes pending })

/-- The code. -/
def commitWalk (v : Nat) (t : Tree) (pending : List (Option Key)) : Tree × Walk :=
  commitWalkG false v t pending

/-- The mutant of theorem (4). -/
def commitWalkMut (v : Nat) (t : Tree) (pending : List (Option Key)) : Tree × Walk :=
  commitWalkG true v t pending

/-- The batch in the vocabulary of `PathBadger.lean`.  The `Removed` entry carrying the invalid key
(an embedded leaf loaded from the database that became the root, node.go:137-142 with
`iptr.dbKey()` of the invalid marker; `RemoveNodes` of an embedded leaf) names a key that never
exists in the database: `Finalize` deletes nothing for it.  The correspondence driver drops it in the
same way (harness/cmd/dbdrv/pathlog.go:117-147). -/
def toBatch (w : Walk) : Batch :=
  { puts := w.puts, removed := w.removed.filter (fun k => !isInvalid k), root := w.root }

/-! ### the pointers of a tree -/

/-- All non-embedded pointers of a tree, its top pointer included. -/
def allPtrs : Tree → List Ptr
  | .nil => []
  | .leaf p => [p]
  | .node p _ l r => p :: (allPtrs l ++ allPtrs r)

/-- The child pointers (`Left` / `Right` of some internal node): what `ptrToDb` serialises and
`GetNode` later resolves by position. -/
def childPtrs : Tree → List Ptr
  | .node _ _ l r => allPtrs l ++ allPtrs r
  | _ => []

/-- The embedded-leaf pointers. -/
def embPtrs : Tree → List Ptr
  | .nil => []
  | .leaf _ => []
  | .node _ e l r => e.toList ++ (embPtrs l ++ embPtrs r)

/-- The database nodes alive after a batch, as (key, hash): the inherited ones not removed, and the
puts. -/
def nextLive (live : List (Key × Nat)) (w : Walk) : List (Key × Nat) :=
  live.filter (fun e => !w.removed.contains e.1) ++ w.puts.map (fun q => (q.1, q.2.hash))

/-! ### two edits of a long-lived tree (for the witness history of theorem (4))

The tree operations between two commits, on the shape `root(-, A, B)` with leaves `A`, `B`. -/

/-- `Insert` of a key that extends the key of the left leaf `A` (insert.go:205-237, "Label is a
prefix of the inserted key": `leafNode = ptr`, the new leaf goes left): `A` becomes the embedded
leaf of a new internal node `X` — the SAME pointer, position and clean flag untouched; `X` and the
new leaf `C` are new (dirty, no position, cache.go:103-130); the root is marked dirty
(insert.go:126-134: its old pointer goes to `pendingRemovedNodes`, `SetDirty` drops its position).
`hx`, `hc`, `hr` are the hashes of `X`, `C` and of the new root contents. -/
def extendLeft (hx hc hr : Nat) : Tree → Tree × List (Option Key)
  | .node p none (.leaf a) b =>
    (.node { clean := false, pos := none, hash := hr } none
      (.node { clean := false, pos := none, hash := hx } (some a)
        (.leaf { clean := false, pos := none, hash := hc }) .nil) b,
     [p.pos])
  | t => (t, [])

/-- `Remove` of that longer key again (remove.go:186-193: the leaf `C` goes to
`pendingRemovedNodes`; remove.go:136-141: only the embedded leaf remains, the internal node `X` is
collapsed into it and goes to `pendingRemovedNodes`, the SAME leaf pointer is returned;
remove.go:174-185: the root is marked dirty). -/
def collapseLeft (hr : Nat) : Tree → Tree × List (Option Key)
  | .node p none (.node x (some a) (.leaf c) .nil) b =>
    (.node { clean := false, pos := none, hash := hr } none (.leaf a) b, [c.pos, x.pos, p.pos])
  | t => (t, [])

end OasisModel.NodeDB.PathPtr
