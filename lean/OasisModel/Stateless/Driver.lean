import OasisModel.Proto
import OasisModel.Stateless.Sha256
import OasisModel.Stateless.Merkle
import OasisModel.Stateless.Verify
/-
C19 stateless verification: line-protocol driver (`om_stateless`).

Every line is `<op> k=v k=v …`; the line carries what the *implementation* answered (`want=`) and
the values the Go side computed with the real third-party libraries (decoded CBOR/protobuf,
CometBFT header hash …), which instantiate `Lib`.  `H` is SHA-256.  The model recomputes the
verdict (and every Merkle root / proof) and answers `ok` or `DIVERGE <detail>`.

Values: integers (possibly negative), hex byte strings (`-` or `.` = empty), lists = elements
separated by `,` (`-` = empty list), `none` for an absent optional.

  sha     in= want=
  root    items= want=                                   Merkle.root over raw items
  txroot  txs= want=                                     RootHashOfTransactions / Txs.Hash
  proof   txs= i= total= index= leaf= aunts=             ProofsForTransactions(txs)[i] (decoded)
  vproof  want= dec=0|1 total= index= leaf= aunts= root= tx=      verifyTransactionProof
  vtxs    want=0|1 txs= dh=                              verifyTransactions
  vblock  want= [ref=1] b.h= b.hash= b.ts= b.tn= b.ns= b.ver= b.typ= b.root= b.size=
          md=0|1 m.hdr= cd=0|1 c.h= c.r= c.bid= c.sigs= lb.h= lb.hash= lb.ts= lb.tn= lb.app= lb.enc= lb.lch= lb.lbid=
  vres    want= [ref=1] r.h= md=0|1 txs=<code:data:gw:gu:enc,…> rh= lb.h=          pure verifyBlockResults
  vresc   want= [ref=1] last=<int|none> next=<lastResultsHash|none> r.h= md= txs= lb.h=   (*Core).verifyBlockResults
  vvals   want= [ref=1] v.h= md=0|1 vals=<pub:power:enc,…> lb.h= lb.nvh=
  vparams want= [ref=1] p.h= md=0|1 mb= mg= hp= lb.h= lb.ch= st=<hex|none> pp=
  sroot   want=<hex|err> next=<apphash|none> cur=<datahash|none> ptxs=<list|none> dm=<hex|none>

For `want=ok` lines the executable specification predicate is evaluated as well, and — once a
reference response was stored with `ref=1` — the agreement predicate between the reference and
every later accepted response (spec-on-implementation: an accepted altered response may differ
from the original only in fields the theorems list as unbound).
-/
namespace OasisModel.Stateless.Driver
open OasisModel.Proto OasisModel.Stateless

abbrev KV := List (String × String)

def parseKV (ws : List String) : KV :=
  ws.filterMap fun w =>
    match w.splitOn "=" with
    | [k, v] => some (k, v)
    | _ => none

def get (kv : KV) (k : String) : Option String := (kv.find? (·.1 == k)).map (·.2)

def hexE (s : String) : Option Bytes :=
  if s == "-" || s == "." || s == "" then some [] else parseHex s

def parseInt (s : String) : Option Int :=
  if s.startsWith "-" then (s.drop 1).toString.toNat?.map (fun n => - (n : Int))
  else s.toNat?.map (fun n => (n : Int))

def hexList (s : String) : Option (List Bytes) :=
  if s == "-" then some [] else (s.splitOn ",").mapM hexE

def getHex (kv : KV) (k : String) : Option Bytes := get kv k >>= hexE
def getInt (kv : KV) (k : String) : Option Int := get kv k >>= parseInt
def getNat (kv : KV) (k : String) : Option Nat := get kv k >>= String.toNat?
def getList (kv : KV) (k : String) : Option (List Bytes) := get kv k >>= hexList
def getFlag (kv : KV) (k : String) : Bool := get kv k == some "1"

/-- optional hex: `none` → `some none`. -/
def getOptHex (kv : KV) (k : String) : Option (Option Bytes) :=
  match get kv k with
  | none => none
  | some "none" => some none
  | some s => (hexE s).map some

def H : Bytes → Bytes := Sha256.sum

/-! Driver instantiation of the model's type parameters: a commit signature and an event list
are their encodings; `genesis.Parameters` is its CBOR encoding. -/
abbrev DLib := Lib Bytes Unit Bytes

/-- A `Lib` whose functions are the oracles given on the current line. -/
structure Oracles where
  headerHash : Bytes := []
  headerEnc : Bytes := []
  blockMeta : Option BlockMeta := none
  commit : Option (Commit Bytes) := none
  results : Option (ResultsMeta Unit) := none
  detTable : List ((Nat × Bytes × Int × Int) × Bytes) := []
  validators : Option ValidatorSet := none
  valTable : List ((Bytes × Int) × Bytes) := []
  params : Option CmtParams := none
  hpEnc : Bytes := []
  metaTx : Option Bytes := none
  proof : Option Merkle.Proof := none

def Oracles.lib (o : Oracles) : DLib where
  headerHash := fun _ => o.headerHash
  headerEnc := fun _ => o.headerEnc
  decBlockMeta := fun _ => o.blockMeta
  decCommit := fun _ => o.commit
  sigEnc := id
  decResults := fun _ => o.results
  detEnc := fun c d gw gu => ((o.detTable.find? (·.1 == (c, d, gw, gu))).map (·.2)).getD []
  decValidators := fun _ => o.validators
  valEnc := fun pk pw => ((o.valTable.find? (·.1 == (pk, pw))).map (·.2)).getD []
  decParams := fun _ => o.params
  hashedParamsEnc := fun _ _ => o.hpEnc
  paramsEnc := id
  decMetaTx := fun _ => o.metaTx
  decProof := fun _ => o.proof

structure BlockView where
  b : Block
  m : BlockMeta
  c : Commit Bytes

structure St where
  refBlock : Option BlockView := none
  refResults : Option (Int × ResultsMeta Unit) := none
  refVals : Option (Int × ValidatorSet) := none
  refParams : Option (Int × CmtParams × Bytes) := none

/-! ### agreement predicates (the conclusions of the `…_agree` theorems, executable) -/

def blockAgree (x y : BlockView) : Bool :=
  x.b.height == y.b.height && x.b.hash == y.b.hash && x.b.time == y.b.time &&
  x.b.stateRoot == y.b.stateRoot && x.m.header == y.m.header && x.c.sigs == y.c.sigs &&
  (x.c.sigs.isEmpty || (x.c.height == y.c.height && x.c.blockID == y.c.blockID))

def detOf (r : TxResult Unit) : Nat × Bytes × Int × Int := (r.code, r.data, r.gasWanted, r.gasUsed)

def resultsAgree (x y : Int × ResultsMeta Unit) : Bool :=
  x.1 == y.1 && x.2.txs.map detOf == y.2.txs.map detOf

def valsAgree (x y : Int × ValidatorSet) : Bool :=
  x.1 == y.1 && x.2.validators.map (fun v => (v.pubKey, v.power)) == y.2.validators.map (fun v => (v.pubKey, v.power))

def paramsAgree (x y : Int × CmtParams × Bytes) : Bool :=
  x.1 == y.1 && x.2.1.blockMaxBytes == y.2.1.blockMaxBytes && x.2.1.blockMaxGas == y.2.1.blockMaxGas &&
  x.2.2 == y.2.2

/-! ### parsing of composite values -/

def parseHeader (kv : KV) : Option Header := do
  let h ← getInt kv "lb.h"
  pure { height := h,
         time := { sec := (getInt kv "lb.ts").getD 0, nsec := (getNat kv "lb.tn").getD 0 },
         appHash := (getHex kv "lb.app").getD [],
         dataHash := (getHex kv "lb.dh").getD [],
         lastCommitHash := (getHex kv "lb.lch").getD [],
         lastBlockID := (getHex kv "lb.lbid").getD [],
         consensusHash := (getHex kv "lb.ch").getD [],
         nextValidatorsHash := (getHex kv "lb.nvh").getD [],
         lastResultsHash := (getHex kv "lb.lrh").getD [],
         other := [] }

def parseTxResult (s : String) : Option ((TxResult Unit) × Bytes) :=
  match s.splitOn ":" with
  | [c, d, gw, gu, enc] => do
    let c ← c.toNat?
    let d ← hexE d
    let gw ← parseInt gw
    let gu ← parseInt gu
    let enc ← hexE enc
    pure ({ code := c, data := d, gasWanted := gw, gasUsed := gu, log := [], info := [], codespace := [], events := () }, enc)
  | _ => none

def parseTxResults (s : String) : Option (List ((TxResult Unit) × Bytes)) :=
  if s == "-" then some [] else (s.splitOn ",").mapM parseTxResult

def parseVal (s : String) : Option (Validator × Bytes) :=
  match s.splitOn ":" with
  | [pk, pw, enc] => do
    let pk ← hexE pk
    let pw ← parseInt pw
    let enc ← hexE enc
    pure ({ address := [], pubKey := pk, power := pw, priority := 0 }, enc)
  | _ => none

def parseVals (s : String) : Option (List (Validator × Bytes)) :=
  if s == "-" then some [] else (s.splitOn ",").mapM parseVal

def resultsOracles (kv : KV) : Option Oracles := do
  if getFlag kv "md" then
    let l ← get kv "txs" >>= parseTxResults
    pure { results := some { txs := l.map (·.1), beginEvents := (), endEvents := () },
           detTable := l.map fun p => (detOf p.1, p.2) }
  else pure {}

/-! ### the ops -/

def mkHeader (app dh : Bytes) : Header :=
  { height := 0, time := ⟨0, 0⟩, appHash := app, dataHash := dh, lastCommitHash := [], lastBlockID := [],
    consensusHash := [], nextValidatorsHash := [], lastResultsHash := [], other := [] }

def diverge (what model impl : String) : String := s!"DIVERGE {what} model={model} impl={impl}"

def opBlock (st : St) (kv : KV) : Option (St × String) := do
  let want ← get kv "want"
  let lb ← parseHeader kv
  let b : Block := {
    height := ← getInt kv "b.h", hash := ← getHex kv "b.hash",
    time := { sec := ← getInt kv "b.ts", nsec := ← getNat kv "b.tn" },
    stateRoot := { ns := ← getHex kv "b.ns", version := ← getNat kv "b.ver", type := ← getNat kv "b.typ",
                   hash := ← getHex kv "b.root" },
    size := (getNat kv "b.size").getD 0, metaB := [] }
  let m : Option BlockMeta ←
    if getFlag kv "md" then do
      let hdr ← getHex kv "m.hdr"
      pure (some { header := hdr, lastCommit := [] })
    else pure none
  let c : Option (Commit Bytes) ←
    if getFlag kv "cd" then do
      let sigs ← getList kv "c.sigs"
      pure (some { height := (getInt kv "c.h").getD 0, round := (getInt kv "c.r").getD 0,
                   blockID := (getHex kv "c.bid").getD [], sigs := sigs })
    else pure none
  let o : Oracles := { headerHash := ← getHex kv "lb.hash", headerEnc := ← getHex kv "lb.enc",
                       blockMeta := m, commit := c }
  let v := verifyBlock o.lib H b lb
  if v.toString != want then return (st, diverge "verifyBlock" v.toString want)
  if want != "ok" then return (st, "ok")
  if !blockSpec o.lib H b lb then return (st, "DIVERGE spec: accepted block violates blockSpec")
  match m, c with
  | some m, some c =>
    let view : BlockView := { b := b, m := m, c := c }
    if getFlag kv "ref" then return ({ st with refBlock := some view }, "ok")
    match st.refBlock with
    | some r => if blockAgree r view then return (st, "ok")
                else return (st, "DIVERGE spec: accepted block differs from the reference in a bound field")
    | none => return (st, "ok")
  | _, _ => return (st, "DIVERGE spec: accepted block without decodable meta")

def checkResults (st : St) (kv : KV) (want : String) (v : RV × Option (ResultsMeta Unit)) (h : Int) (what : String) :
    St × String :=
  if v.1.toString != want then (st, diverge what v.1.toString want) else
  if want != "ok" then (st, "ok") else
  match v.2 with
  | none => (st, "DIVERGE spec: accepted results without meta")
  | some m =>
    if getFlag kv "ref" then ({ st with refResults := some (h, m) }, "ok")
    else if getFlag kv "skip" then (st, "ok")     -- the latest-height exception: nothing is bound but the height
    else match st.refResults with
      | some r => if resultsAgree r (h, m) then (st, "ok")
                  else (st, "DIVERGE spec: accepted results differ from the reference in a bound field")
      | none => (st, "ok")

def opRes (st : St) (kv : KV) : Option (St × String) := do
  let want ← get kv "want"
  let o ← resultsOracles kv
  let lb ← parseHeader kv
  let r : BlockResults := { height := ← getInt kv "r.h", metaB := [] }
  let rh ← getHex kv "rh"
  pure (checkResults st kv want (verifyBlockResultsPure o.lib H r rh lb) r.height "verifyBlockResults")

def opResCore (st : St) (kv : KV) : Option (St × String) := do
  let want ← get kv "want"
  let o ← resultsOracles kv
  let lb ← parseHeader kv
  let r : BlockResults := { height := ← getInt kv "r.h", metaB := [] }
  let last : Option Int ← match get kv "last" with
    | some "none" => pure none
    | some s => (parseInt s).map some
    | none => none
  let next ← getOptHex kv "next"
  let lc : LightClient := {
    last := last,
    trusted := fun h => if h == lb.height + 1 then next.map (fun x => { lb with height := h, lastResultsHash := x }) else none }
  let v := verifyBlockResults o.lib H lc r lb
  -- in the skip branch nothing but the height is bound
  let kv := if last.any (· ≤ lb.height) then ("skip", "1") :: kv else kv
  pure (checkResults st kv want v r.height "Core.verifyBlockResults")

def opVals (st : St) (kv : KV) : Option (St × String) := do
  let want ← get kv "want"
  let lb ← parseHeader kv
  let v : Validators := { height := ← getInt kv "v.h", metaB := [] }
  let (vs, o) : Option ValidatorSet × Oracles ←
    if getFlag kv "md" then do
      let l ← get kv "vals" >>= parseVals
      let vs : ValidatorSet := { validators := l.map (·.1), proposer := { address := [], pubKey := [], power := 0, priority := 0 } }
      pure (some vs, { validators := some vs, valTable := l.map fun p => ((p.1.pubKey, p.1.power), p.2) })
    else pure (none, {})
  let r := verifyNextValidators o.lib H v lb
  if r.toString != want then return (st, diverge "verifyNextValidators" r.toString want)
  if want != "ok" then return (st, "ok")
  match vs with
  | none => return (st, "DIVERGE spec: accepted validators without decodable meta")
  | some vs =>
    if getFlag kv "ref" then return ({ st with refVals := some (v.height, vs) }, "ok")
    match st.refVals with
    | some x => if valsAgree x (v.height, vs) then return (st, "ok")
                else return (st, "DIVERGE spec: accepted validators differ from the reference in a bound field")
    | none => return (st, "ok")

def opParams (st : St) (kv : KV) : Option (St × String) := do
  let want ← get kv "want"
  let lb ← parseHeader kv
  let pp ← getHex kv "pp"
  let p : Parameters Bytes := { height := ← getInt kv "p.h", parameters := pp, metaB := [] }
  let (cp, o) : Option CmtParams × Oracles ←
    if getFlag kv "md" then do
      let cp : CmtParams := { blockMaxBytes := ← getInt kv "mb", blockMaxGas := ← getInt kv "mg",
                              evidence := [], validator := [], version := [] }
      pure (some cp, { params := some cp, hpEnc := ← getHex kv "hp" })
    else pure (none, {})
  let stp ← getOptHex kv "st"
  let r := verifyParameters o.lib H p lb stp
  if r.toString != want then return (st, diverge "verifyParameters" r.toString want)
  if want != "ok" then return (st, "ok")
  match cp with
  | none => return (st, "DIVERGE spec: accepted parameters without decodable meta")
  | some cp =>
    if getFlag kv "ref" then return ({ st with refParams := some (p.height, cp, pp) }, "ok")
    match st.refParams with
    | some x => if paramsAgree x (p.height, cp, pp) then return (st, "ok")
                else return (st, "DIVERGE spec: accepted parameters differ from the reference in a bound field")
    | none => return (st, "ok")

def parseProof (kv : KV) : Option Merkle.Proof := do
  pure { total := ← getInt kv "total", index := ← getInt kv "index", leafHash := ← getHex kv "leaf",
         aunts := ← getList kv "aunts" }

def opVProof (kv : KV) : Option String := do
  let want ← get kv "want"
  let p : Option Merkle.Proof ← if getFlag kv "dec" then (parseProof kv).map some else pure none
  let o : Oracles := { proof := p }
  let root ← getOptHex kv "root"
  let lb : Header := { height := 0, time := ⟨0, 0⟩, appHash := [], dataHash := root.getD [], lastCommitHash := [], lastBlockID := [],
                       consensusHash := [], nextValidatorsHash := [], lastResultsHash := [], other := [] }
  let tx ← getHex kv "tx"
  let v := verifyTransactionProof o.lib H [] tx lb
  if v.toString != want then return diverge "verifyTransactionProof" v.toString want
  -- spec-on-implementation: an accepted proof whose total is the length of a list with that root
  -- (given as `txs=`) proves the transaction at the index.
  if want == "ok" then
    match getList kv "txs", p with
    | some txs, some p =>
      if Merkle.txRoot H txs == root.getD [] then
        if !txs.contains tx then return "DIVERGE spec: accepted proof for a transaction that is not in the block"
        if p.total == txs.length && txs[p.index.toNat]? != some tx then
          return "DIVERGE spec: accepted proof with the right total for the wrong index"
        return "ok"
      else return "ok"
    | _, _ => return "ok"
  return "ok"

def opSRoot (kv : KV) : Option String := do
  let want ← get kv "want"
  let next ← getOptHex kv "next"
  let cur ← getOptHex kv "cur"
  let ptxs : Option (List Bytes) ← match get kv "ptxs" with
    | some "none" => pure none
    | some s => (hexList s).map some
    | none => none
  let dm ← getOptHex kv "dm"
  let o : Oracles := { metaTx := dm }
  let hdr (app dh : Bytes) : Header := mkHeader app dh
  let lc : LightClient := { last := none, trusted := fun h =>
    if h == 11 then next.map (fun a => hdr a []) else if h == 10 then cur.map (fun d => hdr [] d) else none }
  let r := fetchStateRoot o.lib H lc ptxs 10
  let rs := match r with | none => "err" | some x => showHex x
  if rs != want then return diverge "fetchStateRoot" rs want
  return "ok"

def step (st : St) (line : String) : St × String :=
  match words line with
  | [] => (st, "ok")
  | op :: rest =>
    let kv := parseKV rest
    let bad : St × String := (st, "DIVERGE bad-op " ++ op)
    let pure1 (r : Option String) : St × String := match r with | some s => (st, s) | none => bad
    let st1 (r : Option (St × String)) : St × String := match r with | some x => x | none => bad
    match op with
    | "sha" => pure1 do
        let i ← getHex kv "in"; let w ← getHex kv "want"
        pure (if H i == w then "ok" else diverge "sha256" (showHex (H i)) (showHex w))
    | "root" => pure1 do
        let l ← getList kv "items"; let w ← getHex kv "want"
        pure (if Merkle.root H l == w then "ok" else diverge "root" (showHex (Merkle.root H l)) (showHex w))
    | "txroot" => pure1 do
        let l ← getList kv "txs"; let w ← getHex kv "want"
        pure (if Merkle.txRoot H l == w then "ok" else diverge "txroot" (showHex (Merkle.txRoot H l)) (showHex w))
    | "proof" => pure1 do
        let l ← getList kv "txs"; let i ← getNat kv "i"; let p ← parseProof kv
        pure (if Merkle.txProof H l i == p then "ok" else s!"DIVERGE proof for index {i} differs from the model's")
    | "vproof" => pure1 (opVProof kv)
    | "vtxs" => pure1 do
        let l ← getList kv "txs"; let dh ← getHex kv "dh"; let w ← get kv "want"
        let lb : Header := { height := 0, time := ⟨0, 0⟩, appHash := [], dataHash := dh, lastCommitHash := [], lastBlockID := [],
                             consensusHash := [], nextValidatorsHash := [], lastResultsHash := [], other := [] }
        let v := if verifyTransactions H l lb then "1" else "0"
        pure (if v == w then "ok" else diverge "verifyTransactions" v w)
    | "vblock" => st1 (opBlock st kv)
    | "vres" => st1 (opRes st kv)
    | "vresc" => st1 (opResCore st kv)
    | "vvals" => st1 (opVals st kv)
    | "vparams" => st1 (opParams st kv)
    | "sroot" => pure1 (opSRoot kv)
    | _ => bad

def main : IO Unit := loop step {}

end OasisModel.Stateless.Driver
