import OasisModel.Proto
/- C19 stateless verification: driver stub (not built yet). -/
namespace OasisModel.Stateless.Driver
def main : IO Unit := IO.eprintln "mode not implemented"
end OasisModel.Stateless.Driver
