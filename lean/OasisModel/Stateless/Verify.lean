import OasisModel.Stateless.Merkle
/-
Model of the verification functions of the stateless consensus backend
(`go/consensus/cometbft/stateless/core.go`): the *decision sequences* of

  verifyBlock                 core.go:549
  (*Core).verifyBlockResults  core.go:612   (incl. the "latest trusted height is skipped" branch)
  verifyBlockResults          core.go:636
  (*Core).verifyParameters    core.go:657
  verifyTransactions          core.go:692
  verifyTransactionProof      core.go:714
  (*Core).verifyNextValidators core.go:721
  fetchStateRoot / stateRootFromBlockTxs / stateRootFromMetaTx   core.go:816-874
  fetchResultsHash            core.go:890   (line numbers as of /repo commit 8acc1f7)

Third-party encoders/decoders and hashes that the Go code calls (CBOR, protobuf, the CometBFT
header hash) are *parameters* (`Lib`), the Merkle trees are the model of `Merkle.lean` over the
parameter `H`.  Theorems quantify over all `Lib`/`H` (with injectivity hypotheses where a
conclusion needs them); the driver instantiates `Lib` with the values the Go side computed with
the real libraries and `H` with SHA-256.
-/
namespace OasisModel.Stateless

/-- An instant: seconds since the Unix epoch and nanoseconds (`time.Time` after `.UTC()`, for
which Go's `!=` on the struct is inequality of instants). -/
structure Time where
  sec : Int
  nsec : Nat
deriving DecidableEq, Repr

/-- `t.Truncate(time.Second)`. -/
def Time.truncSec (t : Time) : Time := { sec := t.sec, nsec := 0 }

/-- `mkvsNode.Root` (storage/mkvs/node/node.go:82). -/
structure StateRoot where
  ns : Bytes
  version : Nat        -- uint64
  type : Nat           -- uint8
  hash : Bytes
deriving DecidableEq, Repr

/-- `consensusAPI.Block` (consensus/api/api.go:233). -/
structure Block where
  height : Int
  hash : Bytes
  time : Time
  stateRoot : StateRoot
  size : Nat
  metaB : Bytes
deriving DecidableEq, Repr

/-- `api.BlockMeta` (consensus/cometbft/api/api.go:161), the CBOR-decoded `Block.Meta`. -/
structure BlockMeta where
  header : Bytes
  lastCommit : Bytes
deriving DecidableEq, Repr

/-- `cmttypes.Commit`; `Sig` is a `CommitSig`. -/
structure Commit (Sig : Type) where
  height : Int
  round : Int
  blockID : Bytes
  sigs : List Sig
deriving DecidableEq, Repr

/-- The fields of the header of a light-client verified `cmttypes.LightBlock` that the
verification functions read; `other` stands for the remaining header fields (version, chain ID,
validators hash, evidence hash, proposer address), which are never inspected
individually (they enter through `Lib.headerHash` / `Lib.headerEnc`). -/
structure Header where
  height : Int
  time : Time
  appHash : Bytes
  dataHash : Bytes
  lastCommitHash : Bytes
  /-- the encoding of `LastBlockID` (two block identifiers are `Equals` iff their encodings are equal) -/
  lastBlockID : Bytes
  consensusHash : Bytes
  nextValidatorsHash : Bytes
  lastResultsHash : Bytes
  other : Bytes
deriving DecidableEq, Repr

/-- `abci.ResponseDeliverTx`; `Ev` is the type of an event list. -/
structure TxResult (Ev : Type) where
  code : Nat
  data : Bytes
  gasWanted : Int
  gasUsed : Int
  log : Bytes
  info : Bytes
  codespace : Bytes
  events : Ev
deriving DecidableEq, Repr

/-- `api.BlockResultsMeta` (consensus/cometbft/api/api.go:217), the CBOR-decoded
`BlockResults.Meta`. -/
structure ResultsMeta (Ev : Type) where
  txs : List (TxResult Ev)
  beginEvents : Ev
  endEvents : Ev
deriving DecidableEq, Repr

/-- `consensusAPI.BlockResults` (consensus/api/api.go:252). -/
structure BlockResults where
  height : Int
  metaB : Bytes
deriving DecidableEq, Repr

/-- `cmttypes.Validator`. -/
structure Validator where
  address : Bytes
  pubKey : Bytes        -- the protobuf encoding of the public key
  power : Int
  priority : Int
deriving DecidableEq, Repr

/-- `cmttypes.ValidatorSet` as decoded by `light.DecodeValidators`. -/
structure ValidatorSet where
  validators : List Validator
  proposer : Validator
deriving DecidableEq, Repr

/-- `consensusAPI.Validators` (consensus/api/light.go:49). -/
structure Validators where
  height : Int
  metaB : Bytes
deriving DecidableEq, Repr

/-- `cmttypes.ConsensusParams`; the evidence, validator and version sections are opaque. -/
structure CmtParams where
  blockMaxBytes : Int
  blockMaxGas : Int
  evidence : Bytes
  validator : Bytes
  version : Bytes
deriving DecidableEq, Repr

/-- `consensusAPI.Parameters` (consensus/api/light.go:57); `P` is `genesis.Parameters`. -/
structure Parameters (P : Type) where
  height : Int
  parameters : P
  metaB : Bytes

/-- The library functions the verification code calls, as parameters of the model. -/
structure Lib (Sig Ev P : Type) where
  /-- `hash.LoadFromHexBytes(lb.Header.Hash())` -/
  headerHash : Header → Bytes
  /-- `lb.Header.ToProto().Marshal()` -/
  headerEnc : Header → Bytes
  /-- `cbor.Unmarshal(blk.Meta, &api.BlockMeta{})` -/
  decBlockMeta : Bytes → Option BlockMeta
  /-- `cmtproto.Commit.Unmarshal` followed by `cmttypes.CommitFromProto` (incl. `ValidateBasic`) -/
  decCommit : Bytes → Option (Commit Sig)
  /-- `commitSig.ToProto().Marshal()` -/
  sigEnc : Sig → Bytes
  /-- `api.NewBlockResultsMeta` (CBOR) -/
  decResults : Bytes → Option (ResultsMeta Ev)
  /-- protobuf encoding of the deterministic part `{Code, Data, GasWanted, GasUsed}` of a
  `ResponseDeliverTx` (`cmttypes.NewResults` / `ABCIResults.toByteSlices`) -/
  detEnc : Nat → Bytes → Int → Int → Bytes
  /-- `light.DecodeValidators` (protobuf + `ValidatorSetFromProto` incl. `ValidateBasic`) -/
  decValidators : Bytes → Option ValidatorSet
  /-- `Validator.Bytes()`: protobuf `SimpleValidator{PubKey, VotingPower}` -/
  valEnc : Bytes → Int → Bytes
  /-- `cmtproto.ConsensusParams.Unmarshal` + `ConsensusParamsFromProto` + `ValidateBasic` -/
  decParams : Bytes → Option CmtParams
  /-- protobuf `HashedParams{BlockMaxBytes, BlockMaxGas}` (`ConsensusParams.Hash`) -/
  hashedParamsEnc : Int → Int → Bytes
  /-- `cbor.Marshal(genesis.Parameters)` -/
  paramsEnc : P → Bytes
  /-- `stateRootFromMetaTx` decoding chain: signed tx → tx with method `consensus.Meta` →
  `BlockMetadata.StateRoot` -/
  decMetaTx : Bytes → Option Bytes
  /-- `cbor.Unmarshal(proof.RawProof, &cmtmerkle.Proof{})` -/
  decProof : Bytes → Option Merkle.Proof

variable {Sig Ev P : Type}

def zeroNamespace : Bytes := List.replicate 32 0
def rootTypeState : Nat := 1

/-- `uint64(h) - 1` for an `int64` `h`, with Go's wrap-around. -/
def prevVersion (h : Int) : Nat := ((h - 1) % (2 ^ 64 : Int)).toNat

/-! ### verifyBlock -/

/-- Outcome of `verifyBlock`, one constructor per `return fmt.Errorf(...)` in source order. -/
inductive BV where
  | ok | height | hash | time | ns | version | type | rootHash | metaMalformed | metaHeader
  | commitMalformed | commitHash | commitHeight | commitBlockID
deriving DecidableEq, Repr

def BV.toString : BV → String
  | .ok => "ok" | .height => "height" | .hash => "hash" | .time => "time" | .ns => "ns"
  | .version => "version" | .type => "type" | .rootHash => "roothash"
  | .metaMalformed => "meta-malformed" | .metaHeader => "meta-header"
  | .commitMalformed => "commit-malformed" | .commitHash => "commit-hash"
  | .commitHeight => "commit-height" | .commitBlockID => "commit-blockid"

/-- `Commit.Hash()`: Merkle root over the encoded commit signatures — *only* the signatures. -/
def commitHash (L : Lib Sig Ev P) (H : Bytes → Bytes) (c : Commit Sig) : Bytes :=
  Merkle.root H (c.sigs.map L.sigEnc)

/-- `verifyBlock` (core.go:549). -/
def verifyBlock (L : Lib Sig Ev P) (H : Bytes → Bytes) (b : Block) (lb : Header) : BV :=
  if b.height ≠ lb.height then .height
  else if b.hash ≠ L.headerHash lb then .hash
  else if b.time ≠ lb.time.truncSec then .time
  else if b.stateRoot.ns ≠ zeroNamespace then .ns
  else if b.stateRoot.version ≠ prevVersion lb.height then .version
  else if b.stateRoot.type ≠ rootTypeState then .type
  else if b.stateRoot.hash ≠ lb.appHash then .rootHash
  -- "Block size cannot be verified."
  else match L.decBlockMeta b.metaB with
    | none => .metaMalformed
    | some m =>
      if m.header ≠ L.headerEnc lb then .metaHeader
      else match L.decCommit m.lastCommit with
        | none => .commitMalformed
        | some c =>
          if commitHash L H c ≠ lb.lastCommitHash then .commitHash
          -- "The commit hash only covers the signatures, so bind the height and the block identifier
          -- of a non-empty commit (the first block carries an empty one) to the verified header."
          else if c.sigs ≠ [] ∧ c.height ≠ lb.height - 1 then .commitHeight
          else if c.sigs ≠ [] ∧ c.blockID ≠ lb.lastBlockID then .commitBlockID
          else .ok

/-! ### verifyTransactions, verifyTransactionProof -/

/-- `verifyTransactions` (core.go:692): `true` is the nil error. -/
def verifyTransactions (H : Bytes → Bytes) (txs : List Bytes) (lb : Header) : Bool :=
  Merkle.txRoot H txs == lb.dataHash

/-- Outcome of `verifyTransactionProof` (core.go:714). -/
inductive TPV where
  | decode | proof (v : Merkle.PV)
deriving DecidableEq, Repr

def TPV.toString : TPV → String
  | .decode => "decode" | .proof v => v.toString

/-- `verifyTransactionProof` (core.go:714): `rawProof` is `proof.RawProof`, `tx` is
`cbor.Marshal(tx)`. A nil/empty data hash is Go's nil `rootHash`. -/
def verifyTransactionProof (L : Lib Sig Ev P) (H : Bytes → Bytes) (rawProof tx : Bytes) (lb : Header) : TPV :=
  match L.decProof rawProof with
  | none => .decode
  | some p => .proof (Merkle.verifyTx H p (if lb.dataHash = [] then none else some lb.dataHash) tx)

/-! ### verifyBlockResults -/

inductive RV where
  | ok | height | malformed | hash | noTrusted | fetch
deriving DecidableEq, Repr

def RV.toString : RV → String
  | .ok => "ok" | .height => "height" | .malformed => "malformed" | .hash => "hash"
  | .noTrusted => "no-trusted" | .fetch => "fetch"

/-- `cmttypes.NewResults(meta.TxsResults).Hash()`: Merkle root over the deterministic encodings. -/
def resultsHash (L : Lib Sig Ev P) (H : Bytes → Bytes) (m : ResultsMeta Ev) : Bytes :=
  Merkle.root H (m.txs.map fun r => L.detEnc r.code r.data r.gasWanted r.gasUsed)

/-- The pure `verifyBlockResults` (core.go:636). Returns the decoded meta on success. -/
def verifyBlockResultsPure (L : Lib Sig Ev P) (H : Bytes → Bytes) (r : BlockResults) (rh : Bytes)
    (lb : Header) : RV × Option (ResultsMeta Ev) :=
  if r.height ≠ lb.height then (.height, none)
  else match L.decResults r.metaB with
    | none => (.malformed, none)
    | some m => if resultsHash L H m ≠ rh then (.hash, none) else (.ok, some m)

/-- The light client as seen by the stateless core: `trusted h` is the verified light block
`VerifyLightBlockAt(h)` returns (or `none` on error), `last` is `LastTrustedHeight()`. -/
structure LightClient where
  trusted : Int → Option Header
  last : Option Int

/-- `(*Core).verifyBlockResults` (core.go:612). -/
def verifyBlockResults (L : Lib Sig Ev P) (H : Bytes → Bytes) (lc : LightClient) (r : BlockResults)
    (lb : Header) : RV × Option (ResultsMeta Ev) :=
  match lc.last with
  | none => (.noTrusted, none)
  | some lastHeight =>
    if lastHeight ≤ lb.height then
      -- "skipping verification of block results"
      if r.height ≠ lb.height then (.height, none)
      else match L.decResults r.metaB with
        | none => (.malformed, none)
        | some m => (.ok, some m)
    else match lc.trusted (lb.height + 1) with
      | none => (.fetch, none)
      | some nxt => verifyBlockResultsPure L H r nxt.lastResultsHash lb

/-! ### verifyNextValidators -/

inductive VV where
  | ok | height | malformed | hash
deriving DecidableEq, Repr

def VV.toString : VV → String
  | .ok => "ok" | .height => "height" | .malformed => "malformed" | .hash => "hash"

/-- `ValidatorSet.Hash()`: Merkle root over `SimpleValidator{PubKey, VotingPower}` encodings. -/
def validatorsHash (L : Lib Sig Ev P) (H : Bytes → Bytes) (vs : ValidatorSet) : Bytes :=
  Merkle.root H (vs.validators.map fun v => L.valEnc v.pubKey v.power)

/-- `(*Core).verifyNextValidators` (core.go:721). -/
def verifyNextValidators (L : Lib Sig Ev P) (H : Bytes → Bytes) (v : Validators) (lb : Header) : VV :=
  if v.height ≠ lb.height + 1 then .height
  else match L.decValidators v.metaB with
    | none => .malformed
    | some vs => if validatorsHash L H vs ≠ lb.nextValidatorsHash then .hash else .ok

/-! ### verifyParameters -/

inductive PaV where
  | ok | height | malformed | hash | query | mismatch
deriving DecidableEq, Repr

def PaV.toString : PaV → String
  | .ok => "ok" | .height => "height" | .malformed => "malformed" | .hash => "hash"
  | .query => "query" | .mismatch => "mismatch"

/-- `ConsensusParams.Hash()`: the hash of `HashedParams{BlockMaxBytes, BlockMaxGas}` only. -/
def paramsHash (L : Lib Sig Ev P) (H : Bytes → Bytes) (p : CmtParams) : Bytes :=
  H (L.hashedParamsEnc p.blockMaxBytes p.blockMaxGas)

/-- `(*Core).verifyParameters` (core.go:657). `state` is what the (state-proof verified)
consensus querier returns for `lb.Height` (`none`: the query failed). -/
def verifyParameters (L : Lib Sig Ev P) (H : Bytes → Bytes) (p : Parameters P) (lb : Header)
    (state : Option P) : PaV :=
  if p.height ≠ lb.height then .height
  else match L.decParams p.metaB with
    | none => .malformed
    | some cp =>
      if paramsHash L H cp ≠ lb.consensusHash then .hash
      else match state with
        | none => .query
        | some sp => if L.paramsEnc sp ≠ L.paramsEnc p.parameters then .mismatch else .ok

/-! ### state root resolution -/

/-- `stateRootFromBlockTxs` (core.go:849): the metadata transaction is the last one. -/
def stateRootFromBlockTxs (L : Lib Sig Ev P) (txs : List Bytes) : Option Bytes :=
  match txs.getLast? with
  | none => none
  | some metaTx => L.decMetaTx metaTx

/-- `fetchStateRootFromLightBlock(height+1)` (core.go:827): the next header's app hash, which
must have the size of a hash. -/
def stateRootFromNext (lc : LightClient) (height : Int) : Option Bytes :=
  match lc.trusted (height + 1) with
  | none => none
  | some nxt => if nxt.appHash.length = 32 then some nxt.appHash else none

/-- `fetchStateRoot` (core.go:816): the next verified header's app hash, else the metadata
transaction of the block's *verified* transaction list (`GetTransactions`: light block at the
height, provider's transactions, `verifyTransactions`). `providerTxs` is the provider's answer
(`none`: the provider failed). -/
def fetchStateRoot (L : Lib Sig Ev P) (H : Bytes → Bytes) (lc : LightClient)
    (providerTxs : Option (List Bytes)) (height : Int) : Option Bytes :=
  match stateRootFromNext lc height with
  | some r => some r
  | none =>
    match lc.trusted height, providerTxs with
    | some lb, some txs => if verifyTransactions H txs lb then stateRootFromBlockTxs L txs else none
    | _, _ => none


/-! ### Public entry points (`consensusAPI.Backend` as implemented by `stateless.Core`)

The composition light client → provider → verification of `GetBlock` (core.go:107),
`GetTransactions` (:318), `GetBlockResults` (:126), `GetValidators` (:182), `GetParameters` (:259),
`StateRoot` (:459) and `SubmitTxWithProof` (:425).  `none` is an error return. -/

/-- The untrusted provider: arbitrary answers (`none`: an error). -/
structure Provider (P : Type) where
  block : Int → Option Block
  txs : Int → Option (List Bytes)
  results : Int → Option BlockResults
  validators : Int → Option Validators
  params : Int → Option (Parameters P)
  latestHeight : Option Int
  /-- `SubmitTxWithProof`: the height and raw proof the provider answers for a transaction -/
  submitProof : Bytes → Option (Int × Bytes)

/-- `consensusAPI.HeightLatest`. -/
def heightLatest : Int := 0

/-- `resolveHeight` (core.go:738) of a node that is not watching blocks: the latest height is
asked from the provider. -/
def resolveHeight (pr : Provider P) (h : Int) : Option Int :=
  if h ≠ heightLatest then some h
  else match pr.latestHeight with
    | some l => if l < 1 then none else some l
    | none => none

/-- `(*Core).lightBlock` (core.go:767). -/
def lightBlock (lc : LightClient) (pr : Provider P) (h : Int) : Option Header :=
  match resolveHeight pr h with
  | none => none
  | some h' => lc.trusted h'

def getBlock (L : Lib Sig Ev P) (H : Bytes → Bytes) (lc : LightClient) (pr : Provider P) (h : Int) : Option Block :=
  match lightBlock lc pr h with
  | none => none
  | some lb => match pr.block lb.height with
    | none => none
    | some b => if verifyBlock L H b lb = .ok then some b else none

def getTransactions (H : Bytes → Bytes) (lc : LightClient) (pr : Provider P) (h : Int) : Option (List Bytes) :=
  match lightBlock lc pr h with
  | none => none
  | some lb => match pr.txs lb.height with
    | none => none
    | some txs => if verifyTransactions H txs lb then some txs else none

def getBlockResults (L : Lib Sig Ev P) (H : Bytes → Bytes) (lc : LightClient) (pr : Provider P) (h : Int) :
    Option BlockResults :=
  match lightBlock lc pr h with
  | none => none
  | some lb => match pr.results lb.height with
    | none => none
    | some r => if (verifyBlockResults L H lc r lb).1 = .ok then some r else none

/-- `GetValidators`: `inl lb` — the height is verified, the light block's own validator set is
returned (no provider data); `inr v` — the provider's set for a future height, verified against
the previous light block. -/
def getValidators (L : Lib Sig Ev P) (H : Bytes → Bytes) (lc : LightClient) (pr : Provider P) (h : Int) :
    Option (Header ⊕ Validators) :=
  match lightBlock lc pr h with
  | some lb => some (.inl lb)
  | none =>
    if h < 2 then none
    else match lightBlock lc pr (h - 1) with
      | none => none
      | some lb => match pr.validators h with
        | none => none
        | some v => if verifyNextValidators L H v lb = .ok then some (.inr v) else none

def getParameters (L : Lib Sig Ev P) (H : Bytes → Bytes) (lc : LightClient) (pr : Provider P)
    (state : Int → Option P) (h : Int) : Option (Parameters P) :=
  match lightBlock lc pr h with
  | none => none
  | some lb => match pr.params lb.height with
    | none => none
    | some p => if verifyParameters L H p lb (state lb.height) = .ok then some p else none

/-- `StateRoot` (core.go:459, without the cache): the provider's transactions are requested for the
height of the light block at `h`. -/
def stateRoot (L : Lib Sig Ev P) (H : Bytes → Bytes) (lc : LightClient) (pr : Provider P) (h : Int) : Option Bytes :=
  match resolveHeight pr h with
  | none => none
  | some h' => fetchStateRoot L H lc (match lc.trusted h' with | some lb => pr.txs lb.height | none => none) h'

/-- `SubmitTxWithProof` (core.go:425): the light block is looked up for the *provider-chosen*
`proof.Height`, which must then be the light block's height ("mismatched proof height": `0`, i.e.
`HeightLatest`, is thereby rejected); the proof is returned unchanged. -/
def submitTxWithProof (L : Lib Sig Ev P) (H : Bytes → Bytes) (lc : LightClient) (pr : Provider P) (tx : Bytes) :
    Option (Int × Bytes) :=
  match pr.submitProof tx with
  | none => none
  | some (ph, raw) => match lightBlock lc pr ph with
    | none => none
    | some lb =>
      if ph ≠ lb.height then none
      else if verifyTransactionProof L H raw tx lb = .proof .ok then some (ph, raw) else none

/-! ### Executable specification predicates

What the caller may rely on when a response was accepted.  The theorems of
`OasisProofs/Props/C19.lean` show `verify… = ok → spec`; the driver evaluates the same
predicates on every response the *implementation* accepted. -/

/-- All fields of an accepted block that are determined by the light block. `Size`, the encoding
of `Meta`/`LastCommit` and the last commit's `Round` are *not* (nor `Height`/`BlockID` of an empty
commit, i.e. of the first block). -/
def blockSpec [DecidableEq Sig] (L : Lib Sig Ev P) (H : Bytes → Bytes) (b : Block) (lb : Header) : Bool :=
  b.height == lb.height && b.hash == L.headerHash lb && b.time == lb.time.truncSec &&
  b.stateRoot == { ns := zeroNamespace, version := prevVersion lb.height, type := rootTypeState,
                   hash := lb.appHash } &&
  match L.decBlockMeta b.metaB with
  | none => false
  | some m => m.header == L.headerEnc lb &&
    match L.decCommit m.lastCommit with
    | none => false
    | some c => commitHash L H c == lb.lastCommitHash &&
      (c.sigs.isEmpty || (c.height == lb.height - 1 && c.blockID == lb.lastBlockID))

end OasisModel.Stateless
