/-
The RFC-6962 style Merkle tree of CometBFT (`crypto/merkle/{tree,hash,proof}.go`), which
oasis-core's `go/consensus/cometbft/crypto/merkle/merkle.go` wraps for transaction inclusion
proofs and which CometBFT uses for `Data.Hash` (transactions), `Commit.Hash` (commit signatures),
`ValidatorSet.Hash` and `ABCIResults.Hash`.

Everything is parameterised by the hash `H : Bytes → Bytes` (SHA-256 in the implementation;
`Sha256.sum` in the executable driver; an arbitrary function with collision-resistance
*hypotheses* in the theorems).

  emptyHash         = H ""                       hash.go:15
  leafHash x        = H (0x00 ‖ x)               hash.go:20
  innerHash l r     = H (0x01 ‖ l ‖ r)           hash.go:25
  getSplitPoint n   = largest power of two < n   tree.go:96
  HashFromByteSlices                              tree.go:9
  trailsFromByteSlices / FlattenAunts             proof.go:232 / proof.go:213
  computeHashFromAunts                            proof.go:165
  Proof.Verify                                    proof.go:52
-/
namespace OasisModel.Stateless

abbrev Bytes := List UInt8

namespace Merkle

/-- `getSplitPoint` (tree.go:96): `k = 1 << (bits.Len(n)-1)`, halved when `k = n`. -/
def splitPoint (n : Nat) : Nat :=
  let k := 2 ^ Nat.log2 n
  if k = n then k / 2 else k

theorem splitPoint_pos {n : Nat} (h : 2 ≤ n) : 0 < splitPoint n := by
  unfold splitPoint
  have hk : 0 < 2 ^ Nat.log2 n := Nat.pow_pos (by decide)
  by_cases e : 2 ^ Nat.log2 n = n
  · simp only [e, if_true]; omega
  · simp only [e, if_false]; exact hk

theorem splitPoint_lt {n : Nat} (h : 2 ≤ n) : splitPoint n < n := by
  unfold splitPoint
  have hle : 2 ^ Nat.log2 n ≤ n := Nat.log2_self_le (by omega)
  by_cases e : 2 ^ Nat.log2 n = n
  · simp only [e, if_true]; omega
  · simp only [e, if_false]; omega

def emptyHash (H : Bytes → Bytes) : Bytes := H []
def leafHash (H : Bytes → Bytes) (x : Bytes) : Bytes := H (0 :: x)
def innerHash (H : Bytes → Bytes) (l r : Bytes) : Bytes := H (1 :: (l ++ r))

/-- `HashFromByteSlices` (tree.go:9). -/
def root (H : Bytes → Bytes) (l : List Bytes) : Bytes :=
  match l with
  | [] => emptyHash H
  | [x] => leafHash H x
  | x :: y :: r =>
    let k := splitPoint (x :: y :: r).length
    innerHash H (root H ((x :: y :: r).take k)) (root H ((x :: y :: r).drop k))
termination_by l.length
decreasing_by
  · have h1 := splitPoint_lt (n := (x :: y :: r).length) (by simp)
    simp only [List.length_take]
    omega
  · have h1 := splitPoint_pos (n := (x :: y :: r).length) (by simp)
    simp only [List.length_drop]
    simp only [List.length_cons] at *
    omega

/-- The aunts of `proofs[i]` produced by `ProofsFromByteSlices` (`trailsFromByteSlices` +
`FlattenAunts`): sibling hashes from the leaf's sibling up to a child of the root. -/
def aunts (H : Bytes → Bytes) (l : List Bytes) (i : Nat) : List Bytes :=
  match l with
  | [] => []
  | [_] => []
  | x :: y :: r =>
    let k := splitPoint (x :: y :: r).length
    if i < k then aunts H ((x :: y :: r).take k) i ++ [root H ((x :: y :: r).drop k)]
    else aunts H ((x :: y :: r).drop k) (i - k) ++ [root H ((x :: y :: r).take k)]
termination_by l.length
decreasing_by
  · have h1 := splitPoint_lt (n := (x :: y :: r).length) (by simp)
    simp only [List.length_take]
    omega
  · have h1 := splitPoint_pos (n := (x :: y :: r).length) (by simp)
    simp only [List.length_drop]
    simp only [List.length_cons] at *
    omega

/-- `merkle.Proof` (proof.go:27). `total` and `index` are `int64` in Go and may be negative
in a decoded proof, hence `Int`. -/
structure Proof where
  total : Int
  index : Int
  leafHash : Bytes
  aunts : List Bytes
deriving DecidableEq, Repr

/-- `ProofsFromByteSlices(items)[i]` (proof.go:36). -/
def mkProof (H : Bytes → Bytes) (l : List Bytes) (i : Nat) : Proof :=
  { total := l.length, index := i, leafHash := leafHash H (l.getD i []), aunts := aunts H l i }

/-- `computeHashFromAunts` (proof.go:165) on the aunts in *top-first* order (Go peels the last
element of `innerHashes` first). `none` is the error return. -/
def computeTop (H : Bytes → Bytes) (index total : Nat) (leaf : Bytes) : List Bytes → Option Bytes
  | [] =>
    if index ≥ total ∨ total = 0 then none
    else if total = 1 then some leaf
    else none                                   -- "expected at least one inner hash"
  | a :: rest =>
    if index ≥ total ∨ total = 0 then none
    else if total = 1 then none                 -- "unexpected inner hashes"
    else
      let k := splitPoint total
      if index < k then (computeTop H index k leaf rest).map (fun l => innerHash H l a)
      else (computeTop H (index - k) (total - k) leaf rest).map (fun r => innerHash H a r)

/-- `computeHashFromAunts` with the aunts in the order of the proof (leaf sibling first). -/
def compute (H : Bytes → Bytes) (index total : Nat) (leaf : Bytes) (as : List Bytes) : Option Bytes :=
  computeTop H index total leaf as.reverse

/-- Outcome of `Proof.Verify` (proof.go:52), one constructor per error return. -/
inductive PV where
  | ok | rootNil | totalNeg | indexNeg | leafMismatch | computeErr | rootMismatch
deriving DecidableEq, Repr

def PV.toString : PV → String
  | .ok => "ok" | .rootNil => "root" | .totalNeg => "total" | .indexNeg => "index"
  | .leafMismatch => "leaf" | .computeErr => "compute" | .rootMismatch => "root"

/-- `Proof.Verify(rootHash, leaf)` (proof.go:52). `rootHash = none` is Go's nil slice. -/
def verify (H : Bytes → Bytes) (p : Proof) (rootHash : Option Bytes) (leaf : Bytes) : PV :=
  match rootHash with
  | none => .rootNil
  | some r =>
    if p.total < 0 then .totalNeg
    else if p.index < 0 then .indexNeg
    else if p.leafHash ≠ leafHash H leaf then .leafMismatch
    else match compute H p.index.toNat p.total.toNat p.leafHash p.aunts with
      | none => .computeErr
      | some c => if c = r then .ok else .rootMismatch

/-! ### oasis-core wrappers (`go/consensus/cometbft/crypto/merkle/merkle.go`) -/

/-- `RootHashOfTransactions` (merkle.go:62) = `cmttypes.Txs.Hash`: the tree is built over the
hashes of the transactions. -/
def txRoot (H : Bytes → Bytes) (txs : List Bytes) : Bytes := root H (txs.map H)

/-- `ProofsForTransactions(txs)[i]` (merkle.go:26). -/
def txProof (H : Bytes → Bytes) (txs : List Bytes) (i : Nat) : Proof := mkProof H (txs.map H) i

/-- `VerifyTransaction` (merkle.go:46) after the proof has been CBOR-decoded. -/
def verifyTx (H : Bytes → Bytes) (p : Proof) (rootHash : Option Bytes) (tx : Bytes) : PV :=
  verify H p rootHash (H tx)

end Merkle
end OasisModel.Stateless
