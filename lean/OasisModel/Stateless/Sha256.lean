/-
SHA-256 (FIPS 180-4 §5.3.3, §6.2) in core Lean.  CometBFT's `tmhash.Sum` and oasis-core's
`merkle.hashTransaction` are `sha256.Sum256`; the executable model uses this function so that
Merkle roots, leaf hashes and proofs can be compared *byte for byte* with the Go implementation.
The theorems never unfold it: they are stated for an arbitrary `H : Bytes → Bytes` under
collision-resistance hypotheses.

Constants lifted from Go's crypto/sha256 (sha256.go init0..7, sha256block.go _K).
Validated against Go on every correspondence run (`sha` lines of statelessdrv).
-/
namespace OasisModel.Stateless.Sha256

def K : Array UInt32 := #[
    0x428a2f98, 0x71374491, 0xb5c0fbcf, 0xe9b5dba5, 0x3956c25b, 0x59f111f1, 0x923f82a4, 0xab1c5ed5,
    0xd807aa98, 0x12835b01, 0x243185be, 0x550c7dc3, 0x72be5d74, 0x80deb1fe, 0x9bdc06a7, 0xc19bf174,
    0xe49b69c1, 0xefbe4786, 0x0fc19dc6, 0x240ca1cc, 0x2de92c6f, 0x4a7484aa, 0x5cb0a9dc, 0x76f988da,
    0x983e5152, 0xa831c66d, 0xb00327c8, 0xbf597fc7, 0xc6e00bf3, 0xd5a79147, 0x06ca6351, 0x14292967,
    0x27b70a85, 0x2e1b2138, 0x4d2c6dfc, 0x53380d13, 0x650a7354, 0x766a0abb, 0x81c2c92e, 0x92722c85,
    0xa2bfe8a1, 0xa81a664b, 0xc24b8b70, 0xc76c51a3, 0xd192e819, 0xd6990624, 0xf40e3585, 0x106aa070,
    0x19a4c116, 0x1e376c08, 0x2748774c, 0x34b0bcb5, 0x391c0cb3, 0x4ed8aa4a, 0x5b9cca4f, 0x682e6ff3,
    0x748f82ee, 0x78a5636f, 0x84c87814, 0x8cc70208, 0x90befffa, 0xa4506ceb, 0xbef9a3f7, 0xc67178f2]

def iv : Array UInt32 := #[
    0x6A09E667, 0xBB67AE85, 0x3C6EF372, 0xA54FF53A, 0x510E527F, 0x9B05688C, 0x1F83D9AB, 0x5BE0CD19]

@[inline] def rotr (x : UInt32) (n : UInt32) : UInt32 := (x >>> n) ||| (x <<< (32 - n))

/-- Padding: 0x80, zeros up to 56 mod 64, then the bit length as a 64-bit big-endian number. -/
def pad (msg : List UInt8) : Array UInt8 := Id.run do
  let len := msg.length
  let mut a : Array UInt8 := msg.toArray
  a := a.push 0x80
  let z := (120 - (len + 1) % 64) % 64   -- (56 - (len+1)) mod 64
  for _ in [0:z] do
    a := a.push 0
  let bits := len * 8
  for i in [0:8] do
    a := a.push (UInt8.ofNat ((bits >>> (8 * (7 - i))) % 256))
  return a

def word (a : Array UInt8) (off : Nat) : UInt32 := Id.run do
  let mut w : UInt32 := 0
  for i in [0:4] do
    w := (w <<< 8) ||| (a[off + i]!).toUInt32
  return w

def block (h : Array UInt32) (a : Array UInt8) (off : Nat) : Array UInt32 := Id.run do
  let mut w : Array UInt32 := Array.mkEmpty 64
  for i in [0:16] do
    w := w.push (word a (off + 4 * i))
  for i in [16:64] do
    let v1 := w[i - 2]!
    let t1 := rotr v1 17 ^^^ rotr v1 19 ^^^ (v1 >>> 10)
    let v2 := w[i - 15]!
    let t2 := rotr v2 7 ^^^ rotr v2 18 ^^^ (v2 >>> 3)
    w := w.push (t1 + w[i - 7]! + t2 + w[i - 16]!)
  let mut a0 := h[0]!
  let mut b := h[1]!
  let mut c := h[2]!
  let mut d := h[3]!
  let mut e := h[4]!
  let mut f := h[5]!
  let mut g := h[6]!
  let mut hh := h[7]!
  for i in [0:64] do
    let t1 := hh + (rotr e 6 ^^^ rotr e 11 ^^^ rotr e 25) + ((e &&& f) ^^^ ((~~~ e) &&& g)) + K[i]! + w[i]!
    let t2 := (rotr a0 2 ^^^ rotr a0 13 ^^^ rotr a0 22) + ((a0 &&& b) ^^^ (a0 &&& c) ^^^ (b &&& c))
    hh := g
    g := f
    f := e
    e := d + t1
    d := c
    c := b
    b := a0
    a0 := t1 + t2
  return #[h[0]! + a0, h[1]! + b, h[2]! + c, h[3]! + d, h[4]! + e, h[5]! + f, h[6]! + g, h[7]! + hh]

/-- Big-endian serialization of the eight state words. -/
def wordsToBytes (h : Array UInt32) : List UInt8 :=
  (List.range 8).flatMap fun i =>
    let x : UInt32 := h[i]!
    [(x >>> 24).toUInt8, (x >>> 16).toUInt8, (x >>> 8).toUInt8, x.toUInt8]

/-- The compression of all blocks of the padded message. -/
def digest (msg : List UInt8) : Array UInt32 := Id.run do
  let a := pad msg
  let mut h := iv
  for i in [0:a.size / 64] do
    h := block h a (64 * i)
  return h

/-- SHA-256 of a byte string (32 bytes). -/
def sum (msg : List UInt8) : List UInt8 := wordsToBytes (digest msg)

end OasisModel.Stateless.Sha256
