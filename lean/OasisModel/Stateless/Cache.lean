import OasisModel.Stateless.Verify
/-
The two LRU caches of the stateless consensus backend `stateless.Core`
(`go/consensus/cometbft/stateless/core.go`, line numbers as of /repo commit 8acc1f7) and the
operations that fill and read them *between* calls:

  Core.stateRootCache / Core.resultsHashCache     core.go:59-60, created :83-84 (128 slots each)
  (*Core).StateRoot                               core.go:459   resolveHeight, then stateRoot
  (*Core).stateRoot                               core.go:802   Get :803, fetch :807, Put :812
  (*Core).fetchStateRoot                          core.go:816   light block at height+1 (:817), else meta tx (:824)
  (*Core).fetchStateRootFromLightBlock            core.go:827   VerifyLightBlockAt :828, AppHash :834
  (*Core).fetchStateRootFromMetaTx                core.go:841   GetTransactions(height) :842 (= :318-333)
  (*Core).resultsHash                             core.go:876   Get :877, fetch :881, Put :886
  (*Core).fetchResultsHash                        core.go:890   light block at height+1 (:891)
  (*Core).fetchResultsHashFromLightBlock          core.go:904   VerifyLightBlockAt :905, LastResultsHash :910
  (*Core).verifyBlockResults                      core.go:612   LastTrustedHeight :615, the latest-height
                                                                exception :619-626, resultsHash(lb.Height) :628
  (*Core).GetBlockResults                         core.go:126   lightBlock :127, provider :132, verify :137
  (*Core).resolveHeight / lightBlock              core.go:738 / :767
  lru.Cache Put / Get / evictEntries              go/common/cache/lru/lru.go:47 / :88 / :165

What stands for what.
* `Chain.hdr h` is the header the light client verifies for height `h` (`VerifyLightBlockAt(h)`
  returns it or fails — it never returns another header; this is the light client's contract and the
  trusted base of the whole property).  Whether a call succeeds *now* (`Env.avail`), what
  `LastTrustedHeight()` answers (`Env.last`) and everything the untrusted provider answers are
  inputs of each single operation: they may change arbitrarily between operations.
* Heights are `Nat`.  In Go they are `int64`; a request with a negative height never reaches a cache
  write (`VerifyLightBlockAt` fails for heights `≤ 0`, so both `fetch…` functions fail), `0` is
  `consensusAPI.HeightLatest` and is resolved by `resolveHeight` exactly as in the code.
* Where the code uses `lb.Height` of the light block it obtained for height `h` (`c.resultsHash(ctx,
  lb.Height)` :628, `provider.GetBlockResults(ctx, lb.Height)` :132) the model uses `h`: the light
  client returns the block *of the requested height* (`ChainWF` below; `LCWF` in `Props/C19.lean`).

Core Lean only (no Mathlib): the functions are executable.
-/
namespace OasisModel.Stateless.Cache
open OasisModel.Stateless

/-! ### `lru.Cache` with a slot capacity (`lru.Capacity(n, false)`) -/

/-- `lru.Cache`, keys `int64` heights, values hashes; the most recently used entry first
(`c.lru.Front()`), `cap = 0` is "unlimited" (`c.capacity > 0 && …`, lru.go:69). -/
structure Lru where
  cap : Nat
  entries : List (Nat × Bytes)
deriving DecidableEq, Repr

/-- `lru.New(lru.Capacity(n, false))`. -/
def Lru.new (cap : Nat) : Lru := { cap := cap, entries := [] }

/-- `Peek`: the value stored under the key (no reordering). -/
def Lru.peek (c : Lru) (k : Nat) : Option Bytes := c.entries.lookup k

/-- The entries with the key removed (`c.lru.Remove(elem); delete(c.entries, key)`). -/
def Lru.without (c : Lru) (k : Nat) : List (Nat × Bytes) := c.entries.filter (fun e => e.1 != k)

/-- `Get` (lru.go:88, `getEntry(key, false)` :139): the value and `MoveToFront`. -/
def Lru.get (c : Lru) (k : Nat) : Option Bytes × Lru :=
  match c.peek k with
  | none => (none, c)
  | some v => (some v, { c with entries := (k, v) :: c.without k })

/-- `Put` (lru.go:47): an existing entry for the key is removed (:51-57), entries are evicted from
the back until one slot is free (`evictEntries(1)`, :69-71, :165), the new entry is pushed to the
front (:73). -/
def Lru.put (c : Lru) (k : Nat) (v : Bytes) : Lru :=
  let rest := c.without k
  { c with entries := (k, v) :: (if c.cap > 0 then rest.take (c.cap - 1) else rest) }

/-! ### The chain of verified headers, the per-call environment, the node state -/

/-- What the light client verifies: `hdr h` is *the* verified header of height `h` (fields read
here: `appHash`, `lastResultsHash`, `dataHash`, `height`). -/
structure Chain where
  hdr : Nat → Header

/-- The light client returns the block of the requested height. -/
def ChainWF (ch : Chain) : Prop := ∀ h, (ch.hdr h).height = (h : Int)

/-- Everything outside the node that one call observes. -/
structure Env where
  /-- `c.lightClient.VerifyLightBlockAt(ctx, h)` succeeds now (and then returns `hdr h`) -/
  avail : Nat → Bool
  /-- `c.lightClient.LastTrustedHeight()` (`none`: error, "no trusted headers") -/
  last : Option Nat
  /-- `startWatchingBlocksCh` is closed (core.go:747) -/
  watching : Bool
  /-- `c.provider.GetLatestHeight(ctx)` (core.go:756) -/
  providerLatest : Option Nat
  /-- `c.provider.GetTransactions(ctx, h)` (core.go:324) — untrusted -/
  txs : Nat → Option (List Bytes)

/-- `stateless.Core`: the two caches (everything else of the struct is immutable configuration or
the block notifier, which never touches them). -/
structure Core where
  stateRootCache : Lru
  resultsHashCache : Lru
deriving DecidableEq, Repr

/-- `NewCore` (core.go:83-84). -/
def Core.new : Core := { stateRootCache := Lru.new 128, resultsHashCache := Lru.new 128 }

/-- `resolveHeight` (core.go:738): a non-zero height is returned as is; `HeightLatest` is the last
trusted height when the node watches blocks (:746-754), else the provider's latest height, which must
be at least 1 (:756-762). -/
def resolveHeight (e : Env) (h : Nat) : Option Nat :=
  if h ≠ 0 then some h
  else
    let fromProvider : Option Nat :=
      match e.providerLatest with
      | some l => if l < 1 then none else some l
      | none => none
    if e.watching then
      match e.last with
      | some l => some l
      | none => fromProvider
    else fromProvider

/-- `(*Core).lightBlock` (core.go:767): the verified header of the resolved height (with the height,
which is `lb.Height`). -/
def lightBlock (ch : Chain) (e : Env) (h : Nat) : Option (Nat × Header) :=
  match resolveHeight e h with
  | none => none
  | some h' => if e.avail h' then some (h', ch.hdr h') else none

/-! ### state root -/

/-- `fetchStateRootFromLightBlock(ctx, height)` (core.go:827): the app hash of the verified header
of `height`; `hash.UnmarshalBinary` needs 32 bytes (:834). -/
def fetchStateRootFromLightBlock (ch : Chain) (e : Env) (height : Nat) : Option Bytes :=
  if e.avail height then
    let lb := ch.hdr height
    if lb.appHash.length = 32 then some lb.appHash else none
  else none

variable {Sig Ev P : Type}

/-- `GetTransactions(ctx, height)` (core.go:318): light block, the provider's list for `lb.Height`,
`verifyTransactions`. -/
def getTransactions (H : Bytes → Bytes) (ch : Chain) (e : Env) (height : Nat) : Option (List Bytes) :=
  match lightBlock ch e height with
  | none => none
  | some (h', lb) =>
    match e.txs h' with
    | none => none
    | some txs => if verifyTransactions H txs lb then some txs else none

/-- `fetchStateRootFromMetaTx(ctx, height)` (core.go:841). -/
def fetchStateRootFromMetaTx (L : Lib Sig Ev P) (H : Bytes → Bytes) (ch : Chain) (e : Env) (height : Nat) :
    Option Bytes :=
  match getTransactions H ch e height with
  | none => none
  | some txs => stateRootFromBlockTxs L txs

/-- `fetchStateRoot(ctx, height)` (core.go:816): the light block of `height+1` (:817), on *any*
error the metadata transaction of block `height` (:824). -/
def fetchStateRoot (L : Lib Sig Ev P) (H : Bytes → Bytes) (ch : Chain) (e : Env) (height : Nat) : Option Bytes :=
  match fetchStateRootFromLightBlock ch e (height + 1) with
  | some r => some r
  | none => fetchStateRootFromMetaTx L H ch e height

/-- `(*Core).stateRoot(ctx, height)` (core.go:802): READ `stateRootCache.Get(height)` (:803); on a
miss fetch (:807) and WRITE `stateRootCache.Put(height, stateRoot)` (:812).  A failed fetch writes
nothing (:808-810). -/
def stateRoot (L : Lib Sig Ev P) (H : Bytes → Bytes) (ch : Chain) (e : Env) (c : Core) (height : Nat) :
    Option Bytes × Core :=
  match c.stateRootCache.get height with
  | (some v, cache') => (some v, { c with stateRootCache := cache' })
  | (none, _) =>
    match fetchStateRoot L H ch e height with
    | none => (none, c)
    | some v => (some v, { c with stateRootCache := c.stateRootCache.put height v })

/-- `(*Core).StateRoot(ctx, height)` (core.go:459): resolve, then `stateRoot`; the answer is the
root `{Version: height, Hash: hash}` — the resolved height and the hash. -/
def stateRootAPI (L : Lib Sig Ev P) (H : Bytes → Bytes) (ch : Chain) (e : Env) (c : Core) (req : Nat) :
    Option (Nat × Bytes) × Core :=
  match resolveHeight e req with
  | none => (none, c)
  | some h =>
    match stateRoot L H ch e c h with
    | (none, c') => (none, c')
    | (some v, c') => (some (h, v), c')

/-! ### results hash -/

/-- `fetchResultsHashFromLightBlock(ctx, height)` (core.go:904): `lb.LastResultsHash` of the verified
header of `height` (:910). -/
def fetchResultsHashFromLightBlock (ch : Chain) (e : Env) (height : Nat) : Option Bytes :=
  if e.avail height then some (ch.hdr height).lastResultsHash else none

/-- `fetchResultsHash(ctx, height)` (core.go:890): the light block of `height+1` (:891); there is no
fallback (TODO :898). -/
def fetchResultsHash (ch : Chain) (e : Env) (height : Nat) : Option Bytes :=
  fetchResultsHashFromLightBlock ch e (height + 1)

/-- `(*Core).resultsHash(ctx, height)` (core.go:876): READ `resultsHashCache.Get(height)` (:877); on
a miss fetch (:881) and WRITE `resultsHashCache.Put(height, hash)` (:886). -/
def resultsHash (ch : Chain) (e : Env) (c : Core) (height : Nat) : Option Bytes × Core :=
  match c.resultsHashCache.get height with
  | (some v, cache') => (some v, { c with resultsHashCache := cache' })
  | (none, _) =>
    match fetchResultsHash ch e height with
    | none => (none, c)
    | some v => (some v, { c with resultsHashCache := c.resultsHashCache.put height v })

/-- `(*Core).verifyBlockResults(ctx, results, lb)` (core.go:612) for the light block `lb = hdr h` of
height `h`: no last trusted height → error (:615-618); the latest-height exception
`lastHeight <= lb.Height` (:619-626: only the height and the decoding, *no cache access*); else the
results hash of `lb.Height` through the cache (:628) and the pure check (:633 → :636).
`rh` abstracts which `resultsHash` is used (the code's, or a seeded variant). -/
def verifyBlockResultsWith (rh : Chain → Env → Core → Nat → Option Bytes × Core)
    (L : Lib Sig Ev P) (H : Bytes → Bytes) (ch : Chain) (e : Env) (c : Core)
    (r : BlockResults) (h : Nat) : (RV × Option (ResultsMeta Ev)) × Core :=
  match e.last with
  | none => ((.noTrusted, none), c)
  | some lastHeight =>
    if lastHeight ≤ h then
      if r.height ≠ (ch.hdr h).height then ((.height, none), c)
      else match L.decResults r.metaB with
        | none => ((.malformed, none), c)
        | some m => ((.ok, some m), c)
    else
      match rh ch e c h with
      | (none, c') => ((.fetch, none), c')
      | (some v, c') => (verifyBlockResultsPure L H r v (ch.hdr h), c')

/-- `(*Core).verifyBlockResults` as it is. -/
def verifyBlockResults (L : Lib Sig Ev P) (H : Bytes → Bytes) (ch : Chain) (e : Env) (c : Core)
    (r : BlockResults) (h : Nat) : (RV × Option (ResultsMeta Ev)) × Core :=
  verifyBlockResultsWith resultsHash L H ch e c r h

/-- `GetBlockResults(ctx, req)` (core.go:126) — and the results part of
`GetTransactionsWithResults` (:347-366), which runs the same `lightBlock` / provider /
`verifyBlockResults` sequence.  `resp` is what `c.provider.GetBlockResults(ctx, lb.Height)` answers
(:132, untrusted; `none`: error).  The response is returned iff the verdict is `ok` (:137-141). -/
def getBlockResultsWith (rh : Chain → Env → Core → Nat → Option Bytes × Core)
    (L : Lib Sig Ev P) (H : Bytes → Bytes) (ch : Chain) (e : Env) (c : Core)
    (req : Nat) (resp : Nat → Option BlockResults) : Option (Nat × BlockResults × ResultsMeta Ev) × Core :=
  match lightBlock ch e req with
  | none => (none, c)
  | some (h, _) =>
    match resp h with
    | none => (none, c)
    | some r =>
      match verifyBlockResultsWith rh L H ch e c r h with
      | ((.ok, some m), c') => (some (h, r, m), c')
      | (_, c') => (none, c')

def getBlockResults (L : Lib Sig Ev P) (H : Bytes → Bytes) (ch : Chain) (e : Env) (c : Core)
    (req : Nat) (resp : Nat → Option BlockResults) : Option (Nat × BlockResults × ResultsMeta Ev) × Core :=
  getBlockResultsWith resultsHash L H ch e c req resp

/-! ### Histories -/

/-- One call of an entry point that touches a cache, with everything it observes. -/
inductive Op where
  /-- `StateRoot(ctx, req)` -/
  | stateRoot (e : Env) (req : Nat)
  /-- `GetBlockResults(ctx, req)` / `GetTransactionsWithResults(ctx, req)` with the provider's answer -/
  | blockResults (e : Env) (req : Nat) (resp : Nat → Option BlockResults)

/-- The state after one call. -/
def step (L : Lib Sig Ev P) (H : Bytes → Bytes) (ch : Chain) (c : Core) : Op → Core
  | .stateRoot e req => (stateRootAPI L H ch e c req).2
  | .blockResults e req resp => (getBlockResults L H ch e c req resp).2

/-- The state after a history of calls (the caches are guarded by the LRU's mutex, so concurrent
calls interleave at the granularity of `Get`/`Put`; a `Put` of a coherent value commutes with the
invariant, the sequential history is the model). -/
def run (L : Lib Sig Ev P) (H : Bytes → Bytes) (ch : Chain) (c : Core) (ops : List Op) : Core :=
  ops.foldl (step L H ch) c

/-! ### The seeded variant: the results hash filed under the header's own height -/

/-- Seeded mutation of `resultsHash` (core.go:886): `resultsHashCache.Put(height+1, hash)` — the
`LastResultsHash` of the verified header `height+1` is filed under that header's height instead of
the height whose results it commits. -/
def resultsHashMisfiled (ch : Chain) (e : Env) (c : Core) (height : Nat) : Option Bytes × Core :=
  match c.resultsHashCache.get height with
  | (some v, cache') => (some v, { c with resultsHashCache := cache' })
  | (none, _) =>
    match fetchResultsHash ch e height with
    | none => (none, c)
    | some v => (some v, { c with resultsHashCache := c.resultsHashCache.put (height + 1) v })

def stepMisfiled (L : Lib Sig Ev P) (H : Bytes → Bytes) (ch : Chain) (c : Core) : Op → Core
  | .stateRoot e req => (stateRootAPI L H ch e c req).2
  | .blockResults e req resp => (getBlockResultsWith resultsHashMisfiled L H ch e c req resp).2

def runMisfiled (L : Lib Sig Ev P) (H : Bytes → Bytes) (ch : Chain) (c : Core) (ops : List Op) : Core :=
  ops.foldl (stepMisfiled L H ch) c

/-! ### The light client of `Verify.lean` seen through a chain and an environment -/

/-- The `LightClient` of the cache-free model (`Verify.lean`) that `ch` and `e` present: heights
`≤ 0` fail (`VerifyLightBlockAtHeight`: "negative or zero height"). -/
def lightClientOf (ch : Chain) (e : Env) : LightClient :=
  { trusted := fun h => if 0 < h ∧ e.avail h.toNat then some (ch.hdr h.toNat) else none
    last := e.last.map Int.ofNat }

end OasisModel.Stateless.Cache
