/-
The light-block store behind `LastTrustedHeight()` — the height that decides whether the block
results of a height are checked against the NEXT verified header.

Go code (line numbers as of /repo commit 8acc1f7):

  prunedStore                         go/consensus/cometbft/light/store.go:12-16   (store, high, low)
  (*prunedStore).DeleteLightBlock     store.go:31-33   delegates
  (*prunedStore).LastLightBlockHeight store.go:41-43   delegates: NO cached / derived height
  (*prunedStore).Prune                store.go:56-58   delegates
  (*prunedStore).SaveLightBlock       store.go:61-68   `if p.high > 0 && p.Size() >= p.high { Prune(p.low) }`,
                                                       then `p.store.SaveLightBlock(lb)`
  (*Client).LastTrustedHeight         go/consensus/cometbft/light/client.go:120-129 (-1 ↦ "no trusted headers")
  (*Core).verifyBlockResults          go/consensus/cometbft/stateless/core.go:612-632:
                                      `if lastHeight <= lb.Height { … skip … }` (:619), otherwise
                                      `resultsHash(lb.Height)` = LastResultsHash of header lb.Height+1 (:628)
  underlying store (cometbft `light/store/db/db.go`, v0.37.18-oasis3):
    SaveLightBlock :43-74  `Set(lbKey(height))`           (keyed by height: a set of heights)
    DeleteLightBlock :80-102 `Delete(lbKey(height))`
    LastLightBlockHeight :137-157  first key of the REVERSE iterator = the largest stored height, -1 if none
    Prune(size) :221-278  forward iterator (ascending heights), deletes the first `Size() - size` keys

What stands for what.
* `Store` is the key set of the database in iteration order: a strictly ascending list of heights
  (`Sorted`; an invariant of every history, `run_sorted` in the helpers).
* `last s` is what `LastLightBlockHeight` returns, with `0` for Go's `-1` ("no trusted headers":
  `LastTrustedHeight` is then an error and `verifyBlockResults` fails before any comparison —
  real heights are `> 0`, db.go:44 panics otherwise).
* `Size()` is taken to be the number of stored heights.  The db store keeps a separate counter
  (`s.size++` on every save, `s.size--` on every delete, db.go:71/:99) which equals the number of
  keys as long as no height is saved twice and no absent height is deleted — the light client looks
  a height up in the store before verifying and saving it, and deletes heights it iterated over.
  `Db` below is the store WITH the counter; `Props/C19TrustedStore.lean` `counter_agrees_when_fresh`
  proves the agreement on such histories, `counter_drift_prunes_newest` shows what a repeated save does.
* `CStore` is the seeded variant C19-r7m1 (seeded/C19-r7m1/patch.diff): `prunedStore` with a field
  `last` that caches the height just SAVED, cleared (`0` = unknown) by `DeleteLightBlock` and by
  `Prune(0)`.  The variant's `LastLightBlockHeight` also writes the value it read from the store
  into the cache; a read-filled cache holds exactly the value a later read would compute as long as
  only `Prune(n ≥ 1)` happens in between, so the model leaves this write out and reads through.

Core Lean only (no Mathlib): the functions are executable.
-/
namespace OasisModel.Stateless.TrustedStore

/-- `prunedStore.high` / `prunedStore.low` (store.go:14-15; `uint16` in Go). `high = 0` disables
automatic pruning (store.go:21). -/
structure Cfg where
  high : Nat
  low : Nat
deriving DecidableEq, Repr

/-- The stored heights in iterator order (strictly ascending). -/
abbrev Store := List Nat

/-- `db.Set(lbKey(h))` (db.go:62): insert into the ordered key set; an existing key is overwritten. -/
def put (h : Nat) : Store → Store
  | [] => [h]
  | x :: xs => if h < x then h :: x :: xs else if h = x then x :: xs else x :: put h xs

/-- `dbs.Prune(size)` (db.go:221-278): nothing if `Size() ≤ size`, else the first `Size() - size`
keys of the forward iterator (the OLDEST heights) are deleted. -/
def prune (n : Nat) (s : Store) : Store := s.drop (s.length - n)

/-- `dbs.DeleteLightBlock(h)` (db.go:80-102). -/
def delete (h : Nat) (s : Store) : Store := s.filter (fun x => x != h)

/-- `dbs.LastLightBlockHeight()` (db.go:137-157): the first key of the reverse iterator; `0` stands
for Go's `-1` (empty store). -/
def last : Store → Nat
  | [] => 0
  | [x] => x
  | _ :: y :: ys => last (y :: ys)

/-- The pruning step of `prunedStore.SaveLightBlock` (store.go:62-66). -/
def autoPrune (c : Cfg) (s : Store) : Store :=
  if 0 < c.high ∧ c.high ≤ s.length then prune c.low s else s

/-- `prunedStore.SaveLightBlock` (store.go:61-68): prune to `low` when `Size() ≥ high > 0`, then save. -/
def save (c : Cfg) (h : Nat) (s : Store) : Store := put h (autoPrune c s)

/-- One call on the store. -/
inductive Op where
  | save (h : Nat)
  | delete (h : Nat)
  | prune (n : Nat)
deriving DecidableEq, Repr

def step (c : Cfg) (s : Store) : Op → Store
  | .save h => save c h s
  | .delete h => delete h s
  | .prune n => prune n s

/-- A history of calls, from store `s`. -/
def run (c : Cfg) (s : Store) (ops : List Op) : Store := ops.foldl (step c) s

/-- core.go:619 — the results of height `h` are checked against header `h+1` iff NOT
`lastHeight <= lb.Height`, i.e. iff `h < last`. -/
def checked (lastHeight h : Nat) : Bool := decide (h < lastHeight)

/-! ### The seeded variant: `last` is a cache of the height just saved (C19-r7m1) -/

/-- `prunedStore` of the variant: the store and the `last atomic.Int64` field (`0` = unknown). -/
structure CStore where
  store : Store
  cache : Nat
deriving DecidableEq, Repr

def CStore.empty : CStore := { store := [], cache := 0 }

/-- Variant `Prune`: `if size == 0 { p.last.Store(0) }`, then delegate. -/
def CStore.prune (n : Nat) (cs : CStore) : CStore :=
  { store := TrustedStore.prune n cs.store, cache := if n = 0 then 0 else cs.cache }

/-- Variant `DeleteLightBlock`: `p.last.Store(0)`, then delegate. -/
def CStore.delete (h : Nat) (cs : CStore) : CStore :=
  { store := TrustedStore.delete h cs.store, cache := 0 }

/-- Variant `SaveLightBlock`: the watermark pruning through the variant's `Prune`, the save, then
`p.last.Store(lb.Height)`. -/
def CStore.save (c : Cfg) (h : Nat) (cs : CStore) : CStore :=
  let cs' := if 0 < c.high ∧ c.high ≤ cs.store.length then cs.prune c.low else cs
  { store := put h cs'.store, cache := h }

/-- Variant `LastLightBlockHeight`: `if last := p.last.Load(); last > 0 { return last }`, else the
underlying store's answer. -/
def CStore.last (cs : CStore) : Nat := if 0 < cs.cache then cs.cache else TrustedStore.last cs.store

def CStore.step (c : Cfg) (cs : CStore) : Op → CStore
  | .save h => cs.save c h
  | .delete h => cs.delete h
  | .prune n => cs.prune n

def CStore.run (c : Cfg) (cs : CStore) (ops : List Op) : CStore := ops.foldl (CStore.step c) cs


/-! ### The db store's size COUNTER (the assumption `Size() = number of stored heights`) -/

/-- `dbs` with its separate counter: `keys` as above, `size` = the field `s.size` (db.go:27),
incremented by every save (db.go:71) and decremented by every delete (db.go:99) whether or not the
key existed.  (`uint16` in Go: a decrement at 0 wraps; the model truncates — the agreement theorem
is about histories on which neither happens.) -/
structure Db where
  keys : Store
  size : Nat
deriving DecidableEq, Repr

def Db.empty : Db := { keys := [], size := 0 }

def Db.put (h : Nat) (d : Db) : Db := { keys := TrustedStore.put h d.keys, size := d.size + 1 }

def Db.delete (h : Nat) (d : Db) : Db := { keys := TrustedStore.delete h d.keys, size := d.size - 1 }

/-- db.go:221-278: `numToPrune = size - n` keys of the forward iterator are deleted (fewer if the
iterator ends), the counter is lowered by the number of iterations. -/
def Db.prune (n : Nat) (d : Db) : Db :=
  if d.size ≤ n then d
  else { keys := d.keys.drop (d.size - n), size := d.size - min (d.size - n) d.keys.length }

/-- `prunedStore.SaveLightBlock` over the counter (`p.Size()` is `dbs.Size()` = the counter). -/
def Db.save (c : Cfg) (h : Nat) (d : Db) : Db :=
  Db.put h (if 0 < c.high ∧ c.high ≤ d.size then d.prune c.low else d)

def Db.step (c : Cfg) (d : Db) : Op → Db
  | .save h => d.save c h
  | .delete h => d.delete h
  | .prune n => d.prune n

def Db.run (c : Cfg) (d : Db) (ops : List Op) : Db := ops.foldl (Db.step c) d

end OasisModel.Stateless.TrustedStore
