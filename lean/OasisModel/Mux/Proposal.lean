/-
C01 — the ABCI multiplexer's proposal cache as a state machine (core Lean only).

Models go/consensus/cometbft/abci:
  * `proposalState`, `isEqual`, `needsExecution`, `setResults`          state.go:42-124
  * `resetProposal`, `resetProposalIfChanged`, `doCommit`               state.go:423-552
  * `PrepareProposal`, `ProcessProposal`, `executeProposal`,
    `BeginBlock`, `DeliverTx`, `EndBlock`, `Commit`                     mux.go:366-846
  * `prepareSystemTxs`, `processSystemTx`, `validateSystemTxs`          system.go:20-149
  * `NewContext` tree selection (check tree / simulation tree)          state.go:178-222

The applications behind the multiplexer are a parameter `Apps`: arbitrary *functions*
(`begin`, `deliver`, `endb`), i.e. an arbitrary deterministic block executor.  `execBlock` is the
executor the theorems speak about: BeginBlock, DeliverTx for every transaction in order, EndBlock,
with the multiplexer's own handling of system (block metadata) transactions.

What is kept exactly as in the code:
  * the proposal hash is the only identity `BeginBlock` looks at (`resetProposalIfChanged`);
    the empty hash (`[]byte{}` in PrepareProposal, modelled as `0`) means "still proposing":
    system transactions panic, metadata validation is skipped;
  * `isEqual` compares the recorded header, transaction list, last-commit info and misbehaviour
    list (since /repo 47a524f; before that fix the last-commit info was not compared, see
    `OasisProofs.C01.prefix_rule_commit_info_gap`);
  * cached DeliverTx results are a queue popped by each DeliverTx; EndBlock panics when the queue
    is not empty, DeliverTx panics when it is empty;
  * a panic while executing a proposal resets the proposal and yields an empty proposal /
    REJECT; a panic during final delivery propagates (`none`: the node stops);
  * CheckTx works on `checkState`, simulation on a fresh tree at the committed root, both
    disjoint from the proposal tree.
Not modelled: `upgrade.ErrStopForUpgrade` re-panics, the `MaxTxBytes` prefix cut of
PrepareProposal (the call carries the already cut list), the `MaxTxSize` check applied to the
metadata transaction itself, state sync, InitChain.
-/
namespace OasisModel.Mux

/-- CometBFT block hash as passed in `RequestBeginBlock.Hash`; `0` is the empty hash. -/
abbrev Hash := Nat

/-- A raw transaction after `decodeTx`: an ordinary transaction (including undecodable bytes,
which the executor answers with an error result) or a system transaction with method
`consensus.Meta`: its signer address, `wf` = "nonce is zero and fee is nil", and the decoded body
(`none`: body does not unmarshal / fails `ValidateBasic`). -/
inductive RawTx (Tx Root : Type) where
  | user (t : Tx)
  | sysMeta (signer : Nat) (wf : Bool) (body : Option (Root × Root))
  deriving DecidableEq, Repr

/-- The inputs of a block as CometBFT presents them to the application. `hdr` is the partial
header the multiplexer builds (height, time, proposer address, next-validators hash). -/
structure Blk (Tx Root Hdr LC Ev : Type) where
  hdr : Hdr
  txs : List (RawTx Tx Root)
  ev : Ev
  lc : LC
  deriving DecidableEq, Repr

/-- The applications: an arbitrary deterministic executor. `W` is the working state of a block
under execution (overlay tree + block context). `none` is a panic. -/
structure Apps (St W Tx R Root Hdr LC Ev : Type) where
  /-- BeginBlock of all applications on a fresh overlay over committed state. -/
  begin : St → Hdr → LC → Ev → Option (W × R)
  /-- DeliverTx of an ordinary transaction (decode, authenticate, execute). -/
  deliver : W → Tx → W × R
  /-- EndBlock of all applications. -/
  endb : W → Option (W × R)
  /-- Contents of the overlay once committed. -/
  tree : W → St
  /-- State root hash. -/
  root : St → Root
  /-- Root of the provable events accumulated in the block context. -/
  evroot : W → Root
  /-- The response to a system transaction (`Code: OK, Data: cbor(nil)`). -/
  okR : R
  /-- Proposer address in the header. -/
  proposer : Hdr → Nat
  /-- CheckTx on the check tree. -/
  checkTx : St → RawTx Tx Root → St × R
  /-- Gas estimation on a tree opened at the committed root. -/
  simulate : St → Tx → R

/-- Overlay + block context, with the multiplexer-owned parts of the block context explicit. -/
structure Work (W Root : Type) where
  w : W
  /-- `BlockContext.SystemTransactions` (bodies of the metadata transactions seen so far). -/
  sys : List (Option (Root × Root))
  /-- `BlockContext.ProposerAddress`. -/
  proposer : Nat

/-- `proposalState`. `recd` = (header, txs, lastCommit, misbehavior), set only by PrepareProposal
(`header` and `lastCommit` are set and reset together; `isEqual` is false when either is nil).
`results = none` ⇔ `needsExecution()`. `work = none` is the untouched overlay of `resetProposal`. -/
structure Proposal (W Tx R Root Hdr LC Ev : Type) where
  recd : Option (Hdr × List (RawTx Tx Root) × LC × Ev)
  hash : Hash
  work : Option (Work W Root)
  results : Option (R × List R × R)

/-- `applicationState` as far as block processing is concerned. `canon` is the last committed
state (what is on disk), `check` the CheckTx tree, `self` the node's own consensus address. -/
structure Mux (St W Tx R Root Hdr LC Ev : Type) where
  self : Nat
  canon : St
  prop : Option (Proposal W Tx R Root Hdr LC Ev)
  check : St

inductive Call (Tx Root Hdr LC Ev : Type) where
  | prepare (b : Blk Tx Root Hdr LC Ev)
  | process (h : Hash) (b : Blk Tx Root Hdr LC Ev)
  | begin (h : Hash) (b : Blk Tx Root Hdr LC Ev)
  | deliver (t : RawTx Tx Root)
  | endBlock
  | commit
  | restart
  | checkTx (t : RawTx Tx Root)
  | simulate (t : Tx)
  | query

inductive Resp (Tx R Root : Type) where
  | prepared (txs : List (RawTx Tx Root))
  | accept
  | reject
  | res (r : R)
  | appHash (h : Root)
  | unit
  deriving DecidableEq, Repr

section
variable {St W Tx R Root Hdr LC Ev : Type}
variable [DecidableEq Tx] [DecidableEq Root] [DecidableEq Hdr] [DecidableEq LC] [DecidableEq Ev]

/-! ### Executing a block (`executeProposal`, and the same calls issued one by one) -/

/-- `DeliverTx` when there are no cached results (mux.go:715-749, system.go:62-91). -/
def deliverOne (A : Apps St W Tx R Root Hdr LC Ev) (hashEmpty : Bool) (wk : Work W Root) :
    RawTx Tx Root → Option (Work W Root × R)
  | .user t => let p := A.deliver wk.w t; some ({ wk with w := p.1 }, p.2)
  | .sysMeta signer wf body =>
    if hashEmpty || !wf || signer != wk.proposer then none
    else some ({ wk with sys := wk.sys ++ [body] }, A.okR)

def deliverAll (A : Apps St W Tx R Root Hdr LC Ev) (hashEmpty : Bool) :
    Work W Root → List (RawTx Tx Root) → Option (Work W Root × List R)
  | wk, [] => some (wk, [])
  | wk, t :: ts =>
    match deliverOne A hashEmpty wk t with
    | none => none
    | some (wk', r) =>
      match deliverAll A hashEmpty wk' ts with
      | none => none
      | some (wk'', rs) => some (wk'', r :: rs)

/-- `validateSystemTxs` (system.go:94-149) for a non-empty proposal hash: exactly one metadata
transaction, well-formed, carrying the working state root and the provable-events root. -/
def validate (A : Apps St W Tx R Root Hdr LC Ev) (wk : Work W Root) : Bool :=
  match wk.sys with
  | [some (sr, er)] => sr == A.root (A.tree wk.w) && er == A.evroot wk.w
  | _ => false

/-- `EndBlock` when there are no cached results (mux.go:762-816). -/
def endOne (A : Apps St W Tx R Root Hdr LC Ev) (hashEmpty : Bool) (wk : Work W Root) :
    Option (Work W Root × R) :=
  match A.endb wk.w with
  | none => none
  | some (w', re) =>
    let wk' : Work W Root := { wk with w := w' }
    if hashEmpty || validate A wk' then some (wk', re) else none

/-- `BeginBlock` when there are no cached results, on a fresh overlay (mux.go:573-653). -/
def beginOne (A : Apps St W Tx R Root Hdr LC Ev) (s : St) (hdr : Hdr) (lc : LC) (ev : Ev) :
    Option (Work W Root × R) :=
  match A.begin s hdr lc ev with
  | none => none
  | some (w, rb) => some ({ w := w, sys := [], proposer := A.proposer hdr }, rb)

/-- The block executor: what `executeProposal` computes on committed state `s`. -/
def execBlock (A : Apps St W Tx R Root Hdr LC Ev) (s : St) (hashEmpty : Bool)
    (hdr : Hdr) (lc : LC) (ev : Ev) (txs : List (RawTx Tx Root)) :
    Option (Work W Root × R × List R × R) :=
  match beginOne A s hdr lc ev with
  | none => none
  | some (wk0, rb) =>
    match deliverAll A hashEmpty wk0 txs with
    | none => none
    | some (wk1, rds) =>
      match endOne A hashEmpty wk1 with
      | none => none
      | some (wk2, re) => some (wk2, rb, rds, re)

/-- `exec s b`: the executor on a complete block with its real (non-empty) hash. -/
def exec (A : Apps St W Tx R Root Hdr LC Ev) (s : St) (b : Blk Tx Root Hdr LC Ev) :
    Option (Work W Root × R × List R × R) :=
  execBlock A s false b.hdr b.lc b.ev b.txs

/-! ### The multiplexer -/

/-- `resetProposal`: fresh overlay over canonical state, nothing recorded. -/
def freshProposal (h : Hash) : Proposal W Tx R Root Hdr LC Ev :=
  { recd := none, hash := h, work := none, results := none }

/-- `isEqual` (state.go): header, transactions, last-commit info, misbehaviour. -/
def isEqual (p : Proposal W Tx R Root Hdr LC Ev) (hdr : Hdr) (txs : List (RawTx Tx Root)) (lc : LC) (ev : Ev) :
    Bool :=
  match p.recd with
  | none => false
  | some (h, t, l, e) => h == hdr && t == txs && l == lc && e == ev

/-- The block metadata transaction `prepareSystemTxs` builds and signs with the node's own key. -/
def metaTx (A : Apps St W Tx R Root Hdr LC Ev) (self : Nat) (wk : Work W Root) : RawTx Tx Root :=
  .sysMeta self true (some (A.root (A.tree wk.w), A.evroot wk.w))

def prepare (A : Apps St W Tx R Root Hdr LC Ev) (m : Mux St W Tx R Root Hdr LC Ev)
    (b : Blk Tx Root Hdr LC Ev) : Mux St W Tx R Root Hdr LC Ev × Resp Tx R Root :=
  match execBlock A m.canon true b.hdr b.lc b.ev b.txs with
  | none => ({ m with prop := some (freshProposal 0) }, .prepared [])
  | some (wk, rb, rds, re) =>
    let txs := b.txs ++ [metaTx A m.self wk]
    ({ m with prop := some { recd := some (b.hdr, txs, b.lc, b.ev), hash := 0, work := some wk,
                             results := some (rb, rds ++ [A.okR], re) } },
     .prepared txs)

/-- `mux.state.proposal != nil && !needsExecution() && isEqual(...)` (mux.go:473). -/
def reusable (m : Mux St W Tx R Root Hdr LC Ev) (b : Blk Tx Root Hdr LC Ev) : Bool :=
  match m.prop with
  | none => false
  | some p => p.results.isSome && isEqual p b.hdr b.txs b.lc b.ev

def process (A : Apps St W Tx R Root Hdr LC Ev) (m : Mux St W Tx R Root Hdr LC Ev) (h : Hash)
    (b : Blk Tx Root Hdr LC Ev) : Mux St W Tx R Root Hdr LC Ev × Resp Tx R Root :=
  if reusable m b then
    ({ m with prop := m.prop.map fun p => { p with hash := h } }, .accept)
  else
    match execBlock A m.canon (h == 0) b.hdr b.lc b.ev b.txs with
    | none => ({ m with prop := some (freshProposal 0) }, .reject)
    | some (wk, rb, rds, re) =>
      ({ m with prop := some { recd := none, hash := h, work := some wk, results := some (rb, rds, re) } },
       .accept)

/-- `BeginBlock` as an ABCI call (mux.go:567-654). `none`: panic, or a call CometBFT never makes
(BeginBlock for the hash of a block that is already half executed). -/
def beginBlock (A : Apps St W Tx R Root Hdr LC Ev) (m : Mux St W Tx R Root Hdr LC Ev) (h : Hash)
    (b : Blk Tx Root Hdr LC Ev) : Option (Mux St W Tx R Root Hdr LC Ev × Resp Tx R Root) :=
  let fresh : Option (Mux St W Tx R Root Hdr LC Ev × Resp Tx R Root) :=
    match beginOne A m.canon b.hdr b.lc b.ev with
    | none => none
    | some (wk, rb) =>
      some ({ m with prop := some { recd := none, hash := h, work := some wk, results := none } }, .res rb)
  match m.prop with
  | none => fresh
  | some p =>
    if p.hash == h then
      match p.results with
      | some (rb, _, _) => some (m, .res rb)
      | none => match p.work with
        | none => fresh
        | some _ => none
    else fresh

def deliverTx (A : Apps St W Tx R Root Hdr LC Ev) (m : Mux St W Tx R Root Hdr LC Ev)
    (t : RawTx Tx Root) : Option (Mux St W Tx R Root Hdr LC Ev × Resp Tx R Root) :=
  match m.prop with
  | none => none
  | some p =>
    match p.results with
    | some (_, [], _) => none
    | some (rb, r :: rest, re) => some ({ m with prop := some { p with results := some (rb, rest, re) } }, .res r)
    | none =>
      match p.work with
      | none => none
      | some wk =>
        match deliverOne A (p.hash == 0) wk t with
        | none => none
        | some (wk', r) => some ({ m with prop := some { p with work := some wk' } }, .res r)

def endBlock (A : Apps St W Tx R Root Hdr LC Ev) (m : Mux St W Tx R Root Hdr LC Ev) :
    Option (Mux St W Tx R Root Hdr LC Ev × Resp Tx R Root) :=
  match m.prop with
  | none => none
  | some p =>
    match p.results with
    | some (_, [], re) => some (m, .res re)
    | some (_, _ :: _, _) => none
    | none =>
      match p.work with
      | none => none
      | some wk =>
        match endOne A (p.hash == 0) wk with
        | none => none
        | some (wk', re) => some ({ m with prop := some { p with work := some wk' } }, .res re)

/-- `Commit` / `doCommit`: the proposal tree becomes canonical, the check tree is reopened. -/
def commit (A : Apps St W Tx R Root Hdr LC Ev) (m : Mux St W Tx R Root Hdr LC Ev) :
    Option (Mux St W Tx R Root Hdr LC Ev × Resp Tx R Root) :=
  match m.prop with
  | none => none
  | some p =>
    let s' := match p.work with
      | none => m.canon
      | some wk => A.tree wk.w
    some ({ m with canon := s', prop := none, check := s' }, .appHash (A.root s'))

/-- A new process over the same data directory: state as of the last `Commit`. -/
def restart (m : Mux St W Tx R Root Hdr LC Ev) : Mux St W Tx R Root Hdr LC Ev :=
  { m with prop := none, check := m.canon }

def step (A : Apps St W Tx R Root Hdr LC Ev) (m : Mux St W Tx R Root Hdr LC Ev) :
    Call Tx Root Hdr LC Ev → Option (Mux St W Tx R Root Hdr LC Ev × Resp Tx R Root)
  | .prepare b => some (prepare A m b)
  | .process h b => some (process A m h b)
  | .begin h b => beginBlock A m h b
  | .deliver t => deliverTx A m t
  | .endBlock => endBlock A m
  | .commit => commit A m
  | .restart => some (restart m, .unit)
  | .checkTx t => let p := A.checkTx m.check t; some ({ m with check := p.1 }, .res p.2)
  | .simulate t => some (m, .res (A.simulate m.canon t))
  | .query => some (m, .unit)

def run (A : Apps St W Tx R Root Hdr LC Ev) :
    Mux St W Tx R Root Hdr LC Ev → List (Call Tx Root Hdr LC Ev) →
    Option (Mux St W Tx R Root Hdr LC Ev × List (Resp Tx R Root))
  | m, [] => some (m, [])
  | m, c :: cs =>
    match step A m c with
    | none => none
    | some (m', r) =>
      match run A m' cs with
      | none => none
      | some (m'', rs) => some (m'', r :: rs)

/-! ### The grammar of calls for one height -/

def Call.isNoise : Call Tx Root Hdr LC Ev → Bool
  | .checkTx _ | .simulate _ | .query => true
  | _ => false

/-- Calls CometBFT may make while a height is still undecided. -/
def Call.isPre : Call Tx Root Hdr LC Ev → Bool
  | .prepare _ | .process _ _ | .restart | .checkTx _ | .simulate _ | .query => true
  | _ => false

def Call.isCommit : Call Tx Root Hdr LC Ev → Bool
  | .commit => true
  | _ => false

/-- The calls that deliver the decided block `b` with hash `h`. -/
def deliverSeq (h : Hash) (b : Blk Tx Root Hdr LC Ev) : List (Call Tx Root Hdr LC Ev) :=
  .begin h b :: (b.txs.map .deliver ++ [.endBlock, .commit])

/-- The responses a replica hands back for the decided block. -/
def deliverResps (A : Apps St W Tx R Root Hdr LC Ev) (x : Work W Root × R × List R × R) :
    List (Resp Tx R Root) :=
  .res x.2.1 :: (x.2.2.1.map .res ++ [.res x.2.2.2, .appHash (A.root (A.tree x.1.w))])

/-- Responses to the non-noise calls. -/
def keepCore : List (Call Tx Root Hdr LC Ev) → List (Resp Tx R Root) → List (Resp Tx R Root)
  | c :: cs, r :: rs => if c.isNoise then keepCore cs rs else r :: keepCore cs rs
  | _, _ => []

end
end OasisModel.Mux
