import OasisModel.Proto
import OasisModel.Mux.Proposal
/-
Driver for the proposal-cache model (C01), used as a checker: every call line carries what the
real multiplexer answered; the model, instantiated with the executor outputs *observed* on a
plain-execution oracle replica, answers `ok` or `DIVERGE <detail>`.

Executor observations and block definitions (any number, before the calls that need them):
  okres <digest>                                   response to a block-metadata transaction
  obs <s> <hdr> <lc> <ev> <usertxs|-> <rb|PANIC> <rds|-> <re|PANIC> <root> <evroot>
        on committed state `s`, BeginBlock(hdr, lc, ev) answered `rb`, the ordinary transactions
        answered `rds`, EndBlock answered `re`, leaving state root `root`, events root `evroot`
  blk <id> <hdr> <lc> <ev> <rawtxs|->
        rawtx: u:<id> | m:<signer>:<wf 0|1>:<stateroot>:<evroot> | m:<signer>:<wf>:bad
        hdr:   <height>:<time>:<proposer>:<nvh>
Calls (one replica per session):
  new <self> <root>
  prepare <blk> <returned rawtxs|->
  process <hash> <blk> <ACCEPT|REJECT>
  begin <hash> <blk> <rb|PANIC>
  deliver <rawtx> <rd|PANIC>
  end <re|PANIC>
  commit <apphash|PANIC>
  restart | checktx <rawtx> | simulate <tx> | query
  probe <exists 0|1> <executed 0|1> <recorded 0|1> <hash>     the real proposal cache, read through
        the verif hook: a proposal exists / has results / records proposer inputs / its hash
After a PANIC that the model also predicts the session accepts only `restart`.
-/
namespace OasisModel.Mux.Driver
open OasisModel.Proto OasisModel.Mux

structure Obs where
  s : String
  hdr : String
  lc : String
  ev : String
  txs : List String
  rb : Option String
  rds : List String
  re : Option String
  root : String
  evroot : String

/-- Working state of the table-driven executor: which execution, and how far it got. -/
structure WS where
  s : String
  hdr : String
  lc : String
  ev : String
  pre : List String

def Obs.key (o : Obs) (w : WS) : Bool := o.s == w.s && o.hdr == w.hdr && o.lc == w.lc && o.ev == w.ev

def isPrefix : List String → List String → Bool
  | [], _ => true
  | _ :: _, [] => false
  | a :: as, b :: bs => a == b && isPrefix as bs

def proposerOf (hdr : String) : Nat :=
  match hdr.splitOn ":" with
  | [_, _, p, _] => p.toNat?.getD 0
  | _ => 0

abbrev TApps := Apps String WS String String String String String String
abbrev TBlk := Blk String String String String String
abbrev TMux := Mux String WS String String String String String String
abbrev TRaw := RawTx String String

/-- The executor given by the observation table. Missing observations answer `UNKNOWN`. -/
def mkApps (T : List Obs) (okres : String) : TApps :=
  { begin := fun s hdr lc ev =>
      let w : WS := { s := s, hdr := hdr, lc := lc, ev := ev, pre := [] }
      match T.find? (fun o => o.key w) with
      | none => some (w, "UNKNOWN")
      | some o => match o.rb with
        | none => none
        | some rb => some (w, rb)
    deliver := fun w t =>
      let pre := w.pre ++ [t]
      let w' := { w with pre := pre }
      match T.find? (fun o => o.key w && isPrefix pre o.txs && pre.length ≤ o.rds.length) with
      | none => (w', "UNKNOWN")
      | some o => (w', (o.rds.drop (pre.length - 1)).headD "UNKNOWN")
    endb := fun w =>
      match T.find? (fun o => o.key w && o.txs == w.pre && o.rds.length == o.txs.length) with
      | none => some (w, "UNKNOWN")
      | some o => o.re.map fun re => (w, re)
    tree := fun w =>
      match T.find? (fun o => o.key w && o.txs == w.pre && o.re.isSome) with
      | none => "UNKNOWN"
      | some o => o.root
    root := id
    evroot := fun w =>
      match T.find? (fun o => o.key w && o.txs == w.pre && o.re.isSome) with
      | none => "UNKNOWN"
      | some o => o.evroot
    okR := okres
    proposer := proposerOf
    checkTx := fun s _ => (s, "")
    simulate := fun _ _ => "" }

structure St where
  table : List Obs := []
  okres : String := "?"
  blks : List (Nat × TBlk) := []
  mux : Option TMux := none
  crashed : Bool := false
  dead : Bool := false

def parseStrs (s : String) : List String :=
  if s == "-" then [] else s.splitOn ","

def parseRaw (s : String) : Option TRaw :=
  match s.splitOn ":" with
  | ["u", id] => some (.user id)
  | ["m", sg, wf, "bad"] => do
    let sg ← sg.toNat?
    pure (.sysMeta sg (wf == "1") none)
  | ["m", sg, wf, sr, er] => do
    let sg ← sg.toNat?
    pure (.sysMeta sg (wf == "1") (some (sr, er)))
  | _ => none

def showRaw : TRaw → String
  | .user id => "u:" ++ id
  | .sysMeta sg wf none => s!"m:{sg}:{if wf then 1 else 0}:bad"
  | .sysMeta sg wf (some (sr, er)) => s!"m:{sg}:{if wf then 1 else 0}:{sr}:{er}"

def showRaws (l : List TRaw) : String :=
  if l.isEmpty then "-" else ",".intercalate (l.map showRaw)

def optPanic (s : String) : Option String := if s == "PANIC" then none else some s

def showResp : Resp String String String → String
  | .prepared txs => showRaws txs
  | .accept => "ACCEPT"
  | .reject => "REJECT"
  | .res r => r
  | .appHash h => h
  | .unit => "-"

def step (st : St) (line : String) : St × String :=
  if st.dead then (st, "skip") else
  let fail (msg : String) : St × String := ({ st with dead := true }, "DIVERGE " ++ msg)
  let A := mkApps st.table st.okres
  /- run one call whose implementation answer is `impl` (PANIC allowed) -/
  let call (c : Call String String String String String) (impl : String) : St × String :=
    match st.mux with
    | none => fail "no replica (missing `new`)"
    | some m =>
      if st.crashed then fail "call after a crash without restart" else
      match OasisModel.Mux.step A m c with
      | none =>
        if impl == "PANIC" then ({ st with crashed := true }, "ok")
        else fail s!"model: the call panics; implementation answered {impl}"
      | some (m', r) =>
        if impl == "PANIC" then fail s!"implementation panicked; model answers {showResp r}"
        else if showResp r == impl || impl == "*" then ({ st with mux := some m' }, "ok")
        else fail s!"model={showResp r} impl={impl}"
  match words line with
  | ["okres", d] => ({ st with okres := d }, "ok")
  | ["obs", s, hdr, lc, ev, txs, rb, rds, re, root, evroot] =>
    let o : Obs := ⟨s, hdr, lc, ev, parseStrs txs, optPanic rb, parseStrs rds, optPanic re, root, evroot⟩
    ({ st with table := st.table ++ [o] }, "ok")
  | ["blk", id, hdr, lc, ev, txs] =>
    match id.toNat?, (parseStrs txs).mapM parseRaw with
    | some id, some txs => ({ st with blks := (id, { hdr := hdr, txs := txs, ev := ev, lc := lc }) :: st.blks }, "ok")
    | _, _ => fail "bad-op"
  | ["new", self, root] =>
    match self.toNat? with
    | some self => ({ st with mux := some ⟨self, root, none, root⟩, crashed := false }, "ok")
    | none => fail "bad-op"
  | ["prepare", b, impl] =>
    match b.toNat?.bind (fun b => st.blks.lookup b) with
    | some b => call (.prepare b) impl
    | none => fail "bad-op"
  | ["process", h, b, impl] =>
    match h.toNat?, b.toNat?.bind (fun b => st.blks.lookup b) with
    | some h, some b => call (.process h b) impl
    | _, _ => fail "bad-op"
  | ["begin", h, b, impl] =>
    match h.toNat?, b.toNat?.bind (fun b => st.blks.lookup b) with
    | some h, some b => call (.begin h b) impl
    | _, _ => fail "bad-op"
  | ["deliver", t, impl] =>
    match parseRaw t with
    | some t => call (.deliver t) impl
    | none => fail "bad-op"
  | ["end", impl] => call .endBlock impl
  | ["commit", impl] => call .commit impl
  | ["restart"] =>
    match st.mux with
    | some m => ({ st with mux := some (restart m), crashed := false }, "ok")
    | none => fail "no replica"
  | ["probe", ex, exe, rec, h] =>
    match st.mux with
    | none => fail "no replica"
    | some m =>
      let b (x : Bool) : String := if x then "1" else "0"
      let mine := match m.prop with
        | none => ["0", "0", "0", "0"]
        | some p => ["1", b p.results.isSome, b p.recd.isSome, toString p.hash]
      if mine == [ex, exe, rec, h] then (st, "ok")
      else fail s!"proposal cache: model={mine} impl={[ex, exe, rec, h]}"
  | ["checktx", t] =>
    match parseRaw t with
    | some t => call (.checkTx t) "*"
    | none => fail "bad-op"
  | ["simulate", t] => call (.simulate t) "*"
  | ["query"] => call .query "*"
  | [] => (st, "ok")
  | _ => fail "bad-op"

def main : IO Unit := loop step {}

end OasisModel.Mux.Driver
