import OasisModel.Proto
/- C01 proposal cache: driver stub (not built yet). -/
namespace OasisModel.Mux.Driver
def main : IO Unit := IO.eprintln "mode not implemented"
end OasisModel.Mux.Driver
