import OasisModel.Proto
import OasisModel.Registry.Index
/-
Driver for the registry model (C17), line protocol of harness/cmd/registrydrv.

  new <maxNodeExpiration> <debondingInterval> <tx|raw> [<thresholds>]   fresh state (starts a case);
        thresholds = 7 naturals: entity, node-validator, node-compute, node-observer, node-keymanager,
        runtime-compute, runtime-keymanager
  <op> => <result> | <dump tokens of the real state after the op>

ops (public keys and runtime ids are numbers):
  regentity <tx> <id> <nodes> <descsigner> <sigvalid>
  deregentity <tx>
  regnode <tx> <node> <signers> <sigvalid>          node = id:ent:cons:p2p:tls:vrf:exp:roles:rts
  regruntime <e<k>|r<id>> <id> <ent> <e|r|c> <c|k>
  epoch <e>
  unfreeze <tx> <id>                                 UnfreezeNode transaction
  freeze <id> <until>                                environment: status.FreezeEndTime := until
  setbalance <e<k>|r<id>> <amount>                   environment: Escrow.Active.Balance := amount
  initchain E=<id>:<nodes>:<signer>:<valid>;.. R=<id>:<ent>:<gov>:<kind>;.. S=<suspended runtimes>
            N=<node>/<signers>/<valid>;.. T=<id>:<processed>:<freezeEnd>;..      Application.InitChain
  setnode <existing node|-> <node> | removenode <node> | setstatus <id> <0|1> | suspend <rt>   (raw state calls)

Answer per line: `ok` (possibly followed by `NOTE:<observation>` tokens), or `DIVERGE result ...` / `DIVERGE state ...` when the model's result or
state differs from the implementation's, and/or `SPEC <clause>` when the executable invariant
`invStrongB` (`invB`, which the theorems prove for every history, plus the key-uniqueness clause with
identity keys included, clause name `key-shared-node-id-as-subkey`) is false on the dumped real state
(mode `tx` only).
After a divergence every line is answered `skip` until the next `new`.

The environment variable `OM_REGISTRY_ORDER=removalsfirst|interleaved` overrides the order of sub-key writes (default `codeOrder`).
-/
namespace OasisModel.Registry.Driver
open OasisModel.Proto OasisModel.Registry

structure St where
  s : State
  ord : Order
  spec : Bool := true
  dead : Bool := false

/-! ### parsing -/

def parseNode (t : String) : Option Node :=
  match t.splitOn ":" with
  | [id, ent, cons, p2p, tls, vrf, exp, roles, rts] => do
    let id ← id.toNat?; let ent ← ent.toNat?; let cons ← cons.toNat?; let p2p ← p2p.toNat?
    let tls ← tls.toNat?; let vrf ← vrf.toNat?; let exp ← exp.toNat?; let roles ← roles.toNat?
    let rts ← parseNats rts
    pure { id, entity := ent, cons, p2p, tls, vrf, expiration := exp, roles, runtimes := rts }
  | _ => none

def showNode (n : Node) : String :=
  s!"{n.id}:{n.entity}:{n.cons}:{n.p2p}:{n.tls}:{n.vrf}:{n.expiration}:{n.roles}:{showNats n.runtimes}"

def parseGov : String → Option Gov
  | "e" => some .entity | "r" => some .runtime | "c" => some .consensus | _ => none
def showGov : Gov → String
  | .entity => "e" | .runtime => "r" | .consensus => "c"
def parseKind : String → Option Kind
  | "c" => some .compute | "k" => some .keymanager | _ => none
def showKind : Kind → String
  | .compute => "c" | .keymanager => "k"

def parseAddr (t : String) : Option Addr :=
  match t.toList with
  | 'e' :: r => (String.ofList r).toNat?.map Addr.ent
  | 'r' :: r => (String.ofList r).toNat?.map Addr.rt
  | _ => none
def showAddr : Addr → String
  | .ent k => s!"e{k}" | .rt r => s!"r{r}"

def parseClaim (t : String) : Option Claim :=
  match t.toList with
  | ['e'] => some .entity
  | 'n' :: r => (String.ofList r).toNat?.map Claim.node
  | 'r' :: r => (String.ofList r).toNat?.map Claim.runtime
  | _ => none
def showClaim : Claim → String
  | .entity => "e" | .node k => s!"n{k}" | .runtime r => s!"r{r}"

def pair (sep : String) (t : String) : Option (Nat × Nat) :=
  match t.splitOn sep with
  | [a, b] => do pure (← a.toNat?, ← b.toNat?)
  | _ => none

def thrOfIdx : Nat → Option Thr
  | 0 => some .entity | 1 => some .nodeValidator | 2 => some .nodeCompute | 3 => some .nodeObserver
  | 4 => some .nodeKeyManager | 5 => some .rtCompute | 6 => some .rtKeyManager | _ => none

def showThrs (l : List Thr) : String :=
  if l.isEmpty then "-" else ".".intercalate (l.map fun t => toString t.idx)

def parseThrs (t : String) : Option (List Thr) :=
  if t == "-" then some [] else (t.splitOn ".").mapM fun x => x.toNat? >>= thrOfIdx

/-! ### rendering the model state as the harness' dump tokens -/

def insertStr (x : String) : List String → List String
  | [] => [x]
  | y :: ys => if x ≤ y then x :: y :: ys else y :: insertStr x ys

def sortStrs (l : List String) : List String := l.foldr insertStr []

def sortNats (l : List Nat) : List Nat :=
  l.foldr (fun x acc =>
    let rec ins : List Nat → List Nat
      | [] => [x]
      | y :: ys => if x ≤ y then x :: y :: ys else y :: ins ys
    ins acc) []

def tokens (s : State) : List String :=
  let ents := s.entities.map fun p => s!"E{p.1}:{showNats p.2}"
  let nodes := s.nodes.map fun p => "N" ++ showNode p.2
  let rts := s.runtimes.map fun p =>
    s!"R{p.1}:{p.2.entity}:{showGov p.2.gov}:{showKind p.2.kind}:{if p.2.suspended then 1 else 0}"
  -- API view
  let apiK := s.keyMap.filterMap fun p => (nodeBySubKey s p.1).map fun n => s!"K{p.1}>{n.id}"
  let apiA := s.consAddr.map fun p => s!"A{p.1}>{p.2}"
  let entsOfIdx := (s.byEntity.map (·.1.1)).eraseDups
  let apiG := entsOfIdx.map fun e =>
    let ids := (s.byEntity.filter fun p => p.1.1 = e).map (·.1.2)
    if ids.all (fun id => s.nodes.has id) then
      s!"G{e}:{showNats (sortNats ((ids.filterMap fun id => (s.nodes.get id).map (·.id))))}"
    else s!"G{e}:ERR"
  let apiHn := entsOfIdx.map fun e => s!"Hn{e}"
  let apiHr := ((s.rtByEntity.map (·.1.1)).eraseDups).map fun e => s!"Hr{e}"
  -- raw view
  let rawK := s.keyMap.map fun p => s!"k{p.1}>{p.2}"
  let rawA := s.consAddr.map fun p => s!"a{p.1}>{p.2}"
  let rawB := s.byEntity.map fun p => s!"b{p.1.1}/{p.1.2}"
  let rawO := s.rtByEntity.map fun p => s!"o{p.1.1}/{p.1.2}"
  let st := s.status.map fun p => s!"S{p.1}:{if p.2.expirationProcessed then 1 else 0}:{p.2.freezeEndTime}"
  let cl := s.claims.map fun p => s!"C{showAddr p.1.1}/{showClaim p.1.2}={showThrs p.2}"
  let bal := s.balances.filterMap fun p => if p.2 = 0 then none else some s!"B{showAddr p.1}={p.2}"
  sortStrs (ents ++ nodes ++ rts ++ apiK ++ apiA ++ apiG ++ apiHn ++ apiHr ++ rawK ++ rawA ++ rawB ++ rawO ++ st ++ cl ++ bal)

/-! ### reading the real state back from the raw dump tokens -/

def tail1 (t : String) : String := String.ofList (t.toList.drop 1)

/-- Build a `State` from the dump (records and *raw* indexes; the API-view tokens are ignored). -/
def readState (p : Params) (epoch : Nat) (toks : List String) : Option State :=
  toks.foldlM (init := ({ (OasisModel.Registry.init p) with epoch := epoch } : State)) fun s t =>
    match t.toList.head? with
    | some 'E' => match (tail1 t).splitOn ":" with
      | [e, ns] => do pure { s with entities := s.entities.set (← e.toNat?) (← parseNats ns) }
      | _ => none
    | some 'N' => do let n ← parseNode (tail1 t); pure { s with nodes := s.nodes.set n.id n }
    | some 'R' => match (tail1 t).splitOn ":" with
      | [id, ent, g, k, su] => do
        let id ← id.toNat?
        let rt : Runtime :=
          { id := id, entity := ← ent.toNat?, gov := ← parseGov g, kind := ← parseKind k, suspended := su == "1" }
        pure { s with runtimes := s.runtimes.set id rt }
      | _ => none
    | some 'k' => do let (k, id) ← pair ">" (tail1 t); pure { s with keyMap := s.keyMap.set k id }
    | some 'a' => do let (k, id) ← pair ">" (tail1 t); pure { s with consAddr := s.consAddr.set k id }
    | some 'b' => do let (e, id) ← pair "/" (tail1 t); pure { s with byEntity := s.byEntity.set (e, id) () }
    | some 'o' => do let (e, r) ← pair "/" (tail1 t); pure { s with rtByEntity := s.rtByEntity.set (e, r) () }
    | some 'S' => match (tail1 t).splitOn ":" with
      | [id, p, f] => do
        pure { s with status := s.status.set (← id.toNat?) { expirationProcessed := p == "1", freezeEndTime := ← f.toNat? } }
      | _ => none
    | some 'C' => match (tail1 t).splitOn "/" with
      | [a, c] => match c.splitOn "=" with
        | [c, ths] => do pure { s with claims := s.claims.set (← parseAddr a, ← parseClaim c) (← parseThrs ths) }
        | _ => none
      | _ => none
    | some 'B' => match (tail1 t).splitOn "=" with
      | [a, v] => do pure { s with balances := s.balances.set (← parseAddr a) (← v.toNat?) }
      | _ => none
    | some 'K' | some 'A' | some 'G' | some 'H' => some s
    | _ => none

/-! ### genesis documents -/

def items (t : String) (tag : String) : Option (List String) :=
  match t.splitOn "=" with
  | [k, v] => if k != tag then none else if v == "-" then some [] else some (v.splitOn ";")
  | _ => none

def parseRt (susp : Bool) (t : String) : Option Runtime :=
  match t.splitOn ":" with
  | [id, ent, g, k] => do
    pure { id := ← id.toNat?, entity := ← ent.toNat?, gov := ← parseGov g, kind := ← parseKind k, suspended := susp }
  | _ => none

def parseGenesis (e r su n t : String) : Option Genesis := do
  let es ← (← items e "E").mapM fun x => match x.splitOn ":" with
    | [id, ns, sg, v] => do
      pure ({ id := ← id.toNat?, nodes := ← parseNats ns, signer := ← sg.toNat?, sigValid := v != "0" } : SignedEntity)
    | _ => none
  let rs ← (← items r "R").mapM (parseRt false)
  let ss ← (← items su "S").mapM (parseRt false)
  let ns ← (← items n "N").mapM fun x => match x.splitOn "/" with
    | [nd, sg, v] => do
      pure ({ node := ← parseNode nd, signers := ← parseNats sg, sigValid := v != "0" } : SignedNode)
    | _ => none
  let ts ← (← items t "T").mapM fun x => match x.splitOn ":" with
    | [id, p, f] => do
      pure (← id.toNat?, ({ expirationProcessed := p == "1", freezeEndTime := ← f.toNat? } : Status))
    | _ => none
  pure { entities := es, runtimes := rs, suspendedRuntimes := ss, nodes := ns, statuses := ts }

/-! ### operations -/

def bool01 (t : String) : Bool := t != "0"

/-- Execute one op on the model; `none` = malformed line. -/
def exec (st : St) (w : List String) : Option (State × String) :=
  let s := st.s
  match w with
  | ["regentity", tx, id, ns, ds, v] => do
    let r := regEntity false s (← tx.toNat?) { id := ← id.toNat?, nodes := ← parseNats ns, signer := ← ds.toNat?, sigValid := bool01 v }
    pure (r.1, r.2.toString)
  | ["deregentity", tx] => do
    let r := deregEntity s (← tx.toNat?)
    pure (r.1, r.2.toString)
  | ["regnode", tx, n, sg, v] => do
    let r := regNode false st.ord s (← tx.toNat?) { node := ← parseNode n, signers := ← parseNats sg, sigValid := bool01 v }
    pure (r.1, r.2.toString)
  | ["regruntime", c, id, ent, g, k] => do
    let r := regRuntime false s (← parseAddr c)
      { id := ← id.toNat?, entity := ← ent.toNat?, gov := ← parseGov g, kind := ← parseKind k, suspended := false }
    pure (r.1, r.2.toString)
  | ["epoch", e] => do
    let r := epochTransition s (← e.toNat?)
    pure (r.1, r.2.toString)
  | ["setnode", ex, n] => do
    let old ← if ex == "-" then some none else (parseNode ex).map some
    pure (setNode st.ord s old (← parseNode n), "ok")
  | ["removenode", n] => do pure (removeNode s (← parseNode n), "ok")
  | ["setstatus", id, p] => do
    pure ({ s with status := s.status.set (← id.toNat?) { expirationProcessed := p == "1" } }, "ok")
  | ["unfreeze", tx, id] => do
    let r := unfreezeNode s (← tx.toNat?) (← id.toNat?)
    pure (r.1, r.2.toString)
  | ["freeze", id, u] => do pure (freezeNode s (← id.toNat?) (← u.toNat?), "ok")
  | ["setbalance", a, v] => do pure (setBalance s (← parseAddr a) (← v.toNat?), "ok")
  | ["initchain", e, r, su, n, t] => do
    let g ← parseGenesis e r su n t
    let res := initChain st.ord s g
    pure (res.1, res.2.toString)
  | ["suspend", r] => do
    let r ← r.toNat?
    match s.runtimes.get r with
    | some rt => if rt.suspended then pure (s, "no-such-runtime")
                 else pure ({ s with runtimes := s.runtimes.set r { rt with suspended := true } }, "ok")
    | none => pure (s, "no-such-runtime")
  | _ => none

def firstDiff : List String → List String → String
  | [], [] => "none"
  | a :: _, [] => s!"model has {a}, impl has no more tokens"
  | [], b :: _ => s!"impl has {b}, model has no more tokens"
  | a :: as, b :: bs => if a == b then firstDiff as bs else s!"model {a} vs impl {b}"

def splitAt (sep : String) (w : List String) : List String × List String :=
  (w.takeWhile (· != sep), (w.dropWhile (· != sep)).drop 1)

def step (st : St) (line : String) : St × String :=
  match words line with
  | [] => (st, "ok")
  | "new" :: mx :: db :: mode :: rest =>
    let thr : Option (List Nat) := match rest with
      | [] => some []
      | [t] => parseNats t
      | _ => none
    match mx.toNat?, db.toNat?, thr with
    | some mx, some db, some thr =>
      ({ st with s := init { maxNodeExpiration := mx, debondingInterval := db, thresholds := thr },
                 spec := mode == "tx", dead := false }, "ok")
    | _, _, _ => ({ st with dead := true }, "DIVERGE bad-op")
  | w =>
    if st.dead then (st, "skip") else
    let fail (msg : String) : St × String := ({ st with dead := true }, msg)
    let (opw, rest) := splitAt "=>" w
    let (resw, toks) := splitAt "|" rest
    match resw, exec st opw with
    | [res], some (s', mres) =>
      if toks == ["DUMP-PANIC"] then fail "DIVERGE state implementation panicked while dumping its state" else
      let specMsg : Option String :=
        if st.spec then
          match readState s'.params s'.epoch toks with
          | none => some "SPEC dump-unreadable"
          | some real =>
            match invStrongFailure real with
            | some f => some ("SPEC " ++ f)
            | none => if subKeysUniqueB real then none else some "SPEC subkey-of-two-nodes"
        else none
      let mt := tokens s'
      let divMsg : Option String :=
        if mres != res then some s!"DIVERGE result model={mres} impl={res}"
        else if mt != sortStrs toks then some s!"DIVERGE state {firstDiff mt (sortStrs toks)}"
        else none
      -- observations that are not failures (corners the code permits, see Props/C17.lean)
      let notes : String :=
        (match opw with
          | ["regnode", _, n, sg, _] =>
            match parseNode n, parseNats sg with
            | some n, some sg =>
              if mres == "ok" && sg.any (fun k => !(n.id :: subKeys n).contains k) then " NOTE:foreign-signature-accepted" else ""
            | _, _ => ""
          | _ => "")
      match divMsg, specMsg with
      | none, none => ({ st with s := s' }, "ok" ++ notes)
      | none, some m => ({ st with s := s' }, m)
      | some d, none => fail d
      | some d, some m => fail (d ++ "; " ++ m)
    | _, _ => fail "DIVERGE bad-op"

def main : IO Unit := do
  let ord := match (← IO.getEnv "OM_REGISTRY_ORDER") with
    | some "removalsfirst" => Order.removalsFirst
    | some "interleaved" => Order.interleaved
    | _ => codeOrder
  loop step { s := init { maxNodeExpiration := 5, debondingInterval := 1 }, ord := ord }

end OasisModel.Registry.Driver
