import OasisModel.Proto
/- C17 registry index: driver stub (not built yet). -/
namespace OasisModel.Registry.Driver
def main : IO Unit := IO.eprintln "mode not implemented"
end OasisModel.Registry.Driver
