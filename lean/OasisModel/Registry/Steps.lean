import OasisModel.Registry.Index
/-
C17 — the index writes of `MutableState.SetNode` / `RemoveNode` as a list of steps in source order.

`tools/gen setnode-steps` extracts the same lists from go/consensus/cometbft/apps/registry/state/state.go
(`lean/Generated/RegistrySetNode.lean`, regenerated on every run); `Props/C17.lean` checks by `decide`
that the extracted lists equal `setNodeSteps codeOrder` / `removeNodeSteps`, and
`Helpers/RegistrySteps.lean` proves that interpreting the lists gives exactly `setNode` / `removeNode`.
-/
namespace OasisModel.Registry

inductive KeyKind | cons | p2p | vrf | tls
deriving DecidableEq, Repr, Inhabited

def KeyKind.of (k : KeyKind) (n : Node) : Key :=
  match k with
  | .cons => n.cons
  | .p2p => n.p2p
  | .vrf => n.vrf
  | .tls => n.tls

/-- One store write of `SetNode`. -/
inductive Write
  | insNode                 -- Insert(signedNodeKeyFmt(node.ID), signedNode)
  | insByEntity             -- Insert(signedNodeByEntityKeyFmt(node.EntityID, node.ID), "")
  | rmAddr                  -- Remove(nodeByConsAddressKeyFmt(address of existingNode.Consensus.ID))
  | insAddr                 -- Insert(nodeByConsAddressKeyFmt(address of node.Consensus.ID), rawNodeID)
  | rmKey (k : KeyKind)     -- Remove(keyMapKeyFmt(existingNode.<k>))
  | insKey (k : KeyKind)    -- Insert(keyMapKeyFmt(node.<k>), rawNodeID)
deriving DecidableEq, Repr, Inhabited

/-- A write, optionally guarded by `existingNode != nil && !existingNode.<k>.Equal(node.<k>)`. -/
structure Step where
  guard : Option KeyKind
  w : Write
deriving DecidableEq, Repr, Inhabited

def guardHolds (old : Option Node) (n : Node) : Option KeyKind → Bool
  | none => true
  | some k => match old with
    | some o => decide (k.of o ≠ k.of n)
    | none => false

def applyWrite (s : State) (old : Option Node) (n : Node) : Write → State
  | .insNode => { s with nodes := s.nodes.set n.id n }
  | .insByEntity => { s with byEntity := s.byEntity.set (n.entity, n.id) () }
  | .rmAddr => match old with
    | some o => { s with consAddr := s.consAddr.del o.cons }
    | none => s
  | .insAddr => { s with consAddr := s.consAddr.set n.cons n.id }
  | .rmKey k => match old with
    | some o => { s with keyMap := s.keyMap.del (k.of o) }
    | none => s
  | .insKey k => { s with keyMap := s.keyMap.set (k.of n) n.id }

def runSteps (old : Option Node) (n : Node) : List Step → State → State
  | [], s => s
  | st :: rest, s => runSteps old n rest (if guardHolds old n st.guard then applyWrite s old n st.w else s)

/-- The writes of `SetNode` in source order, for either order of the sub-key blocks. -/
def setNodeSteps : Order → List Step
  | .interleaved =>
    [ ⟨none, .insNode⟩, ⟨none, .insByEntity⟩,
      ⟨some .cons, .rmAddr⟩, ⟨some .cons, .rmKey .cons⟩, ⟨none, .insAddr⟩, ⟨none, .insKey .cons⟩,
      ⟨some .p2p, .rmKey .p2p⟩, ⟨none, .insKey .p2p⟩,
      ⟨some .vrf, .rmKey .vrf⟩, ⟨none, .insKey .vrf⟩,
      ⟨some .tls, .rmKey .tls⟩, ⟨none, .insKey .tls⟩ ]
  | .removalsFirst =>
    [ ⟨none, .insNode⟩, ⟨none, .insByEntity⟩,
      ⟨some .cons, .rmAddr⟩, ⟨some .cons, .rmKey .cons⟩,
      ⟨some .p2p, .rmKey .p2p⟩, ⟨some .vrf, .rmKey .vrf⟩, ⟨some .tls, .rmKey .tls⟩,
      ⟨none, .insAddr⟩, ⟨none, .insKey .cons⟩, ⟨none, .insKey .p2p⟩, ⟨none, .insKey .vrf⟩, ⟨none, .insKey .tls⟩ ]

/-- One store removal of `RemoveNode(node)`. -/
inductive RmWrite
  | node | byEntity | status | addr | key (k : KeyKind)
deriving DecidableEq, Repr, Inhabited

def applyRm (s : State) (n : Node) : RmWrite → State
  | .node => { s with nodes := s.nodes.del n.id }
  | .byEntity => { s with byEntity := s.byEntity.del (n.entity, n.id) }
  | .status => { s with status := s.status.del n.id }
  | .addr => { s with consAddr := s.consAddr.del n.cons }
  | .key k => { s with keyMap := s.keyMap.del (k.of n) }

def runRm (n : Node) : List RmWrite → State → State
  | [], s => s
  | w :: rest, s => runRm n rest (applyRm s n w)

/-- The removals of `RemoveNode` in source order. -/
def removeNodeSteps : List RmWrite :=
  [ .node, .byEntity, .status, .addr, .key .cons, .key .p2p, .key .tls, .key .vrf ]

end OasisModel.Registry
