import OasisModel.Registry.Map
/-
C17 — model of the consensus registry: primary records and secondary indexes.

Sources modelled (oasis-core, /repo/go):
  consensus/cometbft/apps/registry/state/state.go   SetEntity/RemoveEntity, SetNode, RemoveNode,
        SetRuntime, SetRuntimeOwner/RemoveRuntimeOwner, Suspend/ResumeRuntime, SetNodeStatus,
        NodeBySubKey, NodeIDByConsensusAddress, GetEntityNodes, HasEntityNodes, HasEntityRuntimes
  registry/api/api.go                               VerifyRegisterEntityArgs, VerifyRegisterNodeArgs,
        VerifyNodeUpdate, VerifyRuntimeUpdate (authority-relevant part)
  consensus/cometbft/apps/registry/transactions.go  registerEntity, deregisterEntity, registerNode,
        registerRuntime (signer checks, stake claims, order of writes)
  consensus/cometbft/apps/registry/registry.go      onRegistryEpochChanged (expiry, removal)

Abstractions (each is an assumption of the tie, listed in checks/C17.py):
  * public keys, runtime ids are naturals (the harness maps them injectively to real Ed25519 keys /
    namespaces); the CometBFT consensus address is an injective function of the consensus key, so the
    node-by-consensus-address index is keyed by the consensus key;
  * signatures are ideal: a descriptor carries the set of keys that produced a valid signature
    (`signers`) and a flag `sigValid` that is false when some attached signature does not verify;
  * staking accounts are addressed by `Addr` (entity key or runtime id, `staking.NewAddress` /
    `NewRuntimeAddress` idealised as injective); an account has an active escrow balance and a stake
    accumulator (claim ↦ list of global thresholds, `staking/api/api.go:900-1130`); per-runtime
    threshold constants (`Runtime.Staking.Thresholds`) are not modelled (zero);
  * descriptor fields without influence on authority or indexes (addresses, software version, TEE
    capabilities, deployments, admission policies) are not modelled; the harness generates
    descriptors that pass those checks.

The order in which `SetNode` removes old and inserts new sub-keys is a parameter (`Order`):
`interleaved` is the code before the repair of F2 (per key kind: remove old, insert new),
`removalsFirst` is the repaired order (all removals, then all insertions).  `codeOrder` names the one
the Go code has now.
-/
namespace OasisModel.Registry

abbrev Key := Nat
abbrev RtId := Nat

/-! ### descriptors -/

structure Node where
  id : Key
  entity : Key
  cons : Key
  p2p : Key
  tls : Key
  vrf : Key
  expiration : Nat
  roles : Nat
  runtimes : List RtId
deriving DecidableEq, Repr, Inhabited

/-- The four sub-keys kept in the key map (`keyMapKeyFmt`). -/
def subKeys (n : Node) : List Key := [n.cons, n.p2p, n.tls, n.vrf]

inductive Gov | entity | runtime | consensus
deriving DecidableEq, Repr, Inhabited

inductive Kind | compute | keymanager
deriving DecidableEq, Repr, Inhabited

structure Runtime where
  id : RtId
  entity : Key
  gov : Gov
  kind : Kind
  suspended : Bool
deriving DecidableEq, Repr, Inhabited

/-- Staking account addresses: `staking.NewAddress(entity)` / `staking.NewRuntimeAddress(rt)`. -/
inductive Addr | ent (k : Key) | rt (r : RtId)
deriving DecidableEq, Repr, Inhabited

/-- Registry stake claims: `registry.RegisterEntity`, `registry.RegisterNode.<id>`,
`registry.RegisterRuntime.<id>`. -/
inductive Claim | entity | node (id : Key) | runtime (r : RtId)
deriving DecidableEq, Repr, Inhabited

/-- `Runtime.StakingAddress`. -/
def Runtime.stakingAddr (r : Runtime) : Option Addr :=
  match r.gov with
  | .entity => some (.ent r.entity)
  | .runtime => some (.rt r.id)
  | .consensus => none

/-- `registry.NodeStatus`: `ExpirationProcessed`, `FreezeEndTime` (0 = not frozen). -/
structure Status where
  expirationProcessed : Bool
  freezeEndTime : Nat := 0
deriving DecidableEq, Repr, Inhabited

/-- `staking.ThresholdKind` (registry-relevant kinds). -/
inductive Thr | entity | nodeValidator | nodeCompute | nodeObserver | nodeKeyManager | rtCompute | rtKeyManager
deriving DecidableEq, Repr, Inhabited

def Thr.idx : Thr → Nat
  | .entity => 0 | .nodeValidator => 1 | .nodeCompute => 2 | .nodeObserver => 3
  | .nodeKeyManager => 4 | .rtCompute => 5 | .rtKeyManager => 6

structure Params where
  maxNodeExpiration : Nat
  debondingInterval : Nat
  /-- `staking.ConsensusParameters.Thresholds`, indexed by `Thr.idx` (missing = 0). -/
  thresholds : List Nat := []
deriving DecidableEq, Repr, Inhabited

def Params.thr (p : Params) (t : Thr) : Nat := p.thresholds.getD t.idx 0

/-! ### state -/

structure State where
  params : Params
  epoch : Nat
  /-- `signedEntityKeyFmt`: entity id ↦ node whitelist. -/
  entities : Map Key (List Key)
  /-- `signedNodeKeyFmt`: node id ↦ descriptor. -/
  nodes : Map Key Node
  /-- `signedNodeByEntityKeyFmt`: set of (entity, node id). -/
  byEntity : Map (Key × Key) Unit
  /-- `nodeByConsAddressKeyFmt`: consensus key (address) ↦ node id. -/
  consAddr : Map Key Key
  /-- `keyMapKeyFmt`: sub-key ↦ node id. -/
  keyMap : Map Key Key
  /-- `nodeStatusKeyFmt`. -/
  status : Map Key Status
  /-- `runtimeKeyFmt` / `suspendedRuntimeKeyFmt` (flag `suspended`). -/
  runtimes : Map RtId Runtime
  /-- `runtimeByEntityKeyFmt`: set of (entity, runtime id). -/
  rtByEntity : Map (Key × RtId) Unit
  /-- `Escrow.StakeAccumulator.Claims` of all accounts: (account, claim) ↦ thresholds. -/
  claims : Map (Addr × Claim) (List Thr)
  /-- `Escrow.Active.Balance` of the accounts (missing = 0). -/
  balances : Map Addr Nat
deriving Repr, Inhabited

def init (p : Params) : State :=
  { params := p, epoch := 0, entities := [], nodes := [], byEntity := [], consAddr := [],
    keyMap := [], status := [], runtimes := [], rtByEntity := [], claims := [], balances := [] }

/-! ### lookups of `ImmutableState` -/

/-- `NodeBySubKey`: key map, then the node record. -/
def nodeBySubKey (s : State) (k : Key) : Option Node :=
  match s.keyMap.get k with
  | none => none
  | some id => s.nodes.get id

/-- `NodeByConsensusAddress`. -/
def nodeByConsAddr (s : State) (k : Key) : Option Node :=
  match s.consAddr.get k with
  | none => none
  | some id => s.nodes.get id

/-- `HasEntityNodes`. -/
def hasEntityNodes (s : State) (e : Key) : Bool := s.byEntity.any (fun p => decide (p.1.1 = e))

/-- `HasEntityRuntimes`. -/
def hasEntityRuntimes (s : State) (e : Key) : Bool := s.rtByEntity.any (fun p => decide (p.1.1 = e))

/-! ### SetNode / RemoveNode (state.go:551-652), in the code's order of writes -/

inductive Order | interleaved | removalsFirst
deriving DecidableEq, Repr, Inhabited

/-- Order of sub-key writes in the Go code as it is now (`state.go:564-625`): since the repair of F2
(oasis-core 52c7fb0) all removals precede all insertions.  Checked on every run against the step list
extracted from the source (`Generated.Registry.setNodeSteps`, `Props/C17.lean: setnode_steps_tie`) and by
the registrydrv correspondence.  Before the repair this was `.interleaved`. -/
def codeOrder : Order := .removalsFirst

/-- `if existingNode != nil && !existingNode.K.Equal(node.K) { Remove(keyMap, existingNode.K) }`. -/
def rmIfChanged (old : Option Node) (n : Node) (f : Node → Key) (km : Map Key Key) : Map Key Key :=
  match old with
  | some o => if f o ≠ f n then km.del (f o) else km
  | none => km

/-- Key-map writes of `SetNode`.  Kinds in source order: consensus, P2P, VRF, TLS. -/
def setNodeKeyMap (ord : Order) (km : Map Key Key) (old : Option Node) (n : Node) : Map Key Key :=
  match ord with
  | .interleaved =>
    let km := (rmIfChanged old n (·.cons) km).set n.cons n.id
    let km := (rmIfChanged old n (·.p2p) km).set n.p2p n.id
    let km := (rmIfChanged old n (·.vrf) km).set n.vrf n.id
    (rmIfChanged old n (·.tls) km).set n.tls n.id
  | .removalsFirst =>
    let km := rmIfChanged old n (·.cons) km
    let km := rmIfChanged old n (·.p2p) km
    let km := rmIfChanged old n (·.vrf) km
    let km := rmIfChanged old n (·.tls) km
    (((km.set n.cons n.id).set n.p2p n.id).set n.vrf n.id).set n.tls n.id

/-- Consensus-address writes of `SetNode` (remove old if changed, insert new). -/
def setNodeConsAddr (ca : Map Key Key) (old : Option Node) (n : Node) : Map Key Key :=
  (rmIfChanged old n (·.cons) ca).set n.cons n.id

/-- `MutableState.SetNode(existingNode, node, signedNode)`. -/
def setNode (ord : Order) (s : State) (old : Option Node) (n : Node) : State :=
  { s with
    nodes := s.nodes.set n.id n
    byEntity := s.byEntity.set (n.entity, n.id) ()
    consAddr := setNodeConsAddr s.consAddr old n
    keyMap := setNodeKeyMap ord s.keyMap old n }

/-- `MutableState.RemoveNode(node)`. -/
def removeNode (s : State) (n : Node) : State :=
  { s with
    nodes := s.nodes.del n.id
    byEntity := s.byEntity.del (n.entity, n.id)
    status := s.status.del n.id
    consAddr := s.consAddr.del n.cons
    keyMap := (((s.keyMap.del n.cons).del n.p2p).del n.tls).del n.vrf }

/-! ### result codes -/

inductive Res
  | ok
  | invalidSignature
  | invalidArgument (why : String)
  | incorrectTxSigner
  | noSuchEntity
  | noSuchRuntime
  | nodeExpired
  | nodeUpdateNotAllowed
  | entityHasNodes
  | entityHasRuntimes
  | forbidden
  | runtimeUpdateNotAllowed
  | insufficientStake
  | noSuchNode
  | badEntityForNode
  | nodeCannotBeUnfrozen
  | panicked
  | fatal
deriving DecidableEq, Repr, Inhabited

def Res.toString : Res → String
  | .ok => "ok"
  | .invalidSignature => "invalid-signature"
  | .invalidArgument w => "invalid-argument:" ++ w
  | .incorrectTxSigner => "incorrect-tx-signer"
  | .noSuchEntity => "no-such-entity"
  | .noSuchRuntime => "no-such-runtime"
  | .nodeExpired => "node-expired"
  | .nodeUpdateNotAllowed => "node-update-not-allowed"
  | .entityHasNodes => "entity-has-nodes"
  | .entityHasRuntimes => "entity-has-runtimes"
  | .forbidden => "forbidden"
  | .runtimeUpdateNotAllowed => "runtime-update-not-allowed"
  | .insufficientStake => "insufficient-stake"
  | .noSuchNode => "no-such-node"
  | .badEntityForNode => "bad-entity-for-node"
  | .nodeCannotBeUnfrozen => "node-cannot-be-unfrozen"
  | .panicked => "panic"
  | .fatal => "fatal"

/-! ### entities (transactions.go:21-186, api.go:431-488) -/

/-- A signed entity descriptor: `signer` is the public key of the attached signature. -/
structure SignedEntity where
  id : Key
  nodes : List Key
  signer : Key
  sigValid : Bool
deriving DecidableEq, Repr, Inhabited

def hasDup : List Key → Bool
  | [] => false
  | k :: ks => ks.contains k || hasDup ks

/-- `VerifyRegisterEntityArgs`. -/
def verifyEntityArgs (se : SignedEntity) : Option Res :=
  if !se.sigValid then some .invalidSignature
  else if se.signer ≠ se.id then some (.invalidArgument "bare")
  else if hasDup se.nodes then some (.invalidArgument "duplicate-nodes")
  else none

/-! ### stake accumulator (staking/api/api.go:900-1130, apps/staking/state/accumulator.go) -/

def sumThr (p : Params) (ths : List Thr) : Nat := ths.foldl (fun acc t => acc + p.thr t) 0

/-- `StakeAccumulator.TotalClaims(thresholds, exclude)` of account `a`. -/
def totalClaims (p : Params) (claims : Map (Addr × Claim) (List Thr)) (a : Addr) (exclude : Option Claim) : Nat :=
  claims.foldl (fun acc e => if e.1.1 = a ∧ some e.1.2 ≠ exclude then acc + sumThr p e.2 else acc) 0

def balanceOf (s : State) (a : Addr) : Nat := (s.balances.get a).getD 0

/-- `EscrowAccount.AddStakeClaim` succeeds: the other claims of the account plus the new thresholds
are covered by the active escrow balance. -/
def canAddClaim (s : State) (claims : Map (Addr × Claim) (List Thr)) (a : Addr) (c : Claim) (ths : List Thr) : Bool :=
  decide (totalClaims s.params claims a (some c) + sumThr s.params ths ≤ balanceOf s a)

/-- `EscrowAccount.CheckStakeClaims`. -/
def claimsCovered (s : State) (claims : Map (Addr × Claim) (List Thr)) (a : Addr) : Bool :=
  decide (totalClaims s.params claims a none ≤ balanceOf s a)

/-- `StakeThresholdsForNode` (per-runtime constants not modelled): validator threshold, then for every
distinct runtime of the node the thresholds of its key-manager / compute / observer roles. -/
def nodeThr (n : Node) : List Thr :=
  (if 8 &&& n.roles != 0 then [Thr.nodeValidator] else []) ++
  (n.runtimes.eraseDups.flatMap fun _ =>
    (if 4 &&& n.roles != 0 then [Thr.nodeKeyManager] else []) ++
    (if 1 &&& n.roles != 0 then [Thr.nodeCompute] else []) ++
    (if 2 &&& n.roles != 0 then [Thr.nodeObserver] else []))

/-- `StakeThresholdsForRuntime`. -/
def rtThr (rt : Runtime) : List Thr :=
  match rt.kind with
  | .compute => [.rtCompute]
  | .keymanager => [.rtKeyManager]

/-- The state after a successful `registerEntity`. -/
def regEntityOk (s : State) (se : SignedEntity) : State :=
  { s with claims := s.claims.set (.ent se.id, .entity) [Thr.entity], entities := s.entities.set se.id se.nodes }

/-- `registerEntity`; `gen` = InitChain (no transaction, hence no transaction signer). -/
def regEntity (gen : Bool) (s : State) (txSigner : Key) (se : SignedEntity) : State × Res :=
  match verifyEntityArgs se with
  | some e => (s, e)
  | none =>
    if !gen ∧ se.signer ≠ txSigner then (s, .incorrectTxSigner) else
    if !canAddClaim s s.claims (.ent se.id) .entity [Thr.entity] then (s, .insufficientStake) else
    (regEntityOk s se, .ok)

/-- `deregisterEntity` (DeliverTx): the entity is the transaction signer. -/
def deregEntity (s : State) (txSigner : Key) : State × Res :=
  if hasEntityNodes s txSigner then (s, .entityHasNodes)
  else if hasEntityRuntimes s txSigner then (s, .entityHasRuntimes)
  else match s.entities.get txSigner with
    | none => (s, .noSuchEntity)
    | some _ =>
      let s1 := { s with entities := s.entities.del txSigner }
      -- RemoveStakeClaim on a missing claim panics (after the entity has been removed)
      if s.claims.has (.ent txSigner, .entity) then
        ({ s1 with claims := s1.claims.del (.ent txSigner, .entity) }, .ok)
      else (s1, .panicked)

/-! ### nodes (api.go:490-803, 1043-1102; transactions.go:188-500) -/

structure SignedNode where
  node : Node
  /-- public keys of the attached signatures -/
  signers : List Key
  /-- all attached signatures verify (`MultiSigned.Open`) -/
  sigValid : Bool
deriving DecidableEq, Repr, Inhabited

def roleCompute : Nat := 1
def roleObserver : Nat := 2
def roleKeyManager : Nat := 4
def roleValidator : Nat := 8
def roleStorageRPC : Nat := 32
/-- `node.RoleReserved` restricted to the low 32 bits: every bit except 0,1,2,3,5. -/
def roleValidMask : Nat := 47
/-- `RuntimesRequiredRoles` -/
def runtimesRequiredRoles : Nat := 39

def hasRoles (roles mask : Nat) : Bool := roles &&& mask != 0

def dedup : List Key → List Key
  | [] => []
  | k :: ks => if ks.contains k then dedup ks else k :: dedup ks

/-- Per-runtime checks of `VerifyRegisterNodeArgs` (api.go:597-649), versions not modelled
(every node runtime entry has version 0, so a repeated id is a duplicate version). -/
def verifyNodeRuntimes (s : State) (roles : Nat) : List RtId → List RtId → Option Res
  | _, [] => none
  | seen, r :: rs =>
    if seen.contains r then some (.invalidArgument "duplicate-runtime-version") else
    match s.runtimes.get r with
    | none => some .noSuchRuntime
    | some rt =>
      if rt.kind = .keymanager ∧ ¬ hasRoles roles roleKeyManager then some (.invalidArgument "runtime-role")
      else if rt.kind = .compute ∧ ¬ hasRoles roles (roleCompute ||| roleObserver) then some (.invalidArgument "runtime-role")
      else verifyNodeRuntimes s roles (r :: seen) rs

/-- The sub-key belongs to a *different* registered node (api.go:766-784). -/
def subKeyTaken (s : State) (id k : Key) : Bool :=
  match nodeBySubKey s k with
  | some m => decide (m.id ≠ id)
  | none => false

/-- `MultiSigned.IsOnlySignedBy`. -/
def isOnlySignedBy (signers expected : List Key) : Bool :=
  (dedup signers).length == expected.length && expected.all (fun k => signers.contains k)

/-- First failing check of a list of (failure condition, error) pairs in source order. -/
def firstErr : List (Bool × Res) → Option Res
  | [] => none
  | (c, e) :: rest => if c then some e else firstErr rest

/-- Checks of `VerifyRegisterNodeArgs` before the per-runtime loop (api.go:521-592). -/
def nodeChecksPre (s : State) (entNodes : List Key) (sn : SignedNode) : List (Bool × Res) :=
  let n := sn.node
  [ (!sn.sigValid, .invalidSignature),
    (decide (n.roles = 0 ∨ n.roles &&& roleValidMask ≠ n.roles), .invalidArgument "bare"),
    (!sn.signers.contains n.id, .invalidArgument "unsigned-id"),
    (!entNodes.contains n.id, .invalidArgument "not-in-entity"),
    (decide (s.params.maxNodeExpiration > 0 ∧ n.expiration > s.epoch + s.params.maxNodeExpiration),
      .invalidArgument "expiration"),
    (decide (n.runtimes = []) && hasRoles n.roles runtimesRequiredRoles, .invalidArgument "missing-runtimes") ]

/-- Checks of `VerifyRegisterNodeArgs` after the per-runtime loop (api.go:652-800). -/
def nodeChecksPost (s : State) (sn : SignedNode) : List (Bool × Res) :=
  let n := sn.node
  [ (!sn.signers.contains n.cons, .invalidArgument "unsigned-consensus"),
    (!sn.signers.contains n.vrf, .invalidArgument "unsigned-vrf"),
    (!sn.signers.contains n.tls, .invalidArgument "unsigned-tls"),
    (!sn.signers.contains n.p2p, .invalidArgument "unsigned-p2p"),
    (subKeyTaken s n.id n.cons || subKeyTaken s n.id n.p2p || subKeyTaken s n.id n.tls || subKeyTaken s n.id n.vrf,
      .invalidArgument "duplicate-subkey"),
    (hasDup (subKeys n), .invalidArgument "keys-not-unique"),
    (!isOnlySignedBy sn.signers [n.id, n.cons, n.vrf, n.tls, n.p2p], .invalidArgument "signatures") ]

/-- `VerifyRegisterNodeArgs` (not genesis, not sanity check), checks in source order.
`entNodes` is the node whitelist of the registered entity `n.entity`. -/
def verifyNodeArgs (s : State) (entNodes : List Key) (sn : SignedNode) : Option Res :=
  match firstErr (nodeChecksPre s entNodes sn) with
  | some e => some e
  | none =>
    match verifyNodeRuntimes s sn.node.roles [] sn.node.runtimes with
    | some e => some e
    | none => firstErr (nodeChecksPost s sn)

/-- `VerifyNodeUpdate` (runtime versions/capabilities not modelled: every current runtime must
still be listed).  The id, entity and consensus-key checks come *before* the early return for expired
nodes (api.go:1054-1080): they apply to active and expired nodes alike; only the runtime and role rules
are waived for an expired node. -/
def verifyNodeUpdate (s : State) (cur n : Node) : Option Res :=
  if cur.id ≠ n.id then some .nodeUpdateNotAllowed
  else if cur.entity ≠ n.entity then some .nodeUpdateNotAllowed
  else if cur.cons ≠ n.cons then some .nodeUpdateNotAllowed
  else if cur.expiration < s.epoch then none
  else if !cur.runtimes.all (fun r => n.runtimes.contains r) then some .nodeUpdateNotAllowed
  else if !hasRoles n.roles cur.roles then some .nodeUpdateNotAllowed
  else none

/-- `ResumeRuntime` for every runtime the node registers for, provided `ok rt` (the runtime's staking
account covers its claims, or the runtime is consensus-governed). -/
def resumeRuntimes (ok : Runtime → Bool) (rts : Map RtId Runtime) : List RtId → Map RtId Runtime
  | [] => rts
  | r :: rs =>
    match rts.get r with
    | some rt => resumeRuntimes ok (if rt.suspended ∧ ok rt then rts.set r { rt with suspended := false } else rts) rs
    | none => resumeRuntimes ok rts rs

/-- The stake condition for resuming `rt` (transactions.go:443-457), with the claims as held by the
stake accumulator cache (i.e. including the node claim just added). -/
def mayResume (s : State) (claims : Map (Addr × Claim) (List Thr)) (rt : Runtime) : Bool :=
  match rt.stakingAddr with
  | none => true
  | some a => claimsCovered s claims a

/-- The registration creates the node or revives an expired one (`isNewNode || isExpiredNode`). -/
def isFresh (s : State) (existing : Option Node) : Bool :=
  match existing with
  | none => true
  | some cur => decide (cur.expiration < s.epoch)

/-- Status of a new / revived node: `ExpirationProcessed` reset, other fields kept. -/
def freshStatus : Option Status → Status
  | some x => { x with expirationProcessed := false }
  | none => { expirationProcessed := false, freezeEndTime := 0 }

/-- Node status after a successful registration: reset when the node is new or was expired. -/
def regNodeStatus (s : State) (existing : Option Node) (n : Node) (st : Option Status) : Map Key Status :=
  if isFresh s existing then s.status.set n.id (freshStatus st) else s.status

/-- The state after a successful `registerNode`: `SetNode`, status, resumed runtimes, stake claim. -/
def regNodeOk (ord : Order) (s : State) (n : Node) : State :=
  let existing := s.nodes.get n.id
  let s1 := setNode ord s existing n
  let claims := s1.claims.set (.ent n.entity, .node n.id) (nodeThr n)
  { s1 with
    status := regNodeStatus s existing n (s.status.get n.id)
    runtimes := resumeRuntimes (mayResume s claims) s1.runtimes n.runtimes
    claims := claims }

/-- `VerifyNodeUpdate` when the node exists. -/
def verifyExisting (s : State) (n : Node) : Option Res :=
  match s.nodes.get n.id with
  | some cur => verifyNodeUpdate s cur n
  | none => none

/-- `registerNode`; `gen` = InitChain (no transaction signer, expired descriptors admitted). -/
def regNode (gen : Bool) (ord : Order) (s : State) (txSigner : Key) (sn : SignedNode) : State × Res :=
  match s.entities.get sn.node.entity with
  | none => (s, .noSuchEntity)
  | some entNodes =>
  match verifyNodeArgs s entNodes sn with
  | some e => (s, e)
  | none =>
  if !gen ∧ txSigner ≠ sn.node.id then (s, .incorrectTxSigner) else
  if !gen ∧ sn.node.expiration ≤ s.epoch then (s, .nodeExpired) else
  -- the stake claim is added (to the transaction overlay) before the update rules are checked
  if !canAddClaim s s.claims (.ent sn.node.entity) (.node sn.node.id) (nodeThr sn.node) then (s, .insufficientStake) else
  match verifyExisting s sn.node with
  | some e => (s, e)
  | none =>
  -- SetNode is written through the state wrapper of the *outer* context, so it persists when the
  -- status lookup of an existing node fails afterwards (the overlay with the claim is discarded).
  if (s.nodes.get sn.node.id).isSome ∧ (s.status.get sn.node.id).isNone then
    (setNode ord s (s.nodes.get sn.node.id) sn.node, .invalidArgument "bare")
  else (regNodeOk ord s sn.node, .ok)

/-! ### runtimes (transactions.go:577-852, authority-relevant part) -/

/-- `VerifyRuntimeUpdate` (kind and governance-model transition rules). -/
def verifyRuntimeUpdate (existing : Option Runtime) (rt : Runtime) : Option Res :=
  match existing with
  | some cur =>
    if cur.kind ≠ rt.kind then some .runtimeUpdateNotAllowed
    else if cur.gov ≠ rt.gov ∧ ¬ (cur.gov = .entity ∧ rt.gov = .runtime) then some .runtimeUpdateNotAllowed
    else none
  | none => none

/-- The descriptor whose governance decides who may sign: the existing one if there is one. -/
def runtimeToCheck (s : State) (rt : Runtime) : Runtime :=
  match s.runtimes.get rt.id with
  | some cur => cur
  | none => rt

def wrongCaller : Gov → Res
  | .entity => .incorrectTxSigner
  | .runtime => .forbidden
  | .consensus => .invalidArgument "gov"

/-- The state after a successful `registerRuntime`; `addr` is the staking address of the new
descriptor: claim added there and removed from the previous address if that differs, descriptor
stored (keeping the suspended flag), owner index moved if the entity changed. -/
def regRuntimeOk (s : State) (rt : Runtime) (addr : Addr) : State :=
  let existing := s.runtimes.get rt.id
  let suspended := match existing with | some cur => cur.suspended | none => false
  let claims := s.claims.set (addr, .runtime rt.id) (rtThr rt)
  let claims := match existing with
    | some cur => match cur.stakingAddr with
      | some oldAddr => if oldAddr ≠ addr then claims.del (oldAddr, .runtime rt.id) else claims
      | none => claims
    | none => claims
  let rtByEntity := match existing with
    | some cur => if cur.entity = rt.entity then s.rtByEntity
                  else (s.rtByEntity.del (cur.entity, rt.id)).set (rt.entity, rt.id) ()
    | none => s.rtByEntity.set (rt.entity, rt.id) ()
  { s with
     claims := claims
     runtimes := s.runtimes.set rt.id { rt with suspended := suspended }
     rtByEntity := rtByEntity }

/-- Consensus-governed runtime (genesis only): descriptor and owner index written, no stake claim. -/
def regRuntimeNoClaim (s : State) (rt : Runtime) : State :=
  let existing := s.runtimes.get rt.id
  let suspended := match existing with | some cur => cur.suspended | none => false
  let rtByEntity := match existing with
    | some cur => if cur.entity = rt.entity then s.rtByEntity
                  else (s.rtByEntity.del (cur.entity, rt.id)).set (rt.entity, rt.id) ()
    | none => s.rtByEntity.set (rt.entity, rt.id) ()
  { s with
     runtimes := s.runtimes.set rt.id { rt with suspended := suspended }
     rtByEntity := rtByEntity }

/-- The caller check of `registerRuntime` (transactions.go:667-706): the caller must be the staking
address of the descriptor that governs the runtime before the change. -/
def callerCheck (s : State) (caller : Addr) (rt : Runtime) : Option Res :=
  match (runtimeToCheck s rt).stakingAddr with
  | none => some .forbidden
  | some expected => if caller ≠ expected then some (wrongCaller (runtimeToCheck s rt).gov) else none

/-- `registerRuntime` with caller address `caller` (transaction signer's address, or the runtime's
own address for runtime messages); `gen` = InitChain (no caller check, consensus governance admitted).
Descriptor validity beyond governance is not modelled. -/
def regRuntime (gen : Bool) (s : State) (caller : Addr) (rt : Runtime) : State × Res :=
  -- VerifyRuntime: runtime governance needs a compute runtime
  if rt.gov = .runtime ∧ rt.kind ≠ .compute then (s, .invalidArgument "runtime-governance") else
  match verifyRuntimeUpdate (s.runtimes.get rt.id) rt with
  | some e => (s, e)
  | none =>
  match (if gen then none else callerCheck s caller rt) with
  | some e => (s, e)
  | none =>
  match rt.stakingAddr with
  | none => (regRuntimeNoClaim s rt, .ok)
  | some addr =>
    if !canAddClaim s s.claims addr (.runtime rt.id) (rtThr rt) then (s, .insufficientStake)
    else (regRuntimeOk s rt addr, .ok)

/-! ### node status: freezing and unfreezing (transactions.go:502-575) -/

/-- `unfreezeNode` (DeliverTx). -/
def unfreezeNode (s : State) (txSigner : Key) (id : Key) : State × Res :=
  match s.nodes.get id with
  | none => (s, .noSuchNode)
  | some n =>
    if txSigner ≠ n.entity then (s, .badEntityForNode) else
    match s.status.get id with
    | none => (s, .noSuchNode)
    | some st =>
      if st.freezeEndTime > s.epoch then (s, .nodeCannotBeUnfrozen)
      else ({ s with status := s.status.set id { st with freezeEndTime := 0 } }, .ok)

/-- Environment: a node is frozen until epoch `until_` (slashing writes the status record). -/
def freezeNode (s : State) (id : Key) (until_ : Nat) : State :=
  match s.status.get id with
  | none => s
  | some st => { s with status := s.status.set id { st with freezeEndTime := until_ } }

/-- Environment: the active escrow balance of an account changes (delegation, reclaim, slashing). -/
def setBalance (s : State) (a : Addr) (v : Nat) : State := { s with balances := s.balances.set a v }

/-! ### epoch transition (registry.go:173-273) -/

def maxU64 : Nat := 18446744073709551615

structure ExpAcc where
  s : State
  /-- claims as held by the stake accumulator cache (committed at the end) -/
  claims : Map (Addr × Claim) (List Thr)
  ok : Bool

/-- Set `ExpirationProcessed` on the node's status unless it is already set. -/
def markExpired (s : State) (id : Key) (st : Status) : State :=
  if st.expirationProcessed then s
  else { s with status := s.status.set id { st with expirationProcessed := true } }

/-- One iteration of the loop over `Nodes()` at the new epoch `e`; `n` is the descriptor as listed
at the start of the loop. -/
def expireOne (e : Nat) (a : ExpAcc) (n : Node) : ExpAcc :=
  if !a.ok then a else
  if ¬ n.expiration < e then a else
  match a.s.status.get n.id with
  | none => { a with ok := false }
  | some st =>
    if maxU64 - n.expiration < a.s.params.debondingInterval then { a with s := markExpired a.s n.id st } else
    if n.expiration + a.s.params.debondingInterval < e then
      if a.claims.has (.ent n.entity, .node n.id) then
        { a with s := removeNode (markExpired a.s n.id st) n, claims := a.claims.del (.ent n.entity, .node n.id) }
      else { a with s := removeNode (markExpired a.s n.id st) n, ok := false }
    else { a with s := markExpired a.s n.id st }

def insertSorted (n : Node) : List Node → List Node
  | [] => [n]
  | m :: ms => if n.id ≤ m.id then n :: m :: ms else m :: insertSorted n ms

/-- `Nodes()`: all node records sorted by id. -/
def nodeList (s : State) : List Node := (s.nodes.map (·.2)).foldr insertSorted []

/-- `BeginBlock` with an epoch change to `e`. -/
def epochTransition (s : State) (e : Nat) : State × Res :=
  let s0 := { s with epoch := e }
  let a := (nodeList s0).foldl (expireOne e) { s := s0, claims := s0.claims, ok := true }
  if a.ok then ({ a.s with claims := a.claims }, .ok) else (a.s, .fatal)

/-! ### operations and histories -/

inductive Op
  | regEntity (txSigner : Key) (se : SignedEntity)
  | deregEntity (txSigner : Key)
  | regNode (txSigner : Key) (sn : SignedNode)
  | regRuntime (caller : Addr) (rt : Runtime)
  | unfreeze (txSigner : Key) (id : Key)
  | epoch (e : Nat)
  /-- environment: slashing freezes a node -/
  | freeze (id : Key) (until_ : Nat)
  /-- environment: an escrow balance changes -/
  | setBalance (a : Addr) (v : Nat)
deriving Repr, Inhabited

def step (ord : Order) (s : State) : Op → State × Res
  | .regEntity t se => regEntity false s t se
  | .deregEntity t => deregEntity s t
  | .regNode t sn => regNode false ord s t sn
  | .regRuntime c rt => regRuntime false s c rt
  | .unfreeze t id => unfreezeNode s t id
  | .epoch e => epochTransition s e
  | .freeze id u => (freezeNode s id u, .ok)
  | .setBalance a v => (setBalance s a v, .ok)

def run (ord : Order) (s : State) (ops : List Op) : State := ops.foldl (fun s op => (step ord s op).1) s

/-! ### InitChain (apps/registry/genesis.go) -/

structure Genesis where
  entities : List SignedEntity
  runtimes : List Runtime
  suspendedRuntimes : List Runtime
  nodes : List SignedNode
  statuses : List (Key × Status)
deriving Repr, Inhabited

/-- Run the steps in order, stop at the first error. -/
def runUntilErr : List (State → State × Res) → State → State × Res
  | [], s => (s, .ok)
  | f :: fs, s =>
    match f s with
    | (s', .ok) => runUntilErr fs s'
    | (s', e) => (s', e)

/-- `SuspendRuntime`. -/
def suspendRuntime (s : State) (r : RtId) : State × Res :=
  match s.runtimes.get r with
  | some rt => if rt.suspended then (s, .noSuchRuntime)
               else ({ s with runtimes := s.runtimes.set r { rt with suspended := true } }, .ok)
  | none => (s, .noSuchRuntime)

/-- `Application.InitChain`: entities, key-manager runtimes, compute runtimes, suspended runtimes,
nodes, node statuses — each through the same handlers as transactions, in genesis mode. -/
def initChain (ord : Order) (s : State) (g : Genesis) : State × Res :=
  runUntilErr
    (g.entities.map (fun se s => regEntity true s 0 se) ++
     (g.runtimes.filter (·.kind = .keymanager)).map (fun rt s => regRuntime true s (.ent 0) rt) ++
     (g.runtimes.filter (·.kind = .compute)).map (fun rt s => regRuntime true s (.ent 0) rt) ++
     g.suspendedRuntimes.flatMap (fun rt => [fun s => regRuntime true s (.ent 0) rt, fun s => suspendRuntime s rt.id]) ++
     g.nodes.map (fun sn s => regNode true ord s 0 sn) ++
     g.statuses.map (fun p s => ({ s with status := s.status.set p.1 p.2 }, Res.ok)))
    s

/-! ### executable invariant -/

/-- Every key-map entry points to a registered node that currently has that key. -/
def keyMapSoundB (s : State) : Bool :=
  s.keyMap.keys.all fun k =>
    match s.keyMap.get k with
    | none => true
    | some id => match s.nodes.get id with
      | none => false
      | some n => (subKeys n).contains k

/-- Every registered node is found under each of its current keys. -/
def keyMapCompleteB (s : State) : Bool :=
  s.nodes.keys.all fun id =>
    match s.nodes.get id with
    | none => true
    | some n => (subKeys n).all fun k => s.keyMap.get k == some id

def consAddrSoundB (s : State) : Bool :=
  s.consAddr.keys.all fun k =>
    match s.consAddr.get k with
    | none => true
    | some id => match s.nodes.get id with
      | none => false
      | some n => n.cons == k

def consAddrCompleteB (s : State) : Bool :=
  s.nodes.keys.all fun id =>
    match s.nodes.get id with
    | none => true
    | some n => s.consAddr.get n.cons == some id

/-- nodes-by-entity mirrors the node records (both directions). -/
def byEntityB (s : State) : Bool :=
  (s.byEntity.keys.all fun p =>
    match s.nodes.get p.2 with
    | none => false
    | some n => n.entity == p.1) &&
  (s.nodes.keys.all fun id =>
    match s.nodes.get id with
    | none => true
    | some n => s.byEntity.has (n.entity, id))

/-- runtime-by-entity mirrors the runtime records (both directions). -/
def rtByEntityB (s : State) : Bool :=
  (s.rtByEntity.keys.all fun p =>
    match s.runtimes.get p.2 with
    | none => false
    | some rt => rt.entity == p.1) &&
  (s.runtimes.keys.all fun r =>
    match s.runtimes.get r with
    | none => true
    | some rt => s.rtByEntity.has (rt.entity, r))

/-- A stored record is stored under its own id; a node's four sub-keys are pairwise different.
(The node id itself may coincide with one of the sub-keys: `IsOnlySignedBy` accepts such a
descriptor when it carries one additional signature by any key, see `Props/C17.lean`.) -/
def recordsB (s : State) : Bool :=
  (s.nodes.keys.all fun id =>
    match s.nodes.get id with
    | none => true
    | some n => n.id == id && !hasDup (subKeys n)) &&
  (s.runtimes.keys.all fun r =>
    match s.runtimes.get r with
    | none => true
    | some rt => rt.id == r)

/-- The claim `(a, c)` with thresholds `ths` is implied by the currently registered entities, nodes
and runtimes (account, claim name *and* threshold list). -/
def impliedB (s : State) (a : Addr) (c : Claim) (ths : List Thr) : Bool :=
  match c with
  | .entity => match a with
    | .ent e => s.entities.has e && ths == [Thr.entity]
    | .rt _ => false
  | .node id => match s.nodes.get id with
    | some n => decide (a = .ent n.entity) && ths == nodeThr n
    | none => false
  | .runtime r => match s.runtimes.get r with
    | some rt => decide (rt.stakingAddr = some a) && ths == rtThr rt
    | none => false

/-- Recorded claims (with their thresholds) are exactly the implied ones. -/
def claimsB (s : State) : Bool :=
  (s.claims.keys.all fun p =>
    match s.claims.get p with
    | some ths => impliedB s p.1 p.2 ths
    | none => true) &&
  (s.entities.keys.all fun e => s.claims.get (.ent e, .entity) == some [Thr.entity]) &&
  (s.nodes.keys.all fun id =>
    match s.nodes.get id with
    | none => true
    | some n => s.claims.get (.ent n.entity, .node id) == some (nodeThr n)) &&
  (s.runtimes.keys.all fun r =>
    match s.runtimes.get r with
    | none => true
    | some rt => match rt.stakingAddr with
      | some a => s.claims.get (a, .runtime r) == some (rtThr rt)
      | none => true)

/-- Every registered node has a status record.  (The converse is not required: genesis may carry
status records of nodes that are not registered.) -/
def statusB (s : State) : Bool := s.nodes.keys.all fun id => s.status.has id

/-- The index part of the invariant (what `F2` breaks). -/
def indexInvB (s : State) : Bool :=
  keyMapSoundB s && keyMapCompleteB s && consAddrSoundB s && consAddrCompleteB s &&
  byEntityB s && rtByEntityB s && recordsB s

/-- The full executable invariant of C17. -/
def invB (s : State) : Bool := indexInvB s && claimsB s && statusB s

/-- First failing clause, for diagnostics. -/
def invFailure (s : State) : Option String :=
  if !keyMapCompleteB s then some "keymap-missing-current-key"
  else if !keyMapSoundB s then some "keymap-stale-entry"
  else if !consAddrCompleteB s then some "consaddr-missing"
  else if !consAddrSoundB s then some "consaddr-stale-entry"
  else if !byEntityB s then some "nodes-by-entity-mismatch"
  else if !rtByEntityB s then some "runtime-by-entity-mismatch"
  else if !recordsB s then some "record-malformed"
  else if !claimsB s then some "claims-mismatch"
  else if !statusB s then some "status-mismatch"
  else none

/-- No public key is used by two different registered nodes as a sub-key (derived clause). -/
def subKeysUniqueB (s : State) : Bool :=
  s.nodes.all fun p => s.nodes.all fun q =>
    p.1 == q.1 || (subKeys p.2).all fun k => !(subKeys q.2).contains k

/-- All five public keys of a node: identity, consensus, P2P, TLS, VRF. -/
def allKeys (n : Node) : List Key := n.id :: subKeys n

/-- The uniqueness clause of the property text, identity keys included: the key sets
{id, consensus, P2P, TLS, VRF} of two different registered nodes are disjoint. -/
def allKeysUniqueB (s : State) : Bool :=
  s.nodes.keys.all fun i => s.nodes.keys.all fun j =>
    i == j ||
    match s.nodes.get i, s.nodes.get j with
    | some n, some m => (allKeys n).all fun k => !(allKeys m).contains k
    | _, _ => true

/-- The invariant with the uniqueness clause at the strength of the property text.  This is the
predicate the harness evaluates on the real state.  The Go code maintains `invB` for every history
(`Props/C17.lean: inv_reachable`) but **not** the additional clause: identity keys are not in the key
map, so descriptor verification cannot see that a sub-key is another node's identity key or vice versa
(`key_uniqueness_incl_identity_fails`, known finding `key-shared-node-id-as-subkey`). -/
def invStrongB (s : State) : Bool := invB s && allKeysUniqueB s

/-- First failing clause of `invStrongB`. -/
def invStrongFailure (s : State) : Option String :=
  match invFailure s with
  | some f => some f
  | none => if allKeysUniqueB s then none else some "key-shared-node-id-as-subkey"

end OasisModel.Registry
