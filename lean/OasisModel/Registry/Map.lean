/-
Association-list maps used by the registry model (core Lean only).

`Map α β` is a list of pairs; only `get`, `set`, `del` and `keys` are used by the model and the
proofs reason exclusively through the three lookup lemmas at the end of this file, so a map
behaves like the partial function `get m`.
-/
namespace OasisModel.Registry

abbrev Map (α β : Type) := List (α × β)

namespace Map
variable {α β : Type} [DecidableEq α]

def get : Map α β → α → Option β
  | [], _ => none
  | (a, b) :: m, k => if a = k then some b else get m k

def del (m : Map α β) (k : α) : Map α β := m.filter (fun p => decide (p.1 ≠ k))

def set (m : Map α β) (k : α) (v : β) : Map α β := (k, v) :: del m k

def keys (m : Map α β) : List α := m.map (·.1)

def has (m : Map α β) (k : α) : Bool := (get m k).isSome

@[simp] theorem get_nil (k : α) : get ([] : Map α β) k = none := rfl

theorem get_del (m : Map α β) (k k' : α) :
    get (del m k) k' = if k = k' then none else get m k' := by
  induction m with
  | nil => simp [del, get]
  | cons p m ih =>
    obtain ⟨a, b⟩ := p
    unfold del at ih ⊢
    by_cases hak : a = k
    · subst hak
      simp only [List.filter, ne_eq, not_true_eq_false, decide_false]
      rw [ih]
      by_cases h : a = k'
      · simp [h]
      · simp [get, h]
    · simp only [List.filter, ne_eq, hak, not_false_eq_true, decide_true, get]
      rw [ih]
      by_cases h : a = k'
      · subst h
        have : ¬ k = a := fun e => hak e.symm
        simp [this]
      · simp [h]

theorem get_set (m : Map α β) (k k' : α) (v : β) :
    get (set m k v) k' = if k = k' then some v else get m k' := by
  unfold set
  simp only [get]
  by_cases h : k = k'
  · simp [h]
  · simp [h, get_del]

theorem mem_keys_of_get {m : Map α β} {k : α} {v : β} (h : get m k = some v) : k ∈ keys m := by
  induction m with
  | nil => simp [get] at h
  | cons p m ih =>
    obtain ⟨a, b⟩ := p
    by_cases hak : a = k
    · simp [keys, hak]
    · simp only [get, hak, if_false] at h
      have := ih h
      simp only [keys, List.map_cons, List.mem_cons] at this ⊢
      exact Or.inr this

theorem get_isSome_of_mem_keys {m : Map α β} {k : α} (h : k ∈ keys m) : (get m k).isSome = true := by
  induction m with
  | nil => simp [keys] at h
  | cons p m ih =>
    obtain ⟨a, b⟩ := p
    by_cases hak : a = k
    · simp [get, hak]
    · simp only [keys, List.map_cons, List.mem_cons] at h
      rcases h with h | h
      · exact absurd h.symm hak
      · simp only [get, hak, if_false]
        exact ih h

theorem mem_keys_iff {m : Map α β} {k : α} : k ∈ keys m ↔ (get m k).isSome = true :=
  ⟨get_isSome_of_mem_keys, fun h => by
    cases hg : get m k with
    | none => simp [hg] at h
    | some v => exact mem_keys_of_get hg⟩

end Map
end OasisModel.Registry
