import OasisModel.Scheduler.Elect
/-
C14 — executable specification `ValidElection inputs outputs`.

It is a *declarative* predicate over what an election produced (it does not call the election
functions `electValidators`/`electMembers`/`diffValidators` of the model): eligibility is recomputed
from the registry and staking inputs, limits are counted, the stake order is compared pairwise, and
the validator updates are applied to the previous set.  The theorems of `OasisProofs.Props.C14` prove
that the model's outputs satisfy it for all inputs; the electdrv harness evaluates it on the outputs
of the real Go code (spec-on-implementation).
-/
namespace OasisModel.Scheduler

structure Inputs where
  p : Params
  st : Staking
  epoch : Nat
  /-- all registered nodes with their status (registry order) -/
  all : List Node
  runtimes : List Runtime

/-! ### validators -/

/-- The node backing a validator entry: registered under that consensus key, id and entity, not frozen,
not expired, has the validator role, and the entity's escrow covers all its claims. -/
def backsValidator (i : Inputs) (k : Nat) (v : Validator) (n : Node) : Bool :=
  n.id == v.id && n.consensus == k && n.entity == v.entity &&
  schedulable i.epoch n && n.hasRoles roleValidator && stakeOk i.p i.st n.entity

def validatorEntryOk (i : Inputs) (kv : Nat × Validator) : Bool :=
  i.all.any (backsValidator i kv.1 kv.2) && powerOf i.p i.st kv.2.entity == some kv.2.power

def countValEnt (e : Nat) (vals : VMap) : Nat := vals.countP (fun kv => kv.2.entity == e)

/-- The validator-count bound. `strict = true` (the specification): the configured `MaxValidators`.
`strict = false`: what the election function itself guarantees for *every* parameter value,
`max MaxValidators 1` — with `MaxValidators ≤ 0` one validator is still elected because the `>=` test
comes after the insertion (scheduler.go:614).  Non-positive limits are unreachable: genesis
(`InitChain`) and `ConsensusParameterChanges.SanityCheck` reject them (`changeAccepted` below). -/
def maxValidatorsBound (p : Params) (strict : Bool) : Int :=
  if strict then p.maxValidators else max p.maxValidators 1

def validatorLimitsOk (p : Params) (strict : Bool) (vals : VMap) : Bool :=
  decide ((vals.length : Int) ≤ maxValidatorsBound p strict) &&
  vals.all (fun kv => decide ((countValEnt kv.2.entity vals : Int) ≤ p.maxPerEntity)) &&
  decide (1 ≤ vals.length) && decide (p.minValidators ≤ (vals.length : Int))

def keysDistinct (vals : VMap) : Bool :=
  vals.all (fun kv => vals.countP (fun kv' => kv'.1 == kv.1) == 1)

def electedEntity (vals : VMap) (e : Nat) : Bool := vals.any (fun kv => kv.2.entity == e)

/-- Does the validator shuffle drop nodes without a VRF proof (shuffle.go:40-85)? -/
def vrfValidatorShuffle (i : Inputs) : Bool :=
  i.p.useVRF &&
  decide (i.p.minValidators ≤
    (((i.all.filter (schedulable i.epoch)).filter (validatorOk i.p i.st)).countP (·.hasPi) : Int))

/-- A node whose entity competes for a validator slot. -/
def competes (i : Inputs) (n : Node) : Bool :=
  schedulable i.epoch n && validatorOk i.p i.st n && (!vrfValidatorShuffle i || n.hasPi)

/-- No competing entity that stayed unelected has strictly more escrow than an elected one. -/
def stakeOrderOk (i : Inputs) (vals : VMap) : Bool :=
  i.p.bypassStake ||
  i.all.all (fun u => !competes i u || electedEntity vals u.entity ||
    vals.all (fun kv => decide (escrowOf i.st u.entity ≤ escrowOf i.st kv.2.entity)))

def validatorsOk (i : Inputs) (strict : Bool) (vals : VMap) : Bool :=
  keysDistinct vals && vals.all (validatorEntryOk i) && validatorLimitsOk i.p strict vals &&
  stakeOrderOk i vals

/-! ### committees -/

def committeeCandidate (i : Inputs) (n : Node) : Bool :=
  schedulable i.epoch n && (!(i.p.useVRF && !i.p.weakAlpha) || n.eligibleForElection i.epoch)

/-- The registered node behind a committee member passed every filter for that role. -/
def memberOk (i : Inputs) (ve : List Nat) (rt : Runtime) (role : Role) (id : Nat) : Bool :=
  i.all.any (fun n => n.id == id && committeeCandidate i n &&
    baseEligible i.p i.st i.epoch rt n && roleEligible rt ve role n)

def membersOf (role : Role) (ms : List (Role × Node)) : List Node :=
  (ms.filter (fun m => m.1 == role)).map (·.2)

def idsDistinct (l : List Node) : Bool := l.all (fun n => l.countP (fun n' => n'.id == n.id) == 1)

def roleLimitsOk (rt : Runtime) (role : Role) (l : List Node) : Bool :=
  l.length == rt.size role && idsDistinct l &&
  match (rt.cs role).maxNodes with
  | none => true
  | some lim => l.all (fun n => decide (countEnt n.entity l ≤ lim))

/-- Size of the candidate pool after per-entity de-duplication; it does not depend on any order:
every entity contributes `min limit (number of its eligible nodes)`. -/
def poolSize (i : Inputs) (ve : List Nat) (rt : Runtime) (role : Role) : Nat :=
  let pool := (i.all.filter (committeeCandidate i)).filter
    (fun n => baseEligible i.p i.st i.epoch rt n && roleEligible rt ve role n)
  match (rt.cs role).maxNodes with
  | some lim => if lim > 0 then
      ((entitiesOf pool).map (fun e => min lim (countEnt e pool))).sum
    else pool.length
  | none => pool.length

def roleOk (i : Inputs) (ve : List Nat) (rt : Runtime) (role : Role) (ms : List (Role × Node)) : Bool :=
  let l := membersOf role ms
  roleLimitsOk rt role l && l.all (fun n => memberOk i ve rt role n.id) &&
  (rt.size role == 0 || decide ((rt.cs role).minPoolSize.getD 0 ≤ poolSize i ve rt role))

/-- An elected committee: exact sizes, workers first, every member eligible, per-entity limits, pool sizes. -/
def committeeOk (i : Inputs) (ve : List Nat) (rt : Runtime) (ms : List (Role × Node)) : Bool :=
  decide (0 < rt.groupSize) && !(i.p.fv261 && !rt.isCompute) &&
  !(i.p.useVRF && !i.p.canElect && !i.p.weakAlpha) &&
  ms == (membersOf .worker ms).map (fun n => (Role.worker, n)) ++ (membersOf .backup ms).map (fun n => (Role.backup, n)) &&
  roleOk i ve rt .worker ms && roleOk i ve rt .backup ms

def committeeResultOk (i : Inputs) (ve : List Nat) (rt : Runtime) : CResult → Bool
  | .unchanged => i.p.fv261 && !rt.isCompute
  | .dropped => true
  | .elected ms => committeeOk i ve rt ms

/-! ### validator updates -/

def updateKeysDistinct (us : List Update) : Bool :=
  us.all (fun u => us.countP (fun u' => u'.1 == u.1) == 1)

/-- Equal as maps key ↦ power (keys outside both lists are absent from both). -/
def sameMap (a b : PMap) : Bool :=
  (a.map (·.1) ++ b.map (·.1)).all (fun k => a.lookup k == b.lookup k)

/-- Every update changes something: a removal names a current validator, an upsert a new key or a new power. -/
def updateNeeded (cur : PMap) (u : Update) : Bool :=
  if u.2 = 0 then (cur.lookup u.1).isSome else cur.lookup u.1 != some u.2

/-- The updates turn the previous set into exactly the pending one, without spurious entries. -/
def diffOk (cur pending : VMap) (us : List Update) : Bool :=
  updateKeysDistinct us && us.all (updateNeeded (toPMap cur)) &&
  sameMap (applyUpdates (toPMap cur) us) (toPMap pending)

/-! ### parameter changes (the governance path that can alter the limits) -/

/-- `scheduler.ConsensusParameterChanges`: absent fields stay as they are. -/
structure ParamChange where
  minValidators : Option Int := none
  maxValidators : Option Int := none
  dist : Option Nat := none
deriving Repr, DecidableEq, Inhabited

/-- `ConsensusParameterChanges.SanityCheck`: not empty, limits that are present are positive. -/
def changeAccepted (c : ParamChange) : Bool :=
  !(c.minValidators.isNone && c.maxValidators.isNone && c.dist.isNone) &&
  (match c.minValidators with | some v => decide (0 < v) | none => true) &&
  (match c.maxValidators with | some v => decide (0 < v) | none => true)

/-- `changeParameters`: the change must be sane and the resulting parameters must pass
`ConsensusParameters.SanityCheck` (no unsafe debug flag; `DebugDontBlameOasis` is assumed off). -/
def changeAcceptedFor (p : Params) (c : ParamChange) : Bool :=
  changeAccepted c && !(p.bypassStake || p.weakAlpha)

/-- `changeParameters` with `apply = true`: a rejected proposal changes nothing. -/
def applyChange (p : Params) (c : ParamChange) : Params :=
  if changeAcceptedFor p c then
    { p with minValidators := c.minValidators.getD p.minValidators
             maxValidators := c.maxValidators.getD p.maxValidators
             dist := c.dist.getD p.dist }
  else p

/-- What `InitChain` demands of the genesis parameters. -/
def genesisValid (p : Params) : Bool :=
  decide (0 < p.minValidators) && decide (0 < p.maxValidators) && decide (0 < p.maxPerEntity)

/-! ### the whole epoch -/

structure Outputs where
  /-- pending validator set written by the election -/
  validators : VMap
  /-- per runtime id: what happened to its executor committee -/
  committees : List (Nat × CResult)
  /-- validator set before the election and the updates returned by EndBlock -/
  previous : VMap
  updates : List Update

def validatorEntitiesOf (vals : VMap) : List Nat := vals.map (·.2.entity)

def ValidElection (i : Inputs) (strict : Bool) (o : Outputs) : Bool :=
  validatorsOk i strict o.validators &&
  (i.runtimes.all fun rt =>
    match o.committees.lookup rt.id with
    | none => false
    | some r => committeeResultOk i (validatorEntitiesOf o.validators) rt r) &&
  diffOk o.previous o.validators o.updates

end OasisModel.Scheduler
