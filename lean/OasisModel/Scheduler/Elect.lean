/-
C14 — reference model of the oasis-core election code (core Lean only).

Modelled Go code (model the code that exists, line references to /repo/go):
  consensus/cometbft/apps/scheduler/scheduler.go   elect (159-298: node filter), electValidators (513-635),
      stakingAddressMapToSliceByStake (637-666), diffValidators (369-397), isSuitableExecutorWorker (399-460)
  consensus/cometbft/apps/scheduler/shuffle.go     electCommittee/electCommitteeMembers (116-524),
      dedupEntityNodesTrivial (688-704), shuffleValidators (30-102), sortNodesByHashedBeta (550-586)
  scheduler/api/api.go                             VotingPowerFromStake (300-333)
  staking/api/api.go                               StakeThreshold.Value, TotalClaims, CheckStakeClaims (872-1091)
  registry/api/status.go, registry/api/runtime.go  IsFrozen, IsSuspended, IsEligibleForElection, ActiveDeployment

What is a parameter instead of code: the DRBG / VRF shuffles.  Every shuffle is an *arbitrary function*
`List α → List α` (`Shuffles`); the theorems quantify over all of them and state which clause needs the
shuffle to return a sub-multiset / a permutation of its argument.  Two concrete instances are used by the
driver: `permShuffle` (rand.Perm / rand.Shuffle of the DRBG, given as the index list the real DRBG
produced) and `betaShuffle` (sort by hashed VRF beta, given as the real hashed betas).

Entities are identified by their staking address (a natural number, the 21 address bytes big-endian);
node, consensus and runtime identifiers are naturals (32 bytes big-endian).  Not modelled: the
`DebugForceElect` test option (assumed nil), TEE attestation verification (an input bit `teeOk` per node
runtime; it is C18's subject).
-/
namespace OasisModel.Scheduler

/-! ## Staking view: escrow balance and stake claims -/

inductive Threshold where
  | global (kind : Nat)
  | const (q : Nat)
  | malformed
deriving Repr, DecidableEq, Inhabited

structure Account where
  escrow : Nat := 0
  /-- one list of thresholds per claim (claim names do not matter for the sum) -/
  claims : List (List Threshold) := []
deriving Repr, Inhabited

structure Staking where
  /-- global threshold map (`tm[kind]`, zero when absent) -/
  thresholds : Nat → Nat
  /-- staking account of an entity address (the empty account when absent) -/
  account : Nat → Account

/-- `StakeThreshold.Value`: `none` is the "invalid claim threshold" error. -/
def thresholdValue (tm : Nat → Nat) : Threshold → Option Nat
  | .global k => some (tm k)
  | .const q => some q
  | .malformed => none

/-- Sum of a list of optional values; `none` as soon as one is `none`. -/
def sumOpt : List (Option Nat) → Option Nat
  | [] => some 0
  | none :: _ => none
  | some a :: rest => match sumOpt rest with
    | none => none
    | some s => some (a + s)

/-- `StakeAccumulator.TotalClaims(tm, nil)`. -/
def totalClaims (tm : Nat → Nat) (claims : List (List Threshold)) : Option Nat :=
  sumOpt (claims.flatten.map (thresholdValue tm))

/-- `EscrowAccount.CheckStakeClaims`: `true` iff no error is returned. -/
def checkStakeClaims (st : Staking) (e : Nat) : Bool :=
  match totalClaims st.thresholds (st.account e).claims with
  | none => false
  | some t => decide (t ≤ (st.account e).escrow)

def escrowOf (st : Staking) (e : Nat) : Nat := (st.account e).escrow

/-! ## Registry view: nodes and runtimes -/

structure NodeRt where
  rt : Nat
  version : Nat
  /-- `Capabilities.TEE != nil` -/
  hasTee : Bool := false
  teeHw : Nat := 0
  /-- outcome of `Capabilities.TEE.Verify` (input; attestation checking is C18) -/
  teeOk : Bool := false
deriving Repr, DecidableEq, Inhabited

structure Node where
  id : Nat
  entity : Nat
  consensus : Nat
  roles : Nat
  expiration : Nat
  /-- `NodeStatus.FreezeEndTime` -/
  freezeEnd : Nat := 0
  /-- `NodeStatus.ElectionEligibleAfter` -/
  eligibleAfter : Nat := 0
  /-- `NodeStatus.Faults`: runtime ↦ `SuspendedUntil` -/
  faults : List (Nat × Nat) := []
  runtimes : List NodeRt := []
  /-- `vrf.Pi[node.ID] != nil` (only read by VRF shuffles and the VRF eligibility filter) -/
  hasPi : Bool := true
deriving Repr, DecidableEq, Inhabited

def roleCompute : Nat := 1
def roleValidator : Nat := 8

def Node.hasRoles (n : Node) (mask : Nat) : Bool := (n.roles &&& mask) != 0
def Node.isExpired (n : Node) (epoch : Nat) : Bool := decide (n.expiration < epoch)
def Node.isFrozen (n : Node) : Bool := decide (n.freezeEnd > 0)
def Node.eligibleForElection (n : Node) (epoch : Nat) : Bool := decide (epoch > n.eligibleAfter)

def Node.isSuspended (n : Node) (rt epoch : Nat) : Bool :=
  n.isFrozen ||
  match n.faults.lookup rt with
  | none => false
  | some untl => decide (untl > 0) && decide (epoch < untl)

inductive Role where
  | worker
  | backup
deriving Repr, DecidableEq, Inhabited

structure Constraints where
  validatorSet : Bool := false
  /-- `MaxNodes.Limit` when the constraint is present -/
  maxNodes : Option Nat := none
  /-- `MinPoolSize.Limit` when the constraint is present -/
  minPoolSize : Option Nat := none
deriving Repr, DecidableEq, Inhabited

structure Runtime where
  id : Nat
  /-- `Kind == KindCompute` -/
  isCompute : Bool := true
  groupSize : Nat
  backupSize : Nat
  /-- `TEEHardware` (0 = `TEEHardwareInvalid`) -/
  teeHw : Nat := 0
  /-- `(ValidFrom, Version.ToU64())` per deployment -/
  deployments : List (Nat × Nat) := []
  csWorker : Constraints := {}
  csBackup : Constraints := {}
deriving Repr, Inhabited

def Runtime.size (rt : Runtime) : Role → Nat
  | .worker => rt.groupSize
  | .backup => rt.backupSize

def Runtime.cs (rt : Runtime) : Role → Constraints
  | .worker => rt.csWorker
  | .backup => rt.csBackup

/-- `Runtime.ActiveDeployment`: latest `ValidFrom ≤ now`, the first one on ties. -/
def activeDeployment (deps : List (Nat × Nat)) (now : Nat) : Option (Nat × Nat) :=
  deps.foldl (fun acc d =>
    if d.1 > now then acc else
    match acc with
    | none => some d
    | some a => if a.1 < d.1 then some d else some a) none

def teeCheck (rt : Runtime) (nrt : NodeRt) : Bool :=
  if rt.teeHw = 0 then !nrt.hasTee
  else nrt.hasTee && nrt.teeHw == rt.teeHw && nrt.teeOk

/-- `isSuitableExecutorWorker`. -/
def isSuitable (epoch : Nat) (rt : Runtime) (n : Node) : Bool :=
  n.hasRoles roleCompute &&
  match activeDeployment rt.deployments epoch with
  | none => false
  | some ad =>
    match n.runtimes.find? (fun r => r.rt == rt.id && r.version == ad.2) with
    | none => false
    | some nrt => !n.isSuspended rt.id epoch && teeCheck rt nrt

/-! ## Parameters and shuffles -/

structure Params where
  minValidators : Int
  maxValidators : Int
  maxPerEntity : Int
  bypassStake : Bool := false
  /-- `VotingPowerDistribution` (0 linear, 1 sqrt; any other value: neither scaling nor root) -/
  dist : Nat := 0
  /-- beacon backend is VRF -/
  useVRF : Bool := false
  /-- `vrf.CanElectCommittees` -/
  canElect : Bool := true
  /-- `DebugAllowWeakAlpha` -/
  weakAlpha : Bool := false
  /-- consensus feature version ≥ 26.1 -/
  fv261 : Bool := true
deriving Repr, Inhabited, DecidableEq

/-- The randomness of an election: every place where the Go code consults the DRBG or the VRF betas. -/
structure Shuffles where
  /-- `shuffleAddresses` (tie-break order of entities) -/
  entities : List Nat → List Nat
  /-- `shuffleValidators` -/
  validators : List Node → List Node
  /-- order used by per-entity de-duplication (`dedupEntityNodesByHashedBeta`; identity without VRF) -/
  dedup : Nat → Role → List Node → List Node
  /-- committee election order (`rng.Perm` / `committeeVRFBetaIndexes`) -/
  committee : Nat → Role → List Node → List Node

/-- Stable insertion sort (structural recursion, so that concrete elections evaluate in the kernel):
`a` goes before the first `b` with `le a b`; elements equal under `le` keep their order, as
`sort.SliceStable` does. -/
def insertBy {α : Type} (le : α → α → Bool) (a : α) : List α → List α
  | [] => [a]
  | b :: l => if le a b then a :: b :: l else b :: insertBy le a l

def sortBy {α : Type} (le : α → α → Bool) : List α → List α
  | [] => []
  | a :: l => insertBy le a (sortBy le l)

/-- `result[i] = input[idx[i]]` (what `rng.Perm` followed by indexing does); indices out of range are dropped. -/
def applyPerm {α : Type} (idx : List Nat) (l : List α) : List α :=
  idx.filterMap (fun i => l[i]?)

/-- Shuffle given by the index lists the DRBG produced, one per input length. -/
def permShuffle {α : Type} (perms : Nat → List Nat) (l : List α) : List α :=
  applyPerm (perms l.length) l

/-- `sortNodesByHashedBeta`: nodes without a proof are dropped, on equal hashed betas the first wins,
then a stable sort by hashed beta. `key n = none` stands for `vrf.Pi[n.ID] == nil`. -/
def betaDedupKeys (key : Node → Option Nat) : List Node → List Nat → List (Nat × Node)
  | [], _ => []
  | n :: rest, seen =>
    match key n with
    | none => betaDedupKeys key rest seen
    | some k => if seen.contains k then betaDedupKeys key rest seen
                else (k, n) :: betaDedupKeys key rest (k :: seen)

def betaShuffle (key : Node → Option Nat) (l : List Node) : List Node :=
  (sortBy (fun a b => decide (a.1 ≤ b.1)) (betaDedupKeys key l [])).map (·.2)

/-! ## Voting power -/

def baseUnitsPerVotingPower : Nat := 16

/-- `VotingPowerFromStake`; `none` is the "too many base units" error. -/
def votingPower (stake : Nat) (dist : Nat) : Option Int :=
  let q := if dist = 0 then stake / baseUnitsPerVotingPower else stake
  if q = 0 then some 1 else
  let b := if dist = 1 then Nat.sqrt q else q
  if b < 2 ^ 63 then some (b : Int) else none

/-! ## Validator election -/

structure Validator where
  id : Nat
  entity : Nat
  power : Int
deriving Repr, DecidableEq, Inhabited

/-- `map[signature.PublicKey]*scheduler.Validator`, keyed by consensus key. -/
abbrev VMap := List (Nat × Validator)

def upsert (m : VMap) (k : Nat) (v : Validator) : VMap :=
  match m with
  | [] => [(k, v)]
  | (k', v') :: rest => if k' = k then (k, v) :: rest else (k', v') :: upsert rest k v

/-- Top-level filter of `elect`: frozen and expired nodes cannot be scheduled. -/
def schedulable (epoch : Nat) (n : Node) : Bool := !n.isFrozen && !n.isExpired epoch

def stakeOk (p : Params) (st : Staking) (e : Nat) : Bool := p.bypassStake || checkStakeClaims st e

/-- Filter at the head of `electValidators`. -/
def validatorOk (p : Params) (st : Staking) (n : Node) : Bool :=
  n.hasRoles roleValidator && stakeOk p st n.entity

def validatorCandidates (p : Params) (st : Staking) (nodes : List Node) : List Node :=
  nodes.filter (validatorOk p st)

/-- Set of a list of naturals (keeps the last occurrence of each; the order is irrelevant, it is sorted next). -/
def dedupNat : List Nat → List Nat
  | [] => []
  | a :: l => if l.contains a then dedupNat l else a :: dedupNat l

def entitiesOf (l : List Node) : List Nat := dedupNat (l.map (·.entity))

/-- `sortAddresses`. -/
def sortAddrs (l : List Nat) : List Nat := sortBy (fun a b => decide (a ≤ b)) l

/-- `sortAddressesByBalance`: stable, descending escrow balance. -/
def sortByBalance (st : Staking) (l : List Nat) : List Nat :=
  sortBy (fun a b => decide (escrowOf st b ≤ escrowOf st a)) l

/-- `stakingAddressMapToSliceByStake`. -/
def sortedEntities (p : Params) (st : Staking) (sh : List Nat → List Nat) (ents : List Nat) : List Nat :=
  let a := sh (sortAddrs ents)
  if p.bypassStake then a else sortByBalance st a

def nodesOfEntity (l : List Node) (e : Nat) : List Node := l.filter (fun n => n.entity == e)

/-- The sequence in which the elect loop visits nodes: entities in order, of each the first
`MaxValidatorsPerEntity` nodes of the shuffled node list. -/
def electSeq (k : Int) (ents : List Nat) (shuffled : List Node) : List Node :=
  ents.flatMap (fun e => (nodesOfEntity shuffled e).take k.toNat)

def powerOf (p : Params) (st : Staking) (e : Nat) : Option Int :=
  if p.bypassStake then some 1 else votingPower (escrowOf st e) p.dist

/-- The elect loop: insert, then test `len(newValidators) >= MaxValidators` (scheduler.go:614).
Returns the map and the visited nodes; `none` is the voting-power error. -/
def electLoop (p : Params) (st : Staking) : List Node → VMap → Option (VMap × List Node)
  | [], m => some (m, [])
  | n :: rest, m =>
    match powerOf p st n.entity with
    | none => none
    | some pw =>
      let m' := upsert m n.consensus ⟨n.id, n.entity, pw⟩
      if (m'.length : Int) ≥ p.maxValidators then some (m', [n])
      else match electLoop p st rest m' with
        | none => none
        | some (r, vis) => some (r, n :: vis)

inductive VResult where
  /-- "computing voting power ... too many base units" -/
  | powerErr
  /-- "failed to elect any validators" -/
  | noValidators
  /-- "insufficient validators" -/
  | insufficient
  /-- pending validator set and the `validatorEntities` set (entities of visited nodes) -/
  | ok (vals : VMap) (visited : List Node)
deriving Repr, Inhabited, DecidableEq

/-- `electValidators` on the nodes that passed the top-level filter. -/
def electValidators (p : Params) (st : Staking) (sh : Shuffles) (nodes : List Node) : VResult :=
  let cands := validatorCandidates p st nodes
  let ents := sortedEntities p st sh.entities (entitiesOf cands)
  let shuffled := sh.validators cands
  match electLoop p st (electSeq p.maxPerEntity ents shuffled) [] with
  | none => .powerErr
  | some (m, vis) =>
    if m.length = 0 then .noValidators
    else if (m.length : Int) < p.minValidators then .insufficient
    else .ok m vis

/-! ## Validator-set diff -/

/-- An update handed to the consensus engine: consensus key and power (0 = removal). -/
abbrev Update := Nat × Int

def powerIn (m : VMap) (k : Nat) : Option Int := (m.lookup k).map (·.power)

/-- `diffValidators`: removals of keys absent from `pending`, then upserts of new/changed keys. -/
def diffValidators (current pending : VMap) : List Update :=
  ((current.filter (fun kv => (pending.lookup kv.1).isNone)).map (fun kv => (kv.1, (0 : Int)))) ++
  ((pending.filter (fun kv => powerIn current kv.1 != some kv.2.power)).map (fun kv => (kv.1, kv.2.power)))

/-- The consensus engine's view: key ↦ power. -/
abbrev PMap := List (Nat × Int)

def PMap.apply1 (m : PMap) (u : Update) : PMap :=
  if u.2 = 0 then m.filter (fun kv => kv.1 != u.1)
  else if (m.lookup u.1).isSome then m.map (fun kv => if kv.1 == u.1 then (kv.1, u.2) else kv)
  else m ++ [u]

def applyUpdates (m : PMap) (us : List Update) : PMap := us.foldl PMap.apply1 m

def toPMap (m : VMap) : PMap := m.map (fun kv => (kv.1, kv.2.power))

/-! ## Committee election -/

def countEnt (e : Nat) (l : List Node) : Nat := l.countP (fun n => n.entity == e)

/-- `dedupEntityNodesTrivial`: keep the first `limit` nodes of every entity. `kept` are the nodes kept so far. -/
def dedupAux (limit : Nat) : List Node → List Node → List Node
  | [], _ => []
  | n :: rest, kept =>
    if countEnt n.entity kept ≥ limit then dedupAux limit rest kept
    else n :: dedupAux limit rest (n :: kept)

def dedupTrivial (limit : Nat) (l : List Node) : List Node := dedupAux limit l []

/-- Pre-election filter of `electCommitteeMembers` that does not depend on the role. -/
def baseEligible (p : Params) (st : Staking) (epoch : Nat) (rt : Runtime) (n : Node) : Bool :=
  stakeOk p st n.entity && isSuitable epoch rt n && (!p.useVRF || n.hasPi)

/-- Per-role part: the role is wanted and the validator-set constraint holds. -/
def roleEligible (rt : Runtime) (validatorEntities : List Nat) (role : Role) (n : Node) : Bool :=
  rt.size role != 0 && (!(rt.cs role).validatorSet || validatorEntities.contains n.entity)

def rolePool (p : Params) (st : Staking) (epoch : Nat) (rt : Runtime) (validatorEntities : List Nat)
    (role : Role) (nodes : List Node) : List Node :=
  nodes.filter (fun n => baseEligible p st epoch rt n && roleEligible rt validatorEntities role n)

/-- The election loop over the shuffled pool (shuffle.go:465-497); `none` is the
"max nodes per committee exceeded" abort. `el` are the nodes elected so far, most recent first. -/
def pickLoop (limit : Option Nat) (wanted : Nat) : List Node → List Node → Option (List Node)
  | [], el => some el.reverse
  | n :: rest, el =>
    if el.length ≥ wanted then some el.reverse
    else match limit with
      | some lim => if countEnt n.entity el ≥ lim then none else pickLoop limit wanted rest (n :: el)
      | none => pickLoop limit wanted rest (n :: el)

/-- The candidate pool of a role after the per-entity de-duplication (shuffle.go:343-374): only when a
`MaxNodes` constraint with a positive limit is present. -/
def dedupPool (sh : Shuffles) (rt : Runtime) (role : Role) (pool : List Node) : List Node :=
  match (rt.cs role).maxNodes with
  | some lim => if lim > 0 then dedupTrivial lim (sh.dedup rt.id role pool) else pool
  | none => pool

/-- One role of one committee; `none` means "no committee". -/
def electRole (sh : Shuffles) (rt : Runtime) (role : Role) (pool : List Node) : Option (List Node) :=
  let cs := rt.cs role
  let pool' := dedupPool sh rt role pool
  if pool'.length < cs.minPoolSize.getD 0 then none
  else if rt.size role > pool'.length then none
  else match pickLoop cs.maxNodes (rt.size role) (sh.committee rt.id role pool') [] with
    | none => none
    | some el => if el.length != rt.size role then none else some el

/-- `electCommitteeMembers`; `none` is the empty member list. -/
def electMembers (p : Params) (st : Staking) (sh : Shuffles) (epoch : Nat) (validatorEntities : List Nat)
    (rt : Runtime) (nodes : List Node) : Option (List (Role × Node)) :=
  if p.useVRF && !p.canElect && !p.weakAlpha then none
  else if rt.groupSize = 0 then none
  else
    match electRole sh rt .worker (rolePool p st epoch rt validatorEntities .worker nodes) with
    | none => none
    | some w =>
      if rt.backupSize = 0 then some (w.map (fun n => (Role.worker, n)))
      else match electRole sh rt .backup (rolePool p st epoch rt validatorEntities .backup nodes) with
        | none => none
        | some b => some (w.map (fun n => (Role.worker, n)) ++ b.map (fun n => (Role.backup, n)))

inductive CResult where
  /-- the runtime is skipped, the stored committee is left alone -/
  | unchanged
  /-- `DropCommittee` -/
  | dropped
  /-- `PutCommittee` with these members (workers first) -/
  | elected (members : List (Role × Node))
deriving Repr, Inhabited, DecidableEq

/-- `electCommittee` for `KindComputeExecutor`. -/
def electCommittee (p : Params) (st : Staking) (sh : Shuffles) (epoch : Nat) (validatorEntities : List Nat)
    (rt : Runtime) (nodes : List Node) : CResult :=
  if p.fv261 && !rt.isCompute then .unchanged
  else match electMembers p st sh epoch validatorEntities rt nodes with
    | none => .dropped
    | some ms => .elected ms

/-! ## The whole election of one epoch (`Application.elect`) -/

/-- Nodes offered to committee elections (scheduler.go:219-238). -/
def committeeNodes (p : Params) (epoch : Nat) (all : List Node) : List Node :=
  (all.filter (schedulable epoch)).filter
    (fun n => !(p.useVRF && !p.weakAlpha) || n.eligibleForElection epoch)

structure Outcome where
  validators : VResult
  committees : List (Nat × CResult)
deriving Repr, Inhabited

/-- Committees are only elected when the validator election succeeded (otherwise `elect` returns the
error and the block is rejected). -/
def electCommittees (p : Params) (st : Staking) (sh : Shuffles) (epoch : Nat) (all : List Node)
    (runtimes : List Runtime) : VResult → List (Nat × CResult)
  | .ok _ vis =>
    runtimes.map (fun rt =>
      (rt.id, electCommittee p st sh epoch (vis.map (·.entity)) rt (committeeNodes p epoch all)))
  | _ => []

def electAll (p : Params) (st : Staking) (sh : Shuffles) (epoch : Nat) (all : List Node)
    (runtimes : List Runtime) : Outcome :=
  { validators := electValidators p st sh (all.filter (schedulable epoch))
    committees := electCommittees p st sh epoch all runtimes
      (electValidators p st sh (all.filter (schedulable epoch))) }

end OasisModel.Scheduler
