import OasisModel.Proto
/- C14 elections: driver stub (not built yet). -/
namespace OasisModel.Scheduler.Driver
def main : IO Unit := IO.eprintln "mode not implemented"
end OasisModel.Scheduler.Driver
