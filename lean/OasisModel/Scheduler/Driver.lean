import OasisModel.Proto
import OasisModel.Scheduler.Elect
import OasisModel.Scheduler.Spec
/-
Driver for the election model (mode `elect`, executable `om_elect`), property C14.

State-building lines (answer `ok`):
  reset                                   forget everything
  begin                                   forget registry/staking/shuffle inputs, keep the current validator set
  strict <0|1>                            spec uses the configured MaxValidators itself (1, default) or max(MaxValidators,1) (0)
  reach <0|1>                             0: the parameters were injected into state and are not reachable through genesis +
                                          changeParameters (a model-correspondence case): the limits clause of the spec is not judged
  change <min|n> <max|n> <dist|n> <accepted>   a governance parameter change went through the real changeParameters;
                                          accepting a non-positive limit is a SPECFAIL
  params <minV> <maxV> <maxPerEntity> <bypassStake> <dist> <useVRF> <canElect> <weakAlpha> <fv261>
  epoch <e>
  thr <kind> <value>                      global stake threshold
  acct <addr> <escrow> <claims>           claims: `-` | claim;claim;…   claim: `e` | t,t,…   t: g<kind> | c<value> | m
  node <id> <entity> <consensus> <roles> <expiration> <freezeEnd> <eligibleAfter> <hasPi> <faults> <runtimes>
                                          faults: `-` | rt:until,…    runtimes: `-` | rt:version:hasTee:teeHw:teeOk,…
  rt <id> <isCompute> <groupSize> <backupSize> <teeHw> <deployments> <csWorker> <csBackup>
                                          deployments: `-` | validFrom:version,…   cs: <validatorSet>:<maxNodes|n>:<minPool|n>
  perm <which> <n> <indices>              what the real DRBG returned for an input of length n
                                          which: E (entities) | V (validators) | C<rt>w | C<rt>b (committee roles)
  beta <which> <node> <key>               real hashed VRF beta of a node; which: V | D<rt>w | D<rt>b | C<rt>w | C<rt>b
Checking lines (the implementation's answer is the witness; answer `ok`, `DIVERGE …` or `SPECFAIL …`):
  validators <res>      whole-epoch validator election (top-level node filter included)
  hvalidators <res>     `electValidators` on the node list as given
                        res: err:power | err:none | err:insufficient | k:id:entity:power,… (sorted by k) [| visited entities]
  committee <rt> <hadBefore> <res>  after `validators`; res: none | kept | w:<id>,…,b:<id>,…  (the stored committee)
  hcommittee <rt> <validatorEntities> <res>   `electCommittee` on the node list as given
  endblock <updates>    updates: `-` | k:power,… (sorted by k); pending becomes current
  hdiff <cur> <pending> <updates>
  hdedup <limit> <result ids>             dedupEntityNodesTrivial on the node list
  hsort <result addrs>                    stakingAddressMapToSliceByStake on all `acct` addresses that have a node
  hpower <stake> <dist> <power|err>
-/
namespace OasisModel.Scheduler.Driver
open OasisModel.Proto OasisModel.Scheduler

structure St where
  p : Params := { minValidators := 1, maxValidators := 100, maxPerEntity := 1 }
  epoch : Nat := 1
  strict : Bool := true
  /-- the parameters are reachable (genesis-valid, changed only through changeParameters) -/
  reach : Bool := true
  thr : List (Nat × Nat) := []
  accts : List (Nat × Account) := []
  nodes : List Node := []
  rts : List Runtime := []
  perms : List (String × Nat × List Nat) := []
  betas : List (String × Nat × Nat) := []
  current : VMap := []
  pending : Option VMap := none
  /-- the implementation's pending validators of this epoch (for the committee spec) -/
  implVals : VMap := []
  modelVE : List Nat := []

def St.staking (s : St) : Staking :=
  { thresholds := fun k => (s.thr.lookup k).getD 0
    account := fun a => (s.accts.lookup a).getD {} }

def St.permFor (s : St) (which : String) (n : Nat) : List Nat :=
  match s.perms.find? (fun e => e.1 == which && e.2.1 == n) with
  | some e => e.2.2
  | none => List.range n

def St.betaKey (s : St) (which : String) (n : Node) : Option Nat :=
  if !n.hasPi then none else
  match s.betas.find? (fun e => e.1 == which && e.2.1 == n.id) with
  | some e => some e.2.2
  | none => none

def roleTag : Role → String
  | .worker => "w"
  | .backup => "b"

def St.shuffles (s : St) : Shuffles :=
  { entities := permShuffle (s.permFor "E")
    validators := fun l =>
      -- shuffleValidators: VRF betas unless too few proofs (then the entropy fallback)
      if s.p.useVRF && decide (s.p.minValidators ≤ ((l.countP (·.hasPi) : Nat) : Int)) then betaShuffle (s.betaKey "V") l
      else permShuffle (s.permFor "V") l
    dedup := fun rt role l =>
      if s.p.useVRF then betaShuffle (s.betaKey s!"D{rt}{roleTag role}") l else l
    committee := fun rt role l =>
      if s.p.useVRF then betaShuffle (s.betaKey s!"C{rt}{roleTag role}") l
      else permShuffle (s.permFor s!"C{rt}{roleTag role}") l }

def St.inputs (s : St) : Inputs :=
  { p := s.p, st := s.staking, epoch := s.epoch, all := s.nodes, runtimes := s.rts }

/-! ### parsing -/

def parseInt (s : String) : Option Int :=
  if s.startsWith "-" then (s.drop 1).toNat?.map (fun n => -(n : Int)) else s.toNat?.map (fun n => (n : Int))

def parseBool (s : String) : Option Bool :=
  if s == "1" then some true else if s == "0" then some false else none

def splitList (s : String) (sep : String) : List String :=
  if s == "-" then [] else s.splitOn sep

def parseThreshold (s : String) : Option Threshold :=
  if s == "m" then some .malformed
  else if s.startsWith "g" then (s.drop 1).toNat?.map .global
  else if s.startsWith "c" then (s.drop 1).toNat?.map .const
  else none

def parseClaims (s : String) : Option (List (List Threshold)) :=
  (splitList s ";").mapM (fun c => if c == "e" then some [] else (c.splitOn ",").mapM parseThreshold)

def parsePairs (s : String) : Option (List (Nat × Nat)) :=
  (splitList s ",").mapM (fun e => match e.splitOn ":" with
    | [a, b] => do pure ((← a.toNat?), (← b.toNat?))
    | _ => none)

def parseNodeRts (s : String) : Option (List NodeRt) :=
  (splitList s ",").mapM (fun e => match e.splitOn ":" with
    | [a, b, c, d, f] => do
      pure { rt := (← a.toNat?), version := (← b.toNat?), hasTee := (← parseBool c), teeHw := (← d.toNat?), teeOk := (← parseBool f) }
    | _ => none)

def parseOptNat (s : String) : Option (Option Nat) :=
  if s == "n" then some none else s.toNat?.map some

def parseCs (s : String) : Option Constraints :=
  match s.splitOn ":" with
  | [a, b, c] => do pure { validatorSet := (← parseBool a), maxNodes := (← parseOptNat b), minPoolSize := (← parseOptNat c) }
  | _ => none

def parseVals (s : String) : Option VMap :=
  (splitList s ",").mapM (fun e => match e.splitOn ":" with
    | [k, i, en, pw] => do pure ((← k.toNat?), { id := (← i.toNat?), entity := (← en.toNat?), power := (← parseInt pw) })
    | _ => none)

def parseUpdates (s : String) : Option (List Update) :=
  (splitList s ",").mapM (fun e => match e.splitOn ":" with
    | [k, pw] => do pure ((← k.toNat?), (← parseInt pw))
    | _ => none)

def parseMembers (s : String) : Option (List (Role × Nat)) :=
  (splitList s ",").mapM (fun e => match e.splitOn ":" with
    | ["w", i] => i.toNat?.map (fun i => (Role.worker, i))
    | ["b", i] => i.toNat?.map (fun i => (Role.backup, i))
    | _ => none)

/-! ### canonical output -/

def sortVals (m : VMap) : VMap := m.mergeSort (fun a b => decide (a.1 ≤ b.1))
def sortUpdates (m : List Update) : List Update := m.mergeSort (fun a b => decide (a.1 ≤ b.1))

def showVals (m : VMap) : String :=
  if m.isEmpty then "-" else
  ",".intercalate ((sortVals m).map fun kv => s!"{kv.1}:{kv.2.id}:{kv.2.entity}:{kv.2.power}")

def showUpdates (m : List Update) : String :=
  if m.isEmpty then "-" else ",".intercalate ((sortUpdates m).map fun u => s!"{u.1}:{u.2}")

def showMembers (ms : List (Role × Nat)) : String :=
  if ms.isEmpty then "-" else ",".intercalate (ms.map fun m => s!"{roleTag m.1}:{m.2}")

def showVResult : VResult → String
  | .powerErr => "err:power"
  | .noValidators => "err:none"
  | .insufficient => "err:insufficient"
  | .ok m _ => showVals m

def showCResult : CResult → String
  | .unchanged => "unchanged"
  | .dropped => "dropped"
  | .elected ms => showMembers (ms.map fun m => (m.1, m.2.id))

/-! ### spec evaluation on the implementation's answers, with a reason -/

def whyValidators (i : Inputs) (strict : Bool) (judgeLimits : Bool) (vals : VMap) : String :=
  if !keysDistinct vals then "validators: duplicate consensus key"
  else if !vals.all (validatorEntryOk i) then
    match vals.find? (fun kv => !validatorEntryOk i kv) with
    | some kv => if i.all.any (backsValidator i kv.1 kv.2) then s!"validator {kv.1}: wrong voting power {kv.2.power}"
                 else s!"validator {kv.1}: not backed by an eligible registered node"
    | none => "validators: entry"
  else if judgeLimits && !validatorLimitsOk i.p strict vals then
    if !decide ((vals.length : Int) ≤ maxValidatorsBound i.p strict) then s!"validators: {vals.length} elected, MaxValidators={i.p.maxValidators}"
    else if !(decide (1 ≤ vals.length) && decide (i.p.minValidators ≤ (vals.length : Int))) then s!"validators: {vals.length} elected, MinValidators={i.p.minValidators}"
    else "validators: per-entity limit exceeded"
  else if !stakeOrderOk i vals then "validators: an unelected competing entity has more escrow than an elected one"
  else ""

def resolveMembers (all : List Node) (ms : List (Role × Nat)) : Option (List (Role × Node)) :=
  ms.mapM (fun m => (all.find? (fun n => n.id == m.2)).map (fun n => (m.1, n)))

def whyCommittee (i : Inputs) (ve : List Nat) (rt : Runtime) (ms : List (Role × Node)) : String :=
  if committeeOk i ve rt ms then "" else
  if !decide (0 < rt.groupSize) then "committee elected with GroupSize 0"
  else if (i.p.fv261 && !rt.isCompute) then "committee elected for a non-compute runtime"
  else if (i.p.useVRF && !i.p.canElect && !i.p.weakAlpha) then "committee elected on weak VRF alpha"
  else
    let bad (role : Role) : String :=
      let l := membersOf role ms
      if l.length != rt.size role then s!"{roleTag role}: {l.length} members, group size {rt.size role}"
      else if !idsDistinct l then s!"{roleTag role}: node elected twice"
      else if !roleLimitsOk rt role l then s!"{roleTag role}: per-entity MaxNodes exceeded"
      else if !l.all (fun n => memberOk i ve rt role n.id) then
        match l.find? (fun n => !memberOk i ve rt role n.id) with
        | some n => s!"{roleTag role}: member {n.id} is not eligible"
        | none => ""
      else if !roleOk i ve rt role ms then s!"{roleTag role}: candidate pool {poolSize i ve rt role} below MinPoolSize"
      else ""
    let w := bad .worker
    if w != "" then w else
    let b := bad .backup
    if b != "" then b else "members not listed workers-first"

def whyDiff (cur pending : VMap) (us : List Update) : String :=
  if diffOk cur pending us then "" else
  if !updateKeysDistinct us then "updates: a key occurs twice"
  else if !us.all (updateNeeded (toPMap cur)) then
    match us.find? (fun u => !updateNeeded (toPMap cur) u) with
    | some u => s!"updates: spurious update {u.1}:{u.2}"
    | none => ""
  else s!"updates do not turn the previous set into the pending one: got {showUpdates (applyUpdates (toPMap cur) us)} want {showUpdates (toPMap pending)}"

/-! ### steps -/

def verdict (spec diverge : String) : String :=
  if spec != "" && diverge != "" then s!"SPECFAIL {spec} ;; DIVERGE {diverge}"
  else if spec != "" then s!"SPECFAIL {spec}"
  else if diverge != "" then s!"DIVERGE {diverge}"
  else "ok"

def parseVRes (s : String) : Option (Option VMap × String) :=
  if s.startsWith "err:" then some (none, s) else (parseVals s).map (fun m => (some m, showVals m))

def doValidators (s : St) (top : Bool) (res : String) : St × String :=
  match parseVRes res with
  | none => (s, "DIVERGE bad-op")
  | some (implVals, implShown) =>
    let nodes := if top then s.nodes.filter (schedulable s.epoch) else s.nodes
    let r := electValidators s.p s.staking s.shuffles nodes
    let dv := if showVResult r == implShown then "" else s!"validators model={showVResult r} impl={implShown}"
    let sp := match implVals with
      | none => ""
      | some m =>
        -- the helper form is handed nodes that skipped the top-level filter: the spec applies to the whole-epoch form
        if top then whyValidators s.inputs s.strict s.reach m else ""
    let (mvals, mve) := match r with
      | .ok m vis => (some m, vis.map (·.entity))
      | _ => (none, [])
    ({ s with pending := if top then mvals else s.pending, implVals := implVals.getD [], modelVE := mve }, verdict sp dv)

def doCommittee (s : St) (rtId : Nat) (ve : Option (List Nat)) (had : Bool) (res : String) : St × String :=
  match s.rts.find? (fun r => r.id == rtId) with
  | none => (s, "DIVERGE bad-op unknown runtime")
  | some rt =>
    let top := ve.isNone
    let nodes := if top then committeeNodes s.p s.epoch s.nodes else s.nodes
    let mve := ve.getD s.modelVE
    let r := electCommittee s.p s.staking s.shuffles s.epoch mve rt nodes
    -- whole-epoch form: the harness sees the stored committee (`none`, `kept` = an older one, or this epoch's members)
    let shown := if !top then showCResult r else match r with
      | .unchanged => if had then "kept" else "none"
      | .dropped => "none"
      | .elected _ => showCResult r
    let dv := if shown == res then "" else s!"committee {rtId} model={shown} impl={res}"
    let sp :=
      if !top then "" else
      let ive := validatorEntitiesOf s.implVals
      if res == "kept" then (if committeeResultOk s.inputs ive rt .unchanged then "" else "stale committee kept although the runtime is a compute runtime")
      else if res == "none" then ""
      else match parseMembers res with
        | none => "unparsable members"
        | some ms => match resolveMembers s.nodes ms with
          | none => "committee member is not a registered node"
          | some ms => whyCommittee s.inputs ive rt ms
    (s, verdict sp dv)

def step (s : St) (line : String) : St × String :=
  match words line with
  | [] => (s, "ok")
  | ["reset"] => ({}, "ok")
  | ["begin"] => ({ s with thr := [], accts := [], nodes := [], rts := [], perms := [], betas := [], pending := none, implVals := [], modelVE := [] }, "ok")
  | ["strict", b] => match parseBool b with
    | some b => ({ s with strict := b }, "ok")
    | none => (s, "DIVERGE bad-op")
  | ["reach", b] => match parseBool b with
    | some b => ({ s with reach := b }, "ok")
    | none => (s, "DIVERGE bad-op")
  | ["change", a, b, c, acc] =>
    let po (x : String) : Option (Option Int) := if x == "n" then some none else (parseInt x).map some
    match po a, po b, parseOptNat c, parseBool acc with
    | some mn, some mx, some d, some acc =>
      let ch : ParamChange := { minValidators := mn, maxValidators := mx, dist := d }
      let want := changeAcceptedFor s.p ch
      if acc == want then (s, "ok")
      else if acc then
        -- a non-positive limit got through the parameter-change validation
        let what := match mx with
          | some v => if v ≤ 0 then s!"MaxValidators={v}" else s!"MinValidators={mn.getD 0}"
          | none => if mn.isSome then s!"MinValidators={mn.getD 0}" else "an empty change"
        (s, s!"SPECFAIL changeParameters accepted {what}")
      else (s, "DIVERGE changeParameters rejected a valid change")
    | _, _, _, _ => (s, "DIVERGE bad-op")
  | ["params", a, b, c, d, e, f, g, h, i] =>
    match parseInt a, parseInt b, parseInt c, parseBool d, e.toNat?, parseBool f, parseBool g, parseBool h, parseBool i with
    | some a, some b, some c, some d, some e, some f, some g, some h, some i =>
      ({ s with p := { minValidators := a, maxValidators := b, maxPerEntity := c, bypassStake := d, dist := e,
                       useVRF := f, canElect := g, weakAlpha := h, fv261 := i } }, "ok")
    | _, _, _, _, _, _, _, _, _ => (s, "DIVERGE bad-op")
  | ["epoch", e] => match e.toNat? with
    | some e => ({ s with epoch := e }, "ok")
    | none => (s, "DIVERGE bad-op")
  | ["thr", k, v] => match k.toNat?, v.toNat? with
    | some k, some v => ({ s with thr := (k, v) :: s.thr }, "ok")
    | _, _ => (s, "DIVERGE bad-op")
  | ["acct", a, e, c] => match a.toNat?, e.toNat?, parseClaims c with
    | some a, some e, some c => ({ s with accts := s.accts ++ [(a, { escrow := e, claims := c })] }, "ok")
    | _, _, _ => (s, "DIVERGE bad-op")
  | ["node", i, en, co, ro, ex, fr, el, pi, fa, rs] =>
    match i.toNat?, en.toNat?, co.toNat?, ro.toNat?, ex.toNat?, fr.toNat?, el.toNat?, parseBool pi, parsePairs fa, parseNodeRts rs with
    | some i, some en, some co, some ro, some ex, some fr, some el, some pi, some fa, some rs =>
      ({ s with nodes := s.nodes ++ [{ id := i, entity := en, consensus := co, roles := ro, expiration := ex, freezeEnd := fr,
                                       eligibleAfter := el, hasPi := pi, faults := fa, runtimes := rs }] }, "ok")
    | _, _, _, _, _, _, _, _, _, _ => (s, "DIVERGE bad-op")
  | ["rt", i, ic, gs, bs, th, deps, cw, cb] =>
    match i.toNat?, parseBool ic, gs.toNat?, bs.toNat?, th.toNat?, parsePairs deps, parseCs cw, parseCs cb with
    | some i, some ic, some gs, some bs, some th, some deps, some cw, some cb =>
      ({ s with rts := s.rts ++ [{ id := i, isCompute := ic, groupSize := gs, backupSize := bs, teeHw := th,
                                   deployments := deps, csWorker := cw, csBackup := cb }] }, "ok")
    | _, _, _, _, _, _, _, _ => (s, "DIVERGE bad-op")
  | ["perm", w, n, idx] => match n.toNat?, parseNats idx with
    | some n, some idx => ({ s with perms := (w, n, idx) :: s.perms }, "ok")
    | _, _ => (s, "DIVERGE bad-op")
  | ["beta", w, n, k] => match n.toNat?, k.toNat? with
    | some n, some k => ({ s with betas := (w, n, k) :: s.betas }, "ok")
    | _, _ => (s, "DIVERGE bad-op")
  | ["validators", res] => doValidators s true res
  | ["hvalidators", res] => doValidators s false res
  | ["committee", rt, had, res] => match rt.toNat?, parseBool had with
    | some rt, some had => doCommittee s rt none had res
    | _, _ => (s, "DIVERGE bad-op")
  | ["hcommittee", rt, ve, res] => match rt.toNat?, parseNats ve with
    | some rt, some ve => doCommittee s rt (some ve) false res
    | _, _ => (s, "DIVERGE bad-op")
  | ["endblock", us] => match parseUpdates us with
    | none => (s, "DIVERGE bad-op")
    | some us =>
      match s.pending with
      | none => (s, if us.isEmpty then "ok" else s!"DIVERGE endblock without pending validators returned {showUpdates us}")
      | some pend =>
        let d := diffValidators s.current pend
        let dv := if showUpdates d == showUpdates us then "" else s!"updates model={showUpdates d} impl={showUpdates us}"
        -- spec on the implementation: its updates applied to the tracked set give its own pending set
        let sp := whyDiff s.current s.implVals us
        ({ s with current := pend, pending := none }, verdict sp dv)
  | ["hdiff", c, pnd, us] => match parseVals c, parseVals pnd, parseUpdates us with
    | some c, some pnd, some us =>
      let d := diffValidators c pnd
      let dv := if showUpdates d == showUpdates us then "" else s!"updates model={showUpdates d} impl={showUpdates us}"
      (s, verdict (whyDiff c pnd us) dv)
    | _, _, _ => (s, "DIVERGE bad-op")
  | ["hdedup", lim, ids] => match lim.toNat?, parseNats ids with
    | some lim, some ids =>
      let r := (dedupTrivial lim s.nodes).map (·.id)
      (s, if r == ids then "ok" else s!"DIVERGE dedup model={showNats r} impl={showNats ids}")
    | _, _ => (s, "DIVERGE bad-op")
  | ["hsort", addrs] => match parseNats addrs with
    | some addrs =>
      let r := sortedEntities s.p s.staking (permShuffle (s.permFor "E")) (entitiesOf s.nodes)
      (s, if r == addrs then "ok" else s!"DIVERGE sortByStake model={showNats r} impl={showNats addrs}")
    | none => (s, "DIVERGE bad-op")
  | ["hpower", stake, dist, res] => match stake.toNat?, dist.toNat? with
    | some stake, some dist =>
      let r := match votingPower stake dist with
        | none => "err"
        | some pw => toString pw
      (s, if r == res then "ok" else s!"DIVERGE votingPower model={r} impl={res}")
    | _, _ => (s, "DIVERGE bad-op")
  | _ => (s, "DIVERGE bad-op")

def main : IO Unit := loop step {}

end OasisModel.Scheduler.Driver
