/-
Key manager application, secrets extension: the epoch-transition hook.

Go source modelled (all paths under /repo/go):
* `consensus/cometbft/apps/keymanager/secrets/status.go:26-222`  `generateStatus`
* `consensus/cometbft/apps/keymanager/secrets/status.go:226-256` `VerifyExtraInfo`
* `consensus/cometbft/apps/keymanager/common/registry.go:68-82`  `RuntimeAttestationKey`
* `consensus/cometbft/apps/keymanager/secrets/epoch.go:19-106`   `onEpochChange`
* `keymanager/secrets/api.go:124-162` `Status`, `NextGeneration`; `api.go:243-250` `InitResponse`;
  `keymanager/secrets/secret.go:25-72,109-115` the master-secret proposal.

`generateStatus` is called from `onEpochChange` (epoch.go:74) at EVERY epoch transition from the
secrets extension's `BeginBlock` (ext.go:63-70, keymanager.go:84-88) and from the `UpdatePolicy`
transaction (txs.go:107, legacy path). It has NO error result (`*secrets.Status`): the only way it can fail
is a Go runtime panic — a nil-pointer dereference, a division by zero, or the explicit
`panic("the key manager must be initialized")` of status.go:191 — and a panic in `BeginBlock` halts
every validator. Its inputs are attacker-influenced: the registered node descriptors (their per-runtime
`ExtraInfo` is a CBOR blob chosen by the node operator, signed by the enclave's RAK), the stored old
status and the pending master-secret proposal (a transaction body).

Modelling conventions.
* Every pointer-typed FIELD is an `Option`; a Go dereference `p.f` / `*p` of such a pointer is written
  `deref site p`, which yields `Err.panic site` when `p = none`. A Go nil test `p == nil` / `p != nil` is
  `p.isNone` / `p.isSome`. Nothing is pattern-matched "for free": every guard that the Go code has is a
  visible `if`, every dereference is a visible `deref`. The explicit `panic(..)` of status.go:191 and the
  integer division of status.go:211 are panic sites of their own.
* The Go `(ptr, err)` result convention of `VerifyExtraInfo` / `RuntimeAttestationKey` is kept
  (`Option α × Option VErr`): the callers test `err` and then dereference `ptr`.
* `[]byte` is `Option (List Nat)`: `none` is the nil slice, `some []` the empty non-nil slice
  (`bytes.Equal` and `len` do not distinguish them, `nextChecksum != nil` of status.go:210 does).
* Function ARGUMENTS that are pointers (`ctx`, `kmrt`, `oldStatus`, `params`, each `n` of `nodes`, each
  `nodeRt` of `n.Runtimes`) are values: `kmrt` and `nodes` come out of the registry state deserialiser
  (`registryState.Runtimes/Nodes` allocate every element), `oldStatus` is either `&status` of
  `state.Status` (state.go:108-112) or the literal of epoch.go:53-55 / txs.go:43-45, and every entry of
  `n.Runtimes` was dereferenced by node registration (`registry/api/api.go:597`, `:1562`).
* Attestation verification (`registry.VerifyNodeRuntimeEnclaveIDs`, registry/api/api.go:806-862: TEE
  hardware comparison, deployment lookup — deployments are non-nil by runtime.go:548-552 — and quote
  verification), CBOR decoding of `ExtraInfo` and the RAK signature check are abstract per-node-runtime
  inputs (`enclaveIDsOk : Bool`, `extraInfo : Option (Option SignedInitResponse)`, `sigOk : Bool`); the
  theorems quantify over all of them, so nothing is assumed about the verdicts.
* `uint64` arithmetic wraps (`Generation + 1`, api.go:161).

Core Lean only (compiled into executables).
-/
namespace OasisModel.Keymanager.Status

abbrev PublicKey := Nat
abbrev Namespace := Nat
abbrev Version := Nat
abbrev Epoch := Nat

/-- Go `[]byte`: `none` = nil slice. -/
abbrev Bytes := Option (List Nat)

/-- Go `len(b)`. -/
def blen (b : Bytes) : Nat := (b.getD []).length

/-- Go `bytes.Equal` (nil and empty are equal). -/
def bytesEqual (a b : Bytes) : Bool := a.getD [] == b.getD []

/-- `secrets.ChecksumSize` (api.go). -/
def checksumSize : Nat := 32

/-- `emptyHashSha3 = sha3.Sum256(nil)` (status.go:24). -/
def emptyHashSha3 : List Nat :=
  [0xa7, 0xff, 0xc6, 0xf8, 0xbf, 0x1e, 0xd7, 0x66, 0x51, 0xc1, 0x47, 0x56, 0xa0, 0x61, 0xd6, 0x62,
   0xf5, 0x80, 0xff, 0x4d, 0xe4, 0x3b, 0x49, 0xfa, 0x82, 0xd8, 0x0a, 0x4b, 0x80, 0xf8, 0x43, 0x4a]

/-- `node.TEEHardware` (common/node/node.go:514-521). -/
def teeHardwareInvalid : Nat := 0
def teeHardwareIntelSGX : Nat := 1

/-- `node.RoleKeyManager = 1 << 2` (common/node/node.go:188). -/
def roleKeyManager : Nat := 4

/-- `api.InsecureRAK` (keymanager/api): the well-known RAK of non-TEE key managers. -/
def insecureRAK : PublicKey := 0x1a5ec

/-- `minProposalReplicationPercent` (status.go:22). -/
def minProposalReplicationPercent : Nat := 66

/-- Where a Go runtime panic can originate in the modelled code. -/
inductive Site
  | proposal          -- status.go:59-60  `secret.Secret…` (secret is a pointer)
  | teeHardware       -- status.go:107    `nodeRt.Capabilities.TEE.Hardware`
  | capRAK            -- common/registry.go:78 `&nodeRt.Capabilities.TEE.RAK` (RuntimeAttestationKey)
  | rak               -- status.go:252    `*rak`
  | initResponse      -- status.go:122-180 `initResponse.X` (pointer returned by VerifyExtraInfo)
  | rsk               -- status.go:167    `initResponse.RSK.Equal(*RSK)`
  | nextRSK           -- status.go:180    `initResponse.NextRSK.Equal(*nRSK)`
  | mustBeInitialized -- status.go:191    explicit `panic("the key manager must be initialized")`
  | percentDiv        -- status.go:211    `len(updatedNodes) * 100 / numNodes`
  deriving DecidableEq, Repr

/-- Ordinary errors of `VerifyExtraInfo` (status.go:236-254); `generateStatus` consumes every one of them
with `continue nextNode` (status.go:115-118). -/
inductive VErr
  | enclaveIDs        -- status.go:236  VerifyNodeRuntimeEnclaveIDs failed
  | missingExtraInfo  -- status.go:239-241
  | noTEECapability   -- common/registry.go:75-77 RuntimeAttestationKey, SGX without TEE capability
  | hardwareMismatch  -- common/registry.go:79-80 RuntimeAttestationKey, default case
  | malformed         -- status.go:249  cbor.Unmarshal
  | badSignature      -- status.go:252  Verify(*rak)
  deriving DecidableEq, Repr

/-- State-access failures of `onEpochChange` (epoch.go:26-34, 56-72, 88-90): all of them are
`UnavailableStateError`s (or errors of the underlying MKVS), none depends on block content. -/
inductive StateErr
  | consensusParameters  -- epoch.go:26-29
  | featureVersion       -- epoch.go:31-34
  | status               -- epoch.go:56-62
  | masterSecret         -- epoch.go:65-72
  | setStatus            -- epoch.go:88-90
  deriving DecidableEq, Repr

inductive Err
  /-- A Go runtime panic: in `BeginBlock` this halts the node. -/
  | panic (site : Site)
  /-- An ordinary error returned by `onEpochChange` (state unavailable). `generateStatus` itself has no
  error result and never produces this constructor. -/
  | state (e : StateErr)
  deriving DecidableEq, Repr

/-- Is the error a panic? -/
def Err.isPanic : Err → Bool
  | .panic _ => true
  | .state _ => false

/-- Go dereference of a pointer. -/
def deref {α : Type} (site : Site) : Option α → Except Err α
  | some a => .ok a
  | none => .error (.panic site)

/-- `secrets.SignedPolicySGX`, abstractly: its identity and `sha3.Sum256(cbor.Marshal(policy))`
(status.go:64-68). -/
structure Policy where
  serial : Nat
  digest : List Nat
  deriving DecidableEq, Repr

/-- `secrets.Status` (api.go:124-154). -/
structure Status where
  id : Namespace
  isInitialized : Bool := false
  isSecure : Bool := false
  generation : Nat := 0
  rotationEpoch : Epoch := 0
  checksum : Bytes := none
  nodes : List PublicKey := []
  policy : Option Policy := none
  nextPolicy : Option Policy := none
  rsk : Option PublicKey := none
  deriving DecidableEq, Repr

/-- `Status.NextGeneration` (api.go:157-162); `uint64` addition wraps. -/
def Status.nextGeneration (s : Status) : Nat :=
  if blen s.checksum == 0 then 0 else (s.generation + 1) % 2 ^ 64

/-- `secrets.SignedEncryptedMasterSecret` (secret.go:109-115) with the fields that `generateStatus` reads:
`Secret.Generation`, `Secret.Epoch`, `Secret.Secret.Checksum` (all value-typed, secret.go:60-72, 25-34). -/
structure Proposal where
  generation : Nat
  epoch : Epoch
  checksum : Bytes
  deriving DecidableEq, Repr

/-- `secrets.InitResponse` (api.go:243-250). -/
structure InitResponse where
  isSecure : Bool := false
  checksum : Bytes := none
  nextChecksum : Bytes := none
  policyChecksum : Bytes := none
  rsk : Option PublicKey := none
  nextRSK : Option PublicKey := none
  deriving DecidableEq, Repr

/-- `node.CapabilityTEE` (common/node/node.go:554-566). -/
structure CapabilityTEE where
  hardware : Nat
  rak : PublicKey
  deriving DecidableEq, Repr

/-- `node.Runtime` (common/node/node.go:437-450) plus the abstract verification verdicts. -/
structure NodeRuntime where
  id : Namespace
  version : Version := 0
  /-- `Capabilities.TEE` (pointer). -/
  tee : Option CapabilityTEE := none
  /-- `ExtraInfo`: `none` = nil slice (status.go:239); `some none` = bytes that `cbor.Unmarshal` rejects
  (status.go:249); `some (some r)` = bytes decoding to a signed init response with body `r`. -/
  extraInfo : Option (Option InitResponse) := none
  /-- Verdict of `registry.VerifyNodeRuntimeEnclaveIDs` (status.go:236). -/
  enclaveIDsOk : Bool := true
  /-- Verdict of `untrustedSignedInitResponse.Verify(*rak)` (status.go:252). -/
  sigOk : Bool := true
  deriving DecidableEq, Repr

/-- `node.Node` (common/node/node.go), the fields read here. -/
structure Node where
  id : PublicKey
  expiration : Epoch
  roles : Nat
  runtimes : List NodeRuntime
  deriving DecidableEq, Repr

/-- `Node.IsExpired` (common/node/node.go:389-391). -/
def Node.isExpired (n : Node) (epoch : Epoch) : Bool := n.expiration < epoch

/-- `Node.HasRoles` (common/node/node.go:378-380). -/
def Node.hasRoles (n : Node) (r : Nat) : Bool := (n.roles &&& r) != 0

/-- `registry.Runtime`, the fields read here. -/
structure Runtime where
  id : Namespace
  teeHardware : Nat
  /-- `registry.KindKeyManager = 2` (registry/api/runtime.go). -/
  kind : Nat := 2
  deriving DecidableEq, Repr

def kindKeyManager : Nat := 2

/-! ### `RuntimeAttestationKey` and `VerifyExtraInfo` -/

/-- `common.RuntimeAttestationKey` (apps/keymanager/common/registry.go:68-82): returns `(ptr, err)`. -/
def runtimeAttestationKey (nodeRt : NodeRuntime) (kmRt : Runtime) :
    Except Err (Option PublicKey × Option VErr) :=
  if kmRt.teeHardware == teeHardwareInvalid then
    pure (some insecureRAK, none)                       -- return &api.InsecureRAK, nil
  else if kmRt.teeHardware == teeHardwareIntelSGX then
    if nodeRt.tee.isNone then                           -- if nodeRt.Capabilities.TEE == nil
      pure (none, some .noTEECapability)
    else do
      let tee ← deref .capRAK nodeRt.tee                -- &nodeRt.Capabilities.TEE.RAK
      pure (some tee.rak, none)
  else
    pure (none, some .hardwareMismatch)

/-- `VerifyExtraInfo` (status.go:226-256): returns `(ptr, err)`. -/
def verifyExtraInfo (kmRt : Runtime) (nodeRt : NodeRuntime) :
    Except Err (Option InitResponse × Option VErr) := do
  if !nodeRt.enclaveIDsOk then                          -- status.go:236-238
    return (none, some .enclaveIDs)
  if nodeRt.extraInfo.isNone then                       -- status.go:239-241
    return (none, some .missingExtraInfo)
  let (rak, err) ← runtimeAttestationKey nodeRt kmRt    -- status.go:243
  if err.isSome then                                    -- status.go:244-246
    return (none, err)
  match nodeRt.extraInfo with                           -- status.go:248-251 cbor.Unmarshal
  | none | some none => return (none, some .malformed)
  | some (some resp) =>
    let rakV ← deref .rak rak                           -- status.go:252 `*rak`
    let _ := rakV
    if !nodeRt.sigOk then
      return (none, some .badSignature)
    return (some resp, none)                            -- status.go:255

/-! ### `generateStatus` -/

/-- The per-node locals of status.go:85-91. -/
structure Inner where
  secretReplicated : Bool
  isInitialized : Bool
  isSecure : Bool
  rsk : Option PublicKey
  nRSK : Option PublicKey
  numVersions : Nat
  deriving DecidableEq, Repr

/-- Outcome of one iteration of the inner loop. -/
inductive Flow
  | next (st : Inner)   -- fall through / `continue`
  | skipNode            -- `continue nextNode`
  deriving DecidableEq, Repr

/-- `p != nil && !p.Equal(*q)` (status.go:167, 180): `*q` is dereferenced only when `p != nil`. -/
def differsDeref (site : Site) (p q : Option PublicKey) : Except Err Bool :=
  if p.isSome then do
    let pv ← deref site p
    let qv ← deref site q
    pure (pv != qv)
  else
    pure false

/-- status.go:103-108: the TEE hardware comparison. -/
def teeOk (kmrt : Runtime) (nodeRt : NodeRuntime) : Except Err Bool :=
  if nodeRt.tee.isNone then                             -- if nodeRt.Capabilities.TEE == nil
    pure (kmrt.teeHardware == teeHardwareInvalid)
  else do
    let tee ← deref .teeHardware nodeRt.tee             -- nodeRt.Capabilities.TEE.Hardware
    pure (kmrt.teeHardware == tee.hardware)

/-- status.go:121-130: the `switch len(initResponse.PolicyChecksum)`; `none` is the `default:` case
(`continue nextNode`). `copy` into a fixed-size array never panics. -/
def nodePolicyHash (ir : InitResponse) : Option (List Nat) :=
  if blen ir.policyChecksum == 0 then some emptyHashSha3
  else if blen ir.policyChecksum == checksumSize then some (ir.policyChecksum.getD [])
  else none

/-- status.go:120-184: the part of the inner loop body after `VerifyExtraInfo` succeeded, on the
dereferenced init response.

`seeded = false` is the code as it exists. `seeded = true` is the seeded mutation C10-km1 used by the
witness `unguarded_next_rsk_panics`: `nRSK` is adopted only from a version whose `NextChecksum` matches the
proposal, instead of unconditionally (status.go:177-179). -/
def versionCheck (seeded : Bool) (statusChecksum : Bytes) (policyHash : List Nat)
    (nextChecksum : Bytes) (st : Inner) (ir : InitResponse) : Except Err Flow := do
  -- status.go:121-134
  let nph := nodePolicyHash ir
  if nph.isNone then                                    -- default: continue nextNode
    return .skipNode
  if nph != some policyHash then                        -- status.go:131-134
    return .skipNode
  -- status.go:137-141
  let isInitialized := if !st.isInitialized then true else st.isInitialized
  let isSecure := if !st.isInitialized then ir.isSecure else st.isSecure
  -- status.go:144-147
  if ir.isSecure != isSecure then
    return .skipNode
  -- status.go:154-157
  if !bytesEqual ir.checksum statusChecksum then
    return .skipNode
  -- status.go:160-163
  let rsk := if st.rsk.isNone then ir.rsk else st.rsk
  -- status.go:167-170
  if ← differsDeref .rsk ir.rsk rsk then
    return .skipNode
  -- status.go:174-176
  let replicated₁ := if !bytesEqual ir.nextChecksum nextChecksum then false else st.secretReplicated
  -- status.go:177-179
  let nRSK :=
    if seeded then
      (if bytesEqual ir.nextChecksum nextChecksum && st.nRSK.isNone then ir.nextRSK else st.nRSK)
    else
      (if st.nRSK.isNone then ir.nextRSK else st.nRSK)
  -- status.go:180-182
  let replicated₂ := if ← differsDeref .nextRSK ir.nextRSK nRSK then false else replicated₁
  -- status.go:184
  return .next { secretReplicated := replicated₂, isInitialized := isInitialized, isSecure := isSecure,
                 rsk := rsk, nRSK := nRSK, numVersions := st.numVersions + 1 }

/-- One iteration of `for _, nodeRt := range n.Runtimes` (status.go:92-185). -/
def versionStep (seeded : Bool) (kmrt : Runtime) (statusChecksum : Bytes) (policyHash : List Nat)
    (nextChecksum : Bytes) (st : Inner) (nodeRt : NodeRuntime) : Except Err Flow := do
  if nodeRt.id != kmrt.id then                          -- status.go:93-95
    return .next st
  if !(← teeOk kmrt nodeRt) then                        -- status.go:103-112
    return .skipNode
  -- status.go:114-118
  let (initResponse, err) ← verifyExtraInfo kmrt nodeRt
  if err.isSome then
    return .skipNode
  let ir ← deref .initResponse initResponse             -- status.go:122 first use of `initResponse.`
  versionCheck seeded statusChecksum policyHash nextChecksum st ir

/-- The inner loop (status.go:92-185). -/
def versionsLoop (seeded : Bool) (kmrt : Runtime) (statusChecksum : Bytes) (policyHash : List Nat)
    (nextChecksum : Bytes) : Inner → List NodeRuntime → Except Err Flow
  | st, [] => pure (.next st)
  | st, nodeRt :: rest => do
    match ← versionStep seeded kmrt statusChecksum policyHash nextChecksum st nodeRt with
    | .skipNode => pure .skipNode
    | .next st' => versionsLoop seeded kmrt statusChecksum policyHash nextChecksum st' rest

/-- The variables that live across iterations of the outer loop. -/
structure Acc where
  status : Status
  nextRSK : Option PublicKey
  updatedNodes : List PublicKey
  deriving DecidableEq, Repr

/-- One iteration of `for _, n := range nodes` (status.go:77-206). -/
def nodeStep (seeded : Bool) (kmrt : Runtime) (policyHash : List Nat) (nextChecksum : Bytes)
    (epoch : Epoch) (acc : Acc) (n : Node) : Except Err Acc := do
  if n.isExpired epoch then                             -- status.go:78-80
    return acc
  if !n.hasRoles roleKeyManager then                    -- status.go:81-83
    return acc
  let init : Inner :=                                   -- status.go:85-91
    { secretReplicated := true, isInitialized := acc.status.isInitialized,
      isSecure := acc.status.isSecure, rsk := acc.status.rsk, nRSK := acc.nextRSK, numVersions := 0 }
  match ← versionsLoop seeded kmrt acc.status.checksum policyHash nextChecksum init n.runtimes with
  | .skipNode => return acc
  | .next st =>
    if st.numVersions == 0 then                         -- status.go:187-189
      return acc
    if !st.isInitialized then                           -- status.go:190-192
      throw (.panic .mustBeInitialized)
    let (nextRSK, updatedNodes) :=                      -- status.go:193-196
      if st.secretReplicated then (st.nRSK, acc.updatedNodes ++ [n.id])
      else (acc.nextRSK, acc.updatedNodes)
    let status :=                                       -- status.go:200-203
      if !acc.status.isInitialized then
        { acc.status with isInitialized := true, isSecure := st.isSecure }
      else acc.status
    let status := { status with rsk := st.rsk, nodes := status.nodes ++ [n.id] }  -- status.go:204-205
    return { status := status, nextRSK := nextRSK, updatedNodes := updatedNodes }

/-- The outer loop (status.go:77-206). -/
def nodesLoop (seeded : Bool) (kmrt : Runtime) (policyHash : List Nat) (nextChecksum : Bytes)
    (epoch : Epoch) : Acc → List Node → Except Err Acc
  | acc, [] => pure acc
  | acc, n :: rest => do
    let acc' ← nodeStep seeded kmrt policyHash nextChecksum epoch acc n
    nodesLoop seeded kmrt policyHash nextChecksum epoch acc' rest

/-- Go integer division: panics on a zero divisor. -/
def goDiv (site : Site) (a b : Nat) : Except Err Nat :=
  if b == 0 then .error (.panic site) else pure (a / b)

/-- status.go:36-49: the new status starts as a copy of the immutable and generation fields of the old one
(`Nodes`, `NextPolicy` and `RSK` are NOT copied), with the scheduled policy applied. -/
def initialStatus (kmrt : Runtime) (oldStatus : Status) : Status :=
  let status : Status :=
    { id := kmrt.id, isInitialized := oldStatus.isInitialized, isSecure := oldStatus.isSecure,
      generation := oldStatus.generation, rotationEpoch := oldStatus.rotationEpoch,
      checksum := oldStatus.checksum, policy := oldStatus.policy }
  -- status.go:47-49
  if oldStatus.nextPolicy.isSome then { status with policy := oldStatus.nextPolicy } else status

/-- status.go:59-61: `secret != nil && secret.Secret.Generation == nextGeneration &&
secret.Secret.Epoch == epoch` (short-circuit), then `nextChecksum = secret.Secret.Secret.Checksum`. -/
def proposalChecksum (secret : Option Proposal) (nextGeneration : Nat) (epoch : Epoch) :
    Except Err Bytes :=
  if secret.isSome then do
    let sec ← deref .proposal secret
    if sec.generation == nextGeneration && sec.epoch == epoch then
      pure sec.checksum
    else pure none
  else pure none

/-- status.go:64-68: `sha3.Sum256(rawPolicy)`, `rawPolicy` nil when there is no policy. -/
def policyHashOf (policy : Option Policy) : List Nat :=
  if policy.isSome then (policy.map Policy.digest).getD emptyHashSha3 else emptyHashSha3

/-- status.go:208-221: accept the proposal if at least 66 % of the committee replicated it. -/
def acceptProposal (nextGeneration : Nat) (epoch : Epoch) (nextChecksum : Bytes) (acc : Acc) :
    Except Err Status := do
  let numNodes := acc.status.nodes.length
  if numNodes > 0 && nextChecksum.isSome then           -- status.go:210
    let percent ← goDiv .percentDiv (acc.updatedNodes.length * 100) numNodes  -- status.go:211
    if percent >= minProposalReplicationPercent then    -- status.go:212-218
      return { acc.status with generation := nextGeneration, rotationEpoch := epoch,
                               checksum := nextChecksum, rsk := acc.nextRSK, nodes := acc.updatedNodes }
    return acc.status
  return acc.status

/-- `generateStatus` (status.go:26-222), parametrised by the seeded mutation flag. -/
def generateStatusG (seeded : Bool) (kmrt : Runtime) (oldStatus : Status) (secret : Option Proposal)
    (nodes : List Node) (epoch : Epoch) : Except Err Status := do
  let status := initialStatus kmrt oldStatus            -- status.go:36-49
  let nextGeneration := status.nextGeneration           -- status.go:58
  let nextChecksum ← proposalChecksum secret nextGeneration epoch  -- status.go:59-61
  let policyHash := policyHashOf status.policy          -- status.go:64-68
  let acc ← nodesLoop seeded kmrt policyHash nextChecksum epoch   -- status.go:77-206
    { status := status, nextRSK := none, updatedNodes := [] } nodes
  acceptProposal nextGeneration epoch nextChecksum acc  -- status.go:208-221

/-- `generateStatus` as it exists. -/
def generateStatus (kmrt : Runtime) (oldStatus : Status) (secret : Option Proposal)
    (nodes : List Node) (epoch : Epoch) : Except Err Status :=
  generateStatusG false kmrt oldStatus secret nodes epoch

/-- The seeded mutation C10-km1 (see `versionStep`). -/
def generateStatusUnguarded (kmrt : Runtime) (oldStatus : Status) (secret : Option Proposal)
    (nodes : List Node) (epoch : Epoch) : Except Err Status :=
  generateStatusG true kmrt oldStatus secret nodes epoch

/-! ### `onEpochChange` (epoch.go:19-106) -/

/-- Result of `state.Status` (state.go:99-113). -/
inductive StatusRead
  | found (s : Status)   -- `&status, nil`
  | noSuch               -- `nil, ErrNoSuchStatus`
  | unavailable          -- `nil, UnavailableStateError`
  deriving DecidableEq, Repr

/-- Result of `state.MasterSecret` (state.go:115-129). -/
inductive SecretRead
  | found (p : Proposal)
  | noSuch               -- `nil, ErrNoSuchMasterSecret`
  | unavailable
  deriving DecidableEq, Repr

/-- What the consensus state answers for one registered runtime. -/
structure RtEntry where
  rt : Runtime
  statusRead : StatusRead
  secretRead : SecretRead
  /-- `state.SetStatus` succeeded (epoch.go:88). -/
  setStatusOk : Bool := true
  deriving DecidableEq, Repr

/-- epoch.go:46-63: the old status, or a fresh one for a new key manager runtime (`forceEmit`). -/
def readOldStatus (e : RtEntry) : Except Err (Bool × Status) :=
  match e.statusRead with
  | .found s => pure (false, s)                         -- case nil
  | .noSuch => pure (true, { id := e.rt.id })           -- epoch.go:50-55
  | .unavailable => throw (.state .status)              -- epoch.go:56-62

/-- epoch.go:65-72: the pending proposal, `nil` when there is none. -/
def readSecret (e : RtEntry) : Except Err (Option Proposal) :=
  match e.secretRead with
  | .found p => pure (some p)
  | .noSuch => pure none                                -- err == ErrNoSuchMasterSecret: secret stays nil
  | .unavailable => throw (.state .masterSecret)

/-- The loop body of epoch.go:41-93 for one runtime; returns the status to store and emit, if any. -/
def entryStep (nodes : List Node) (epoch : Epoch) (e : RtEntry) : Except Err (Option Status) := do
  if e.rt.kind != kindKeyManager then                   -- epoch.go:42-44
    return none
  let (forceEmit, oldStatus) ← readOldStatus e          -- epoch.go:46-63
  let secret ← readSecret e                             -- epoch.go:65-72
  let newStatus ← generateStatus e.rt oldStatus secret nodes epoch   -- epoch.go:74
  -- epoch.go:75-92 (`cbor.Marshal` is injective on statuses: abstractly, structural equality)
  if forceEmit || oldStatus != newStatus then
    if !e.setStatusOk then                              -- epoch.go:88-90
      throw (.state .setStatus)
    return some newStatus
  return none

/-- The loop of epoch.go:41-93; returns the statuses to emit. -/
def epochLoop (nodes : List Node) (epoch : Epoch) : List Status → List RtEntry → Except Err (List Status)
  | toEmit, [] => pure toEmit
  | toEmit, e :: rest => do
    match ← entryStep nodes epoch e with
    | some s => epochLoop nodes epoch (toEmit ++ [s]) rest
    | none => epochLoop nodes epoch toEmit rest

/-- `onEpochChange` (epoch.go:19-106). `paramsOk` / `featureOk`: the two state reads of epoch.go:26-34. -/
def onEpochChange (paramsOk featureOk : Bool) (nodes : List Node) (epoch : Epoch)
    (runtimes : List RtEntry) : Except Err (List Status) := do
  if !paramsOk then
    throw (.state .consensusParameters)
  if !featureOk then
    throw (.state .featureVersion)
  epochLoop nodes epoch [] runtimes

end OasisModel.Keymanager.Status
