/-
Model of go/common/quantity/quantity.go.

`Quantity` wraps a `big.Int` that is kept non-negative ("never underflows"), so the faithful
model of a *valid* quantity is an unbounded natural number.  Pointer arguments that the Go
code mutates become returned values.  The model assumes what every caller in oasis-core
provides: arguments are non-nil and `dst`, `src` of `Move`/`MoveUpTo` are distinct cells
(`Move` itself guards the `src == n` alias by cloning `n`, which makes pointer semantics
coincide with the value semantics used here).

The `Generated/SharePoolGen.lean` file contains the same functions translated from the Go
source over `Int` (the `big.Int` level, where `Sub` can go negative); `OasisProofs.Props.C15`
proves them equal to these definitions on non-negative inputs.
-/
namespace OasisModel

/-- The errors of `quantity` and of the share-pool arithmetic (`staking.ErrInvalidArgument`). -/
inductive QErr where
  | invalidQuantity
  | insufficientBalance
  | invalidAccount
  | invalidArgument
  deriving DecidableEq, Repr, Inhabited

def QErr.toString : QErr → String
  | .invalidQuantity => "invalid-quantity"
  | .insufficientBalance => "insufficient-balance"
  | .invalidAccount => "invalid-account"
  | .invalidArgument => "invalid-argument"

namespace Quantity

/-- `q.Add(n)`: never fails on valid quantities. -/
def add (q n : Nat) : Except QErr Nat := .ok (q + n)

/-- `q.Sub(n)`: fails with `ErrInsufficientBalance` iff `q < n`. -/
def sub (q n : Nat) : Except QErr Nat :=
  if q < n then .error .insufficientBalance else .ok (q - n)

/-- `q.SubUpTo(n)`: returns `(q', amount)` with `amount = min q n`. -/
def subUpTo (q n : Nat) : Nat × Nat :=
  let amount := if q < n then q else n
  (q - amount, amount)

/-- `q.Mul(n)`. -/
def mul (q n : Nat) : Except QErr Nat := .ok (q * n)

/-- `q.Quo(n)`: truncated division; fails with `ErrInvalidQuantity` iff `n = 0`. -/
def quo (q n : Nat) : Except QErr Nat :=
  if n = 0 then .error .invalidQuantity else .ok (q / n)

/-- `Move(dst, src, n)`: returns `(dst', src')`; on failure nothing is altered. -/
def move (dst src n : Nat) : Except QErr (Nat × Nat) :=
  if src < n then .error .insufficientBalance else .ok (dst + n, src - n)

/-- `MoveUpTo(dst, src, n)`: returns `(dst', src', moved)`. -/
def moveUpTo (dst src n : Nat) : Nat × Nat × Nat :=
  let amount := if src < n then src else n
  (dst + amount, src - amount, amount)

end Quantity

/-! ### Interfaces used by the regenerated translation (`Generated/SharePoolGen.lean`) -/

/- `math/big` primitives used by quantity.go, on mathematical integers. -/
namespace Big
/-- `x.Cmp(y)`. -/
def cmp (x y : Int) : Int := if x < y then -1 else if x = y then 0 else 1
/-- `x.CmpAbs(y)`. -/
def cmpAbs (x y : Int) : Int := cmp (Int.ofNat x.natAbs) (Int.ofNat y.natAbs)
/-- `z.Quo(x, y)` for `y ≠ 0`: truncated division. -/
def quo (x y : Int) : Int := Int.tdiv x y
end Big

/- The quantity operations in the calling convention of the translator (results first, then the
mutated pointer arguments in parameter order), over the `Nat` model.  The share-pool level of the
translation calls these; the quantity level of the translation (over `Int`, from quantity.go) is
proved equal to them on non-negative arguments. -/
namespace QN
def NewQuantity : Nat := 0
def Clone (q : Nat) : Nat := q
def IsValid (_q : Nat) : Bool := true
def IsZero (q : Nat) : Bool := q == 0
def Cmp (q n : Nat) : Int := Big.cmp (Int.ofNat q) (Int.ofNat n)
def Add (q n : Nat) : Except QErr Nat := Quantity.add q n
def Sub (q n : Nat) : Except QErr Nat := Quantity.sub q n
def SubUpTo (q n : Nat) : Except QErr (Nat × Nat) := .ok ((Quantity.subUpTo q n).2, (Quantity.subUpTo q n).1)
def Mul (q n : Nat) : Except QErr Nat := Quantity.mul q n
def Quo (q n : Nat) : Except QErr Nat := Quantity.quo q n
def Move (dst src n : Nat) : Except QErr (Nat × Nat) := Quantity.move dst src n
def MoveUpTo (dst src n : Nat) : Except QErr (Nat × Nat × Nat) :=
  let m := Quantity.moveUpTo dst src n
  .ok (m.2.2, m.1, m.2.1)
end QN

end OasisModel
