/-
NIL-NESS flow between a runtime deployment's TEE constraints blob and quote verification (property C16:
untrusted bytes are decoded or rejected, never crash).  Core Lean only.

Go code modelled (statement order kept, lines cited at each step):
  go/common/node/node.go:577-603      CapabilityTEE.Verify
  go/common/node/sgx.go:49-79         SGXConstraints.UnmarshalCBOR   (versions 0 / 1)
  go/common/node/sgx.go:100-129       SGXConstraints.ValidateBasic
  go/common/node/sgx.go:200-215       SGXAttestation.ValidateBasic
  go/common/node/sgx.go:218-263       SGXAttestation.Verify
  go/common/node/tee.go:36-54         TEEFeaturesSGX.ApplyDefaultConstraints
  go/common/sgx/quote/quote.go:20-60  Quote.Verify
  go/common/sgx/quote/quote.go:69-83  Policy.Validate
  go/common/sgx/ias/avr.go:248-282    AVRBundle.Open,  316-331 quoteStatusAllowed
  go/common/sgx/pcs/pcs.go:44-50      QuoteBundle.Verify
  go/common/sgx/pcs/quote.go:142-208  Quote.Verify (PCS),  pcs/policy.go:38-57 TdxQuotePolicy.Verify

What is modelled: only WHICH POINTERS ARE NIL.  A pointer is an `Option`; every Go expression `p.f` on a pointer
the model allows to be nil goes through `deref site p` (or `field site p v` for a field read whose value is
supplied by the oracle), which yields the distinguished outcome `Res.nilDeref site` when `p = none`.  Guards
(`p != nil`, `p == nil`) are `Option.isSome` / `Option.isNone` tests written where the Go code has them, so a
deref is safe only if the proof can find the guard.  Everything that depends on the bytes (signatures, dates,
statuses, lists) is an oracle `Env` of booleans: the theorems quantify over all of them.

The constraints blob is written by the runtime's owner (registry `RegisterRuntime`, deployments) and the
attestation by a node: both are untrusted.  The consensus parameters (`TEEFeatures`) are trusted but may have any
shape, including absent (`nil`, replaced by `emptyFeatures`).
-/
namespace OasisModel.Tee.PolicyFlow

/-! ### Outcomes -/

/-- The places where the Go code dereferences a pointer that may be nil in the model. -/
inductive Site where
  /-- sgx.go:119 `sc.Policy.PCS` (guard: 114 `if sc.Policy == nil { return nil }`). -/
  | vbPolicy
  /-- sgx.go:119 `sc.Policy.PCS.TDX` (guard: `sc.Policy.PCS != nil &&` in the same condition). -/
  | vbPcsTdx
  /-- sgx.go:124 `sc.Policy.Validate(..)`, quote.go:74 `p.PCS` on the receiver (guard: sgx.go:114). -/
  | validateRecv
  /-- quote.go:78 `p.PCS.FMSPCWhitelist` (guard: 74 `if p.PCS == nil { return nil }`). -/
  | validatePcs
  /-- tee.go:42 `sc.Policy.IAS`, 43, 45, 46 (guard: 39-41 allocate `sc.Policy` when nil). -/
  | adScPolicy
  /-- tee.go:43/46 `fs.DefaultPolicy.IAS`, `.PCS` (guard: 38 `if fs.DefaultPolicy != nil`). -/
  | adDefault
  /-- quote.go:36 `policy.IAS` (guard: 29-31 `if policy == nil { policy = &Policy{} }`). -/
  | qvPolicyIas
  /-- quote.go:56 `policy.PCS` (same guard). -/
  | qvPolicyPcs
  /-- ias/avr.go:249 `policy.Disabled` (guard: `policy != nil &&`). -/
  | iasDisabled
  /-- ias/avr.go:330 `policy.AllowedQuoteStatuses` (guard: 324 `if policy == nil { return false }`). -/
  | iasStatuses
  /-- ias/avr.go:269 `policy.MinTCBEvaluationDataNumber` (guard: 263 `if policy == nil { return avr, nil }`). -/
  | iasMinTcb
  /-- ias/avr.go:278 `policy.GIDBlacklist` (same guard). -/
  | iasGid
  /-- pcs/quote.go:152 `policy.Disabled` (guard: 143-150 default policy when nil). -/
  | pcsDisabled
  /-- pcs/quote.go:186 `policy.TDX` (same guard). -/
  | pcsTdxField
  /-- pcs/quote.go:189 `policy.TDX.Verify(report)`, policy.go:44 `tp.AllowedTdxModules`
  (guard: 186 `if policy.TDX == nil { return error }`). -/
  | tdxVerify
  /-- pcs/quote.go:197 `q.signature.Verify(.., policy)`: tcb.go:265-279, 632-636 read `policy.TCBValidityPeriod`,
  `MinTCBEvaluationDataNumber`, the FMSPC lists (guard: 143-150). -/
  | pcsSigPolicy
  deriving DecidableEq, Repr

/-- Go errors (each `return fmt.Errorf(..)` / sentinel on the path). -/
inductive Err where
  | invalidHardware | malformedAttestation | attVersionUnsupported
  | malformedConstraints | badConstraintsVersion | scVersionUnsupported
  | tdxPolicyNotSupported | fmspcWhitelistNotEmpty
  | notExactlyOneQuote
  | iasDisabled | avrInvalid | quoteStatusNotAllowed | tcbEvalNumber | avrQuoteOpen | gidBlacklisted | isvQuote
  | pcsQuoteMalformed | pcsDisabled | pcsReport | teeTypeNotAllowed | tdxModule | teeTypeUnsupported | pcsSignature
  | binding
  deriving DecidableEq, Repr

/-- `Except Err α` plus the distinguished outcome: a nil pointer was dereferenced at `site` (a Go panic). -/
inductive Res (α : Type) where
  | ok (a : α)
  | err (e : Err)
  | nilDeref (site : Site)
  deriving DecidableEq, Repr

namespace Res
@[inline] def bind {α β : Type} (r : Res α) (f : α → Res β) : Res β :=
  match r with
  | .ok a => f a
  | .err e => .err e
  | .nilDeref s => .nilDeref s

instance : Monad Res where
  pure := .ok
  bind := Res.bind

/-- The outcome is a Go panic. -/
def isNilDeref {α : Type} : Res α → Bool
  | .nilDeref _ => true
  | _ => false
end Res

/-- `*p` / `p.f` for a pointer `p`. -/
def deref {α : Type} (site : Site) (p : Option α) : Res α :=
  match p with
  | some a => .ok a
  | none => .nilDeref site

/-- Reading a (non-pointer) field through the pointer `p`; the value read is `v`. -/
def field {α β : Type} (site : Site) (p : Option α) (v : β) : Res β :=
  match p with
  | some _ => .ok v
  | none => .nilDeref site

/-! ### Data: only nil-ness -/

/-- `pcs.QuotePolicy`: the one pointer field is `TDX *TdxQuotePolicy` (pcs/policy.go:27-28). -/
structure PcsPolicy where
  tdx : Option Unit
  deriving DecidableEq, Repr

/-- `quote.Policy` (quote.go:63-66): `IAS *ias.QuotePolicy` (no pointer fields inside), `PCS *pcs.QuotePolicy`. -/
structure Policy where
  ias : Option Unit
  pcs : Option PcsPolicy
  deriving DecidableEq, Repr

/-- `TEEFeatures` as far as this path reads it (tee.go:5-33): `SGX.PCS`, `SGX.TDX`, `SGX.SignedAttestations`,
`SGX.DefaultPolicy`. -/
structure Features where
  pcs : Bool
  tdx : Bool
  signedAttestations : Bool
  defaultPolicy : Option Policy
  deriving DecidableEq, Repr

/-- `var emptyFeatures TEEFeatures` (sgx.go:26): the zero value. -/
def emptyFeatures : Features :=
  { pcs := false, tdx := false, signedAttestations := false, defaultPolicy := none }

/-- Decoded `SGXConstraints` (sgx.go:29-40). -/
structure Constraints where
  v : Nat
  policy : Option Policy
  deriving DecidableEq, Repr

/-- The constraints blob, by what `UnmarshalCBOR` makes of it. -/
inductive RawConstraints where
  /-- unversioned / version 0 blob that decodes as `sgxConstraintsV0`. -/
  | v0
  /-- version 1 blob; `policy` absent (or CBOR null) or present with any sub-policies. -/
  | v1 (policy : Option Policy)
  /-- any other version number. -/
  | other (v : Nat)
  /-- the inner `cbor.Unmarshal` fails. -/
  | malformed
  deriving DecidableEq, Repr

/-- `quote.Quote` (quote.go:14-17): which of `IAS`, `PCS` are non-nil. -/
inductive QuoteKind where
  | ias | pcs | both | none
  deriving DecidableEq, Repr

def QuoteKind.hasIas : QuoteKind → Bool
  | .ias | .both => true
  | _ => false

def QuoteKind.hasPcs : QuoteKind → Bool
  | .pcs | .both => true
  | _ => false

/-- Decoded `SGXAttestation` (sgx.go:144-155).  (A version-0 blob always decodes to kind `ias`, sgx.go:173-177;
the model lets the kind be anything for both versions, a superset.) -/
structure Attestation where
  v : Nat
  quote : QuoteKind
  deriving DecidableEq, Repr

inductive TeeType where
  | sgx | tdx | other
  deriving DecidableEq, Repr

/-- Oracle: the outcome of every data-dependent test on the path. -/
structure Env where
  /-- `isFeatureVersion261` (node.go:577). -/
  feature261 : Bool
  /-- `len(p.PCS.FMSPCWhitelist) == 0` (quote.go:78). -/
  fmspcWhitelistEmpty : Bool
  /-- `policy.Disabled` of a present IAS policy (avr.go:249). -/
  iasDisabled : Bool
  /-- `DecodeAVR` succeeds (avr.go:253). -/
  avrDecodes : Bool
  /-- status is `OK` / `SW_HARDENING_NEEDED` (avr.go:320). -/
  statusAlwaysAllowed : Bool
  /-- status is in `policy.AllowedQuoteStatuses` (avr.go:330). -/
  statusListed : Bool
  /-- `avr.TCBEvaluationDataNumber >= policy.MinTCBEvaluationDataNumber` (avr.go:269). -/
  tcbNumOk : Bool
  /-- `avr.Quote()` succeeds (avr.go:273, quote.go:42: the same bytes). -/
  avrQuoteOk : Bool
  /-- GID is in `policy.GIDBlacklist` (avr.go:278). -/
  gidBlacklisted : Bool
  /-- `quote.UnmarshalBinary(bnd.Quote)` succeeds (pcs.go:46). -/
  pcsQuoteParses : Bool
  /-- `policy.Disabled` of a present PCS policy (pcs/quote.go:152). -/
  pcsDisabled : Bool
  /-- `q.header.TeeType()` (pcs/quote.go:156). -/
  tee : TeeType
  /-- report body type / MRSIGNER blacklist / debug-mode checks pass (pcs/quote.go:158-182). -/
  reportOk : Bool
  /-- `policy.TDX.Verify(report)` succeeds (pcs/quote.go:189). -/
  tdxModuleOk : Bool
  /-- `q.signature.Verify(..)` succeeds or is skipped (pcs/quote.go:196-201). -/
  pcsSignatureOk : Bool
  /-- enclave identity listed, RAK hash matches, attestation signature and freshness (sgx.go:242-260). -/
  bindingOk : Bool
  deriving DecidableEq, Repr

/-! ### sgx.go:49-79 `SGXConstraints.UnmarshalCBOR` -/

/-- Version 0 ALWAYS carries a synthesised policy with an IAS sub-policy and no PCS sub-policy (sgx.go:66-70);
version 1 keeps whatever the blob has, including no policy at all (sgx.go:72-75). -/
def decodeConstraints : RawConstraints → Res Constraints
  | .v0 => .ok { v := 0, policy := some { ias := some (), pcs := none } }   -- 56-71
  | .v1 p => .ok { v := 1, policy := p }                                    -- 72-75
  | .other _ => .err .badConstraintsVersion                                 -- 76-77
  | .malformed => .err .malformedConstraints                                -- 59-61, 75

/-! ### quote.go:69-83 `Policy.Validate` (receiver `p` is `sc.Policy`) -/

def policyValidate (env : Env) (p : Option Policy) : Res Unit :=
  if env.feature261 then .ok ()                                              -- 70-72
  else do
    let pol ← deref .validateRecv p                                          -- 74 `p.PCS`
    if pol.pcs.isNone then .ok ()                                            -- 74-76
    else do
      let empty ← field .validatePcs pol.pcs env.fmspcWhitelistEmpty         -- 78 `p.PCS.FMSPCWhitelist`
      if empty then .ok () else .err .fmspcWhitelistNotEmpty                 -- 78-82

/-! ### sgx.go:100-129 `SGXConstraints.ValidateBasic` -/

def constraintsValidateBasic (env : Env) (cfg : Option Features) (sc : Constraints) : Res Unit :=
  let cfg := cfg.getD emptyFeatures                                          -- 101-103 `if cfg == nil`
  if !cfg.pcs && sc.v != 0 then .err .scVersionUnsupported                   -- 106-108
  else if sc.v > 1 then .err .scVersionUnsupported                           -- 110-112
  else if sc.policy.isNone then .ok ()                                       -- 114-116
  else do
    -- 119 `!cfg.SGX.TDX && sc.Policy.PCS != nil && sc.Policy.PCS.TDX != nil` (short-circuit, left to right)
    let tdxSet ←
      if !cfg.tdx then do
        let pol ← deref .vbPolicy sc.policy                                  -- `sc.Policy.PCS`
        if pol.pcs.isSome then do
          let pp ← deref .vbPcsTdx pol.pcs                                   -- `sc.Policy.PCS.TDX`
          pure pp.tdx.isSome
        else pure false
      else pure false
    if tdxSet then .err .tdxPolicyNotSupported                               -- 119-121
    else policyValidate env sc.policy                                        -- 124-126

/-! ### sgx.go:200-215 `SGXAttestation.ValidateBasic` -/

def attestationValidateBasic (cfg : Option Features) (sa : Attestation) : Res Unit :=
  let cfg := cfg.getD emptyFeatures                                          -- 201-203
  if !cfg.pcs && sa.v != 0 then .err .attVersionUnsupported                  -- 206-208
  else if sa.v > 1 then .err .attVersionUnsupported                          -- 210-212
  else .ok ()

/-! ### tee.go:36-54 `TEEFeaturesSGX.ApplyDefaultConstraints` -/

/-- `sc.Policy` is initialised ONLY when the consensus parameters carry a default policy (38-41); missing
sub-policies are filled in from it (42-47; the PCS one only with the PCS feature). -/
def applyDefaults (fs : Features) (sc : Constraints) : Res Constraints :=
  if fs.defaultPolicy.isSome then do                                         -- 38
    let scPolicy := if sc.policy.isNone then some { ias := none, pcs := none } else sc.policy   -- 39-41
    let p ← deref .adScPolicy scPolicy                                       -- 42 `sc.Policy.IAS`
    let d ← deref .adDefault fs.defaultPolicy                                -- 43 `fs.DefaultPolicy.IAS`
    let ias := if p.ias.isNone then d.ias else p.ias                         -- 42-44
    let pcs := if p.pcs.isNone && fs.pcs then d.pcs else p.pcs               -- 45-47
    pure { sc with policy := some { ias := ias, pcs := pcs } }
  else pure sc                                                               -- (51-53 touch no pointer)

/-! ### ias/avr.go:316-331 `quoteStatusAllowed`, 248-282 `AVRBundle.Open` -/

def iasQuoteStatusAllowed (env : Env) (policy : Option Unit) : Res Bool :=
  if env.statusAlwaysAllowed then pure true                                  -- 320-322
  else if policy.isNone then pure false                                      -- 324-326
  else field .iasStatuses policy env.statusListed                            -- 330

def iasOpen (env : Env) (policy : Option Unit) : Res Unit := do
  -- 249 `policy != nil && policy.Disabled`
  let disabled ← if policy.isSome then field .iasDisabled policy env.iasDisabled else pure false
  if disabled then .err .iasDisabled                                         -- 249-251
  else if !env.avrDecodes then .err .avrInvalid                              -- 253-256
  else do
    let allowed ← iasQuoteStatusAllowed env policy                           -- 259
    if !allowed then .err .quoteStatusNotAllowed                             -- 259-261
    else if policy.isNone then .ok ()                                        -- 263-265
    else do
      let tcbOk ← field .iasMinTcb policy env.tcbNumOk                       -- 269
      if !tcbOk then .err .tcbEvalNumber                                     -- 269-271
      else if !env.avrQuoteOk then .err .avrQuoteOpen                        -- 273-276
      else do
        let black ← field .iasGid policy env.gidBlacklisted                  -- 278
        if black then .err .gidBlacklisted else .ok ()                       -- 278-282

/-! ### pcs/pcs.go:44-50 `QuoteBundle.Verify`, pcs/quote.go:142-208 `Quote.Verify` -/

/-- With `defaulting := false` this is the code without lines 143-150. -/
def pcsVerifyWith (defaulting : Bool) (env : Env) (policy : Option PcsPolicy) : Res Unit :=
  if !env.pcsQuoteParses then .err .pcsQuoteMalformed                        -- pcs.go:45-48
  else do
    -- quote.go:143-150 `if policy == nil { policy = &QuotePolicy{..} }` (Disabled false, TDX nil)
    let defaulted := defaulting && policy.isNone
    let policy := if defaulted then some { tdx := none } else policy
    let disabled ← field .pcsDisabled policy (if defaulted then false else env.pcsDisabled)   -- 152
    if disabled then .err .pcsDisabled                                       -- 152-154
    else do
      match env.tee with                                                     -- 156
      | .sgx => if !env.reportOk then .err .pcsReport else pure ()           -- 157-171
      | .tdx =>                                                              -- 172-192
        if !env.reportOk then .err .pcsReport
        else do
          let pol ← deref .pcsTdxField policy                                -- 186 `policy.TDX`
          if pol.tdx.isNone then .err .teeTypeNotAllowed                     -- 186-188
          else do
            let ok ← field .tdxVerify pol.tdx env.tdxModuleOk                -- 189, policy.go:44
            if !ok then .err .tdxModule else pure ()                         -- 189-191
      | .other => .err .teeTypeUnsupported                                   -- 193-194
      let sigOk ← field .pcsSigPolicy policy env.pcsSignatureOk              -- 196-201
      if !sigOk then .err .pcsSignature else .ok ()

def pcsVerify (env : Env) (policy : Option PcsPolicy) : Res Unit := pcsVerifyWith true env policy

/-! ### quote/quote.go:20-60 `Quote.Verify` -/

/-- `common.ExactlyOneTrue(q.IAS != nil, q.PCS != nil)` (predicates.go:14-16). -/
def exactlyOne (q : QuoteKind) : Bool :=
  (if q.hasIas then 1 else 0) + (if q.hasPcs then 1 else 0) == (1 : Nat)

/-- With `defaulting := false` this is the SEEDED VARIANT C16-r7m1: lines 29-31 removed. -/
def quoteVerifyWith (defaulting : Bool) (env : Env) (q : QuoteKind) (policy : Option Policy) : Res Unit :=
  if !exactlyOne q then .err .notExactlyOneQuote                             -- 22-27
  else
    -- 29-31 `if policy == nil { policy = &Policy{} }`
    let policy := if defaulting && policy.isNone then some { ias := none, pcs := none } else policy
    if q.hasIas then do                                                      -- 34
      let pol ← deref .qvPolicyIas policy                                    -- 36 `policy.IAS`
      iasOpen env pol.ias                                                    -- 36-39
      if !env.avrQuoteOk then .err .isvQuote else .ok ()                     -- 42-53
    else if q.hasPcs then do                                                 -- 54
      let pol ← deref .qvPolicyPcs policy                                    -- 56 `policy.PCS`
      pcsVerify env pol.pcs                                                  -- 56
    else .err .notExactlyOneQuote                                            -- 57-58

/-- The real function. -/
def quoteVerify (env : Env) (q : QuoteKind) (policy : Option Policy) : Res Unit :=
  quoteVerifyWith true env q policy

/-- The seeded variant (no `policy == nil` default). -/
def quoteVerifyNoDefault (env : Env) (q : QuoteKind) (policy : Option Policy) : Res Unit :=
  quoteVerifyWith false env q policy

/-! ### sgx.go:218-263 `SGXAttestation.Verify` -/

/-- The policy handed to `Quote.Verify` (sgx.go:232, 235). -/
def effectivePolicy (cfg : Option Features) (sc : Constraints) : Res (Option Policy) := do
  let sc ← applyDefaults (cfg.getD emptyFeatures) sc
  pure sc.policy

def attestationVerifyWith (defaulting : Bool) (env : Env) (cfg : Option Features) (sa : Attestation)
    (sc : Constraints) : Res Unit := do
  let cfg := cfg.getD emptyFeatures                                          -- 227-229
  let sc ← applyDefaults cfg sc                                              -- 232
  quoteVerifyWith defaulting env sa.quote sc.policy                          -- 235-238
  -- 242-260: `sc`, `verifiedQuote` are non-nil here; `rek` is nil-checked in HashAttestation (301)
  if !env.bindingOk then .err .binding else .ok ()

/-! ### node.go:577-603 `CapabilityTEE.Verify` -/

inductive Hardware where
  | intelSGX | other
  deriving DecidableEq, Repr

/-- `sa = none`: `cbor.Unmarshal(c.Attestation, &sa)` fails. -/
def capabilityVerifyWith (defaulting : Bool) (env : Env) (hw : Hardware) (cfg : Option Features)
    (sa : Option Attestation) (raw : RawConstraints) : Res Unit :=
  match hw with                                                              -- 578
  | .intelSGX =>
    match sa with
    | none => .err .malformedAttestation                                     -- 581-584
    | some sa => do
      attestationValidateBasic cfg sa                                        -- 585-587
      let sc ← decodeConstraints raw                                         -- 590-593
      constraintsValidateBasic env cfg sc                                    -- 594-596
      attestationVerifyWith defaulting env cfg sa sc                         -- 599
  | .other => .err .invalidHardware                                          -- 600-601

/-- The real function. -/
def capabilityVerify := capabilityVerifyWith true

/-- The composition with the seeded variant of `Quote.Verify`. -/
def capabilityVerifyNoDefault := capabilityVerifyWith false

end OasisModel.Tee.PolicyFlow
