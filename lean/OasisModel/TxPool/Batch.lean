import OasisModel.TxPool.Sched
/-
One `HandleTxsUsed` call with several transactions (property C20, batch form).

go/runtime/txpool/main_queue.go:91-98  `HandleTxsUsed(hashes)` takes the lock once and calls
`scheduler.handleTxUsed(hash)` for every hash of the slice, in slice order.
go/runtime/txpool/main_queue_scheduler.go:184-196  `handleTxUsed`: look the hash up, `delete`
the transaction, and when `tx.seq < math.MaxUint64` `forward(tx.sender, tx.seq+1)`;
:152-180 `forward` is a no-op for an unknown sender or when `seq <= seqHeap.seq`, otherwise it
sets the sender's sequence number and removes every transaction of the sender below it.
The callers build the slice by ranging over a Go map or from the runtime's answer, i.e. in an
arbitrary order.

`usedBatch` is that loop on the reference model.  `gen` is an order-free closed form (remove a
set of identifiers, raise per-sender thresholds) used by the proofs in `Props/C20Batch.lean`;
`usedBatchLast` is the seeded variant C20-r7m1 (each sender forwarded once, to one past the LAST
listed transaction of that sender).  Core Lean only.
-/
namespace OasisModel.TxPool

/-- One `HandleTxsUsed` call: the single-transaction steps in slice order. -/
def usedBatch (s : State) (ids : List Nat) : State := ids.foldl txUsed s

/-- The sequence number `handleTxUsed` forwards the sender to for transaction `t`
(`tx.seq+1`; no forward at `math.MaxUint64`, written as the no-op target 0). -/
def nOf (t : Tx) : Nat := if t.seq < maxSeq then t.seq + 1 else 0

/-- Only sender `a` is forwarded, to `n`. -/
def single (a n : Nat) : Nat → Nat := fun b => if b = a then n else 0

/-- Raise the target of `t`'s sender to one past `t`. -/
def bump (N : Nat → Nat) (t : Tx) : Nat → Nat :=
  fun a => if a = t.sender then max (N a) (nOf t) else N a

def stepN (s : State) (N : Nat → Nat) (i : Nat) : Nat → Nat :=
  match findId s i with
  | none => N
  | some t => bump N t

/-- Per-sender forward target of a batch: one past the highest sequence number (below
`maxSeq`) among the listed transactions of the sender that are in the pool `s`; 0 if none. -/
def targets (s : State) (ids : List Nat) : Nat → Nat := ids.foldl (stepN s) (fun _ => 0)

/-- Effective threshold: `forward` only acts on a known sender and only strictly upwards. -/
def thr (s : State) (N : Nat → Nat) (a : Nat) : Nat :=
  match s.cur a with
  | some c => if c < N a then N a else 0
  | none => 0

/-- A transaction survives when it is not listed and not below its sender's threshold. -/
def keep (s : State) (R : List Nat) (N : Nat → Nat) (t : Tx) : Bool :=
  !R.contains t.id && !decide (t.seq < thr s N t.sender)

/-- Closed form: remove the identifiers `R`, forward every sender `a` to `N a`; a sender that
had transactions and has none left loses its entry. -/
def gen (s : State) (R : List Nat) (N : Nat → Nat) : State :=
  { s with txs := s.txs.filter (keep s R N),
           cur := fun a =>
             if hasSender s.txs a && !hasSender (s.txs.filter (keep s R N)) a then none
             else (s.cur a).map (fun c => max c (N a)) }

/-- Order-free specification of one `HandleTxsUsed` call. -/
def batchSpec (s : State) (ids : List Nat) : State := gen s ids (targets s ids)

/-! ### the seeded variant C20-r7m1 (`handleTxsUsed` with one forward per sender) -/

/-- `forwards[sender] = seq` on an insertion-ordered association list
(`senders` slice + `forwards` map of the mutant). -/
def setFw : List (Nat × Nat) → Nat → Nat → List (Nat × Nat)
  | [], a, n => [(a, n)]
  | (b, m) :: rest, a, n => if b = a then (b, n) :: rest else (b, m) :: setFw rest a n

/-- The mutant: delete every listed transaction, remember for each sender one past the LAST
listed transaction, then forward each sender once. -/
def usedBatchLast (s : State) (ids : List Nat) : State :=
  let acc := ids.foldl (fun (acc : State × List (Nat × Nat)) id =>
    match findId acc.1 id with
    | none => acc
    | some t => (removeTx acc.1 t,
        if t.seq < maxSeq then setFw acc.2 t.sender (t.seq + 1) else acc.2)) (s, [])
  acc.2.foldl (fun s an => forward s an.1 an.2) acc.1

/-- The identifier determines the transaction (holds in every reachable pool: `step` rejects an
`add` whose identifier is queued). -/
def IdsDistinct (s : State) : Prop := ∀ u ∈ s.txs, ∀ v ∈ s.txs, u.id = v.id → u = v

end OasisModel.TxPool
