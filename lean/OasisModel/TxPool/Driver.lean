import OasisModel.Proto
import OasisModel.TxPool.Sched
/-
Driver for the txpool reference model, used as a checker with witness:
each input line carries the operation *and* what the implementation answered; the model
checks that the answer is allowed and follows the implementation's choice.

  new <cap>
  add  <id> <sender> <seq> <prio> <stateSeq> <result> <all-ids>     scheduler.add
  qadd <id> <sender> <seq> <prio> <stateSeq> <result> <all-ids>     mainQueue.Add (forward+add)
  schedule <limit> <ids in schedule order>
  reset | clear
  used <id> | forward <sender> <seq>
  all <ids sorted>
Answers: `ok` or `DIVERGE <detail>`; after a divergence every line is answered `skip`.
-/
namespace OasisModel.TxPool.Driver
open OasisModel.Proto OasisModel.TxPool

structure St where
  s : State
  dead : Bool := false

def lookupTxs (s : State) (ids : List Nat) : Option (List Tx) :=
  ids.mapM (fun i => findId s i)

def doAdd (q : Bool) (s : State) (t : Tx) (stateSeq : Nat) (res : String) (all : List Nat) :
    Except String State :=
  let s0 := if q then forward s t.sender stateSeq else s
  -- candidates for the evicted transaction: members of pool ∪ {t} absent from the answer
  let cands := (t :: s0.txs).filter (fun u => !all.contains u.id)
  let tryWith (v : Option Tx) : Except String State :=
    match addWith s0 t stateSeq v with
    | none => .error s!"eviction victim {v.map (·.id)} not of minimal priority"
    | some (s', r) =>
      if r.toString != res then .error s!"add result model={r.toString} impl={res}"
      else if allIds s' != all then .error s!"contents model={showNats (allIds s')} impl={showNats all}"
      else .ok s'
  -- first the deterministic path; on failure each candidate victim
  match tryWith none with
  | .ok s' => .ok s'
  | .error e => match cands.filterMap (fun v => match tryWith (some v) with | .ok s' => some s' | _ => none) with
    | s' :: _ => .ok s'
    | [] => .error e

def step (st : St) (line : String) : St × String :=
  if st.dead then (st, "skip") else
  let fail (msg : String) : St × String := ({ st with dead := true }, "DIVERGE " ++ msg)
  match words line with
  | ["new", c] => match c.toNat? with
    | some c => ({ s := init c }, "ok")
    | none => fail "bad-op"
  | [op, id, a, q, p, ss, res, all] =>
    if op != "add" && op != "qadd" then fail "bad-op" else
    match id.toNat?, a.toNat?, q.toNat?, p.toNat?, ss.toNat?, parseNats all with
    | some id, some a, some q, some p, some ss, some all =>
      if res == "PANIC" then fail "implementation panicked in add" else
      match doAdd (op == "qadd") st.s { id := id, sender := a, seq := q, prio := p } ss res all with
      | .ok s' => ({ st with s := s' }, "ok")
      | .error e => fail e
    | _, _, _, _, _, _ => fail "bad-op"
  | ["schedule", lim, ids] =>
    if ids == "PANIC" then fail "implementation panicked in schedule" else
    match lim.toNat?, parseNats ids with
    | some lim, some ids =>
      match lookupTxs st.s ids with
      | none => fail s!"scheduled a transaction not in the pool: {showNats ids}"
      | some ts =>
        match scheduleOk lim st.s ts with
        | some s' => ({ st with s := s' }, "ok")
        | none =>
          let (mts, _) := schedule lim st.s
          fail s!"schedule limit={lim} impl={showNats ids} not allowed; model(det)={showNats (mts.map (·.id))} ready={showNats ((readyList st.s).map (·.id))}"
    | _, _ => fail "bad-op"
  | ["reset", r] => if r == "PANIC" then fail "implementation panicked in reset" else ({ st with s := reset st.s }, "ok")
  | ["reset"] => ({ st with s := reset st.s }, "ok")
  | ["clear"] => ({ st with s := clear st.s }, "ok")
  | ["used", id] => match id.toNat? with
    | some id => ({ st with s := txUsed st.s id }, "ok")
    | none => fail "bad-op"
  | ["used", _, "PANIC"] => fail "implementation panicked in handleTxUsed"
  | ["forward", a, n] => match a.toNat?, n.toNat? with
    | some a, some n => ({ st with s := forward st.s a n }, "ok")
    | _, _ => fail "bad-op"
  | ["forward", _, _, "PANIC"] => fail "implementation panicked in forward"
  | ["all", ids] => match parseNats ids with
    | some ids => if allIds st.s == ids then (st, "ok") else fail s!"contents model={showNats (allIds st.s)} impl={showNats ids}"
    | none => fail "bad-op"
  | [] => (st, "ok")
  | _ => fail "bad-op"

def main : IO Unit := loop step { s := init 0 }

end OasisModel.TxPool.Driver
