import OasisModel.Proto
import OasisModel.TxPool.Sched
import OasisModel.TxPool.Impl
/-
Driver for the txpool reference model, used as a checker with witness:
each input line carries the operation *and* what the implementation answered; the model
checks that the answer is allowed and follows the implementation's choice.

  new <cap>
  add  <id> <sender> <seq> <prio> <stateSeq> <result> <all-ids>     scheduler.add
  qadd <id> <sender> <seq> <prio> <stateSeq> <result> <all-ids>     mainQueue.Add (forward+add)
  schedule <limit> <ids in schedule order>
  reset | clear
  used <id> | usedn <id,id,...> | forward <sender> <seq>
  all <ids sorted>
  st <max-heap ids sorted> <scheduled: a,q,... by a> <senders: a,seq,k,id1..idk,... by a>
      the implementation's state after the previous operation; compared with the
      implementation-level model `Impl` (max heap content, `scheduled`, sender heaps)
Every operation is executed on the reference model *and*, with the same witnesses, on the
implementation-level model; the two are compared after every operation (`abs`), and a `Fault`
outcome of the implementation-level model is a divergence.
Answers: `ok` or `DIVERGE <detail>`; after a divergence every line is answered `skip`.
-/
namespace OasisModel.TxPool.Driver
open OasisModel.Proto OasisModel.TxPool

structure St where
  s : State
  /-- implementation-level model, run in lock-step with the reference model -/
  i : Impl.State
  /-- sender identifiers seen so far (the `senders` map of `Impl` is a function) -/
  known : List Nat := []
  dead : Bool := false

def lookupTxs (s : State) (ids : List Nat) : Option (List Tx) :=
  ids.mapM (fun i => findId s i)

def doAdd (q : Bool) (s : State) (t : Tx) (stateSeq : Nat) (res : String) (all : List Nat) :
    Except String (State × Option Tx) :=
  let s0 := if q then forward s t.sender stateSeq else s
  -- candidates for the evicted transaction: members of pool ∪ {t} absent from the answer
  let cands := (t :: s0.txs).filter (fun u => !all.contains u.id)
  let tryWith (v : Option Tx) : Except String (State × Option Tx) :=
    match addWith s0 t stateSeq v with
    | none => .error s!"eviction victim {v.map (·.id)} not of minimal priority"
    | some (s', r) =>
      if r.toString != res then .error s!"add result model={r.toString} impl={res}"
      else if allIds s' != all then .error s!"contents model={showNats (allIds s')} impl={showNats all}"
      else .ok (s', v)
  -- first the deterministic path; on failure each candidate victim
  match tryWith none with
  | .ok r => .ok r
  | .error e => match cands.filterMap (fun v => match tryWith (some v) with | .ok r => some r | _ => none) with
    | r :: _ => .ok r
    | [] => .error e

def insertNat (a : Nat) : List Nat → List Nat
  | [] => [a]
  | b :: bs => if a < b then a :: b :: bs else if a = b then b :: bs else b :: insertNat a bs

/-- Does the implementation-level state stand for the reference state (`Impl.abs`)?  Checked
on the queue, the capacity, the picks and, for every sender seen so far, the current and the
last scheduled sequence number; and the max heap content must be the reference ready set. -/
def agree (known : List Nat) (i : Impl.State) (s : State) : Option String :=
  if i.txs != s.txs then some "txs" else
  if i.cap != s.cap then some "cap" else
  if i.picked != s.picked then some "picked" else
  if known.any (fun a => (i.senders a).map (·.seq) != s.cur a) then some "sender-seq" else
  if known.any (fun a => Impl.getSched i.scheduled a != s.sched a) then some "scheduled" else
  if Impl.sortedIds i.pending != Impl.sortedIds (readyList s) then
    some s!"max-heap={showNats (Impl.sortedIds i.pending)} ready={showNats (Impl.sortedIds (readyList s))}"
  else none

def schedFlat (known : List Nat) (i : Impl.State) : List Nat :=
  known.flatMap (fun a => match Impl.getSched i.scheduled a with | some q => [a, q] | none => [])

def sendersFlat (known : List Nat) (i : Impl.State) : List Nat :=
  known.flatMap (fun a => match i.senders a with
    | some r => [a, r.seq, r.txs.length] ++ Impl.sortedIds r.txs
    | none => [])

def step (st : St) (line : String) : St × String :=
  if st.dead then (st, "skip") else
  let fail (msg : String) : St × String := ({ st with dead := true }, "DIVERGE " ++ msg)
  -- both models made a step: they must still agree
  let both (s' : State) (r : Except Impl.Fault Impl.State) (known : List Nat) : St × String :=
    match r with
    | .error f => fail s!"impl-model fault {f.toString}"
    | .ok i' => match agree known i' s' with
      | some d => fail s!"impl-model does not refine the reference model: {d}"
      | none => ({ st with s := s', i := i', known := known }, "ok")
  match words line with
  | ["new", c] => match c.toNat? with
    | some c => ({ s := init c, i := Impl.init c }, "ok")
    | none => fail "bad-op"
  | [op, id, a, q, p, ss, res, all] =>
    if op != "add" && op != "qadd" then fail "bad-op" else
    match id.toNat?, a.toNat?, q.toNat?, p.toNat?, ss.toNat?, parseNats all with
    | some id, some a, some q, some p, some ss, some all =>
      if res == "PANIC" then fail "implementation panicked in add" else
      let t : Tx := { id := id, sender := a, seq := q, prio := p }
      match doAdd (op == "qadd") st.s t ss res all with
      | .ok (s', v) =>
        let r := if op == "qadd" then Impl.queueAdd st.i t ss v else Impl.add st.i t ss v
        match r with
        | .error f => fail s!"impl-model fault {f.toString}"
        | .ok none => fail "impl-model rejects the eviction victim the reference model accepts"
        | .ok (some (i', ri)) =>
          if ri.toString != res then fail s!"add result impl-model={ri.toString} impl={res}"
          else both s' (.ok i') (insertNat a st.known)
      | .error e => fail e
    | _, _, _, _, _, _ => fail "bad-op"
  | ["schedule", lim, ids] =>
    if ids == "PANIC" then fail "implementation panicked in schedule" else
    match lim.toNat?, parseNats ids with
    | some lim, some ids =>
      match lookupTxs st.s ids with
      | none => fail s!"scheduled a transaction not in the pool: {showNats ids}"
      | some ts =>
        match scheduleOk lim st.s ts with
        | some s' =>
          match Impl.scheduleOk lim st.i ts with
          | .error f => fail s!"impl-model fault {f.toString}"
          | .ok none => fail s!"schedule limit={lim} impl={showNats ids} not allowed by the impl-model; max-heap={showNats (Impl.sortedIds st.i.pending)}"
          | .ok (some i') => both s' (.ok i') st.known
        | none =>
          let (mts, _) := schedule lim st.s
          fail s!"schedule limit={lim} impl={showNats ids} not allowed; model(det)={showNats (mts.map (·.id))} ready={showNats ((readyList st.s).map (·.id))}"
    | _, _ => fail "bad-op"
  | ["reset", r] => if r == "PANIC" then fail "implementation panicked in reset" else fail "bad-op"
  | ["reset"] => both (reset st.s) (Impl.reset st.i) st.known
  | ["clear"] => both (clear st.s) (.ok (Impl.clear st.i)) st.known
  | ["used", id] => match id.toNat? with
    | some id => both (txUsed st.s id) (Impl.handleTxUsed st.i id) st.known
    | none => fail "bad-op"
  | ["used", _, "PANIC"] => fail "implementation panicked in handleTxUsed"
  | ["usedn", ids] => match parseNats ids with
    -- one HandleTxsUsed call with several transactions = the single-transaction steps in that order
    | some ids =>
      let s' := ids.foldl txUsed st.s
      let i' := ids.foldl (fun (acc : Except Impl.Fault Impl.State) id => acc.bind (fun i => Impl.handleTxUsed i id)) (.ok st.i)
      both s' i' st.known
    | none => fail "bad-op"
  | ["usedn", _, "PANIC"] => fail "implementation panicked in HandleTxsUsed"
  | ["forward", a, n] => match a.toNat?, n.toNat? with
    | some a, some n => both (forward st.s a n) (Impl.forward st.i a n) st.known
    | _, _ => fail "bad-op"
  | ["forward", _, _, "PANIC"] => fail "implementation panicked in forward"
  | ["all", ids] => match parseNats ids with
    | some ids => if allIds st.s == ids then (st, "ok") else fail s!"contents model={showNats (allIds st.s)} impl={showNats ids}"
    | none => fail "bad-op"
  | ["st", heap, sched, snd] => match parseNats heap, parseNats sched, parseNats snd with
    | some heap, some sched, some snd =>
      if Impl.sortedIds st.i.pending != heap then
        fail s!"state max-heap impl-model={showNats (Impl.sortedIds st.i.pending)} impl={showNats heap}"
      else if schedFlat st.known st.i != sched then
        fail s!"state scheduled impl-model={showNats (schedFlat st.known st.i)} impl={showNats sched}"
      else if sendersFlat st.known st.i != snd then
        fail s!"state senders impl-model={showNats (sendersFlat st.known st.i)} impl={showNats snd}"
      else (st, "ok")
    | _, _, _ => fail "bad-op"
  | ["st", "BROKEN", _] => fail "state max-heap bookkeeping of the implementation violated"
  | [] => (st, "ok")
  | _ => fail "bad-op"

def main : IO Unit := loop step { s := init 0, i := Impl.init 0 }

end OasisModel.TxPool.Driver
