import OasisModel.TxPool.Sched
/-
Implementation-level model of the runtime transaction pool's main-queue scheduler
(go/runtime/txpool/main_queue_scheduler.go, heap.go), property C20.

`Sched.lean` is the declarative reference model: the set of ready transactions is *computed*
from (txs, per-sender current sequence, per-pass last scheduled sequence).  The Go code instead
maintains that set *incrementally* in a max-priority heap that holds at most one "pending
schedule" transaction per sender and is updated by insert / remove / replace / forward /
scheduleOne / restoreMaxHeap.  This file models that incremental maintenance, function by
function, as the Go code writes it; `OasisProofs/Props/C20Impl.lean` proves that it refines the
reference model for every operation history.

Modelling decisions (each is stated so that it can be checked against the Go text):
* A heap is modelled by the list of the elements it holds (its *content*).  `peek` of the
  max-priority heap is any element of maximal priority, taken as a witness and checked
  (`peekOk`), exactly as the reference model does for picks; `peek` of the min-priority heap is
  any element of minimal priority (witness `victim`, `evictOk`); `peek` of a sender's sequence
  heap is the element of least sequence number (`minSeq`; unique because `add` never stores two
  transactions with the same sender and sequence number).
* `tx.maxHeapIndex != -1` (`isPendingSchedule`) is "the transaction is in the max heap's
  content" (`isPending`).  The Go heap operations that index the backing slice with that field
  panic when it is -1: `heap.Remove(h, -1)` and `(*h)[-1] = new`.  These are explicit guards
  here and yield a `Fault` outcome, so panics are visible in the model.  Pushing an element that
  is already in a heap (which would silently corrupt the index bookkeeping) is a `Fault` too.
* A sender's `senderTxHeap` (`txs` map by sequence number + `seqHeap`) is one list `Rec.txs`
  (both are updated together by push/remove/replace); `get seq` is a lookup by sequence number.
  The global `minHeap` holds exactly the values of the `txs` map (both are updated together by
  insert/remove/replace) and is identified with `State.txs`; its panicking guards are kept.
* `*senderTxHeap` pointers are modelled by the key under which the heap is registered in
  `senders`.  Where Go keeps using a local pointer after the heap was deleted from the map (it is
  empty then), the model reads "absent" as "empty".
* `uint64` arithmetic is explicit: `succ64 x = (x + 1) mod 2^64`; the `math.MaxUint64` guards
  of the Go code are modelled as written.
* `scheduled` is an association list so that `reset` can iterate over it; `resetWith` takes the
  iteration order as a parameter (Go's map iteration order is unspecified).
* `picked` is a ghost field (the output of the pass so far), as in the reference model.

Core Lean only (linked into the `om_txpool` executable).
-/
namespace OasisModel.TxPool.Impl
open OasisModel.TxPool

/-- Outcomes the Go code cannot return from: panics and corrupted heap bookkeeping. -/
inductive Fault where
  /-- `heap.Remove(h, tx.index)` with `tx.index == -1` -/
  | removeAbsent
  /-- `(*h)[old.index] = new` with `old.index == -1` -/
  | replaceAbsent
  /-- `heap.Push` of an element the heap already holds (index bookkeeping corrupted) -/
  | doublePush
  /-- a `*senderTxHeap` the model cannot resolve (never the case in Go: pointers stay valid) -/
  | nilSender
  /-- model artefact: the `forward` loop did not finish within its fuel -/
  | fuel
deriving DecidableEq, Repr

def Fault.toString : Fault → String
  | .removeAbsent => "panic:heap-remove-absent" | .replaceAbsent => "panic:heap-replace-absent"
  | .doublePush => "corrupt:heap-double-push" | .nilSender => "nil-sender" | .fuel => "fuel"

/-- `senderTxHeap`. -/
structure Rec where
  /-- latest confirmed sequence number of the sender -/
  seq : Nat
  /-- content of `seqHeap` / values of `txs` -/
  txs : List Tx

structure State where
  cap : Nat
  /-- values of the `txs` map (= content of `minHeap`) -/
  txs : List Tx
  senders : Nat → Option Rec
  /-- content of `maxHeap` -/
  pending : List Tx
  /-- `scheduled` map as an association list (keys are distinct) -/
  scheduled : List (Nat × Nat)
  /-- ghost: picks since the last reset, most recent first -/
  picked : List Tx

def init (cap : Nat) : State :=
  { cap := cap, txs := [], senders := fun _ => none, pending := [], scheduled := [], picked := [] }

/-- `x + 1` in `uint64`. -/
def succ64 (x : Nat) : Nat := (x + 1) % 2 ^ 64

def updS (f : Nat → Option Rec) (k : Nat) (v : Option Rec) : Nat → Option Rec :=
  fun x => if x = k then v else f x

/-- `s.scheduled[a]` -/
def getSched (m : List (Nat × Nat)) (a : Nat) : Option Nat :=
  match m with
  | [] => none
  | (k, v) :: m => if k = a then some v else getSched m a

/-- `s.scheduled[a] = q` -/
def setSched (m : List (Nat × Nat)) (a q : Nat) : List (Nat × Nat) :=
  (a, q) :: m.filter (fun e => e.1 != a)

/-! ### heaps as contents -/

/-- `heap.Push`. -/
def heapPush (h : List Tx) (t : Tx) : Except Fault (List Tx) :=
  if h.contains t then .error .doublePush else .ok (t :: h)

/-- `heap.Remove(h, t.index)`; panics when `t.index == -1`. -/
def heapRemove (h : List Tx) (t : Tx) : Except Fault (List Tx) :=
  if h.contains t then .ok (h.erase t) else .error .removeAbsent

/-- `new.index = old.index; old.index = -1; h[new.index] = new; heap.Fix`. -/
def heapReplace (h : List Tx) (new old : Tx) : Except Fault (List Tx) :=
  if h.contains old then
    if (h.erase old).contains new then .error .doublePush else .ok (new :: h.erase old)
  else .error .replaceAbsent

/-- Element of least sequence number (`seqNumTxHeap.peek`). -/
def minSeq : List Tx → Option Tx
  | [] => none
  | t :: ts => match minSeq ts with
    | none => some t
    | some u => if t.seq ≤ u.seq then some t else some u

/-- `senderTxHeap.get`. -/
def Rec.get (r : Rec) (q : Nat) : Option Tx := r.txs.find? (fun u => u.seq == q)

/-! ### the scheduler's private functions -/

/-- `isPendingSchedule`: `tx.maxHeapIndex != -1`. -/
def isPending (s : State) (t : Tx) : Bool := s.pending.contains t

/-- `isSchedulable(tx, seqHeap)`. -/
def isSchedulable (s : State) (t : Tx) (r : Rec) : Bool :=
  match getSched s.scheduled t.sender with
  | some last => if last == maxSeq then false else t.seq == succ64 last
  | none => t.seq == r.seq

/-- `insert(tx, seqHeap)`, `seqHeap` being registered under key `a`. -/
def insert (s : State) (a : Nat) (t : Tx) : Except Fault State :=
  match s.senders a with
  | none => .error .nilSender
  | some r => do
    let rtxs ← heapPush r.txs t                                   -- seqHeap.push(tx)
    let r' : Rec := { r with txs := rtxs }
    let s1 : State := { s with txs := t :: s.txs,                  -- s.txs[hash] = tx; minHeap.push(tx)
                               senders := updS s.senders a (some r') }
    if isSchedulable s1 t r' then
      let p ← heapPush s1.pending t                                -- maxHeap.push(tx)
      pure { s1 with pending := p }
    else pure s1

/-- `remove(tx, seqHeap)`, `seqHeap` being registered under key `a`. -/
def remove (s : State) (a : Nat) (t : Tx) : Except Fault State :=
  match s.senders a with
  | none => .error .nilSender
  | some r => do
    let rtxs ← heapRemove r.txs t                                  -- seqHeap.remove(tx)
    if !s.txs.contains t then throw Fault.removeAbsent             -- minHeap.remove(tx)
    let p ← if isPending s t then heapRemove s.pending t else pure s.pending
    let senders1 := updS s.senders a (some { r with txs := rtxs })
    -- if seqHeap.empty() { delete(s.senders, tx.sender) }
    let senders2 := if rtxs.isEmpty then updS senders1 t.sender none else senders1
    pure { s with txs := s.txs.filter (fun u => u.id != t.id),     -- delete(s.txs, hash)
                  senders := senders2, pending := p }

/-- `replace(new, old, seqHeap)`. -/
def replace (s : State) (a : Nat) (new old : Tx) : Except Fault State :=
  match s.senders a with
  | none => .error .nilSender
  | some r => do
    let rtxs ← heapReplace r.txs new old                           -- seqHeap.replace(new, old)
    if !s.txs.contains old then throw Fault.replaceAbsent          -- minHeap.replace(new, old)
    let p ← if isPending s old then heapReplace s.pending new old else pure s.pending
    pure { s with txs := new :: s.txs.filter (fun u => u.id != old.id),
                  senders := updS s.senders a (some { r with txs := rtxs }), pending := p }

/-- `delete(tx)`. -/
def delete (s : State) (t : Tx) : Except Fault State :=
  match s.senders t.sender with
  | none => pure s
  | some _ => remove s t.sender t

/-- The `for` loop of `forward`: remove the sender's transactions below `n`, least first.
The local `seqHeap` pointer is the heap registered under `a`, or an empty detached heap. -/
def forwardLoop : Nat → State → Nat → Nat → Except Fault State
  | 0, _, _, _ => .error .fuel
  | fuel + 1, s, a, n =>
    match s.senders a with
    | none => pure s
    | some r =>
      match minSeq r.txs with
      | none => pure s
      | some t => if t.seq ≥ n then pure s else do
        let s' ← remove s a t
        forwardLoop fuel s' a n

/-- `forward(sender, seq)`. -/
def forward (s : State) (a n : Nat) : Except Fault State :=
  match s.senders a with
  | none => pure s
  | some r =>
    if n ≤ r.seq then pure s else do
      let s1 : State := { s with senders := updS s.senders a (some { r with seq := n }) }
      let s2 ← forwardLoop (r.txs.length + 1) s1 a n
      -- The sender's first pending transaction may have become schedulable.
      match s2.senders a with
      | none => pure s2
      | some r2 =>
        match minSeq r2.txs with
        | none => pure s2
        | some t =>
          if !isPending s2 t && isSchedulable s2 t r2 then do
            let p ← heapPush s2.pending t
            pure { s2 with pending := p }
          else pure s2

/-- `handleTxUsed(hash)`. -/
def handleTxUsed (s : State) (id : Nat) : Except Fault State :=
  match s.txs.find? (fun t => t.id == id) with
  | none => pure s
  | some t => do
    let s1 ← delete s t
    if t.seq < maxSeq then forward s1 t.sender (succ64 t.seq) else pure s1

/-- `nextSchedulable(tx)`. -/
def nextSchedulable (s : State) (t : Tx) : Option Tx :=
  if t.seq == maxSeq then none else
  match s.senders t.sender with
  | none => none
  | some r => r.get (succ64 t.seq)

/-- `w` may be what `maxHeap.peek()` returns: in the heap and of maximal priority. -/
def peekOk (s : State) (w : Tx) : Bool :=
  s.pending.contains w && s.pending.all (fun u => u.prio ≤ w.prio)

/-- `scheduleOne()` when `maxHeap.peek()` returned `w`. -/
def scheduleOne (s : State) (w : Tx) : Except Fault State := do
  let p ← match nextSchedulable s w with
    | some next => heapReplace s.pending next w                    -- maxHeap.replace(next, highest)
    | none => heapRemove s.pending w                               -- maxHeap.remove(highest)
  pure { s with pending := p, scheduled := setSched s.scheduled w.sender w.seq,
                picked := w :: s.picked }

/-- Follow the picks `maxHeap.peek()` made in one `schedule(limit)` call;
`none`: some pick was not a maximal element of the heap. -/
def followPicks : List Tx → State → Except Fault (Option State)
  | [], s => pure (some s)
  | w :: ws, s => if peekOk s w then do
      let s' ← scheduleOne s w
      followPicks ws s'
    else pure none

/-- `schedule(limit)` returned `ws`: every pick allowed, at most `min limit maxBatchSize` picks,
and the loop stops early only when the heap is empty. -/
def scheduleOk (limit : Nat) (s : State) (ws : List Tx) : Except Fault (Option State) :=
  if ws.length ≤ min limit maxBatchSize then do
    match ← followPicks ws s with
    | none => pure none
    | some s' => if ws.length < min limit maxBatchSize && !s'.pending.isEmpty then pure none
                 else pure (some s')
  else pure none

/-- `first, _ := seqHeap.peek(); if first.seq != seqHeap.seq { first = nil }` -/
def Rec.first (r : Rec) : Option Tx :=
  match minSeq r.txs with
  | some f => if f.seq != r.seq then none else some f
  | none => none

/-- `var current; if seq < math.MaxUint64 { current, _ = seqHeap.get(seq + 1) }` -/
def Rec.current (r : Rec) (last : Nat) : Option Tx :=
  if last < maxSeq then r.get (succ64 last) else none

/-- The `switch` of `restoreMaxHeap`. -/
def restoreSwitch (s : State) : Option Tx → Option Tx → Except Fault State
  | some c, some f => do
    let p ← heapReplace s.pending f c                              -- maxHeap.replace(first, current)
    pure { s with pending := p }
  | some c, none => do
    let p ← heapRemove s.pending c                                 -- maxHeap.remove(current)
    pure { s with pending := p }
  | none, some f => do
    let p ← heapPush s.pending f                                   -- maxHeap.push(first)
    pure { s with pending := p }
  | none, none => pure s

/-- `restoreMaxHeap(sender, seq)`. -/
def restoreMaxHeap (s : State) (a last : Nat) : Except Fault State :=
  match s.senders a with
  | none => pure s
  | some r =>
    if r.txs.isEmpty then pure s else
    if last < maxSeq && r.seq == succ64 last then pure s else
    restoreSwitch s (r.current last) r.first

def restoreAll : List (Nat × Nat) → State → Except Fault State
  | [], s => pure s
  | (a, q) :: rest, s => do
    let s' ← restoreMaxHeap s a q
    restoreAll rest s'

/-- `reset()` iterating over `scheduled` in the given order. -/
def resetWith (s : State) (order : List (Nat × Nat)) : Except Fault State := do
  let s' ← restoreAll order s
  pure { s' with scheduled := [], picked := [] }

def reset (s : State) : Except Fault State := resetWith s s.scheduled

/-- `clear()`: the schedule is deliberately kept. -/
def clear (s : State) : State :=
  { s with txs := [], senders := fun _ => none, pending := [] }

/-- `minHeap.peek()` returned `v`: queued and of minimal priority. -/
def evictOk (s : State) (v : Tx) : Bool :=
  s.txs.contains v && s.txs.all (fun u => v.prio ≤ u.prio)

/-- `add(tx, seq)`.  `victim` is what `minHeap.peek()` returns in `trim` (`none`: the
deterministic minimum).  Inner `none`: the supplied victim is not a minimal element. -/
def add (s : State) (t : Tx) (stateSeq : Nat) (victim : Option Tx) :
    Except Fault (Option (State × AddRes)) :=
  -- seqHeap, ok := s.senders[tx.sender]; if !ok { seqHeap = newSenderTxHeap(seq); ... }
  let s0 : State := match s.senders t.sender with
    | some _ => s
    | none => { s with senders := updS s.senders t.sender (some { seq := stateSeq, txs := [] }) }
  match s0.senders t.sender with
  | none => .error .nilSender
  | some r =>
    if t.seq < r.seq then pure (some (s0, .expired)) else
    match r.get t.seq with
    | some old =>
      if old.prio ≥ t.prio then pure (some (s0, .replaceUnderpriced)) else do
        let s1 ← replace s0 t.sender t old
        pure (some (s1, .ok))
    | none => do
      let s1 ← insert s0 t.sender t
      -- trim()
      if s1.txs.length ≤ s1.cap then pure (some (s1, .ok)) else
      match chooseVictim s1.txs victim with
      | none => pure (some (s1, .ok))
      | some v =>
        if evictOk s1 v then do
          let s2 ← delete s1 v
          pure (some (s2, if v == t then .underpriced else .ok))
        else pure none

/-- `mainQueue.Add`: `forward(sender, stateSeq)` then `add`. -/
def queueAdd (s : State) (t : Tx) (stateSeq : Nat) (victim : Option Tx) :
    Except Fault (Option (State × AddRes)) := do
  let s1 ← forward s t.sender stateSeq
  add s1 t stateSeq victim

def freshId (s : State) (t : Tx) : Bool := s.txs.all (fun u => u.id != t.id)

/-- One step of a history (same operations and conventions as the reference `step`). -/
def step (s : State) : Op → Except Fault State
  | .add t ss v => if freshId s t then do
      match ← add s t ss v with | some (s', _) => pure s' | none => pure s else pure s
  | .qadd t ss v => if freshId s t then do
      match ← queueAdd s t ss v with | some (s', _) => pure s' | none => pure s else pure s
  | .pick w => if peekOk s w then scheduleOne s w else pure s
  | .reset => reset s
  | .clear => pure (clear s)
  | .used id => handleTxUsed s id
  | .forward a n => forward s a n

def run : State → List Op → Except Fault State
  | s, [] => pure s
  | s, op :: ops => do
    let s' ← step s op
    run s' ops

/-- Inputs are `uint64`: every sequence number carried by the operation is at most 2^64-1. -/
def Op.wf : Op → Prop
  | .add t ss _ => t.seq ≤ maxSeq ∧ ss ≤ maxSeq
  | .qadd t ss _ => t.seq ≤ maxSeq ∧ ss ≤ maxSeq
  | .forward _ n => n ≤ maxSeq
  | _ => True

/-- The reference state an implementation state stands for. -/
def abs (s : State) : OasisModel.TxPool.State :=
  { cap := s.cap, txs := s.txs, cur := fun a => (s.senders a).map (·.seq),
    sched := getSched s.scheduled, picked := s.picked }

/-! ### state dump for the state-by-state tie (driver) -/

def sortedIds (l : List Tx) : List Nat := (l.map (·.id)).mergeSort (· ≤ ·)

end OasisModel.TxPool.Impl
