/-
Reference model of the runtime transaction pool's main-queue scheduler
(go/runtime/txpool/main_queue_scheduler.go, heap.go, main_queue.go).

This is the *straightforward reference model* of property C20: the pool is a set of
transactions, a per-sender current sequence number and, while a scheduling pass is in
progress, the per-sender last scheduled sequence number.  The set of transactions that may be
scheduled next ("ready") is *computed* from that state; the implementation instead maintains
three heaps incrementally.  Wherever the implementation may legitimately choose among equals
(equal priorities for the next pick or for eviction) the model takes the implementation's
choice as a witness and checks that it is allowed (`pickOk`, `evictOk`), and a deterministic
choice (`argmax`/`argmin`) is provided so that the theorems also speak about a function.

Sequence numbers are natural numbers below 2^64 (`maxSeq`); "the successor of the last
scheduled sequence" is `last + 1` in ℕ, so nothing is ever the successor of 2^64-1.
Core Lean only (this file is linked into the `oasis_model` executable).
-/
namespace OasisModel.TxPool

/-- Largest sequence number (`math.MaxUint64`). -/
def maxSeq : Nat := 2 ^ 64 - 1

/-- Upper bound on one scheduling batch (`maxBatchSize`). -/
def maxBatchSize : Nat := 100

structure Tx where
  id : Nat        -- stands for the transaction hash
  sender : Nat
  seq : Nat
  prio : Nat
deriving DecidableEq, Repr, Inhabited

/-- Functional update of a finite map represented as a function. -/
def upd (f : Nat → Option Nat) (k : Nat) (v : Option Nat) : Nat → Option Nat :=
  fun x => if x = k then v else f x

structure State where
  cap : Nat
  txs : List Tx
  /-- per-sender current (latest confirmed) sequence number; `senders[a].seq` -/
  cur : Nat → Option Nat
  /-- per-sender last scheduled sequence number of the pass in progress; `scheduled` -/
  sched : Nat → Option Nat
  /-- ghost: transactions picked since the last reset, most recent first -/
  picked : List Tx

def init (cap : Nat) : State :=
  { cap := cap, txs := [], cur := fun _ => none, sched := fun _ => none, picked := [] }

def hasSender (txs : List Tx) (a : Nat) : Bool := txs.any (fun t => t.sender == a)

/-- A transaction is ready iff it directly follows the sender's last scheduled one in this
pass, or, when the sender has nothing scheduled in this pass, it sits at the sender's current
sequence number. -/
def ready (s : State) (t : Tx) : Bool :=
  match s.sched t.sender with
  | some last => t.seq == last + 1
  | none => s.cur t.sender == some t.seq

def readyList (s : State) : List Tx := s.txs.filter (ready s)

/-- `t` is an allowed next pick: ready and of maximal priority among the ready ones. -/
def pickOk (s : State) (t : Tx) : Bool :=
  (readyList s).contains t && (readyList s).all (fun u => u.prio ≤ t.prio)

def argmax : List Tx → Option Tx
  | [] => none
  | t :: ts => match argmax ts with
    | none => some t
    | some u => if u.prio ≤ t.prio then some t else some u

def argmin : List Tx → Option Tx
  | [] => none
  | t :: ts => match argmin ts with
    | none => some t
    | some u => if t.prio ≤ u.prio then some t else some u

/-- Effect of scheduling `t`. -/
def pick (s : State) (t : Tx) : State :=
  { s with sched := upd s.sched t.sender (some t.seq), picked := t :: s.picked }

/-- Deterministic single pick. -/
def scheduleOne (s : State) : Option (Tx × State) :=
  match argmax (readyList s) with
  | none => none
  | some t => some (t, pick s t)

/-- Deterministic schedule of at most `n` picks. -/
def scheduleN : Nat → State → List Tx × State
  | 0, s => ([], s)
  | n + 1, s => match scheduleOne s with
    | none => ([], s)
    | some (t, s') => let (ts, s'') := scheduleN n s'; (t :: ts, s'')

def schedule (limit : Nat) (s : State) : List Tx × State := scheduleN (min limit maxBatchSize) s

/-- Follow a list of picks chosen by the implementation; `none` if some pick is not allowed. -/
def followPicks : List Tx → State → Option State
  | [], s => some s
  | t :: ts, s => if pickOk s t then followPicks ts (pick s t) else none

/-- Is the implementation's answer to `schedule limit` allowed?  Every pick must be allowed in
turn, at most `min limit maxBatchSize` picks, and it may stop early only when nothing is ready. -/
def scheduleOk (limit : Nat) (s : State) (ts : List Tx) : Option State :=
  if ts.length ≤ min limit maxBatchSize then
    match followPicks ts s with
    | none => none
    | some s' => if ts.length < min limit maxBatchSize && !(readyList s').isEmpty then none else some s'
  else none

def reset (s : State) : State := { s with sched := fun _ => none, picked := [] }

/-- Remove one transaction; a sender without transactions loses its entry. -/
def removeTx (s : State) (t : Tx) : State :=
  let txs' := s.txs.filter (fun u => u.id != t.id)
  { s with txs := txs',
           cur := if hasSender txs' t.sender then s.cur else upd s.cur t.sender none }

def forward (s : State) (a n : Nat) : State :=
  match s.cur a with
  | none => s
  | some c =>
    if n ≤ c then s else
      let had := hasSender s.txs a
      let txs' := s.txs.filter (fun t => !(t.sender == a && t.seq < n))
      { s with txs := txs',
               cur := if had && !hasSender txs' a then upd s.cur a none else upd s.cur a (some n) }

def findId (s : State) (id : Nat) : Option Tx := s.txs.find? (fun t => t.id == id)

def txUsed (s : State) (id : Nat) : State :=
  match findId s id with
  | none => s
  | some t =>
    let s' := removeTx s t
    if t.seq < maxSeq then forward s' t.sender (t.seq + 1) else s'

inductive AddRes where
  | ok | expired | replaceUnderpriced | underpriced
deriving DecidableEq, Repr

def AddRes.toString : AddRes → String
  | .ok => "ok" | .expired => "expired" | .replaceUnderpriced => "replace-underpriced"
  | .underpriced => "underpriced"

/-- `v` may be evicted: it is in the pool and of minimal priority. -/
def evictOk (s : State) (v : Tx) : Bool :=
  s.txs.contains v && s.txs.all (fun u => v.prio ≤ u.prio)

/-- A sender seen for the first time gets an entry with the given state sequence number. -/
def ensureSender (s : State) (a stateSeq : Nat) : State :=
  match s.cur a with
  | some _ => s
  | none => { s with cur := upd s.cur a (some stateSeq) }

/-- Eviction victim: the supplied witness, or the deterministic minimum. -/
def chooseVictim (txs : List Tx) : Option Tx → Option Tx
  | some v => some v
  | none => argmin txs

def addCore (s1 : State) (t : Tx) (stateSeq : Nat) (victim : Option Tx) : Option (State × AddRes) :=
  if t.seq < (s1.cur t.sender).getD stateSeq then some (s1, .expired) else
  match s1.txs.find? (fun u => u.sender == t.sender && u.seq == t.seq) with
  | some old =>
    if t.prio ≤ old.prio then some (s1, .replaceUnderpriced)
    else some ({ s1 with txs := t :: s1.txs.filter (fun u => u.id != old.id) }, .ok)
  | none =>
    if (t :: s1.txs).length ≤ s1.cap then some ({ s1 with txs := t :: s1.txs }, .ok) else
    match chooseVictim (t :: s1.txs) victim with
    | none => some ({ s1 with txs := t :: s1.txs }, .ok)
    | some v =>
      if evictOk { s1 with txs := t :: s1.txs } v then
        some (removeTx { s1 with txs := t :: s1.txs } v, if v.id == t.id then .underpriced else .ok)
      else none

/-- `add tx stateSeq` with the eviction victim `victim` (only consulted on overflow; `none`
means: use the deterministic minimum). Returns `none` when the supplied victim is not allowed. -/
def addWith (s : State) (t : Tx) (stateSeq : Nat) (victim : Option Tx) : Option (State × AddRes) :=
  addCore (ensureSender s t.sender stateSeq) t stateSeq victim

def add (s : State) (t : Tx) (stateSeq : Nat) : State × AddRes :=
  (addWith s t stateSeq none).getD (s, .ok)

/-- `mainQueue.Add`: forward the sender to the state sequence, then add. -/
def queueAdd (s : State) (t : Tx) (stateSeq : Nat) (victim : Option Tx) : Option (State × AddRes) :=
  addWith (forward s t.sender stateSeq) t stateSeq victim

def clear (s : State) : State := { s with txs := [], cur := fun _ => none }

def allIds (s : State) : List Nat := (s.txs.map (·.id)).mergeSort (· ≤ ·)

end OasisModel.TxPool

namespace OasisModel.TxPool

/-- Operations of a history; choices the implementation may make are carried as witnesses. -/
inductive Op where
  | add (t : Tx) (stateSeq : Nat) (victim : Option Tx)
  | qadd (t : Tx) (stateSeq : Nat) (victim : Option Tx)
  | pick (t : Tx)
  | reset
  | clear
  | used (id : Nat)
  | forward (a n : Nat)

def freshId (s : State) (t : Tx) : Bool := s.txs.all (fun u => u.id != t.id)

/-- One step of a history. An operation whose witness is not allowed, or an `add` that reuses
the identifier of a queued transaction (the pool rejects known hashes earlier), is a no-op. -/
def step (s : State) : Op → State
  | .add t ss v => if freshId s t then
      match addWith s t ss v with | some (s', _) => s' | none => s else s
  | .qadd t ss v => if freshId s t then
      match queueAdd s t ss v with | some (s', _) => s' | none => s else s
  | .pick t => if pickOk s t then pick s t else s
  | .reset => reset s
  | .clear => clear s
  | .used id => txUsed s id
  | .forward a n => forward s a n

def run (s : State) (ops : List Op) : State := ops.foldl step s

end OasisModel.TxPool
