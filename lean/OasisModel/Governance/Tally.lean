import OasisModel.Staking.SharePool
/-
Model of the governance vote tally (property C10: closing a proposal in EndBlock must not fail).

  go/consensus/cometbft/apps/governance/governance.go   validatorsEscrow, closeProposal, addShares, subShares
  go/governance/api/proposal.go                         Proposal.VotedSum, Proposal.CloseProposal

Every fallible `quantity` call of the Go code is a call of the `QN` interface here (same calling
convention as the regenerated translation; `QN.Add`/`Mul` never fail, `QN.Sub` fails iff the
minuend is smaller, `QN.Quo` iff the divisor is zero).  Accounts are numbers; `validators` are the
keys of `validatorEntitiesPool` (entities of the current validator set, each once), `pool` their
active escrow pools, `del escrow delegator` the delegation shares (a delegation exists iff its shares
are non-zero), `votes` the stored votes — one per voter.  Votes are `1` yes, `2` no, `3` abstain.
Maps are iterated by Go in arbitrary order; the model takes the orders of the given lists, and the
theorems hold for every order.
-/
namespace OasisModel.Governance
open OasisModel OasisModel.Staking OasisModel.Staking.SharePool

abbrev Vote := Nat

structure TallyIn where
  n : Nat
  validators : List Nat
  pool : Nat → SharePool
  del : Nat → Nat → Nat
  votes : List (Nat × Vote)

/-- Vote shares of one validator: vote ↦ shares (`map[governance.Vote]quantity.Quantity`). -/
abbrev Row := Vote → Nat
abbrev VoteShares := Nat → Row

/-- `addShares(validatorVoteShares[to], vote, amount)`: `amt := amount.Clone(); amt.Add(&currShares)`. -/
def addRow (row : Row) (x : Vote) (amount : Nat) : Except QErr Row :=
  match QN.Add (QN.Clone amount) (row x) with
  | .error e => .error e
  | .ok s => .ok (upd row x s)

/-- `subShares(validatorVoteShares[to], vote, amount)`: `currShares.Sub(amt)`. -/
def subRow (row : Row) (x : Vote) (amount : Nat) : Except QErr Row :=
  match QN.Sub (row x) (QN.Clone amount) with
  | .error e => .error e
  | .ok s => .ok (upd row x s)

/-- `validatorVotes[to]`: the vote of a validator entity, if it voted. -/
def valVote (t : TallyIn) (to : Nat) : Option Vote :=
  if t.validators.contains to then (t.votes.find? (fun v => v.1 == to)).map (·.2) else none

/-- Tally of the validators' own votes: all of a voting validator's shares go to its vote. -/
def phase1 (t : TallyIn) : VoteShares → List (Nat × Vote) → Except QErr VoteShares
  | vs, [] => .ok vs
  | vs, (voter, x) :: rest =>
    if t.validators.contains voter then
      match addRow (vs voter) x (t.pool voter).totalShares with
      | .error e => .error e
      | .ok r => phase1 t (upd vs voter r) rest
    else phase1 t vs rest

/-- One delegation `(to, delegator)` of a voter with vote `x`: nothing if it matches the
validator's vote; otherwise the shares are deducted from the validator's vote (if it voted) and
added to the voter's vote. -/
def rowStep (y : Option Vote) (amount : Nat) (x : Vote) (row : Row) : Except QErr Row :=
  if y = some x then .ok row
  else
    match (match y with
      | some y' => subRow row y' amount
      | none => .ok row) with
    | .error e => .error e
    | .ok r1 => addRow r1 x amount

/-- The inner loop of the delegator tally: all delegations of one voter to validators. -/
def delegatorVote (t : TallyIn) (d : Nat) (x : Vote) : VoteShares → List Nat → Except QErr VoteShares
  | vs, [] => .ok vs
  | vs, to :: rest =>
    if t.del to d = 0 then delegatorVote t d x vs rest
    else
      match rowStep (valVote t to) (t.del to d) x (vs to) with
      | .error e => .error e
      | .ok r => delegatorVote t d x (upd vs to r) rest

def phase2 (t : TallyIn) : VoteShares → List (Nat × Vote) → Except QErr VoteShares
  | vs, [] => .ok vs
  | vs, (voter, x) :: rest =>
    match delegatorVote t voter x vs t.validators with
    | .error e => .error e
    | .ok vs' => phase2 t vs' rest

/-- Conversion of one vote's shares into stake, summed over the validators:
`validatorPool.StakeForShares(shares)` (never fails, see `gen_StakeForShares`), `currentVotes.Add(escrow)`. -/
def resultFor (t : TallyIn) (vs : VoteShares) (x : Vote) : Nat → List Nat → Except QErr Nat
  | acc, [] => .ok acc
  | acc, to :: rest =>
    match QN.Add acc (stakeForShares (t.pool to) (vs to x)) with
    | .error e => .error e
    | .ok acc' => resultFor t vs x acc' rest

/-- `validatorsEscrow`: total voting stake = sum of the validators' active escrow balances. -/
def totalVotingStake (t : TallyIn) : Nat → List Nat → Except QErr Nat
  | acc, [] => .ok acc
  | acc, to :: rest =>
    match QN.Add acc (t.pool to).balance with
    | .error e => .error e
    | .ok acc' => totalVotingStake t acc' rest

structure Results where
  yes : Nat
  no : Nat
  abstain : Nat
  deriving DecidableEq, Repr

inductive TErr where
  | quantity (e : QErr)
  | invalidProposalState
  deriving DecidableEq, Repr

def liftQ {α : Type} : Except QErr α → Except TErr α
  | .ok a => .ok a
  | .error e => .error (.quantity e)

/-- `closeProposal` up to `proposal.CloseProposal`: the results in stake. -/
def tally (t : TallyIn) : Except TErr Results :=
  match liftQ (phase1 t (fun _ _ => 0) t.votes) with
  | .error e => .error e
  | .ok vs1 =>
    match liftQ (phase2 t vs1 t.votes) with
    | .error e => .error e
    | .ok vs2 =>
      match liftQ (resultFor t vs2 1 0 t.validators), liftQ (resultFor t vs2 2 0 t.validators),
            liftQ (resultFor t vs2 3 0 t.validators) with
      | .ok y, .ok n, .ok a => .ok { yes := y, no := n, abstain := a }
      | .error e, _, _ => .error e
      | _, .error e, _ => .error e
      | _, _, .error e => .error e

/-- `Proposal.CloseProposal(totalVotingStake, stakeThreshold)` for an active proposal with
initialised results: `true` = passed, `false` = rejected. -/
def closeProposal (r : Results) (total threshold : Nat) : Except TErr Bool :=
  if total = 0 then .error .invalidProposalState
  else
    match liftQ (QN.Add 0 r.yes), liftQ (QN.Add r.yes r.no) with   -- VotedSum
    | .error e, _ => .error e
    | _, .error e => .error e
    | .ok _, .ok s2 =>
      match liftQ (QN.Add s2 r.abstain) with
      | .error e => .error e
      | .ok voted =>
        if voted > total then .error .invalidProposalState
        else if r.yes = 0 then .ok false
        else
          match liftQ (QN.Mul r.yes 100) with
          | .error e => .error e
          | .ok m =>
            match liftQ (QN.Quo m total) with
            | .error e => .error e
            | .ok pct => .ok (decide (threshold ≤ pct))

/-- The whole closing of a proposal in EndBlock. -/
def closeAll (t : TallyIn) (threshold : Nat) : Except TErr Bool :=
  match liftQ (totalVotingStake t 0 t.validators) with
  | .error e => .error e
  | .ok total =>
    match tally t with
    | .error e => .error e
    | .ok r => closeProposal r total threshold

end OasisModel.Governance
