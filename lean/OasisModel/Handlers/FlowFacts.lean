import OasisModel.Handlers.Flow
/-
Syntactic facts about regenerated flows used by the C08 obligations.
Core Lean only.
-/
namespace OasisModel.Handlers

mutual
/-- Does the flow contain a persistent write or a message publication anywhere? -/
def Flow.hasEffect : Flow → Bool
  | .seq l => Flow.hasEffectL l
  | .alt l => Flow.hasEffectL l
  | .loop b => b.hasEffect
  | .call _ b => b.hasEffect
  | .ifErr t e => t.hasEffect || e.hasEffect
  | .write _ _ => true
  | .publish _ => true
  | _ => false
def Flow.hasEffectL : List Flow → Bool
  | [] => false
  | g :: gs => g.hasEffect || Flow.hasEffectL gs
end

end OasisModel.Handlers
