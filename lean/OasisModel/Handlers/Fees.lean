/-
Arithmetic core of the per-block fee disbursement
(go/consensus/cometbft/apps/staking/fees.go: disburseFeesP, disburseFeesVQ), over `Nat`
(`quantity.Quantity` wraps `big.Int`, non-negative and unbounded), with every fallible quantity
operation modelled as it fails in Go:
  Quo   fails iff the divisor is zero           (common/quantity/quantity.go:158)
  Sub   fails iff the subtrahend is larger
  Move  fails iff the source holds less than the amount (quantity.go:217-237)
  Add, Mul never fail on valid quantities.
Any `error` result here is a fatal BeginBlock/EndBlock error in the real node (property C10).
Core Lean only.
-/
namespace OasisModel.Handlers.Fees

inductive Err where
  | divZero | subUnderflow | moveInsufficient
deriving DecidableEq, Repr

def quo (a b : Nat) : Except Err Nat := if b = 0 then .error .divZero else .ok (a / b)
def sub (a b : Nat) : Except Err Nat := if a < b then .error .subUnderflow else .ok (a - b)
/-- `Move(dst, src, n)`: returns (dst', src'). -/
def move (dst src n : Nat) : Except Err (Nat × Nat) :=
  if src < n then .error .moveInsufficient else .ok (dst + n, src - n)

structure PResult where
  persisted : Nat      -- new LastBlockFees (voters' and next proposer's share)
  proposer : Nat       -- paid to the proposer (0 when there is no proposer entity)
  common : Nat         -- moved to the common pool
deriving Repr, DecidableEq

/-- `disburseFeesP total wP wV wN hasProposer` (EndBlock). -/
def feesP (total wP wV wN : Nat) (hasProposer : Bool) : Except Err PResult :=
  if total = 0 then .ok { persisted := 0, proposer := 0, common := 0 } else do
  let weightVQ := wV + wN
  let weightPVQ := weightVQ + wP
  let feePersistAmt ← quo (total * weightVQ) weightPVQ
  let (feePersist, total1) ← move 0 total feePersistAmt
  let feeProposerAmt := total1
  let (paid, total2) ← (if hasProposer && feeProposerAmt ≠ 0 then move 0 total1 feeProposerAmt else .ok (0, total1))
  let (common, _) ← (if total2 ≠ 0 then move 0 total2 total2 else .ok (0, total2))
  .ok { persisted := feePersist, proposer := paid, common := common }

structure VQResult where
  nextProposer : Nat   -- paid to the (current) proposer as "next proposer" share
  perVoter : Nat       -- paid to each voting entity
  voters : Nat         -- number of voting entities paid
  common : Nat         -- remainder moved to the common pool
deriving Repr, DecidableEq

/-- Pay `n` voters `share` each out of `src`; returns what is left. -/
def payVoters : Nat → Nat → Nat → Except Err Nat
  | 0, _, src => .ok src
  | n + 1, share, src => do
    let (_, src') ← move 0 src share
    payVoters n share src'

/-- `disburseFeesVQ fees numEligible wV wN numVoting hasProposer` (BeginBlock of the next block). -/
def feesVQ (fees nE wV wN nV : Nat) (hasProposer : Bool) : Except Err VQResult :=
  if fees = 0 then .ok { nextProposer := 0, perVoter := 0, voters := 0, common := 0 } else do
  let perValidator ← quo fees nE
  let denom := wV + wN
  let shareNextProposer ← quo (perValidator * wN) denom
  let shareVote ← sub perValidator shareNextProposer
  let nextProposerTotal := shareNextProposer * nV
  let (paidNext, fees1) ← (if nextProposerTotal ≠ 0 && hasProposer then move 0 fees nextProposerTotal else .ok (0, fees))
  let fees2 ← (if shareVote ≠ 0 then payVoters nV shareVote fees1 else .ok fees1)
  let (common, _) ← (if fees2 ≠ 0 then move 0 fees2 fees2 else .ok (0, fees2))
  .ok { nextProposer := paidNext, perVoter := shareVote, voters := (if shareVote ≠ 0 then nV else 0), common := common }

end OasisModel.Handlers.Fees
