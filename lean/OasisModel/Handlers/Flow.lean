/-
Control-flow skeleton of a transaction handler and the analysis "no failing return after an
un-rollbackable write" (property C08).

`Flow` is produced from the Go source of the consensus applications by `tools/gen handlerfacts`
(regenerated on every run).  It keeps: persistent writes with the state wrapper they go through,
the transaction layer (`ctx.NewTransaction()` overlay) each wrapper / context belongs to,
commits, message publication, and the kind of every return.

Layers: layer 0 is the block's state tree (nothing rolls it back when a transaction fails: the
multiplexer does not); `beginTx` pushes an overlay, `commitTx` merges the innermost overlay into
the one below, leaving a function discards the overlays it opened (`defer ctx.Close()`).
A state wrapper writes to the layer of the context it was created from — which may be an OUTER
layer while an overlay is open.

Variables are numbers (the generator numbers them per root); 0 is "unknown ⇒ outermost layer".

The meaning of a `Flow` term is given by the concrete path semantics `Path` of `FlowSem.lean`;
`flagged` is proved sound and `errSites` complete against it in `OasisProofs/Props/C08Sound.lean`
and `C10Sound.lean`.
Core Lean only.
-/
namespace OasisModel.Handlers

inductive Flow where
  | skip
  | seq (l : List Flow)
  | alt (l : List Flow)
  | loop (body : Flow)
  | ext                                   -- opaque fallible call (reads, helpers without effects)
  | extU                                  -- state read that fails only on unavailable state
  | write (v : Nat) (what : String)       -- persistent write through state wrapper `v`
  | mk (v : Nat) (ctx : Nat)              -- v := NewMutableState(ctx.State()) / accumulator cache
  | beginTx (new old : Nat)               -- new := old.NewTransaction()
  | commitTx (ctx : Nat)
  | publish (ctx : Nat)                   -- message dispatch: subscribers may write via ctx
  | call (name : String) (body : Flow)    -- inlined callee
  | ifErr (thenB elseB : Flow)            -- `if err != nil` right after the last fallible call
  | clearErr
  | retOk
  | retErrU                               -- returns a state-unavailable error (halts the node by design)
  | retErr (pos : String)                 -- returns an explicit non-nil error expression
  | retErrVar (pos : String)              -- `return …, err`
  | retLast (pos : String)                -- `return f(…)`: outcome of the call just made
  | retMaybe (pos : String)               -- naked return with named results
  | halt                                  -- panic: not a failed transaction
  | closureRet                            -- return inside a function literal
deriving Repr, Inhabited

mutual
/-- Nesting depth: the fuel `sitesAux` needs (it spends one unit per level). -/
def Flow.depth : Flow → Nat
  | .seq l => Flow.depthL l + 1
  | .alt l => Flow.depthL l + 1
  | .loop b => b.depth + 1
  | .call _ b => b.depth + 1
  | .ifErr t e => max t.depth e.depth + 1
  | _ => 1
def Flow.depthL : List Flow → Nat
  | [] => 0
  | g :: gs => max g.depth (Flow.depthL gs)
end

/-- Status of the error value of the most recent fallible call. -/
inductive Pend where
  | no | yes | yesW | unk | unkW
deriving DecidableEq, Repr

/-- Why we are in an error branch. -/
inductive Src where
  | none | call | write | ext
deriving DecidableEq, Repr

structure AState where
  /-- dirty flag per layer, index 0 = block state tree -/
  layers : List Bool
  ctxDepth : List (Nat × Nat)
  bind : List (Nat × Nat)
  pend : Pend
  src : Src
  /-- where the pending error of an inlined callee originated -/
  errPos : String
deriving DecidableEq, Repr

inductive Kind where
  | ok | err | errW | maybe
  | maybeW   -- ok, or the failure of a state write / total read (state unavailable)
  | brk      -- not a return of the function: `return` inside a function literal (leaves the closure)
deriving DecidableEq, Repr

structure Exit where
  st : AState
  kind : Kind
  pos : String
deriving DecidableEq, Repr

def look (m : List (Nat × Nat)) (k : Nat) : Nat :=
  match m.find? (fun p => p.1 == k) with
  | some p => p.2
  | none => 0

def put (m : List (Nat × Nat)) (k v : Nat) : List (Nat × Nat) :=
  (k, v) :: m.filter (fun p => p.1 != k)

def setAt : List Bool → Nat → List Bool
  | [], _ => []
  | _ :: bs, 0 => true :: bs
  | b :: bs, n + 1 => b :: setAt bs n

def initState : AState :=
  { layers := [false], ctxDepth := [], bind := [], pend := .no, src := .none, errPos := "" }

def insertNew {α} [DecidableEq α] (x : α) (l : List α) : List α := if l.contains x then l else l ++ [x]

def union {α} [DecidableEq α] (a b : List α) : List α := b.foldl (fun acc x => insertNew x acc) a

/-- Merge the innermost layer into the one below. -/
def commitTop : List Bool → List Bool
  | [] => []
  | [b] => [b]
  | [below, top] => [below || top]
  | b :: rest => b :: commitTop rest

/-- Result of running a flow from a set of states: the states that fall through and the exits. -/
structure Res where
  cont : List AState
  exits : List Exit
deriving DecidableEq

def Res.empty : Res := { cont := [], exits := [] }

def Res.merge (a b : Res) : Res := { cont := union a.cont b.cont, exits := union a.exits b.exits }

def mergeO : Option Res → Option Res → Option Res
  | some a, some b => some (a.merge b)
  | _, _ => none

/-- Run `k` from every state of `ss`, accumulating into `init`. -/
def overStates (k : AState → Option Res) (ss : List AState) (init : Option Res) : Option Res :=
  ss.foldl (fun acc st => mergeO acc (k st)) init

/-- Sequential composition: each flow is run from every state that fell through the previous one. -/
def seqFold (k : Flow → AState → Option Res) (fs : List Flow) (init : Option Res) : Option Res :=
  fs.foldl (fun acc g =>
    match acc with
    | none => none
    | some r => overStates (k g) r.cont (some { cont := [], exits := r.exits })) init

/-- A loop iteration that ended with `return` inside a function literal: the closure is left, the
enclosing loop (the generator wraps every function literal in `loop`) goes on from that state —
with the error-branch marker it had when the iteration started.  The exit is ALSO kept, because
the loop that stands for the closure may be a loop further out. -/
def catchBrk (src : Src) (r : Res) : Res :=
  { cont := r.exits.foldl (fun acc e => if e.kind = .brk then insertNew { e.st with src := src } acc else acc) r.cont,
    exits := r.exits }

/-- One more unrolling of a loop body from every state reached so far (results accumulate). -/
def loopStep (k : AState → Option Res) (r : Res) : Option Res :=
  overStates (fun st => (k st).map (catchBrk st.src)) r.cont (some r)

/-- Unroll until nothing new is reached (`none` = fuel exhausted before the fixpoint). -/
def loopFix (k : AState → Option Res) : Nat → Res → Option Res
  | 0, _ => none
  | n + 1, r =>
    match loopStep k r with
    | none => none
    | some r' => if r' = r then some r else loopFix k n r'

def exitKindLast (s : AState) : Kind :=
  match s.pend with
  | .yes => .err
  | .yesW => .errW
  | .no => .ok
  | .unk => .maybe
  | .unkW => .maybeW   -- fails only if the write itself failed (state unavailable); otherwise ok

/-- `return …, err`: inside an error branch the error is the one that brought us there; outside
one it is whatever the most recent fallible call returned. -/
def exitKindVar (s : AState) : Kind :=
  match s.src with
  | .write => .errW
  | .call | .ext => .err
  | .none => exitKindLast s

/-- Report the site where a propagated error originated, if known. -/
def origin (s : AState) (pos : String) : String :=
  if s.errPos ≠ "" && (s.src == .call || (s.src == .none && (s.pend == .yes || s.pend == .unk))) then s.errPos else pos

/-- State of the caller after an inlined callee left through exit `e`: the overlays the callee
opened are discarded, the caller's context variables are its own again. -/
def back (s : AState) (e : Exit) : AState :=
  { layers := e.st.layers.take s.layers.length, ctxDepth := s.ctxDepth, bind := e.st.bind,
    pend := (match e.kind with
      | .ok | .brk => .no | .err => .yes | .errW => .yesW | .maybe => .unk | .maybeW => .unkW),
    src := s.src, errPos := (match e.kind with | .ok | .brk => "" | _ => e.pos) }

/-- One state through one flow. `fuel` bounds nesting depth and loop unrolling; `none` = fuel exhausted. -/
def run : Nat → Flow → AState → Option Res
  | 0, _, _ => none
  | fuel + 1, f, s =>
    match f with
    | .skip => some { cont := [s], exits := [] }
    | .seq l => seqFold (run fuel) l (some { cont := [s], exits := [] })
    | .alt l => l.foldl (fun acc g => mergeO acc (run fuel g s)) (some Res.empty)
    | .loop body =>
      -- unrolled until the set of reachable abstract states is closed under the body
      loopFix (run fuel body) fuel { cont := [s], exits := [] }
    | .ext => some { cont := [{ s with pend := .unk }], exits := [] }
    | .extU => some { cont := [{ s with pend := .unkW }], exits := [] }
    | .write v _ =>
      some { cont := [{ s with layers := setAt s.layers (look s.bind v), pend := .unkW }], exits := [] }
    | .mk v c => some { cont := [{ s with bind := put s.bind v (look s.ctxDepth c) }], exits := [] }
    | .beginTx nw _ =>
      some { cont := [{ s with layers := s.layers ++ [false], ctxDepth := put s.ctxDepth nw s.layers.length }], exits := [] }
    | .commitTx c =>
      let d := look s.ctxDepth c
      if d = 0 then some { cont := [s], exits := [] }
      else if d + 1 = s.layers.length then
        some { cont := [{ s with layers := commitTop s.layers }], exits := [] }
      else some { cont := [s], exits := [] }   -- committing an already closed / non-innermost ctx: no effect modelled
    | .publish c =>
      some { cont := [{ s with layers := setAt s.layers (look s.ctxDepth c), pend := .unk }], exits := [] }
    | .call _ body =>
      -- the callee has its own `err`: it starts outside any error branch, nothing pending
      match run fuel body { s with pend := .no, src := .none } with
      | none => none
      | some r =>
        -- falling off the end of the callee = return without error value
        let exits := r.exits ++ r.cont.map (fun st => { st := st, kind := .ok, pos := "" })
        some { cont := exits.foldl (fun acc e => insertNew (back s e) acc) [], exits := [] }
    | .ifErr t e =>
      let thenS : Src → AState := fun src => { s with src := src, pend := .no }
      let elseS : AState := { s with src := .none, pend := .no }
      let both : Src → Option Res := fun src => mergeO (run fuel t (thenS src)) (run fuel e elseS)
      let after : Option Res → Option Res := fun r =>
        r.map fun r => { r with cont := r.cont.foldl (fun acc st => insertNew { st with src := s.src } acc) [] }
      after (match s.pend with
        | .yes => run fuel t (thenS .call)
        | .yesW => run fuel t (thenS .write)
        | .no => run fuel e elseS
        | .unk => both .ext
        | .unkW => both .write)
    | .clearErr => some { cont := [{ s with pend := .unk }], exits := [] }
    | .retOk => some { cont := [], exits := [{ st := s, kind := .ok, pos := "" }] }
    | .retErrU => some { cont := [], exits := [{ st := s, kind := .errW, pos := "" }] }
    | .retErr pos => some { cont := [], exits := [{ st := s, kind := (if s.src = .write then .errW else .err), pos := origin s pos }] }
    | .retErrVar pos => some { cont := [], exits := [{ st := s, kind := exitKindVar s, pos := origin s pos }] }
    | .retLast pos => some { cont := [], exits := [{ st := s, kind := exitKindLast s, pos := origin s pos }] }
    | .retMaybe pos => some { cont := [], exits := [{ st := s, kind := .maybe, pos := pos }] }
    | .halt => some { cont := [], exits := [] }
    | .closureRet => some { cont := [], exits := [{ st := s, kind := .brk, pos := "" }] }

/-- Is the block's state tree dirty at this exit? (open overlays are discarded on return) -/
def outerDirty (e : Exit) : Bool := e.st.layers.headD false

/-- The return sites at which the handler may report failure after having written to the
block's state tree (excluding failures of the write itself, which are state-unavailable errors
that halt the node rather than fail the transaction). `none` = analysis ran out of fuel. -/
def flagged (fuel : Nat) (f : Flow) : Option (List String) :=
  match run fuel f initState with
  | none => none
  | some r =>
    some (r.exits.foldl (fun acc e =>
      if outerDirty e && (e.kind == .err || e.kind == .maybe) then insertNew e.pos acc else acc) [])

/-- Syntactic collection of the return sites at which a function may report an ordinary (not
state-unavailable) error: the fatal-path ledger of a BeginBlock/EndBlock root (C10).  Linear walk.
`br` is the kind of the call whose error selected the innermost enclosing `if err != nil`
then-branch (`none` outside of one); `src` is the kind of the most recent fallible call (on entry
of a then-branch: of the call that was tested).  A site is skipped only when the error it returns
is a state-unavailable error or was already listed inside an inlined callee:
  * `retErr` directly in the then-branch of a failed state write / total read;
  * `retErrVar` when the tested error (in a then-branch) resp. the most recent call (outside) is a
    state write / total read or an inlined callee — but not when the tested call was opaque and a
    later call merely happened in between (`if err != nil { cleanup(); return err }`);
  * `retLast` when the call just made is a state write or an inlined callee.
A loop body is walked twice: with the call kind at loop entry and with "unknown" (later iterations).
Returns the sites and the call kind at the end of the flow. -/
def sitesAux : Nat → Flow → Src → Src → List String × Src
  | 0, _, _, src => ([], src)
  | fuel + 1, f, br, src =>
    match f with
    | .skip | .clearErr | .halt | .closureRet | .retOk | .retErrU => ([], src)
    | .seq l => l.foldl (fun (acc : List String × Src) g =>
        let r := sitesAux fuel g br acc.2
        (union acc.1 r.1, r.2)) ([], src)
    | .alt l => l.foldl (fun (acc : List String × Src) g =>
        let r := sitesAux fuel g br src
        (union acc.1 r.1, .ext)) ([], src)
    | .loop b => (union (sitesAux fuel b br src).1 (sitesAux fuel b br .ext).1, .ext)
    | .ext | .publish _ => ([], .ext)
    | .extU | .write _ _ => ([], .write)
    | .mk _ _ | .beginTx _ _ | .commitTx _ => ([], src)
    | .call _ body => ((sitesAux fuel body .none .none).1, .call)
    | .ifErr t e =>
      let rt := sitesAux fuel t (if src = .none then .ext else src) src
      let re := sitesAux fuel e .none .none
      (union rt.1 re.1, .none)
    | .retErr pos => (if src = .write ∧ br = .write then [] else [pos], src)
    | .retErrVar pos =>
      -- propagation of an inlined callee's error: the origin is listed inside the callee
      (if (src = .write ∨ src = .call) ∧ br ≠ .ext then [] else [pos], src)
    | .retLast pos => (if src = .write ∨ src = .call then [] else [pos], src)
    | .retMaybe pos => ([pos], src)

def errSites (fuel : Nat) (f : Flow) : List String := (sitesAux fuel f .none .none).1

end OasisModel.Handlers
