/-
Control-flow skeleton of a transaction handler and the analysis "no failing return after an
un-rollbackable write" (property C08).

`Flow` is produced from the Go source of the consensus applications by `tools/gen handlerfacts`
(regenerated on every run).  It keeps: persistent writes with the state wrapper they go through,
the transaction layer (`ctx.NewTransaction()` overlay) each wrapper / context belongs to,
commits, message publication, and the kind of every return.

Layers: layer 0 is the block's state tree (nothing rolls it back when a transaction fails: the
multiplexer does not); `beginTx` pushes an overlay, `commitTx` merges the innermost overlay into
the one below, leaving a function discards the overlays it opened (`defer ctx.Close()`).
A state wrapper writes to the layer of the context it was created from — which may be an OUTER
layer while an overlay is open.

Variables are numbers (the generator numbers them per root); 0 is "unknown ⇒ outermost layer".
Core Lean only.
-/
namespace OasisModel.Handlers

inductive Flow where
  | skip
  | seq (l : List Flow)
  | alt (l : List Flow)
  | loop (body : Flow)
  | ext                                   -- opaque fallible call (reads, helpers without effects)
  | extU                                  -- state read that fails only on unavailable state
  | write (v : Nat) (what : String)       -- persistent write through state wrapper `v`
  | mk (v : Nat) (ctx : Nat)              -- v := NewMutableState(ctx.State()) / accumulator cache
  | beginTx (new old : Nat)               -- new := old.NewTransaction()
  | commitTx (ctx : Nat)
  | publish (ctx : Nat)                   -- message dispatch: subscribers may write via ctx
  | call (name : String) (body : Flow)    -- inlined callee
  | ifErr (thenB elseB : Flow)            -- `if err != nil` right after the last fallible call
  | clearErr
  | retOk
  | retErrU                               -- returns a state-unavailable error (halts the node by design)
  | retErr (pos : String)                 -- returns an explicit non-nil error expression
  | retErrVar (pos : String)              -- `return …, err`
  | retLast (pos : String)                -- `return f(…)`: outcome of the call just made
  | retMaybe (pos : String)               -- naked return with named results
  | halt                                  -- panic: not a failed transaction
  | closureRet                            -- return inside a function literal
deriving Repr, Inhabited

/-- Status of the error value of the most recent fallible call. -/
inductive Pend where
  | no | yes | yesW | unk | unkW
deriving DecidableEq, Repr

/-- Why we are in an error branch. -/
inductive Src where
  | none | call | write | ext
deriving DecidableEq, Repr

structure AState where
  /-- dirty flag per layer, index 0 = block state tree -/
  layers : List Bool
  ctxDepth : List (Nat × Nat)
  bind : List (Nat × Nat)
  pend : Pend
  src : Src
  /-- where the pending error of an inlined callee originated -/
  errPos : String
deriving DecidableEq, Repr

inductive Kind where
  | ok | err | errW | maybe
deriving DecidableEq, Repr

structure Exit where
  st : AState
  kind : Kind
  pos : String
deriving DecidableEq, Repr

def look (m : List (Nat × Nat)) (k : Nat) : Nat :=
  match m.find? (fun p => p.1 == k) with
  | some p => p.2
  | none => 0

def put (m : List (Nat × Nat)) (k v : Nat) : List (Nat × Nat) :=
  (k, v) :: m.filter (fun p => p.1 != k)

def setAt : List Bool → Nat → List Bool
  | [], _ => []
  | _ :: bs, 0 => true :: bs
  | b :: bs, n + 1 => b :: setAt bs n

def initState : AState :=
  { layers := [false], ctxDepth := [], bind := [], pend := .no, src := .none, errPos := "" }

def insertNew {α} [DecidableEq α] (x : α) (l : List α) : List α := if l.contains x then l else l ++ [x]

def union {α} [DecidableEq α] (a b : List α) : List α := b.foldl (fun acc x => insertNew x acc) a

/-- Merge the innermost layer into the one below. -/
def commitTop : List Bool → List Bool
  | [] => []
  | [b] => [b]
  | ls =>
    let top := ls.getLast!
    let rest := ls.dropLast
    let below := rest.getLast!
    rest.dropLast ++ [below || top]

/-- Result of running a flow from a set of states: the states that fall through and the exits. -/
structure Res where
  cont : List AState
  exits : List Exit

def Res.empty : Res := { cont := [], exits := [] }

def Res.merge (a b : Res) : Res := { cont := union a.cont b.cont, exits := union a.exits b.exits }

def exitKindLast (s : AState) : Kind :=
  match s.pend with
  | .yes => .err
  | .yesW => .errW
  | .no => .ok
  | .unk => .maybe
  | .unkW => .ok   -- fails only if the write itself failed (state unavailable); otherwise ok

/-- `return …, err`: inside an error branch the error is the one that brought us there; outside
one it is whatever the most recent fallible call returned. -/
def exitKindVar (s : AState) : Kind :=
  match s.src with
  | .write => .errW
  | .call | .ext => .err
  | .none => exitKindLast s

/-- Report the site where a propagated error originated, if known. -/
def origin (s : AState) (pos : String) : String :=
  if s.errPos ≠ "" && (s.src == .call || (s.src == .none && (s.pend == .yes || s.pend == .unk))) then s.errPos else pos

/-- One state through one flow. `fuel` bounds loop unrolling; `none` = fuel exhausted. -/
def run : Nat → Flow → AState → Option Res
  | 0, _, _ => none
  | fuel + 1, f, s =>
    let runList : List Flow → List AState → Option Res := fun fs ss =>
      fs.foldl (fun acc g =>
        match acc with
        | none => none
        | some r =>
          r.cont.foldl (fun acc2 st =>
            match acc2, run fuel g st with
            | some a, some b => some { cont := union a.cont b.cont, exits := union a.exits b.exits }
            | _, _ => none) (some { cont := [], exits := r.exits })) (some { cont := ss, exits := [] })
    match f with
    | .skip => some { cont := [s], exits := [] }
    | .seq l => runList l [s]
    | .alt l =>
      l.foldl (fun acc g =>
        match acc, run fuel g s with
        | some a, some b => some (a.merge b)
        | _, _ => none) (some Res.empty)
    | .loop body =>
      -- 0, 1, 2, 3 iterations; the abstract state space saturates quickly
      let step : Option Res → Option Res := fun acc =>
        match acc with
        | none => none
        | some r =>
          r.cont.foldl (fun acc2 st =>
            match acc2, run fuel body st with
            | some a, some b => some (a.merge b)
            | _, _ => none) (some r)
      step (step (step (some { cont := [s], exits := [] })))
    | .ext => some { cont := [{ s with pend := .unk }], exits := [] }
    | .extU => some { cont := [{ s with pend := .unkW }], exits := [] }
    | .write v _ =>
      some { cont := [{ s with layers := setAt s.layers (look s.bind v), pend := .unkW }], exits := [] }
    | .mk v c => some { cont := [{ s with bind := put s.bind v (look s.ctxDepth c) }], exits := [] }
    | .beginTx nw _ =>
      some { cont := [{ s with layers := s.layers ++ [false], ctxDepth := put s.ctxDepth nw s.layers.length }], exits := [] }
    | .commitTx c =>
      let d := look s.ctxDepth c
      if d = 0 then some { cont := [s], exits := [] }
      else if d + 1 = s.layers.length then
        some { cont := [{ s with layers := commitTop s.layers }], exits := [] }
      else some { cont := [s], exits := [] }   -- committing an already closed / non-innermost ctx: no effect modelled
    | .publish c =>
      some { cont := [{ s with layers := setAt s.layers (look s.ctxDepth c), pend := .unk }], exits := [] }
    | .call _ body =>
      match run fuel body s with
      | none => none
      | some r =>
        -- falling off the end of the callee = return without error value
        let exits := r.exits ++ r.cont.map (fun st => { st := st, kind := .ok, pos := "" })
        let back : Exit → AState := fun e =>
          { layers := e.st.layers.take s.layers.length, ctxDepth := s.ctxDepth, bind := e.st.bind,
            pend := (match e.kind with | .ok => .no | .err => .yes | .errW => .yesW | .maybe => .unk),
            src := s.src, errPos := (match e.kind with | .ok => "" | _ => e.pos) }
        some { cont := exits.foldl (fun acc e => insertNew (back e) acc) [], exits := [] }
    | .ifErr t e =>
      let thenS : Src → AState := fun src => { s with src := src, pend := .no }
      let elseS : AState := { s with src := .none, pend := .no }
      let both : Src → Option Res := fun src =>
        match run fuel t (thenS src), run fuel e elseS with
        | some a, some b => some (a.merge b)
        | _, _ => none
      let after : Option Res → Option Res := fun r =>
        r.map fun r => { r with cont := r.cont.foldl (fun acc st => insertNew { st with src := s.src } acc) [] }
      after (match s.pend with
        | .yes => run fuel t (thenS .call)
        | .yesW => run fuel t (thenS .write)
        | .no => run fuel e elseS
        | .unk => both .ext
        | .unkW => both .write)
    | .clearErr => some { cont := [{ s with pend := .unk }], exits := [] }
    | .retOk => some { cont := [], exits := [{ st := s, kind := .ok, pos := "" }] }
    | .retErrU => some { cont := [], exits := [{ st := s, kind := .errW, pos := "" }] }
    | .retErr pos => some { cont := [], exits := [{ st := s, kind := (if s.src = .write then .errW else .err), pos := origin s pos }] }
    | .retErrVar pos => some { cont := [], exits := [{ st := s, kind := exitKindVar s, pos := origin s pos }] }
    | .retLast pos => some { cont := [], exits := [{ st := s, kind := exitKindLast s, pos := origin s pos }] }
    | .retMaybe pos => some { cont := [], exits := [{ st := s, kind := .maybe, pos := pos }] }
    | .halt => some { cont := [], exits := [] }
    | .closureRet => some { cont := [s], exits := [] }

/-- Is the block's state tree dirty at this exit? (open overlays are discarded on return) -/
def outerDirty (e : Exit) : Bool := e.st.layers.headD false

/-- The return sites at which the handler may report failure after having written to the
block's state tree (excluding failures of the write itself, which are state-unavailable errors
that halt the node rather than fail the transaction). `none` = analysis ran out of fuel. -/
def flagged (fuel : Nat) (f : Flow) : Option (List String) :=
  match run fuel f initState with
  | none => none
  | some r =>
    some (r.exits.foldl (fun acc e =>
      if outerDirty e && (e.kind == .err || e.kind == .maybe) then insertNew e.pos acc else acc) [])

/-- Syntactic collection of the return sites at which a function may report an ordinary (not
state-unavailable) error: the fatal-path ledger of a BeginBlock/EndBlock root (C10).  Linear walk;
`src` is the kind of the most recent fallible call (so that `if err != nil { return … }` directly
after a state write / total read is recognised as a state-unavailable return and skipped).
Returns the sites and the call kind at the end of the flow. -/
def sitesAux : Nat → Flow → Src → List String × Src
  | 0, _, src => ([], src)
  | fuel + 1, f, src =>
    match f with
    | .skip | .clearErr | .halt | .closureRet | .retOk | .retErrU => ([], src)
    | .seq l => l.foldl (fun (acc : List String × Src) g =>
        let r := sitesAux fuel g acc.2
        (union acc.1 r.1, r.2)) ([], src)
    | .alt l => l.foldl (fun (acc : List String × Src) g =>
        let r := sitesAux fuel g src
        (union acc.1 r.1, .ext)) ([], src)
    | .loop b => ((sitesAux fuel b src).1, .ext)
    | .ext | .publish _ => ([], .ext)
    | .extU | .write _ _ => ([], .write)
    | .mk _ _ | .beginTx _ _ | .commitTx _ => ([], src)
    | .call _ body => ((sitesAux fuel body .none).1, .call)
    | .ifErr t e =>
      let rt := sitesAux fuel t src
      let re := sitesAux fuel e .none
      (union rt.1 re.1, .none)
    | .retErr pos => (if src == .write then [] else [pos], src)
    | .retErrVar pos | .retLast pos =>
      -- propagation of an inlined callee's error: the origin is listed inside the callee
      (if src == .write || src == .call then [] else [pos], src)
    | .retMaybe pos => ([pos], src)

def errSites (fuel : Nat) (f : Flow) : List String := (sitesAux fuel f .none).1

end OasisModel.Handlers
