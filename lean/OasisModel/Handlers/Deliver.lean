/-
Delivery of one transaction on the layered consensus state (property C08).

The multiplexer (`abci/mux.go: DeliverTx`, `abci/transaction.go: executeTx/processTx`) decodes the
transaction, authenticates it (`AuthenticateAndPayFees`: nonce check, fee moved to the block's
fee accumulator, nonce+1 — the only pre-execution write) and calls the application's handler on
the SAME state tree; it never rolls anything back when the handler fails.  Handlers protect
multi-step updates with `ctx.NewTransaction()` (an overlay, `api/context.go:245-280`) that is
merged by `Commit()` or dropped by `defer Close()`.

State: layer 0 is the block state tree, further layers are open overlays (innermost last).
A handler run is the trace of primitive actions it performed plus its outcome.
Core Lean only.
-/
namespace OasisModel.Handlers

abbrev KV := Nat → Option Nat

def KV.set (m : KV) (k : Nat) (v : Option Nat) : KV := fun x => if x = k then v else m x

/-- Pending writes of an overlay: key ↦ new value (`none` = removal). -/
abbrev Ovl := List (Nat × Option Nat)

structure Layers where
  outer : KV
  ovls : List Ovl          -- innermost LAST
deriving Inhabited

inductive Act where
  | wr (depth : Nat) (k : Nat) (v : Option Nat)   -- write through a wrapper bound to layer `depth`
  | begin                                          -- ctx.NewTransaction()
  | commit                                         -- ctx.Commit() of the innermost overlay
  | close                                          -- Close() without commit
deriving DecidableEq, Repr

def applyOvl (m : KV) (o : Ovl) : KV := o.foldl (fun acc p => acc.set p.1 p.2) m

def setNth {α} : List α → Nat → (α → α) → List α
  | [], _, _ => []
  | x :: xs, 0, f => f x :: xs
  | x :: xs, n + 1, f => x :: setNth xs n f

def step (s : Layers) : Act → Layers
  | .wr 0 k v => { s with outer := s.outer.set k v }
  | .wr (d + 1) k v => { s with ovls := setNth s.ovls d (fun o => o ++ [(k, v)]) }
  | .begin => { s with ovls := s.ovls ++ [[]] }
  | .commit =>
    match s.ovls.reverse with
    | [] => s
    | [top] => { outer := applyOvl s.outer top, ovls := [] }
    | top :: below :: rest => { s with ovls := (rest.reverse ++ [below ++ top]) }
  | .close => { s with ovls := s.ovls.dropLast }

def exec (s : Layers) (acts : List Act) : Layers := acts.foldl step s

/-- Concrete counterpart of the analysis' dirty flags: may the trace modify layer 0 when run
from `s`?  Layer 0 changes only through a wrapper bound to it or through the commit of a
non-empty overlay that sits directly on it. -/
def touchesOuter : Layers → List Act → Bool
  | _, [] => false
  | _, .wr 0 _ _ :: _ => true
  | s, .commit :: rest =>
    (match s.ovls.reverse with
      | [top] => !top.isEmpty
      | _ => false) || touchesOuter (step s .commit) rest
  | s, a :: rest => touchesOuter (step s a) rest

inductive Outcome where
  | ok | fail
deriving DecidableEq, Repr

/-- A signed transaction as far as delivery is concerned. -/
structure Tx where
  signer : Nat
  nonce : Nat
  fee : Nat
  decodes : Bool          -- envelope decodes and the signature verifies
deriving Repr

/-- Account part of the state touched by authentication. Keys: `2*a` nonce, `2*a+1` balance of
account `a`; the fee accumulator lives in the block context (not in the tree). -/
structure Chain where
  st : Layers
  feeAcc : Nat
deriving Inhabited

def nonceOf (m : KV) (a : Nat) : Nat := (m (2 * a)).getD 0
def balOf (m : KV) (a : Nat) : Nat := (m (2 * a + 1)).getD 0

inductive AuthRes where
  | ok (c : Chain) | rejected
deriving Inhabited

/-- `AuthenticateAndPayFees` in delivery mode (min-transact balance folded into `minBal`). -/
def authenticate (minBal : Nat) (c : Chain) (tx : Tx) : AuthRes :=
  if nonceOf c.st.outer tx.signer ≠ tx.nonce then .rejected
  else if balOf c.st.outer tx.signer < tx.fee + minBal then .rejected
  else
    let o1 := KV.set c.st.outer (2 * tx.signer) (some (tx.nonce + 1))
    let o2 := KV.set o1 (2 * tx.signer + 1) (some (balOf c.st.outer tx.signer - tx.fee))
    .ok { st := { c.st with outer := o2 }, feeAcc := c.feeAcc + tx.fee }

/-- What the handler did: its trace on the state it was given, and how it returned. On return
every overlay the handler opened and did not commit is dropped (`defer ctx.Close()`). -/
structure HandlerRun where
  acts : List Act
  outcome : Outcome

def deliver (minBal : Nat) (handler : Chain → Tx → HandlerRun) (c : Chain) (tx : Tx) : Chain × Outcome :=
  if !tx.decodes then (c, .fail) else
  match authenticate minBal c tx with
  | .rejected => (c, .fail)
  | .ok c1 =>
    let r := handler c1 tx
    let s2 := exec c1.st r.acts
    ({ c1 with st := { outer := s2.outer, ovls := c1.st.ovls } }, r.outcome)

end OasisModel.Handlers
