import OasisModel.Handlers.Deliver
import OasisModel.Handlers.Flow
/-
Concrete, nondeterministic PATH SEMANTICS of the control-flow language `Flow` (properties C08, C10).

`Path f σ tr out σ'` : started in configuration `σ`, the flow `f` can perform the trace `tr` of
layered-state actions (`Act` of `Deliver.lean`), end with outcome `out`, in configuration `σ'`.

This relation is the SPECIFICATION of what a `Flow` term (produced from the Go source by
`tools/gen/handlerfacts.go`) stands for; the analyses `flagged` (C08) and `errSites` (C10) of
`Flow.lean` are proved sound / complete against it in `OasisProofs/Props/C08Sound.lean` and
`C10Sound.lean`.  It is deliberately generous (more paths than the Go code has):

  * `ext` fails or not; `extU` and `write` fail (state unavailable) or not; a failing `write` may
    or may not have written; `alt` takes any branch; `loop` runs any number of iterations;
    `clearErr` (a condition the translator does not interpret) leaves `err` as it is;
    `publish c` lets subscribers write anything at the layer of context `c` and fail or not;
    `retMaybe` (naked return with named results) returns ok, a new error or the pending one.
  * `ifErr` follows the branch selected by the pending error, and remembers in `src` what kind of
    error selected the then-branch: an explicit error return (`retErr`, `retErrVar`) inside a branch
    entered on a state-unavailable error is itself a consequence of unavailable state (`errU`).
  * `write v _` through a wrapper bound to layer `d` is `Act.wr d k v` for some `k v`;
    `beginTx` / `commitTx` are `begin` / `commit` (only the innermost overlay can be committed;
    committing the block context or a context that is not innermost has no modelled effect);
    an inlined callee starts with its own `err` (nothing pending, outside any error branch);
    leaving a `call` emits one `close` per overlay the callee left open, gives the caller its own
    context variables back, keeps the wrapper bindings, and turns the callee's return into the
    pending error of the caller.
  * an ordinary error carries the return site at which it ORIGINATED: the site of the explicit
    error expression (`retErr`), or the first inlined `return` that hands on the failure of an
    opaque call (`retErrVar` / `retLast` / `retMaybe` on an error of unknown origin) (C10).
  * `closureRet` (a `return` inside a function literal) leaves the closure: outcome `brk`, which an
    enclosing `loop` (the translator wraps every literal in `alt [loop …, skip]`) may catch — the
    iteration ends there — or pass outwards (the literal's loop may be further out); at a `call`
    boundary it counts as falling off the end.
  * `halt` (panic) aborts everything.
  * every return carries the CHAIN of return sites through which its error value travelled: its own
    site followed by the chain of the inlined callee that returned last.

Core Lean only.
-/
namespace OasisModel.Handlers

/-- Concrete error value held in `err` / that selected the enclosing error branch.  An ordinary
error knows the return site of the inlined code at which it originated, once it has passed one:
`ord none` is the failure of an opaque call that no inlined `return` has returned yet. -/
inductive CErr where
  | none
  | ord (origin : Option String)
  | unav
deriving DecidableEq, Repr

/-- Not an error whose origin is already known (what an opaque call can produce). -/
def CErr.fresh : CErr → Prop
  | .ord (some _) => False
  | _ => True

structure Cfg where
  /-- number of open layers, layer 0 included -/
  n : Nat
  /-- layer each context variable refers to (0 when absent) -/
  ctxD : List (Nat × Nat)
  /-- layer each state wrapper writes to (0 when absent) -/
  bind : List (Nat × Nat)
  /-- error value of the most recent fallible step -/
  pend : CErr
  /-- error that selected the innermost enclosing `if err != nil` then-branch (`none` outside) -/
  src : CErr
  /-- return sites of the inlined callee that returned last -/
  chain : List String
deriving DecidableEq, Repr

def initCfg : Cfg := { n := 1, ctxD := [], bind := [], pend := .none, src := .none, chain := [] }

inductive RetKind where
  | ok
  | err (origin : String)   -- ordinary error, with the return site at which it originated
  | errU                    -- state-unavailable error (halts the node by design)
deriving DecidableEq, Repr

inductive Out where
  | fall                                      -- falls through to the next statement
  | ret (k : RetKind) (chain : List String)   -- the function returns
  | brk                                       -- `return` inside a function literal
  | halt                                      -- panic
deriving DecidableEq, Repr

/-- Returning the error value `e` at site `pos`: an error of unknown origin originates here. -/
def kindOfErr (pos : String) : CErr → RetKind
  | .none => .ok
  | .ord o => .err (o.getD pos)
  | .unav => .errU

/-- `return f(…)`: whatever the call just made returned. -/
def kindLast (pos : String) (σ : Cfg) : RetKind := kindOfErr pos σ.pend

/-- `return …, err`: in an error branch, the error that was tested. -/
def kindVar (pos : String) (σ : Cfg) : RetKind :=
  match σ.src with
  | .none => kindLast pos σ
  | e => kindOfErr pos e

/-- Explicit error expression: a new error — but inside a branch entered on a state-unavailable
error the return is a consequence of unavailable state. -/
def kindNew (pos : String) (σ : Cfg) : RetKind := if σ.src = .unav then .errU else .err pos

/-- The callee has its own `err`: it starts outside any error branch with nothing pending. -/
def calleeCfg (σ : Cfg) : Cfg := { σ with pend := .none, src := .none }

/-- Configuration of the caller after the callee ended in `σ1` with outcome `o`. -/
def afterCall (σ σ1 : Cfg) (o : Out) : Cfg :=
  { n := min σ1.n σ.n, ctxD := σ.ctxD, bind := σ1.bind,
    pend := (match o with
      | .ret (.err q) _ => .ord (some q)
      | .ret .errU _ => .unav
      | _ => .none),
    src := σ.src,
    chain := (match o with
      | .ret _ c => c
      | _ => []) }

/-- After `ifErr`: on fall-through the enclosing error branch is the current one again. -/
def afterIf (σ : Cfg) (o : Out) (σ' : Cfg) : Cfg :=
  match o with
  | .fall => { σ' with src := σ.src }
  | _ => σ'

inductive Path : Flow → Cfg → List Act → Out → Cfg → Prop where
  | skip {σ} : Path .skip σ [] .fall σ
  | seqNil {σ} : Path (.seq []) σ [] .fall σ
  | seqCons {g gs σ t1 σ1 t2 o σ2} :
      Path g σ t1 .fall σ1 → Path (.seq gs) σ1 t2 o σ2 → Path (.seq (g :: gs)) σ (t1 ++ t2) o σ2
  | seqStop {g gs σ t o σ'} : Path g σ t o σ' → o ≠ .fall → Path (.seq (g :: gs)) σ t o σ'
  | alt {l g σ t o σ'} : g ∈ l → Path g σ t o σ' → Path (.alt l) σ t o σ'
  | loopDone {b σ} : Path (.loop b) σ [] .fall σ
  | loopIter {b σ t1 σ1 t2 o σ2} :
      Path b σ t1 .fall σ1 → Path (.loop b) σ1 t2 o σ2 → Path (.loop b) σ (t1 ++ t2) o σ2
  | loopBrk {b σ t1 σ1 t2 o σ2} :
      Path b σ t1 .brk σ1 → Path (.loop b) { σ1 with src := σ.src } t2 o σ2 →
      Path (.loop b) σ (t1 ++ t2) o σ2
  | loopExit {b σ t o σ'} : Path b σ t o σ' → o ≠ .fall → Path (.loop b) σ t o σ'
  | extOk {σ} : Path .ext σ [] .fall { σ with pend := .none }
  | extFail {σ} : Path .ext σ [] .fall { σ with pend := .ord none }
  | extUOk {σ} : Path .extU σ [] .fall { σ with pend := .none }
  | extUFail {σ} : Path .extU σ [] .fall { σ with pend := .unav }
  | writeOk {σ v w} (k : Nat) (x : Option Nat) :
      Path (.write v w) σ [.wr (look σ.bind v) k x] .fall { σ with pend := .none }
  | writeFail {σ v w} (k : Nat) (x : Option Nat) :
      Path (.write v w) σ [.wr (look σ.bind v) k x] .fall { σ with pend := .unav }
  | writeFail0 {σ v w} : Path (.write v w) σ [] .fall { σ with pend := .unav }
  | mk {σ v c} : Path (.mk v c) σ [] .fall { σ with bind := put σ.bind v (look σ.ctxD c) }
  | beginTx {σ nw old} :
      Path (.beginTx nw old) σ [.begin] .fall { σ with n := σ.n + 1, ctxD := put σ.ctxD nw σ.n }
  | commitDo {σ c} : look σ.ctxD c ≠ 0 → look σ.ctxD c + 1 = σ.n →
      Path (.commitTx c) σ [.commit] .fall { σ with n := σ.n - 1 }
  | commitNo {σ c} : ¬ (look σ.ctxD c ≠ 0 ∧ look σ.ctxD c + 1 = σ.n) →
      Path (.commitTx c) σ [] .fall σ
  | publish {σ c} (ws : List (Nat × Option Nat)) (e : CErr) : e.fresh →
      Path (.publish c) σ (ws.map fun p => .wr (look σ.ctxD c) p.1 p.2) .fall { σ with pend := e }
  | callRet {nm body σ t o σ1} : Path body (calleeCfg σ) t o σ1 → o ≠ .halt →
      Path (.call nm body) σ (t ++ List.replicate (σ1.n - σ.n) .close) .fall (afterCall σ σ1 o)
  | callHalt {nm body σ t σ1} : Path body (calleeCfg σ) t .halt σ1 → Path (.call nm body) σ t .halt σ1
  | ifThen {t e σ tr o σ'} : σ.pend ≠ .none →
      Path t { σ with src := σ.pend, pend := .none } tr o σ' → Path (.ifErr t e) σ tr o (afterIf σ o σ')
  | ifElse {t e σ tr o σ'} : σ.pend = .none →
      Path e { σ with src := .none, pend := .none } tr o σ' → Path (.ifErr t e) σ tr o (afterIf σ o σ')
  | clearErr {σ} : Path .clearErr σ [] .fall σ
  | retOk {σ} : Path .retOk σ [] (.ret .ok []) σ
  | retErrU {σ} : Path .retErrU σ [] (.ret .errU []) σ
  | retErr {σ pos} : Path (.retErr pos) σ [] (.ret (kindNew pos σ) (pos :: σ.chain)) σ
  | retErrVar {σ pos} : Path (.retErrVar pos) σ [] (.ret (kindVar pos σ) (pos :: σ.chain)) σ
  | retLast {σ pos} : Path (.retLast pos) σ [] (.ret (kindLast pos σ) (pos :: σ.chain)) σ
  | retMaybe {σ pos} (k : RetKind) : k = .ok ∨ k = .errU ∨ k = .err pos ∨ k = kindLast pos σ →
      Path (.retMaybe pos) σ [] (.ret k (pos :: σ.chain)) σ
  | halt {σ} : Path .halt σ [] .halt σ
  | closureRet {σ} : Path .closureRet σ [] .brk σ

end OasisModel.Handlers
