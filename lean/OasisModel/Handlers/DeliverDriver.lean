import OasisModel.Proto
import OasisModel.Handlers.Deliver
/-
Driver for the delivery model (property C08), used as a checker of observations made on the REAL
ABCI multiplexer (harness/cmd/txdrv): every line is one DeliverTx together with what the real code
did, the model (`authenticate` / `deliver` of Deliver.lean, the objects of the theorems
`rejected_changes_nothing`, `auth_effect`, `failed_tx_effect`) answers `ok` or `DIVERGE <why>`.

  tx <preNonce> <preBal> <feeAccPre> <txNonce> <fee> <minBal> <decodes 0|1> <outcome ok|fail>
     <postNonce> <postBal> <feeAccPost> <otherKeysChanged>

  preNonce/preBal   signer's account in the pre-state (0 0 when the envelope does not decode)
  decodes           the envelope decodes, the signature verifies, the method is routable
  otherKeysChanged  number of state keys, other than the signer's account record, that differ
                    between the full pre- and post-snapshots of the working tree

The chain is instantiated with the signer as account 0 (keys 0 = nonce, 1 = balance) and a
sentinel key 2 standing for all other keys.  For outcome = fail the handler is the one the
regenerated handler facts establish for the real handlers: a failing run whose trace does not touch
layer 0 (`[]`), so the model's post-state is fully determined: rejected -> unchanged; authenticated
-> nonce+1, balance-fee, fee accumulator + fee, nothing else.  For outcome = ok only the
authentication part is determined (the handler may write anything but the fee accumulator).
Core Lean only.
-/
namespace OasisModel.Handlers.DeliverDriver
open OasisModel.Proto OasisModel.Handlers

def sentinel : Nat := 424242

def mkChain (nonce bal feeAcc : Nat) : Chain :=
  { st := { outer := fun k => if k = 0 then some nonce else if k = 1 then some bal else if k = 2 then some sentinel else none,
            ovls := [] },
    feeAcc := feeAcc }

def failingHandler : Chain → Tx → HandlerRun := fun _ _ => { acts := [], outcome := .fail }
def okHandler : Chain → Tx → HandlerRun := fun _ _ => { acts := [], outcome := .ok }

def step (_ : Unit) (line : String) : Unit × String :=
  let w := words line
  match w with
  | ["tx", a, b, c, d, e, f, g, oc, h, i, j, k] =>
    match [a, b, c, d, e, f, g, h, i, j, k].mapM String.toNat? with
    | some [preNonce, preBal, feeAccPre, txNonce, fee, minBal, decodes, postNonce, postBal, feeAccPost, others] =>
      let c0 := mkChain preNonce preBal feeAccPre
      let tx : Tx := { signer := 0, nonce := txNonce, fee := fee, decodes := decodes == 1 }
      if oc == "fail" then
        let (c1, o) := deliver minBal failingHandler c0 tx
        let wantNonce := nonceOf c1.st.outer 0
        let wantBal := balOf c1.st.outer 0
        let rejected := decodes != 1 || (match authenticate minBal c0 tx with | .rejected => true | .ok _ => false)
        let what := if rejected then "rejected before execution: nothing may change" else "authenticated: nonce+1, balance-fee, fee accumulator+fee, nothing else"
        if o != .fail then ((), "DIVERGE model outcome is not fail")
        else if others != 0 then ((), s!"DIVERGE {others} other keys changed ({what})")
        else if postNonce != wantNonce then ((), s!"DIVERGE nonce {postNonce}, model {wantNonce} ({what})")
        else if postBal != wantBal then ((), s!"DIVERGE balance {postBal}, model {wantBal} ({what})")
        else if feeAccPost != c1.feeAcc then ((), s!"DIVERGE fee accumulator {feeAccPost}, model {c1.feeAcc} ({what})")
        else if (c1.st.outer 2) != some sentinel then ((), "DIVERGE model touched the sentinel")
        else ((), "ok")
      else if oc == "ok" then
        if decodes != 1 then ((), "DIVERGE a transaction that does not decode succeeded")
        else
          match authenticate minBal c0 tx with
          | .rejected => ((), "DIVERGE a transaction the model rejects at authentication succeeded")
          | .ok c1 =>
            let (c2, _) := deliver minBal okHandler c0 tx
            if feeAccPost != c1.feeAcc then ((), s!"DIVERGE fee accumulator {feeAccPost}, model {c1.feeAcc}")
            else if c2.feeAcc != c1.feeAcc then ((), "DIVERGE internal")
            else ((), "ok")
      else ((), "ERR outcome")
    | _ => ((), "ERR number")
  | [] => ((), "ok")
  | _ => ((), "ERR syntax")

def main : IO Unit := loop step ()

end OasisModel.Handlers.DeliverDriver
