import OasisModel.Staking.SharePool
/-
Model of the debonding queue: `SetDebondingDelegation` (merge on equal key, queue entry keyed
by big-endian end epoch, delegator, escrow) and the debonding part of `onEpochChange`
(go/consensus/cometbft/apps/staking/staking.go:245-330, state/state.go:481-509,684-746).

The queue is kept sorted by (endEpoch, delegator, escrow) — the MKVS iteration order of
`debondingQueueKeyFmt` (0x55 ‖ uint64-BE epoch ‖ delegator ‖ escrow); `ExpiredDebondingQueue`
walks it from the start and stops at the first entry whose epoch is greater than the current one.
-/
namespace OasisModel.Staking
open OasisModel SharePool

structure DebEntry where
  endEpoch : Nat
  delegator : Nat
  escrow : Nat
  shares : Nat
  deriving DecidableEq, Repr

namespace DebEntry
def sameKey (a b : DebEntry) : Bool :=
  a.endEpoch == b.endEpoch && a.delegator == b.delegator && a.escrow == b.escrow

/-- Lexicographic order of the queue keys. -/
def keyLt (a b : DebEntry) : Bool :=
  a.endEpoch < b.endEpoch ||
  (a.endEpoch == b.endEpoch && (a.delegator < b.delegator ||
    (a.delegator == b.delegator && a.escrow < b.escrow)))
end DebEntry

/-- One payout record: the entry, the epoch of the transition that paid it, the base units paid. -/
structure Payout where
  entry : DebEntry
  epoch : Nat
  amount : Nat
  deriving DecidableEq, Repr

structure DebSt where
  pools : Nat → SharePool      -- escrow account ↦ its debonding pool
  general : Nat → Nat          -- account ↦ general balance
  queue : List DebEntry
  paid : List Payout           -- log (ghost state for the theorems and the driver)

namespace DebSt

/-- `SetDebondingDelegation` + queue insert: merge shares on an equal key, else insert in key order. -/
def enqueue : List DebEntry → DebEntry → List DebEntry
  | [], e => [e]
  | x :: xs, e =>
    if x.sameKey e then { x with shares := x.shares + e.shares } :: xs
    else if e.keyLt x then e :: x :: xs
    else x :: enqueue xs e

def addDebonding (st : DebSt) (e : DebEntry) : DebSt := { st with queue := enqueue st.queue e }

/-- The entries `ExpiredDebondingQueue` returns at `epoch`. -/
def expired (q : List DebEntry) (epoch : Nat) : List DebEntry :=
  q.takeWhile (fun e => e.endEpoch ≤ epoch)

/-- Body of the `onEpochChange` loop for one expired entry: redeem all its shares from the escrow
account's debonding pool at the pool's current price, credit the delegator's general balance,
remove the queue entry and the descriptor. -/
def processEntry (epoch : Nat) (st : DebSt) (e : DebEntry) : Except QErr DebSt :=
  match withdraw (st.pools e.escrow) 0 e.shares e.shares with
  | .error err => .error err
  | .ok w =>
    .ok { pools := upd st.pools e.escrow w.pool,
          general := upd st.general e.delegator (st.general e.delegator + w.stakeDst),
          queue := st.queue.filter (fun x => !x.sameKey e),
          paid := st.paid ++ [{ entry := e, epoch := epoch, amount := w.stakeDst }] }

def processAll (epoch : Nat) : DebSt → List DebEntry → Except QErr DebSt
  | st, [] => .ok st
  | st, e :: es =>
    match processEntry epoch st e with
    | .error err => .error err
    | .ok st' => processAll epoch st' es

/-- Debonding part of `onEpochChange(epoch)`; an error here aborts `EndBlock`. -/
def onEpochChange (st : DebSt) (epoch : Nat) : Except QErr DebSt :=
  processAll epoch st (expired st.queue epoch)

/-- Histories of the queue: reclaims add entries, epoch transitions pay them out. -/
inductive Step where
  | add (e : DebEntry)
  | epoch (ep : Nat)
  deriving Repr

def step (st : DebSt) : Step → Except QErr DebSt
  | .add e => .ok (addDebonding st e)
  | .epoch ep => onEpochChange st ep

def run : DebSt → List Step → Except QErr DebSt
  | st, [] => .ok st
  | st, s :: ss =>
    match step st s with
    | .error err => .error err
    | .ok st' => run st' ss

def sharesSum (l : List DebEntry) : Nat := (l.map (·.shares)).sum

end DebSt
end OasisModel.Staking
