import OasisModel.Staking.SharePool
import OasisModel.Staking.Debond
import OasisModel.Staking.Commission
/-
Model of the staking ledger (property C05): every path of oasis-core that moves base units.

  go/consensus/cometbft/apps/staking/state/gas.go            AuthenticateAndPayFees            payFee
  go/consensus/cometbft/apps/staking/transactions.go         transfer/burn/addEscrow/reclaimEscrow/allow/withdraw/
                                                             amendCommissionSchedule (go/staking/api/commission.go:
                                                             OasisModel/Staking/Commission.lean); gas charges
  go/consensus/cometbft/apps/staking/staking.go              ExecuteMessage: runtime messages (roothash
                                                             processRuntimeMessages) Transfer/Withdraw/AddEscrow/ReclaimEscrow
  go/consensus/cometbft/apps/staking/fees.go                 disburseFeesP / disburseFeesVQ
  go/consensus/cometbft/apps/staking/staking.go              BeginBlock / EndBlock / onEpochChange
  go/consensus/cometbft/apps/staking/{signing,proposing}_rewards.go, slashing.go
  go/consensus/cometbft/apps/staking/state/state.go          SlashEscrow, AddRewards, AddRewardSingleAttenuated,
                                                             TransferFromCommon, governance deposit moves
  go/consensus/cometbft/apps/staking/genesis.go              InitChain

Accounts are numbered `0 … n-1` by the driver *in address byte order* (the debonding queue is
iterated in key order).  Every function returns what is **persisted**: a transaction that fails
returns the ledger as it is in the store afterwards (the handlers write only after their last
check; `withdraw` runs in a sub-transaction); block-level functions return `Except` — an error
there aborts BeginBlock/EndBlock and halts consensus, nothing is committed.
-/
namespace OasisModel.Staking
open OasisModel SharePool

inductive LErr where
  | forbidden | invalidArgument | insufficientBalance | balanceTooLow | underMinTransfer
  | underMinDelegation | invalidNonce | tooManyAllowances | allowanceGtSupply | badAccount
  | outOfGas | insufficientStake | badSchedule | fatal
  deriving DecidableEq, Repr, Inhabited

def LErr.toString : LErr → String
  | .forbidden => "forbidden" | .invalidArgument => "invalid-argument"
  | .insufficientBalance => "insufficient-balance" | .balanceTooLow => "balance-too-low"
  | .underMinTransfer => "under-min-transfer" | .underMinDelegation => "under-min-delegation"
  | .invalidNonce => "invalid-nonce" | .tooManyAllowances => "too-many-allowances"
  | .allowanceGtSupply => "allowance-gt-supply" | .badAccount => "bad-account"
  | .outOfGas => "out-of-gas" | .insufficientStake => "insufficient-stake"
  | .badSchedule => "bad-schedule" | .fatal => "fatal"

def LErr.ofQ : QErr → LErr
  | .insufficientBalance => .insufficientBalance
  | .invalidArgument => .invalidArgument
  | _ => .fatal

/-- `ConsensusParameters.GasCosts` of the staking operations (gas per operation). -/
structure GasCosts where
  transfer : Nat := 0
  burn : Nat := 0
  addEscrow : Nat := 0
  reclaimEscrow : Nat := 0
  amendCommissionSchedule : Nat := 0
  allow : Nat := 0
  withdraw : Nat := 0
  deriving Repr

structure Params where
  minTransactBalance : Nat := 0
  minTransferAmount : Nat := 0
  minDelegationAmount : Nat := 0
  debondingInterval : Nat := 1
  maxAllowances : Nat := 0
  disableTransfers : Bool := false
  disableDelegation : Bool := false
  feeWeightPropose : Nat := 1
  feeWeightVote : Nat := 1
  feeWeightNextPropose : Nat := 1
  rewardSchedule : List (Nat × Nat) := []      -- (until, scale)
  rewardFactorEpochSigned : Nat := 0
  rewardFactorBlockProposed : Nat := 0
  signingThresholdNum : Nat := 0
  signingThresholdDen : Nat := 0
  minCommissionRate : Nat := 0
  slashAmount : Nat := 0
  freezeInterval : Nat := 0
  burnAddr : Nat := 0
  reserved : List Nat := []                    -- account numbers of reserved addresses (incl. burn)
  pkOrder : List Nat := []                     -- entity account numbers in public-key order
  validators : List Nat := []                  -- validator number ↦ entity account number
  gasPerByte : Nat := 0                        -- consensus `GasOpTxByte` cost (charged by the mux)
  gasCosts : GasCosts := {}                    -- staking `GasCosts`, per operation
  -- `CommissionScheduleRules` (with `minCommissionRate` above)
  rateChangeInterval : Nat := 1
  rateBoundLead : Nat := 0
  maxRateSteps : Nat := 0
  maxBoundSteps : Nat := 0
  /-- `Thresholds[KindEntity] + Thresholds[KindNodeValidator]`: active escrow balance an account needs
  to amend its commission schedule. -/
  commissionStakeThreshold : Nat := 0
  allowEscrowMessages : Bool := false          -- runtimes may AddEscrow / ReclaimEscrow by message
  deriving Repr

def Params.rules (p : Params) : Rules :=
  { rateChangeInterval := p.rateChangeInterval, rateBoundLead := p.rateBoundLead, maxRateSteps := p.maxRateSteps,
    maxBoundSteps := p.maxBoundSteps, minCommissionRate := p.minCommissionRate }

/-- `RewardAmountDenominator` (go/staking/api/rewards.go). -/
def rewardAmountDenominator : Nat := 100000000

structure Account where
  general : Nat := 0
  nonce : Nat := 0
  allowances : List (Nat × Nat) := []          -- beneficiary ↦ allowance, no zero entries
  active : SharePool := { balance := 0, totalShares := 0 }
  debonding : SharePool := { balance := 0, totalShares := 0 }
  schedule : Schedule := {}                    -- `Escrow.CommissionSchedule`
  deriving Repr, Inhabited

def Account.bal (a : Account) : Nat := a.general + a.active.balance + a.debonding.balance

structure Ledger where
  n : Nat
  acct : Nat → Account
  del : Nat → Nat → Nat                        -- escrow ↦ delegator ↦ active shares
  deb : List DebEntry                          -- debonding delegations = queue, sorted by key
  common : Nat
  govDeposits : Nat
  lastBlockFees : Nat
  /-- ghost: `disburseFeesVQ` has paid out the persisted last-block fees but the stored value is
  only overwritten by `disburseFeesP` at the end of the block. -/
  lbfSpent : Bool := false
  feeAcc : Nat                                 -- per-block fee accumulator (block context)
  totalSupply : Nat
  burned : Nat := 0                            -- ghost: sum of successful burns
  epoch : Nat := 0
  epochChanged : Bool := false
  proposer : Option Nat := none                -- block context: proposing entity
  sigTotal : Nat := 0                          -- EpochSigning.Total
  sigBy : Nat → Nat := fun _ => 0              -- EpochSigning.ByEntity
  frozen : Nat → Bool := fun _ => false        -- validator number ↦ node frozen
  params : Params

namespace Ledger

def isReserved (l : Ledger) (a : Nat) : Bool := l.params.reserved.contains a

def setAcct (l : Ledger) (a : Nat) (x : Account) : Ledger := { l with acct := upd l.acct a x }

def setDel (l : Ledger) (escrow delegator shares : Nat) : Ledger :=
  { l with del := upd l.del escrow (upd (l.del escrow) delegator shares) }

/-- The commission rate `computeCommission` is called with at `epoch`: `CurrentRate(epoch)` of the
account's schedule, `MinCommissionRate` when no step has started. -/
def rateOf (l : Ledger) (a epoch : Nat) : Nat :=
  ((l.acct a).schedule.currentRate epoch).getD l.params.minCommissionRate

/-! ### Transactions -/

/-- `AuthenticateAndPayFees` (DeliverTx): nonce check, balance ≥ fee + minimum, move the fee to the
block's accumulator, bump the nonce. -/
def payFee (l : Ledger) (signer nonce fee : Nat) : Except LErr Ledger :=
  let a := l.acct signer
  if l.isReserved signer then .error .forbidden
  else if a.nonce ≠ nonce then .error .invalidNonce
  else if a.general < fee + l.params.minTransactBalance then .error .balanceTooLow
  else .ok { (l.setAcct signer { a with general := a.general - fee, nonce := a.nonce + 1 }) with
             feeAcc := l.feeAcc + fee }

/-- `burnImpl`. -/
def burnImpl (l : Ledger) (src amount : Nat) : Except LErr Ledger :=
  let a := l.acct src
  if amount < l.params.minTransferAmount then .error .underMinTransfer
  else if a.general < amount then .error .insufficientBalance
  else if a.general - amount < l.params.minTransactBalance then .error .balanceTooLow
  else
    -- `_ = totalSupply.Sub(amount)`: the error is ignored
    let ts := if l.totalSupply < amount then l.totalSupply else l.totalSupply - amount
    .ok { (l.setAcct src { a with general := a.general - amount }) with
          totalSupply := ts, burned := l.burned + amount }

def burn (l : Ledger) (src amount : Nat) : Except LErr Ledger :=
  if l.isReserved src then .error .forbidden else burnImpl l src amount

/-- `transfer` + `transferImpl` (a transfer to the burn address is a burn). -/
def transfer (l : Ledger) (src dst amount : Nat) : Except LErr Ledger :=
  if l.isReserved src || l.params.disableTransfers then .error .forbidden
  else if dst = l.params.burnAddr then burnImpl l src amount
  else if amount < l.params.minTransferAmount then .error .underMinTransfer
  else
    let a := l.acct src
    if src = dst then
      if a.general < amount then .error .insufficientBalance else .ok l
    else if l.isReserved dst then .error .badAccount
    else
      let b := l.acct dst
      if a.general < amount then .error .insufficientBalance
      else if a.general - amount < l.params.minTransactBalance then .error .balanceTooLow
      else if b.general + amount < l.params.minTransactBalance then .error .balanceTooLow
      else .ok ((l.setAcct dst { b with general := b.general + amount }).setAcct src
                  { a with general := a.general - amount })

/-- `addEscrow`. -/
def addEscrow (l : Ledger) (src escrow amount : Nat) : Except LErr Ledger :=
  if amount < l.params.minDelegationAmount then .error .underMinDelegation
  else if l.isReserved src then .error .forbidden
  else if src ≠ escrow && l.params.disableDelegation then .error .forbidden
  else if src ≠ escrow && l.isReserved escrow then .error .badAccount
  else
    let a := l.acct src
    let e := l.acct escrow
    match deposit e.active (l.del escrow src) a.general amount with
    | .error err => .error (LErr.ofQ err)
    | .ok r =>
      if r.stakeSrc < l.params.minTransactBalance then .error .balanceTooLow
      else
        let l1 :=
          if src = escrow then l.setAcct src { a with general := r.stakeSrc, active := r.pool }
          else (l.setAcct src { a with general := r.stakeSrc }).setAcct escrow { e with active := r.pool }
        .ok (l1.setDel escrow src r.shareDst)

/-- `reclaimEscrow`: redeem active shares, deposit the stake into the debonding pool, queue the
debonding delegation at `epoch + debondingInterval`. -/
def reclaimEscrow (l : Ledger) (dst escrow shares : Nat) : Except LErr Ledger :=
  if shares = 0 then .error .invalidArgument
  else if l.isReserved dst then .error .forbidden
  else if dst ≠ escrow && l.params.disableDelegation then .error .forbidden
  else if dst ≠ escrow && l.isReserved escrow then .error .badAccount
  else
    let e := l.acct escrow
    match reclaim e.active e.debonding (l.del escrow dst) shares with
    | .error err => .error (LErr.ofQ err)
    | .ok r =>
      let entry : DebEntry := { endEpoch := l.epoch + l.params.debondingInterval, delegator := dst,
                                escrow := escrow, shares := r.debondingShares }
      let l1 := { l with deb := DebSt.enqueue l.deb entry }
      let l2 := l1.setDel escrow dst r.delegationShares
      .ok (l2.setAcct escrow { e with active := r.active, debonding := r.debonding })

def lookupAllow (al : List (Nat × Nat)) (b : Nat) : Option Nat := (al.find? (·.1 == b)).map (·.2)

def setAllow (al : List (Nat × Nat)) (b v : Nat) : List (Nat × Nat) :=
  let rest := al.filter (·.1 != b)
  if v = 0 then rest else (b, v) :: rest

/-- New allowance: `Add(change)` or `SubUpTo(change)`. -/
def newAllowance (cur : Nat) (negative : Bool) (change : Nat) : Nat :=
  if negative then cur - (if cur < change then cur else change) else cur + change

/-- `allow`. -/
def allow (l : Ledger) (owner beneficiary : Nat) (negative : Bool) (change : Nat) : Except LErr Ledger :=
  if l.params.disableTransfers || l.params.maxAllowances = 0 then .error .forbidden
  else if l.isReserved owner || l.isReserved beneficiary then .error .forbidden
  else if owner = beneficiary then .error .invalidArgument
  else
    let a := l.acct owner
    let cur := (lookupAllow a.allowances beneficiary).getD 0
    let new := newAllowance cur negative change
    if new > l.totalSupply then .error .allowanceGtSupply
    else
      let al := setAllow a.allowances beneficiary new
      if al.length > l.params.maxAllowances then .error .tooManyAllowances
      else .ok (l.setAcct owner { a with allowances := al })

/-- `withdraw`: the beneficiary `dst` pulls `amount` out of `src`'s general balance. -/
def withdraw (l : Ledger) (dst src amount : Nat) : Except LErr Ledger :=
  if amount < l.params.minTransferAmount then .error .underMinTransfer
  else if l.params.disableTransfers || l.params.maxAllowances = 0 then .error .forbidden
  else if l.isReserved dst || l.isReserved src then .error .forbidden
  else if dst = src then .error .invalidArgument
  else
    let a := l.acct src
    match lookupAllow a.allowances dst with
    | none => .error .forbidden
    | some cur =>
      if cur < amount then .error .forbidden
      else
        let b := l.acct dst
        if a.general < amount then .error .insufficientBalance
        else if a.general - amount < l.params.minTransactBalance then .error .balanceTooLow
        else if b.general + amount < l.params.minTransactBalance then .error .balanceTooLow
        else .ok ((l.setAcct dst { b with general := b.general + amount }).setAcct src
                    { a with general := a.general - amount,
                             allowances := setAllow a.allowances dst (cur - amount) })

/-- `amendCommissionSchedule`: only accounts with enough active escrow may keep a schedule; the
amendment is applied to the pruned schedule and the result validated (`AmendAndPruneAndValidate`);
a refused amendment persists nothing (the pruned / spliced in-memory copy is dropped). -/
def amendCommissionSchedule (l : Ledger) (src : Nat) (am : Schedule) : Except LErr Ledger :=
  if l.isReserved src then .error .forbidden
  else
    let a := l.acct src
    if a.active.balance < l.params.commissionStakeThreshold then .error .insufficientStake
    else
      match a.schedule.amendAndPruneAndValidate am l.params.rules l.epoch with
      | none => .error .badSchedule
      | some s' => .ok (l.setAcct src { a with schedule := s' })

inductive TxBody where
  | transfer (dst amount : Nat)
  | burn (amount : Nat)
  | addEscrow (escrow amount : Nat)
  | reclaimEscrow (escrow shares : Nat)
  | allow (beneficiary : Nat) (negative : Bool) (change : Nat)
  | withdraw (src amount : Nat)
  | amend (amendment : Schedule)
  deriving Repr

def execBody (l : Ledger) (signer : Nat) : TxBody → Except LErr Ledger
  | .transfer dst amount => transfer l signer dst amount
  | .burn amount => burn l signer amount
  | .addEscrow escrow amount => addEscrow l signer escrow amount
  | .reclaimEscrow escrow shares => reclaimEscrow l signer escrow shares
  | .allow b neg ch => allow l signer b neg ch
  | .withdraw src amount => withdraw l signer src amount
  | .amend am => amendCommissionSchedule l signer am

/-- `params.GasCosts[op]` of the operation a transaction body performs. -/
def opCost (p : Params) : TxBody → Nat
  | .transfer .. => p.gasCosts.transfer
  | .burn .. => p.gasCosts.burn
  | .addEscrow .. => p.gasCosts.addEscrow
  | .reclaimEscrow .. => p.gasCosts.reclaimEscrow
  | .allow .. => p.gasCosts.allow
  | .withdraw .. => p.gasCosts.withdraw
  | .amend .. => p.gasCosts.amendCommissionSchedule

/-- Gas limit of the transaction's fee (`fee.Gas`) and its encoded size. -/
structure TxGas where
  limit : Nat := 0
  size : Nat := 0
  deriving Repr

/-- Gas accounting around the body: the mux charges per transaction byte (`GasOpTxByte` × size), each
handler charges its operation's cost first thing (after the zero-shares check in `reclaimEscrow`),
before it reads or writes any state; running out of gas at either point fails the transaction like any
other error — nothing but fee and nonce is persisted. -/
def execBodyGas (l : Ledger) (signer : Nat) (g : TxGas) (body : TxBody) : Except LErr Ledger :=
  let used := g.size * l.params.gasPerByte
  if g.limit < used then .error .outOfGas
  else
    match body with
    | .reclaimEscrow _ sh =>
      if sh = 0 then .error .invalidArgument
      else if g.limit < used + opCost l.params body then .error .outOfGas
      else execBody l signer body
    | _ =>
      if g.limit < used + opCost l.params body then .error .outOfGas else execBody l signer body

/-- One transaction as the mux processes it in DeliverTx: authenticate and pay the fee, charge gas,
then the body.  Returns the persisted ledger and the error, if any: a failing fee payment persists
nothing, a failing body (or running out of gas) persists the fee payment and the nonce. -/
def applyTx (l : Ledger) (signer nonce fee : Nat) (g : TxGas) (body : TxBody) : Ledger × Option LErr :=
  match payFee l signer nonce fee with
  | .error e => (l, some e)
  | .ok l1 =>
    match execBodyGas l1 signer g body with
    | .error e => (l1, some e)
    | .ok l2 => (l2, none)

/-! ### Fees -/

def creditGeneral (l : Ledger) (a amount : Nat) : Ledger :=
  l.setAcct a { l.acct a with general := (l.acct a).general + amount }

/-- Payment of the next-proposer shares of the last-block fees. -/
def payNextProposer (l : Ledger) (proposer : Option Nat) (npTotal : Nat) : Except LErr Ledger :=
  match proposer with
  | some p =>
    if npTotal ≠ 0 then (if l.isReserved p then .error .fatal else .ok (l.creditGeneral p npTotal)) else .ok l
  | none => .ok l

/-- `disburseFeesP` at EndBlock: persist the voters'/next proposer's part as last-block fees, pay
the rest to the proposer (or the common pool). The block's accumulator is dropped with the block context. -/
def disburseFeesP (l : Ledger) : Except LErr Ledger :=
  let fees := l.feeAcc
  if fees = 0 then .ok { l with lastBlockFees := 0, lbfSpent := false, feeAcc := 0 }
  else
    let wVQ := l.params.feeWeightVote + l.params.feeWeightNextPropose
    let wPVQ := wVQ + l.params.feeWeightPropose
    if wPVQ = 0 then .error .fatal
    else
      let persist := fees * wVQ / wPVQ
      let rest := fees - persist
      let l1 := { l with lastBlockFees := persist, lbfSpent := false, feeAcc := 0 }
      match l.proposer with
      | some _ => payNextProposer l1 l.proposer rest
      | none => .ok { l1 with common := l1.common + rest }

def payVoters (l : Ledger) (share : Nat) : List Nat → Except LErr Ledger
  | [] => .ok l
  | v :: vs => if l.isReserved v then .error .fatal else payVoters (l.creditGeneral v share) share vs

def payVotersIf (l : Ledger) (share : Nat) (voters : List Nat) : Except LErr Ledger :=
  if share ≠ 0 then payVoters l share voters else .ok l

/-- Tail of `disburseFeesVQ`: pay the next proposer `shareNP` per voter, each voter `shareVote`,
the rest of the last-block fees `lbf` to the common pool. -/
def vqPay (l : Ledger) (proposer : Option Nat) (voters : List Nat) (lbf shareNP shareVote : Nat) :
    Except LErr Ledger :=
  let npTotal := shareNP * voters.length
  let paidNP := if npTotal ≠ 0 ∧ proposer.isSome then npTotal else 0
  let paidV := if shareVote ≠ 0 then shareVote * voters.length else 0
  if lbf < paidNP + paidV then .error .fatal
  else
    match payNextProposer l proposer npTotal with
    | .error e => .error e
    | .ok l1 =>
      match payVotersIf l1 shareVote voters with
      | .error e => .error e
      | .ok l2 => .ok { l2 with common := l2.common + (lbf - paidNP - paidV), lbfSpent := true }

/-- `disburseFeesVQ` at BeginBlock: the persisted last-block fees go to the voters and the (next)
proposer, the remainder to the common pool. The stored value is *not* reset here. -/
def disburseFeesVQ (l : Ledger) (proposer : Option Nat) (numEligible : Nat) (voters : List Nat) :
    Except LErr Ledger :=
  let lbf := l.lastBlockFees
  if lbf = 0 then .ok l
  else if numEligible = 0 then .error .fatal
  else
    let perValidator := lbf / numEligible
    let denom := l.params.feeWeightVote + l.params.feeWeightNextPropose
    if denom = 0 then .error .fatal
    else
      let shareNP := perValidator * l.params.feeWeightNextPropose / denom
      vqPay l proposer voters lbf shareNP (perValidator - shareNP)

/-! ### Rewards -/

def activeStep (sched : List (Nat × Nat)) (epoch : Nat) : Option Nat :=
  (sched.find? (fun s => epoch < s.1)).map (·.2)

/-- Common tail of `AddRewards` / `AddRewardSingleAttenuated` for one account: split the reward `q`
into commission and rest, add the rest to the active balance (raising the share price), deposit the
commission for the account's self-delegation. -/
def rewardAccount (l : Ledger) (epoch a q : Nat) : Except LErr Ledger :=
  if q = 0 then .ok l
  else if q > l.common then .ok l
  else
    let ac := l.acct a
    -- `ent.Escrow.CommissionSchedule.CurrentRate(time)`, `MinCommissionRate` if nil
    match computeCommission (l.rateOf a epoch) q with
    | .error _ => .error .fatal
    | .ok (com, rest) =>
      -- `quantity.Move(&ent.Escrow.Active.Balance, commonPool, q)`
      if l.common < rest then .error .fatal else
      let pool1 : SharePool := { ac.active with balance := ac.active.balance + rest }
      let common1 := l.common - rest
      if com = 0 then
        .ok { (l.setAcct a { ac with active := pool1 }) with common := common1 }
      else
        match deposit pool1 (l.del a a) common1 com with
        | .error _ => .error .fatal
        | .ok r =>
          .ok { ((l.setAcct a { ac with active := r.pool }).setDel a a r.shareDst) with common := r.stakeSrc }

/-- `AddRewardSingleAttenuated`. -/
def addRewardSingleAttenuated (l : Ledger) (epoch factor num den a : Nat) : Except LErr Ledger :=
  match activeStep l.params.rewardSchedule epoch with
  | none => .ok l
  | some scale =>
    if l.isReserved a then .error .fatal
    else if den = 0 then .error .fatal
    else
      let q := (l.acct a).active.balance * factor * scale * num / rewardAmountDenominator / den
      rewardAccount l epoch a q

def addRewardsLoop (l : Ledger) (epoch factor scale : Nat) : List Nat → Except LErr Ledger
  | [] => .ok l
  | a :: as =>
    if l.isReserved a then .error .fatal
    else
      let q := (l.acct a).active.balance * factor * scale / rewardAmountDenominator
      match rewardAccount l epoch a q with
      | .error e => .error e
      | .ok l1 => addRewardsLoop l1 epoch factor scale as

/-- `AddRewards`. -/
def addRewards (l : Ledger) (epoch factor : Nat) (addrs : List Nat) : Except LErr Ledger :=
  match activeStep l.params.rewardSchedule epoch with
  | none => .ok l
  | some scale => addRewardsLoop l epoch factor scale addrs

def bumpSigning (sigBy : Nat → Nat) : List Nat → Nat → Nat
  | [] => sigBy
  | v :: vs => bumpSigning (upd sigBy v (sigBy v + 1)) vs

/-- `updateEpochSigning`. -/
def updateEpochSigning (l : Ledger) (voters : List Nat) : Ledger :=
  { l with sigTotal := l.sigTotal + 1, sigBy := bumpSigning l.sigBy voters }

/-- `rewardEpochSigning`. -/
def rewardEpochSigning (l : Ledger) (epoch : Nat) : Except LErr Ledger :=
  let cleared := { l with sigTotal := 0, sigBy := fun _ => 0 }
  if l.params.signingThresholdDen = 0 then .ok cleared
  else if l.sigTotal = 0 then .ok cleared
  else
    let eligible := l.params.pkOrder.filter (fun e =>
      decide (0 < l.sigBy e) && decide (l.sigTotal * l.params.signingThresholdNum ≤ l.sigBy e * l.params.signingThresholdDen))
    addRewards cleared epoch l.params.rewardFactorEpochSigned eligible

/-! ### Slashing -/

/-- `SlashEscrow`. -/
def slashEscrowL (l : Ledger) (a amount : Nat) : Except LErr Ledger :=
  if l.isReserved a then .error .fatal
  else
    let ac := l.acct a
    let r := slashEscrow ac.active ac.debonding l.common amount
    if r.slashed = 0 then .ok l
    else .ok { (l.setAcct a { ac with active := r.active, debonding := r.debonding }) with common := r.common }

/-- `onEvidenceByzantineConsensus` for validator number `v`. -/
def onEvidence (l : Ledger) (v : Nat) : Except LErr Ledger :=
  match l.params.validators[v]? with
  | none => .ok l
  | some ent =>
    if l.frozen v then .ok l
    else
      match slashEscrowL l ent l.params.slashAmount with
      | .error e => .error e
      | .ok l1 => .ok (if l.params.freezeInterval > 0 then { l1 with frozen := upd l1.frozen v true } else l1)

def evidenceLoop (l : Ledger) : List Nat → Except LErr Ledger
  | [] => .ok l
  | v :: vs => match onEvidence l v with
    | .error e => .error e
    | .ok l1 => evidenceLoop l1 vs

/-! ### Blocks -/

/-- `BeginBlock`: fee disbursement to voters/proposer, proposing reward, signing bookkeeping,
slashing for the submitted evidence. -/
def beginBlock (l : Ledger) (proposer : Option Nat) (numEligible : Nat) (voters evidence : List Nat) :
    Except LErr Ledger :=
  match disburseFeesVQ l proposer numEligible voters with
  | .error e => .error e
  | .ok l1 =>
    let l2 := { l1 with proposer := proposer }
    let r : Except LErr Ledger := match proposer with
      | none => .ok l2
      | some p => addRewardSingleAttenuated l2 l2.epoch l2.params.rewardFactorBlockProposed voters.length numEligible p
    match r with
    | .error e => .error e
    | .ok l3 => evidenceLoop (updateEpochSigning l3 voters) evidence

/-- Body of the debonding loop of `onEpochChange` for one expired queue entry. -/
def debondEntry (l : Ledger) (e : DebEntry) : Except LErr Ledger :=
  if l.isReserved e.delegator || l.isReserved e.escrow then .error .fatal
  else
    let esc := l.acct e.escrow
    match SharePool.withdraw esc.debonding 0 e.shares e.shares with
    | .error _ => .error .fatal
    | .ok w =>
      let l1 := { l with deb := l.deb.filter (fun x => !x.sameKey e) }
      if e.delegator = e.escrow then
        .ok (l1.setAcct e.escrow { esc with general := esc.general + w.stakeDst, debonding := w.pool })
      else
        let d := l.acct e.delegator
        .ok ((l1.setAcct e.delegator { d with general := d.general + w.stakeDst }).setAcct e.escrow
              { esc with debonding := w.pool })

def debondAll (l : Ledger) : List DebEntry → Except LErr Ledger
  | [] => .ok l
  | e :: es => match debondEntry l e with
    | .error err => .error err
    | .ok l1 => debondAll l1 es

/-- `onEpochChange`. -/
def onEpochChange (l : Ledger) (epoch : Nat) : Except LErr Ledger :=
  match debondAll l (DebSt.expired l.deb epoch) with
  | .error e => .error e
  | .ok l1 => rewardEpochSigning l1 epoch

/-- `EndBlock` (+ the reset of the block context when the block is committed). -/
def endBlock (l : Ledger) : Except LErr Ledger :=
  match disburseFeesP l with
  | .error e => .error e
  | .ok l1 =>
    let r : Except LErr Ledger := if l1.epochChanged then onEpochChange l1 l1.epoch else .ok l1
    match r with
    | .error e => .error e
    | .ok l2 => .ok { l2 with proposer := none, epochChanged := false }

/-- The beacon announces a new epoch for the block being processed. -/
def setEpoch (l : Ledger) (e : Nat) : Ledger := { l with epoch := e, epochChanged := true }

/-! ### Other movers: common-pool transfers (roothash rewards), governance deposits -/

/-- `TransferFromCommon`. -/
def transferFromCommon (l : Ledger) (dst amount : Nat) (escrow : Bool) : Except LErr Ledger :=
  if l.isReserved dst then .error .fatal
  else
    let a := l.acct dst
    let m := Quantity.moveUpTo a.general l.common amount
    let transferred := m.2.2
    if transferred = 0 then .ok l
    else if !escrow then .ok { (l.setAcct dst { a with general := m.1 }) with common := m.2.1 }
    else
      let step1 : Except LErr (Nat × SharePool × Nat) :=       -- (general, active, commission)
        if a.active.totalShares ≠ 0 then
          match computeCommission (l.rateOf dst l.epoch) transferred with
          | .error _ => .error .fatal
          | .ok (com, rest) =>
            if m.1 < rest then .error .fatal
            else .ok (m.1 - rest, { a.active with balance := a.active.balance + rest }, com)
        else .ok (m.1, a.active, transferred)
      match step1 with
      | .error e => .error e
      | .ok (gen, pool, com) =>
        if com = 0 then
          .ok { (l.setAcct dst { a with general := gen, active := pool }) with common := m.2.1 }
        else
          match deposit pool (l.del dst dst) gen com with
          | .error err => .error (LErr.ofQ err)
          | .ok r =>
            .ok { ((l.setAcct dst { a with general := r.stakeSrc, active := r.pool }).setDel dst dst r.shareDst)
                  with common := m.2.1 }

/-- `TransferToGovernanceDeposits`. -/
def govDeposit (l : Ledger) (src amount : Nat) : Except LErr Ledger :=
  let a := l.acct src
  if l.isReserved src then .error .fatal
  else if a.general < amount then .error .insufficientBalance
  else .ok { (l.setAcct src { a with general := a.general - amount }) with govDeposits := l.govDeposits + amount }

/-- `TransferFromGovernanceDeposits`. -/
def govRefund (l : Ledger) (dst amount : Nat) : Except LErr Ledger :=
  if l.isReserved dst then .error .fatal
  else if l.govDeposits < amount then .error .insufficientBalance
  else .ok { (l.creditGeneral dst amount) with govDeposits := l.govDeposits - amount }

/-- `DiscardGovernanceDeposit`. -/
def govDiscard (l : Ledger) (amount : Nat) : Except LErr Ledger :=
  if l.govDeposits < amount then .error .insufficientBalance
  else .ok { l with govDeposits := l.govDeposits - amount, common := l.common + amount }

/-! ### The conservation invariant -/

def sumTo (n : Nat) (f : Nat → Nat) : Nat :=
  match n with
  | 0 => 0
  | k + 1 => sumTo k f + f k

def accountsTotal (l : Ledger) : Nat := sumTo l.n (fun i => (l.acct i).bal)

def debSharesOf (deb : List DebEntry) (escrow : Nat) : Nat :=
  DebSt.sharesSum (deb.filter (fun e => e.escrow == escrow))

/-- Supply equation: the recorded total supply equals all general balances, active and debonding
escrow balances, the common pool, the governance deposits, the fees carried to the next block
(not counted once `disburseFeesVQ` has paid them out) and the running block's fee accumulator. -/
def supplyOk (l : Ledger) : Bool :=
  l.totalSupply == accountsTotal l + l.common + l.govDeposits
                   + (if l.lbfSpent then 0 else l.lastBlockFees) + l.feeAcc

/-- Share bookkeeping: each pool's total shares equal the sum of the (debonding) delegations into it. -/
def sharesOk (l : Ledger) : Bool :=
  (List.range l.n).all (fun e =>
    (l.acct e).active.totalShares == sumTo l.n (l.del e) &&
    (l.acct e).debonding.totalShares == debSharesOf l.deb e)

/-- Everything recorded lives below `n`. -/
def scopeOk (l : Ledger) : Bool :=
  l.deb.all (fun e => decide (e.delegator < l.n) && decide (e.escrow < l.n))

/-- The debonding queue is strictly sorted by key (so keys are unique). -/
def sortedB : List DebEntry → Bool
  | [] => true
  | [_] => true
  | a :: b :: r => a.keyLt b && sortedB (b :: r)

def invB (l : Ledger) : Bool := supplyOk l && sharesOk l && scopeOk l && sortedB l.deb

/-- No pool has a balance without shares (the "no delegations ⇒ zero escrow balance" clause of
`SanityCheckAccountShares`). -/
def wfB (l : Ledger) : Bool :=
  (List.range l.n).all (fun i =>
    ((l.acct i).active.totalShares != 0 || (l.acct i).active.balance == 0) &&
    ((l.acct i).debonding.totalShares != 0 || (l.acct i).debonding.balance == 0))

/-- Every account's commission schedule passes `PruneAndValidate` at the genesis epoch
(`SanityCheckAccount`; the stored schedule is the unpruned one). -/
def schedulesB (l : Ledger) : Bool :=
  (List.range l.n).all (fun i => ((l.acct i).schedule.pruneAndValidate l.params.rules l.epoch).isSome)

/-- `InitChain`: the genesis document is accepted iff the declared total supply is what the parts
add up to, the share totals match the delegations and the commission schedules are valid; last-block fees of the genesis document are
moved to the common pool. -/
def genesis (l : Ledger) : Except LErr Ledger :=
  let l1 := { l with common := l.common + l.lastBlockFees, lastBlockFees := 0, lbfSpent := false, feeAcc := 0,
                     burned := 0, proposer := none, epochChanged := false }
  if invB l1 && wfB l1 && schedulesB l1 then .ok l1 else .error .fatal

/-! ### Runtime messages

`roothash.processRuntimeMessages` publishes the staking messages a runtime emitted in a finalized
round to `ExecuteMessage` with the runtime's account (`NewRuntimeAddress(id)`) as caller and a no-op
gas accountant (gas was accounted when the messages were submitted): no fee, no nonce, no gas.  The
handlers are the transaction handlers; `AddEscrow` / `ReclaimEscrow` additionally require
`AllowEscrowMessages`.  A failing message leaves the state as it was (the handlers write only after
their last check; `withdraw` runs in a sub-transaction) and is reported in the round's message
results. -/

inductive MsgBody where
  | transfer (dst amount : Nat)
  | withdraw (src amount : Nat)
  | addEscrow (escrow amount : Nat)
  | reclaimEscrow (escrow shares : Nat)
  deriving Repr

def execMsg (l : Ledger) (rt : Nat) : MsgBody → Except LErr Ledger
  | .transfer dst amount => transfer l rt dst amount
  | .withdraw src amount => withdraw l rt src amount
  | .addEscrow escrow amount =>
    if !l.params.allowEscrowMessages then .error .forbidden else addEscrow l rt escrow amount
  | .reclaimEscrow escrow shares =>
    if shares = 0 then .error .invalidArgument
    else if !l.params.allowEscrowMessages then .error .forbidden
    else reclaimEscrow l rt escrow shares

/-! ### Histories: blocks of operations -/

/-- What can happen between BeginBlock and EndBlock: transactions, runtime messages, and the state movers other
applications call (roothash slashing and rewards, scheduler rewards, governance deposits). -/
inductive Op where
  | tx (signer nonce fee : Nat) (gas : TxGas) (body : TxBody)
  | msg (runtime : Nat) (body : MsgBody)
  | slash (a amount : Nat)
  | transferFromCommon (dst amount : Nat) (escrow : Bool)
  | addRewards (epoch factor : Nat) (addrs : List Nat)
  | govDeposit (src amount : Nat)
  | govRefund (dst amount : Nat)
  | govDiscard (amount : Nat)
  deriving Repr

def keep (l : Ledger) : Except LErr Ledger → Ledger
  | .ok l' => l'
  | .error _ => l

/-- Persisted ledger after one operation; an operation that fails leaves the ledger unchanged
(a transaction: apart from fee and nonce). -/
def applyOp (l : Ledger) : Op → Ledger
  | .tx s n f g b => (applyTx l s n f g b).1
  | .msg rt b => keep l (execMsg l rt b)
  | .slash a amt => keep l (slashEscrowL l a amt)
  | .transferFromCommon d amt e => keep l (transferFromCommon l d amt e)
  | .addRewards ep f as => keep l (addRewards l ep f as)
  | .govDeposit s amt => keep l (govDeposit l s amt)
  | .govRefund d amt => keep l (govRefund l d amt)
  | .govDiscard amt => keep l (govDiscard l amt)

structure Block where
  newEpoch : Option Nat := none      -- the beacon announces an epoch transition in this block
  proposer : Option Nat := none      -- proposer's entity (none: not resolvable)
  numEligible : Nat := 0             -- size of the validator set of the last commit
  voters : List Nat := []            -- entities of the validators that signed the last block
  evidence : List Nat := []          -- validators with misbehaviour evidence
  ops : List Op := []
  deriving Repr

def startBlock (l : Ledger) : Option Nat → Ledger
  | some e => setEpoch l e
  | none => l

/-- One block; `none` when BeginBlock or EndBlock fails — consensus halts, nothing is committed. -/
def runBlock (l : Ledger) (b : Block) : Option Ledger :=
  let l0 := startBlock l b.newEpoch
  match beginBlock l0 b.proposer b.numEligible b.voters b.evidence with
  | .error _ => none
  | .ok l1 =>
    match endBlock (b.ops.foldl applyOp l1) with
    | .error _ => none
    | .ok l2 => some l2

/-- A chain of blocks from a given ledger (stops at a halting block). -/
def runChain (l : Ledger) : List Block → Ledger
  | [] => l
  | b :: bs => match runBlock l b with
    | none => l
    | some l' => runChain l' bs

end Ledger
end OasisModel.Staking
