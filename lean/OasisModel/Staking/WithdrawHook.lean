import OasisModel.Staking.Ledger
/-
Record-level model of staking `withdraw` INCLUDING the account-hook path (property C05).

  go/consensus/cometbft/apps/staking/transactions.go:701-849   (*Application).withdraw
  go/consensus/cometbft/apps/vault/messages.go:59-98           invokeAccountHook (the only hook module)
  go/consensus/cometbft/apps/staking/state/state.go            Account / SetAccount

`Staking/Ledger.lean` models `withdraw` on the allowance path only and, being a functional model,
holds ONE value per account.  The Go handler does not: it loads `from` (l.747) and, after the
authorization switch, `to` (l.793) as two independent copies of store records, moves the amount
between the copies (l.798) and writes both back, `SetAccount(toAddr, to)` first (l.820), then
`SetAccount(withdraw.From, from)` (l.823).  With `From = To` the two copies are copies of the SAME
record and the second write overwrites the first; the only thing that excludes this is the guard
`toAddr.Equal(withdraw.From)` at l.739, placed BEFORE the authorization switch.  This file models
exactly that load / move / store sequence on an address-indexed record store, parameterised by the
answer of the hook module:

  * the hook handler of the vault (messages.go:59-98) reads and writes VAULT state only
    (`vaultState`: `Vault`, `AddressState`, `SetAddressState`), never a staking record, so for
    the staking store its whole effect is one bit: authorized (`nil` error) or not
    (l.770: any error becomes `ErrForbidden`).  That bit is the parameter `hookOk`.
  * the handler runs in a sub-transaction (`ctx.NewTransaction()`, l.743, `defer ctx.Close()`),
    committed only at l.841: every error return persists nothing.  The model returns
    `Except LErr State`; `persisted` is what the store holds afterwards.

`withdrawSeeded` is the variant with the self-withdraw guard inside the allowance branch only
(seeded/C05-r7m1).  Core Lean only.
-/
namespace OasisModel.Staking.WithdrawHook
open OasisModel.Staking

/-- A staking account record, as far as tokens, authorization and the hook are concerned
(go/staking/api/api.go `Account`: General{Balance, Nonce, Allowances, Hooks}, Escrow{Active,
Debonding}). -/
structure Account where
  general : Nat
  activeBal : Nat
  debondBal : Nat
  nonce : Nat
  allowances : List (Nat × Nat)
  /-- `General.Hooks[HookKindWithdraw]` is present. -/
  hook : Bool
deriving DecidableEq, Repr

def Account.empty : Account := ⟨0, 0, 0, 0, [], false⟩

/-- Base units held by the record. -/
def Account.tokens (r : Account) : Nat := r.general + r.activeBal + r.debondBal

/-- The account store: a missing record reads as the empty account (state.go `Account`). -/
abbrev Store := Nat → Account

/-- `SetAccount`. -/
def Store.set (s : Store) (a : Nat) (r : Account) : Store := fun k => if k = a then r else s k

/-- The part of the staking state `withdraw` can see: the records and the recorded total supply
(which `withdraw` never writes). -/
structure State where
  accts : Store
  totalSupply : Nat

structure Params where
  minTransferAmount : Nat := 0
  minTransactBalance : Nat := 0
  disableTransfers : Bool := false
  maxAllowances : Nat := 16
  reserved : List Nat := []

/-- The guards before the address comparison (transactions.go:724-738), in the code's order. -/
def preGuards (p : Params) (to from_ amount : Nat) : Option LErr :=
  if amount < p.minTransferAmount then some .underMinTransfer
  else if p.disableTransfers || p.maxAllowances = 0 then some .forbidden
  else if p.reserved.contains to || p.reserved.contains from_ then some .forbidden
  else none

/-- The `default:` branch of the switch (l.773-789): allowance lookup, `Sub`, delete-if-zero —
performed on the in-memory copy `fromCopy`. -/
def allowanceAuth (fromCopy : Account) (to amount : Nat) : Except LErr Account :=
  match Ledger.lookupAllow fromCopy.allowances to with
  | none => .error .forbidden
  | some cur =>
    if cur < amount then .error .forbidden
    else .ok { fromCopy with allowances := Ledger.setAllow fromCopy.allowances to (cur - amount) }

/-- The authorization switch (l.755-790): hook present → the hook module decides (`hookOk`), the
copy is untouched; otherwise the allowance logic. -/
def authorize (fromCopy : Account) (to amount : Nat) (hookOk : Bool) : Except LErr Account :=
  if fromCopy.hook then (if hookOk then .ok fromCopy else .error .forbidden)
  else allowanceAuth fromCopy to amount

/-- The switch of the seeded variant: the address comparison sits inside the allowance branch. -/
def authorizeSeeded (fromCopy : Account) (to from_ amount : Nat) (hookOk : Bool) : Except LErr Account :=
  if fromCopy.hook then (if hookOk then .ok fromCopy else .error .forbidden)
  else if to = from_ then .error .invalidArgument
  else allowanceAuth fromCopy to amount

/-- l.793-825: load the SECOND copy `to` from the store, `quantity.Move(&to, &from, amount)` on the
two copies, the two minimum-balance checks, then `SetAccount(to)` followed by `SetAccount(from)`. -/
def moveAndStore (p : Params) (s : State) (to from_ : Nat) (fromCopy : Account) (amount : Nat) :
    Except LErr State :=
  let toCopy := s.accts to
  if fromCopy.general < amount then .error .insufficientBalance
  else
    let from' := { fromCopy with general := fromCopy.general - amount }
    let to' := { toCopy with general := toCopy.general + amount }
    if from'.general < p.minTransactBalance then .error .balanceTooLow
    else if to'.general < p.minTransactBalance then .error .balanceTooLow
    else .ok { s with accts := (s.accts.set to to').set from_ from' }

/-- `withdraw` as in the source: caller `to` pulls `amount` out of `from_`. -/
def withdraw (p : Params) (s : State) (to from_ amount : Nat) (hookOk : Bool) : Except LErr State :=
  match preGuards p to from_ amount with
  | some e => .error e
  | none =>
    if to = from_ then .error .invalidArgument            -- l.739
    else
      match authorize (s.accts from_) to amount hookOk with   -- l.747 load `from`, l.755 switch
      | .error e => .error e
      | .ok fromCopy => moveAndStore p s to from_ fromCopy amount

/-- The seeded variant (seeded/C05-r7m1): no comparison before the switch. -/
def withdrawSeeded (p : Params) (s : State) (to from_ amount : Nat) (hookOk : Bool) : Except LErr State :=
  match preGuards p to from_ amount with
  | some e => .error e
  | none =>
    match authorizeSeeded (s.accts from_) to from_ amount hookOk with
    | .error e => .error e
    | .ok fromCopy => moveAndStore p s to from_ fromCopy amount

/-- The same sequence with the two `SetAccount` calls in the opposite order (not in the source; used
to show that the order decides the direction of the damage). -/
def moveAndStoreRev (p : Params) (s : State) (to from_ : Nat) (fromCopy : Account) (amount : Nat) :
    Except LErr State :=
  let toCopy := s.accts to
  if fromCopy.general < amount then .error .insufficientBalance
  else
    let from' := { fromCopy with general := fromCopy.general - amount }
    let to' := { toCopy with general := toCopy.general + amount }
    if from'.general < p.minTransactBalance then .error .balanceTooLow
    else if to'.general < p.minTransactBalance then .error .balanceTooLow
    else .ok { s with accts := (s.accts.set from_ from').set to to' }

/-- What the store holds after the handler returned (sub-transaction: an error persists nothing). -/
def persisted (r : Except LErr State) (s : State) : State :=
  match r with
  | .ok s' => s'
  | .error _ => s

/-- Base units over a list of addresses. -/
def tokens (s : Store) (addrs : List Nat) : Nat := (addrs.map (fun a => (s a).tokens)).sum

/-- General balances over a list of addresses. -/
def generalSum (s : Store) (addrs : List Nat) : Nat := (addrs.map (fun a => (s a).general)).sum

/-! ### the functional ledger model seen as a record store (for the agreement theorem) -/

/-- A record of `Staking/Ledger.lean` (which has no hooks) as a hook-less record. -/
def ofAccount (a : OasisModel.Staking.Account) : Account :=
  ⟨a.general, a.active.balance, a.debonding.balance, a.nonce, a.allowances, false⟩

def ofLedger (l : Ledger) : State := ⟨fun k => ofAccount (l.acct k), l.totalSupply⟩

def ofParams (p : OasisModel.Staking.Params) : Params :=
  { minTransferAmount := p.minTransferAmount, minTransactBalance := p.minTransactBalance,
    disableTransfers := p.disableTransfers, maxAllowances := p.maxAllowances, reserved := p.reserved }

end OasisModel.Staking.WithdrawHook
