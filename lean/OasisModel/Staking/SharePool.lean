import OasisModel.Quantity
/-
Model of the escrow share pool arithmetic.

  go/staking/api/api.go                              SharePool.{sharesForStake,Deposit,StakeForShares,Withdraw}
  go/consensus/cometbft/apps/staking/state/state.go  slashPool, SlashEscrow (arithmetic), computeCommission
  go/consensus/cometbft/apps/staking/transactions.go reclaimEscrow (the Withdraw-then-Deposit core)

Everything is over `Nat` (Go: `big.Int` kept non-negative).  Functions that mutate through
pointers return the new values.  On an error the Go callers drop their in-memory copies
(nothing is persisted), so `Except` is the faithful shape.
-/
namespace OasisModel.Staking
open OasisModel OasisModel.Quantity

/-- Point update of a total map keyed by naturals (addresses are numbered by the drivers). -/
def upd {α : Type} (f : Nat → α) (k : Nat) (v : α) : Nat → α := fun i => if i = k then v else f i

structure SharePool where
  balance : Nat
  totalShares : Nat
  deriving DecidableEq, Repr, Inhabited

namespace SharePool

/-- `sharesForStake`: 1:1 on a pool without shares; refused when shares exist but the balance
is zero (everything slashed); otherwise `⌊amount · totalShares / balance⌋`. -/
def sharesForStake (p : SharePool) (amount : Nat) : Except QErr Nat :=
  if p.totalShares = 0 then .ok amount
  else if p.balance = 0 then .error .invalidArgument
  else .ok (amount * p.totalShares / p.balance)

structure DepositRes where
  pool : SharePool
  shareDst : Nat
  stakeSrc : Nat
  shares : Nat
  deriving DecidableEq, Repr

/-- `Deposit(shareDst, stakeSrc, amount)`. -/
def deposit (p : SharePool) (shareDst stakeSrc amount : Nat) : Except QErr DepositRes :=
  match sharesForStake p amount with
  | .error e => .error e
  | .ok shares =>
    if stakeSrc < amount then .error .insufficientBalance
    else .ok { pool := { balance := p.balance + amount, totalShares := p.totalShares + shares },
               shareDst := shareDst + shares, stakeSrc := stakeSrc - amount, shares := shares }

/-- `StakeForShares`: `⌊amount · balance / totalShares⌋`, zero if any of the three is zero.
(The Go function also returns an error value, which is always nil.) -/
def stakeForShares (p : SharePool) (amount : Nat) : Nat :=
  if amount = 0 ∨ p.balance = 0 ∨ p.totalShares = 0 then 0
  else amount * p.balance / p.totalShares

structure WithdrawRes where
  pool : SharePool
  stakeDst : Nat
  shareSrc : Nat
  deriving DecidableEq, Repr

/-- `Withdraw(stakeDst, shareSrc, shareAmount)`. -/
def withdraw (p : SharePool) (stakeDst shareSrc shareAmount : Nat) : Except QErr WithdrawRes :=
  let baseUnits := stakeForShares p shareAmount
  if shareSrc < shareAmount then .error .insufficientBalance
  else if p.totalShares < shareAmount then .error .insufficientBalance
  else if p.balance < baseUnits then .error .insufficientBalance
  else .ok { pool := { balance := p.balance - baseUnits, totalShares := p.totalShares - shareAmount },
             stakeDst := stakeDst + baseUnits, shareSrc := shareSrc - shareAmount }

/-- `slashPool(dst, p, amount, total)`: moves up to `⌊balance · amount / total⌋` from the pool's
balance to `dst`; nothing when `total = 0`. Returns `(dst', p')`. -/
def slashPool (dst : Nat) (p : SharePool) (amount total : Nat) : Nat × SharePool :=
  if total = 0 then (dst, p)
  else
    let slashAmount := p.balance * amount / total
    let m := moveUpTo dst p.balance slashAmount
    (m.1, { p with balance := m.2.1 })

structure SlashRes where
  active : SharePool
  debonding : SharePool
  common : Nat
  slashed : Nat
  debondingSlashed : Nat
  deriving DecidableEq, Repr

/-- The arithmetic of `SlashEscrow`: both pools are slashed against the same
`total = active.balance + debonding.balance`; the sum goes to the common pool. -/
def slashEscrow (active debonding : SharePool) (common amount : Nat) : SlashRes :=
  let total := active.balance + debonding.balance
  let a := slashPool 0 active amount total
  let d := slashPool 0 debonding amount total
  let totalSlashed := a.1 + d.1
  { active := a.2, debonding := d.2, common := common + totalSlashed,
    slashed := totalSlashed, debondingSlashed := d.1 }

/-- `CommissionRateDenominator` (go/staking/api/commission.go). -/
def commissionRateDenominator : Nat := 100000

/-- `computeCommission(rate, total)`: `(com, remaining)` with `com = ⌊total·rate/denominator⌋`;
fails when the commission exceeds the total (rate over unity). -/
def computeCommission (rate total : Nat) : Except QErr (Nat × Nat) :=
  let com := total * rate / commissionRateDenominator
  if total < com then .error .insufficientBalance else .ok (com, total - com)

structure ReclaimRes where
  active : SharePool
  debonding : SharePool
  delegationShares : Nat
  debondingShares : Nat
  amount : Nat
  deriving DecidableEq, Repr

/-- Core of `reclaimEscrow`: redeem `shares` of the delegation from the active pool into a
temporary quantity and deposit all of it into the debonding pool, minting debonding shares.
The Go code fails with `ErrInvalidArgument` if anything is left in the temporary. -/
def reclaim (active debonding : SharePool) (delegationShares shares : Nat) : Except QErr ReclaimRes :=
  match withdraw active 0 delegationShares shares with
  | .error e => .error e
  | .ok w =>
    let stakeAmount := w.stakeDst
    match deposit debonding 0 w.stakeDst stakeAmount with
    | .error e => .error e
    | .ok d =>
      if d.stakeSrc ≠ 0 then .error .invalidArgument
      else .ok { active := w.pool, debonding := d.pool, delegationShares := w.shareSrc,
                 debondingShares := d.shares, amount := stakeAmount }

/-! ### Executable statements of the C15 clauses on an *observed* outcome

These are evaluated by the model executable directly on what the Go implementation returned
(spec-on-implementation) and are proved of the model in `OasisProofs.Props.C15`
(`deposit_meets_spec`, `withdraw_meets_spec`, `slash_meets_spec`). -/

/-- Deposit clauses: refusal only for (shares outstanding ∧ zero balance) or a short source; on
success exactly `amount` moves in, the minted shares are added to total and destination, the
shares are `amount` on an empty pool and otherwise the floor of the pro-rata number
(`s·B ≤ a·TS < (s+1)·B`), and the price `B/TS` is not lowered. -/
def specDeposit (p : SharePool) (shareDst stakeSrc amount : Nat) : Except QErr DepositRes → Bool
  | .error e =>
    (e == .invalidArgument && p.totalShares != 0 && p.balance == 0) ||
    (e == .insufficientBalance && decide (stakeSrc < amount))
  | .ok r =>
    (p.totalShares == 0 || p.balance != 0) && decide (amount ≤ stakeSrc) &&
    r.pool.balance == p.balance + amount && r.stakeSrc + amount == stakeSrc &&
    r.pool.totalShares == p.totalShares + r.shares && r.shareDst == shareDst + r.shares &&
    (if p.totalShares = 0 then r.shares == amount
     else decide (r.shares * p.balance ≤ amount * p.totalShares) &&
          decide (amount * p.totalShares < (r.shares + 1) * p.balance)) &&
    ((p.totalShares == 0 && p.balance != 0) ||
      decide (p.balance * r.pool.totalShares ≤ r.pool.balance * p.totalShares))

/-- Withdraw clauses: refusal only for lack of shares; on success the payout `paid` leaves the
balance and reaches the destination, the shares are burned, `paid·TS ≤ s·B` (and
`s·B < (paid+1)·TS`: the floor), redeeming everything empties a well-formed pool, and the price is
not lowered. -/
def specWithdraw (p : SharePool) (stakeDst shareSrc shareAmount : Nat) : Except QErr WithdrawRes → Bool
  | .error e =>
    e == .insufficientBalance && (decide (shareSrc < shareAmount) || decide (p.totalShares < shareAmount))
  | .ok r =>
    let paid := r.stakeDst - stakeDst
    decide (shareAmount ≤ shareSrc) && decide (shareAmount ≤ p.totalShares) &&
    decide (stakeDst ≤ r.stakeDst) && r.pool.balance + paid == p.balance &&
    r.pool.totalShares + shareAmount == p.totalShares && r.shareSrc + shareAmount == shareSrc &&
    decide (paid * p.totalShares ≤ shareAmount * p.balance) &&
    (p.totalShares == 0 || decide (shareAmount * p.balance < (paid + 1) * p.totalShares)) &&
    (shareAmount != p.totalShares || p.totalShares == 0 || r.pool.balance == 0) &&
    decide (p.balance * r.pool.totalShares ≤ r.pool.balance * p.totalShares)

/-- Slash clauses for one `SlashEscrow`: value conserved into the common pool, shares untouched,
at most `amount` and at most everything taken, and when `amount ≤ total` each pool loses the floor
of its pro-rata part (`s·T ≤ amount·B < (s+1)·T`) — the same fraction up to one base unit. -/
def specSlash (a d : SharePool) (common amount : Nat) (r : SlashRes) : Bool :=
  let T := a.balance + d.balance
  let sa := a.balance - r.active.balance
  let sd := d.balance - r.debonding.balance
  decide (r.active.balance ≤ a.balance) && decide (r.debonding.balance ≤ d.balance) &&
  r.active.totalShares == a.totalShares && r.debonding.totalShares == d.totalShares &&
  r.common == common + sa + sd && r.slashed == sa + sd && r.debondingSlashed == sd &&
  decide (sa + sd ≤ amount) &&
  (if T ≤ amount then r.active.balance == 0 && r.debonding.balance == 0
   else decide (sa * T ≤ amount * a.balance) && decide (amount * a.balance < (sa + 1) * T) &&
        decide (sd * T ≤ amount * d.balance) && decide (amount * d.balance < (sd + 1) * T))

end SharePool

/-! ### One delegator against the rest of the pool

For statements about histories it suffices to follow one delegator (`mine` shares) and the
aggregate of everybody else (`rest` shares): the pool arithmetic depends on the other
delegators only through their total. -/

structure Fair where
  pool : SharePool
  mine : Nat      -- shares of the followed account
  rest : Nat      -- shares of all other delegators together
  paidIn : Nat    -- base units the followed account deposited so far
  paidOut : Nat   -- base units the followed account redeemed so far
  envGain : Nat   -- increase of the account's redeemable value across steps of others / rewards
  deriving Repr

inductive FStep where
  | deposit (own : Bool) (amount : Nat)
  | withdraw (own : Bool) (shares : Nat)
  | reward (amount : Nat)       -- balance grows without new shares (AddRewards, non-commission part)
  | slash (amount : Nat)        -- balance shrinks by up to `amount`
  deriving Repr

namespace Fair
open SharePool

def value (f : Fair) : Nat := stakeForShares f.pool f.mine

/-- One step; operations that fail leave the state unchanged (the transaction is rejected and
nothing is persisted).  Rewards are only ever added to a pool with a non-zero balance
(`AddRewards` computes them as a multiple of the balance). -/
def step (f : Fair) : FStep → Fair
  | .deposit true a =>
    match deposit f.pool f.mine a a with
    | .ok r => { f with pool := r.pool, mine := r.shareDst, paidIn := f.paidIn + a }
    | .error _ => f
  | .deposit false a =>
    match deposit f.pool f.rest a a with
    | .ok r =>
      let f' := { f with pool := r.pool, rest := r.shareDst }
      { f' with envGain := f.envGain + (value f' - value f) }
    | .error _ => f
  | .withdraw true s =>
    match withdraw f.pool 0 f.mine s with
    | .ok r => { f with pool := r.pool, mine := r.shareSrc, paidOut := f.paidOut + r.stakeDst }
    | .error _ => f
  | .withdraw false s =>
    match withdraw f.pool 0 f.rest s with
    | .ok r =>
      let f' := { f with pool := r.pool, rest := r.shareSrc }
      { f' with envGain := f.envGain + (value f' - value f) }
    | .error _ => f
  | .reward r =>
    if f.pool.balance = 0 then f else
    let f' := { f with pool := { f.pool with balance := f.pool.balance + r } }
    { f' with envGain := f.envGain + (value f' - value f) }
  | .slash k =>
    { f with pool := { f.pool with balance := f.pool.balance - (if f.pool.balance < k then f.pool.balance else k) } }

def run (f : Fair) (steps : List FStep) : Fair := steps.foldl step f

/-- The history clause on observed totals: redeemed + still redeemable ≤ paid in + initially
redeemable + gains booked across steps of others and rewards. -/
def specHistory (paidIn paidOut value value0 envGain : Nat) : Bool :=
  decide (paidOut + value ≤ paidIn + value0 + envGain)

end Fair
end OasisModel.Staking
