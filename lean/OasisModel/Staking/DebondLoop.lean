import OasisModel.Staking.Ledger
/-
The debonding loop of `onEpochChange` AS THE CODE PERFORMS IT: an account store with explicit
`load` / `save`, in-memory copies of the loaded accounts that are mutated through pointers, and the
write-back at the end of every iteration.

  go/consensus/cometbft/apps/staking/staking.go:245-324        onEpochChange (the loop over the expired queue)
  go/consensus/cometbft/apps/staking/state/state.go:220-238   ImmutableState.Account   (`load`)
  go/consensus/cometbft/apps/staking/state/state.go:612-625   MutableState.SetAccount  (`save`)
  go/consensus/cometbft/apps/staking/state/state.go:481-509   ExpiredDebondingQueue    (`DebSt.expired`)
  go/staking/api/address.go:85-88                             Address.IsValid (reserved addresses are refused)

The ledger model (`Ledger.debondEntry`) updates accounts functionally: a stale copy of an account
cannot even be written down there.  Here the loop body is transcribed statement by statement:

  staking.go:256   delegator, err := state.Account(ctx, e.DelegatorAddr)        -- fresh load
  staking.go:262   var escrow *staking.Account
  staking.go:263   if e.DelegatorAddr.Equal(e.EscrowAddr) { escrow = delegator } -- ONE object, two pointers
  staking.go:266   else { escrow, err = state.Account(ctx, e.EscrowAddr) }       -- fresh load
  staking.go:273   escrow.Escrow.Debonding.Withdraw(&baseUnits, &deb.Shares, shareAmount)
  staking.go:284   quantity.Move(&delegator.General.Balance, &baseUnits, stakeAmount)
  staking.go:296   state.RemoveFromDebondingQueue(...)
  staking.go:299   state.SetDebondingDelegation(..., nil)
  staking.go:302   state.SetAccount(ctx, e.DelegatorAddr, delegator)
  staking.go:305   if !e.DelegatorAddr.Equal(e.EscrowAddr) { state.SetAccount(ctx, e.EscrowAddr, escrow) }
  staking.go:318   ctx.EmitEvent(ReclaimEscrowEvent{Owner, Escrow, Amount, Shares})

The two Go pointers `delegator`, `escrow` are modelled as indices into a small heap of in-memory
account objects (`Heap`): both point to cell 0 when the addresses are equal, otherwise the escrow
object lives in cell 1.  Every mutation goes through a pointer, so an aliased object sees both
mutations, exactly as in Go.

`loopCached` is a SEEDED MUTATION of the loop (not the code): it keeps a per-call cache of escrow
account objects and loads an escrow account from state only the first time it is seen.  It differs
from `loop` only in the expression that fetches the escrow object.  `OasisProofs.Props.C15DebondLoop`
proves that `loop` refines the functional fold of the ledger model and pays every entry exactly once,
and exhibits a store on which `loopCached` destroys a payout.

Core Lean only (compiled into the model executables).
-/
namespace OasisModel.Staking.DebondLoop
open OasisModel OasisModel.Staking OasisModel.Staking.SharePool

/-- The account part of the consensus state: address ↦ stored account.  A key that was never
written reads as the empty account (state.go:229-231 `return &staking.Account{}`), so a total
function is the faithful shape. -/
abbrev Store := Nat → Account

/-- `state.Account(ctx, addr)` (state.go:220-238): refused for a reserved address
(`!address.IsValid()`, address.go:86-88), otherwise a FRESH copy of what is stored.  Any error of
the loop aborts `EndBlock` (staking.go:240), which error it is does not matter: `.fatal`, as in the
ledger model. -/
def load (reserved : List Nat) (s : Store) (a : Nat) : Except LErr Account :=
  if reserved.contains a then .error .fatal else .ok (s a)

/-- `state.SetAccount(ctx, addr, account)` (state.go:612-625): overwrites the WHOLE stored account
with the in-memory copy. -/
def save (s : Store) (a : Nat) (x : Account) : Store := upd s a x

/-- What the loop reads and writes: accounts, the debonding queue with its descriptors (one list, as
in `Ledger.deb`), and the emitted `ReclaimEscrowEvent`s (staking.go:318-323) as a payout log. -/
structure St where
  accts : Store
  deb : List DebEntry
  paid : List Payout

/-- In-memory account objects of one iteration, addressed by pointer. -/
abbrev Heap := Nat → Account

/-- Pointer of the `delegator` variable. -/
def dPtr : Nat := 0

/-- Pointer of the `escrow` variable: the delegator's object when the addresses are equal
(staking.go:263-264), else a second object. -/
def ePtr (e : DebEntry) : Nat := if e.delegator = e.escrow then dPtr else 1

/-- One iteration of the loop (staking.go:253-324).  `fetchEscrow` is the expression evaluated at
staking.go:266 when the two addresses differ; it is a parameter only so that the seeded variant can
share every other statement.  Returns the new state and the final escrow object. -/
def bodyWith (reserved : List Nat) (epoch : Nat) (st : St) (e : DebEntry)
    (fetchEscrow : Except LErr Account) : Except LErr (St × Account) :=
  -- staking.go:256
  match load reserved st.accts e.delegator with
  | .error err => .error err
  | .ok dAcc =>
    let heap0 : Heap := upd (fun _ => {}) dPtr dAcc
    -- staking.go:262-270
    let fetched : Except LErr Heap :=
      if e.delegator = e.escrow then .ok heap0
      else match fetchEscrow with
        | .error err => .error err
        | .ok eAcc => .ok (upd heap0 1 eAcc)
    match fetched with
    | .error err => .error err
    | .ok heap1 =>
      let ep := ePtr e
      -- staking.go:272-281: `deb.Shares` is the share source, all of it is redeemed
      match withdraw (heap1 ep).debonding 0 e.shares e.shares with
      | .error _ => .error .fatal
      | .ok w =>
        let heap2 : Heap := upd heap1 ep { heap1 ep with debonding := w.pool }
        let baseUnits := w.stakeDst
        -- staking.go:282-293: `stakeAmount := baseUnits.Clone()`, all of it is moved
        match Quantity.move (heap2 dPtr).general baseUnits baseUnits with
        | .error _ => .error .fatal
        | .ok m =>
          let heap3 : Heap := upd heap2 dPtr { heap2 dPtr with general := m.1 }
          -- staking.go:296-301
          let deb' := st.deb.filter (fun x => !x.sameKey e)
          -- staking.go:302
          let s1 := save st.accts e.delegator (heap3 dPtr)
          -- staking.go:305-309
          let s2 := if e.delegator = e.escrow then s1 else save s1 e.escrow (heap3 ep)
          .ok ({ accts := s2, deb := deb',
                 -- staking.go:318-323
                 paid := st.paid ++ [{ entry := e, epoch := epoch, amount := baseUnits }] },
               heap3 ep)

/-- The loop body of the code: the escrow account is loaded afresh (staking.go:266). -/
def body (reserved : List Nat) (epoch : Nat) (st : St) (e : DebEntry) : Except LErr St :=
  match bodyWith reserved epoch st e (load reserved st.accts e.escrow) with
  | .error err => .error err
  | .ok r => .ok r.1

/-- `for _, e := range expiredDebondingQueue` (staking.go:253): the first error is returned. -/
def loop (reserved : List Nat) (epoch : Nat) : St → List DebEntry → Except LErr St
  | st, [] => .ok st
  | st, e :: es =>
    match body reserved epoch st e with
    | .error err => .error err
    | .ok st' => loop reserved epoch st' es

/-- The debonding part of `onEpochChange(epoch)` (staking.go:245-324). -/
def onEpochChange (reserved : List Nat) (st : St) (epoch : Nat) : Except LErr St :=
  loop reserved epoch st (DebSt.expired st.deb epoch)

/-! ### Seeded mutation: a per-call cache of escrow account objects -/

/-- `escrowCache map[Address]*Account`: escrow address ↦ the in-memory object (the map holds the
pointer, so it sees every later mutation of the object). -/
abbrev Cache := Nat → Option Account

/-- The mutated fetch at staking.go:266: the cached object if the escrow address was seen before,
else a load from state. -/
def fetchCached (reserved : List Nat) (c : Cache) (s : Store) (a : Nat) : Except LErr Account :=
  match c a with
  | some x => .ok x
  | none => load reserved s a

/-- Loop body of the mutation: identical to `body` but for the escrow fetch; after the iteration the
cache holds the (mutated) escrow object.  A self-delegation does not go through the cache (the
escrow object is the freshly loaded delegator object, staking.go:263-264). -/
def bodyCached (reserved : List Nat) (epoch : Nat) (c : Cache) (st : St) (e : DebEntry) :
    Except LErr (Cache × St) :=
  match bodyWith reserved epoch st e (fetchCached reserved c st.accts e.escrow) with
  | .error err => .error err
  | .ok r => .ok (if e.delegator = e.escrow then c else upd c e.escrow (some r.2), r.1)

def loopCachedFrom (reserved : List Nat) (epoch : Nat) : Cache → St → List DebEntry → Except LErr St
  | _, st, [] => .ok st
  | c, st, e :: es =>
    match bodyCached reserved epoch c st e with
    | .error err => .error err
    | .ok r => loopCachedFrom reserved epoch r.1 r.2 es

/-- The mutated loop: the cache is empty at the start of every call. -/
def loopCached (reserved : List Nat) (epoch : Nat) (st : St) (es : List DebEntry) : Except LErr St :=
  loopCachedFrom reserved epoch (fun _ => none) st es

/-! ### Observables -/

/-- What an account holds outside the active escrow pool: general balance + debonding pool. -/
def held (a : Account) : Nat := a.general + a.debonding.balance

/-- Sum of `held` over the accounts `0 … n-1`. -/
def heldTotal (n : Nat) (s : Store) : Nat := Ledger.sumTo n (fun i => held (s i))

/-- Sum of all balances (`Account.bal`: general + active escrow + debonding escrow) over the
accounts `0 … n-1`; `Ledger.accountsTotal` of a ledger with these accounts. -/
def balTotal (n : Nat) (s : Store) : Nat := Ledger.sumTo n (fun i => (s i).bal)

/-- Base units the payout records credit to `a` as delegator. -/
def paidTo (ps : List Payout) (a : Nat) : Nat :=
  ((ps.filter (fun p => p.entry.delegator == a)).map (·.amount)).sum

/-- Base units the payout records take out of `a`'s debonding pool. -/
def paidFrom (ps : List Payout) (a : Nat) : Nat :=
  ((ps.filter (fun p => p.entry.escrow == a)).map (·.amount)).sum

/-- Debonding shares the entries redeem from `a`'s debonding pool. -/
def sharesFrom (es : List DebEntry) (a : Nat) : Nat :=
  DebSt.sharesSum (es.filter (fun e => e.escrow == a))

/-- What the entry is worth at the CURRENT price of the escrow account's debonding pool in store
`s`: `⌊shares · B / TS⌋` (`StakeForShares`, go/staking/api/api.go; zero when a factor is zero). -/
def payoutNow (s : Store) (e : DebEntry) : Nat := stakeForShares (s e.escrow).debonding e.shares

/-- Abstraction to the ledger model: the ledger `l` with the loop state's accounts and queue. -/
def St.toLedger (l : Ledger) (st : St) : Ledger := { l with acct := st.accts, deb := st.deb }

/-- Abstraction to the queue model of C15 (`DebSt`): debonding pools and general balances. -/
def St.toDebSt (st : St) : DebSt :=
  { pools := fun a => (st.accts a).debonding, general := fun a => (st.accts a).general,
    queue := st.deb, paid := st.paid }

end OasisModel.Staking.DebondLoop
