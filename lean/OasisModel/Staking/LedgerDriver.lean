import OasisModel.Proto
/- C05/C08/C10 staking ledger: driver stub (not built yet). -/
namespace OasisModel.Staking.LedgerDriver
def main : IO Unit := IO.eprintln "mode not implemented"
end OasisModel.Staking.LedgerDriver
