import OasisModel.Proto
import OasisModel.Staking.Ledger
/-
Driver for the staking ledger model (mode `ledger`, executable `om_ledger`), properties C05 / C15.

The Go driver (harness/cmd/ledgerdrv) runs the REAL staking application on the mock application
state, one operation per line with the implementation's result appended, and after every operation
a `dump` line with the complete real ledger.  The model
  * replays the operation and compares result kind and, on `dump`, the whole state (DIVERGE), and
  * evaluates the conservation invariant `Ledger.invB` and the supply rule (total changes only by
    the amount of a successful burn) directly on the dumped real state, independent of the model (SPEC).

  genesis n=<n> k=v ...            parameters and singleton balances (see `parseGenesis`)
  acct i general nonce aB aTS dB dTS schedule allowances(-|j:amt,...)
       schedule: - | <rates>/<bounds>, rates: -|start:rate,...  bounds: -|start:min:max,...
  del e d shares | deb epoch d e shares
  init ok|fatal                    run InitChain
  tx signer nonce fee gasLimit size <body> ok|err:<kind>
       body: transfer dst amt | burn amt | escrow e amt | reclaim e shares | allow b neg change | withdraw src amt
             | amend schedule
  msg rt <body> ok|err:<kind>      runtime message from runtime account rt; body: transfer | withdraw | escrow | reclaim
  epoch e
  begin proposer(-|i) numEligible voters(-|list) evidence(-|list) ok|fatal
  end ok|fatal
  slash a amount r | tfc dst amount escrow(0|1) r | addrewards epoch factor addrs r
  govdep src amount r | govref dst amount r | govdisc amount r
  dump total common gov lbf feeacc sigTotal  A i general nonce aB aTS dB dTS allow ... D e d s ... Q ep d e s ... S ent count ... C i schedule ...
-/
namespace OasisModel.Staking.LedgerDriver
open OasisModel OasisModel.Proto OasisModel.Staking OasisModel.Staking.Ledger

def emptyLedger : Ledger :=
  { n := 0, acct := fun _ => {}, del := fun _ _ => 0, deb := [], common := 0, govDeposits := 0,
    lastBlockFees := 0, feeAcc := 0, totalSupply := 0, params := {} }

/-- What the `debond_exactly_once` clause of C15 expects of the dump that follows an EndBlock with
an epoch transition: computed with the debonding-queue model `DebSt` (the subject of the C15 theorems
`onEpochChange_queue`, `onEpochChange_paid`, `debond_exactly_once`), independently of
`Ledger.onEpochChange`. -/
structure DebExpect where
  epoch : Nat
  general : Nat → Nat          -- general balances after fee disbursement and the payouts
  pools : Nat → SharePool      -- debonding pools after redeeming the completed delegations
  queue : List DebEntry        -- what stays queued
  paid : List Payout           -- one record per completed debonding delegation, in queue order

/-- Every queue entry with `endEpoch ≤ epoch` is redeemed exactly once, in queue order, at the price
its escrow account's debonding pool has at that moment (`StakeForShares`), and credited to the
delegator's general balance; the others stay.  `l` is the ledger before EndBlock. -/
def debondExpect (l : Ledger) : Option DebExpect :=
  match disburseFeesP l with
  | .error _ => none
  | .ok lf =>
    let st : DebSt := { pools := fun i => (lf.acct i).debonding, general := fun i => (lf.acct i).general,
                        queue := lf.deb, paid := [] }
    match DebSt.onEpochChange st lf.epoch with
    | .error _ => none
    | .ok st' => some { epoch := lf.epoch, general := st'.general, pools := st'.pools, queue := st'.queue,
                        paid := st'.paid }

def showEntry (e : DebEntry) : String := s!"(end={e.endEpoch} delegator={e.delegator} escrow={e.escrow} shares={e.shares})"

/-- Compare the observed ledger `o` with the expectation; `none` = clause holds. -/
def debondSpec (n : Nat) (x : DebExpect) (o : Ledger) : Option String :=
  let paidTo (i : Nat) := x.paid.filter (fun p => p.entry.delegator == i)
  let showPaid (ps : List Payout) := String.intercalate "," (ps.map (fun p => s!"{showEntry p.entry}->{p.amount}"))
  let accts := (List.range n).filterMap (fun i =>
    if (o.acct i).general != x.general i then
      some s!"account {i}: general balance {(o.acct i).general} after the epoch transition to {x.epoch}, expected {x.general i} = balance after fee disbursement + exactly one payout per completed debonding delegation at the debonding pool's price [{showPaid (paidTo i)}]"
    else if (o.acct i).debonding != x.pools i then
      some s!"escrow account {i}: debonding pool ({(o.acct i).debonding.balance},{(o.acct i).debonding.totalShares}) after the epoch transition to {x.epoch}, expected ({(x.pools i).balance},{(x.pools i).totalShares}) after redeeming each completed debonding delegation once [{showPaid (x.paid.filter (fun p => p.entry.escrow == i))}]"
    else none)
  match accts with
  | d :: _ => some d
  | [] =>
    if o.deb != x.queue then
      some s!"debonding queue after the epoch transition to {x.epoch}: {o.deb.map showEntry}, expected exactly the entries with end epoch > {x.epoch}: {x.queue.map showEntry}"
    else none

structure St where
  l : Ledger := emptyLedger
  /-- expectation for the next dump (set by `end` with an epoch transition) -/
  debExp : Option DebExpect := none
  /-- total supply in the previous dump of the implementation (for the supply rule) -/
  prevTotal : Option Nat := none
  /-- amount burned by the implementation since the previous dump (from op + implementation result) -/
  implBurned : Nat := 0
  dead : Bool := false

def kvs (ws : List String) : List (String × String) :=
  ws.filterMap (fun w => match w.splitOn "=" with
    | [k, v] => some (k, v)
    | _ => none)

def getNat (kv : List (String × String)) (k : String) (d : Nat := 0) : Nat :=
  match kv.find? (·.1 == k) with
  | some (_, v) => v.toNat?.getD d
  | none => d

def getList (kv : List (String × String)) (k : String) : List Nat :=
  match kv.find? (·.1 == k) with
  | some (_, v) => (parseNats v).getD []
  | none => []

def parsePairs (s : String) : List (Nat × Nat) :=
  if s == "-" then [] else
  (s.splitOn ",").filterMap (fun p => match p.splitOn ":" with
    | [a, b] => match a.toNat?, b.toNat? with
      | some a, some b => some (a, b)
      | _, _ => none
    | _ => none)

def parseTriples (s : String) : List (Nat × Nat × Nat) :=
  if s == "-" then [] else
  (s.splitOn ",").filterMap (fun p => match p.splitOn ":" with
    | [a, b, c] => match a.toNat?, b.toNat?, c.toNat? with
      | some a, some b, some c => some (a, b, c)
      | _, _, _ => none
    | _ => none)

/-- `-` (empty) or `<rates>/<bounds>`. -/
def parseSchedule (s : String) : Option Schedule :=
  if s == "-" then some {} else
  match s.splitOn "/" with
  | [r, b] =>
    let nr := if r == "-" then 0 else (r.splitOn ",").length
    let nb := if b == "-" then 0 else (b.splitOn ",").length
    let rs := parsePairs r
    let bs := parseTriples b
    if rs.length == nr && bs.length == nb then
      some { rates := rs.map (fun x => { start := x.1, rate := x.2 }),
             bounds := bs.map (fun x => { start := x.1, rateMin := x.2.1, rateMax := x.2.2 }) }
    else none
  | _ => none

def showSchedule (s : Schedule) : String :=
  if s.rates.isEmpty && s.bounds.isEmpty then "-" else
  let r := if s.rates.isEmpty then "-" else ",".intercalate (s.rates.map (fun x => s!"{x.start}:{x.rate}"))
  let b := if s.bounds.isEmpty then "-" else ",".intercalate (s.bounds.map (fun x => s!"{x.start}:{x.rateMin}:{x.rateMax}"))
  r ++ "/" ++ b

def parseGasCosts (s : String) : GasCosts :=
  match (parseNats s).getD [] with
  | [t, b, ae, re, am, al, w] =>
    { transfer := t, burn := b, addEscrow := ae, reclaimEscrow := re, amendCommissionSchedule := am, allow := al, withdraw := w }
  | _ => {}

def parseGenesis (ws : List String) : Ledger :=
  let kv := kvs ws
  let sched := match kv.find? (·.1 == "sched") with
    | some (_, v) => parsePairs v
    | none => []
  let p : Params := {
    minTransactBalance := getNat kv "mtb", minTransferAmount := getNat kv "mta",
    minDelegationAmount := getNat kv "mda", debondingInterval := getNat kv "debint",
    maxAllowances := getNat kv "maxallow", disableTransfers := getNat kv "disT" == 1,
    disableDelegation := getNat kv "disD" == 1, feeWeightPropose := getNat kv "wP",
    feeWeightVote := getNat kv "wV", feeWeightNextPropose := getNat kv "wN",
    rewardSchedule := sched, rewardFactorEpochSigned := getNat kv "rfS",
    rewardFactorBlockProposed := getNat kv "rfP", signingThresholdNum := getNat kv "thrN",
    signingThresholdDen := getNat kv "thrD", minCommissionRate := getNat kv "mincom",
    slashAmount := getNat kv "slash", freezeInterval := getNat kv "freeze",
    burnAddr := getNat kv "burn", reserved := getList kv "reserved", pkOrder := getList kv "pkorder",
    validators := getList kv "validators", gasPerByte := getNat kv "gasbyte",
    gasCosts := match kv.find? (·.1 == "gascosts") with
      | some (_, v) => parseGasCosts v
      | none =>   -- legacy: one cost for every operation
        let g := getNat kv "gascost"
        { transfer := g, burn := g, addEscrow := g, reclaimEscrow := g, amendCommissionSchedule := g, allow := g, withdraw := g },
    rateChangeInterval := getNat kv "rci" 1, rateBoundLead := getNat kv "rbl" 1, maxRateSteps := getNat kv "mrs" 4,
    maxBoundSteps := getNat kv "mbs" 4, commissionStakeThreshold := getNat kv "comthr",
    allowEscrowMessages := getNat kv "escmsg" == 1 }
  { emptyLedger with
    n := getNat kv "n", common := getNat kv "common", govDeposits := getNat kv "gov",
    lastBlockFees := getNat kv "lbf", totalSupply := getNat kv "total", epoch := getNat kv "epoch", params := p }

def optNat (s : String) : Option (Option Nat) :=
  if s == "-" then some none else s.toNat?.map some

/-- Re-tabulate the function-valued fields so that lookups do not walk through the whole update history. -/
def compact (l : Ledger) : Ledger :=
  let accts := (List.range l.n).map l.acct |>.toArray
  let dels := (List.range l.n).map (fun e => ((List.range l.n).map (l.del e)).toArray) |>.toArray
  let sig := (List.range l.n).map l.sigBy |>.toArray
  let fr := (List.range l.params.validators.length).map l.frozen |>.toArray
  { l with acct := fun i => accts.getD i {},
           del := fun e d => (dels.getD e #[]).getD d 0,
           sigBy := fun i => sig.getD i 0,
           frozen := fun v => fr.getD v false }

def showErr : Option LErr → String
  | none => "ok"
  | some e => "err:" ++ e.toString

def parseBody (ws : List String) : Option TxBody :=
  match ws with
  | ["transfer", d, a] => do pure (.transfer (← d.toNat?) (← a.toNat?))
  | ["burn", a] => do pure (.burn (← a.toNat?))
  | ["escrow", e, a] => do pure (.addEscrow (← e.toNat?) (← a.toNat?))
  | ["reclaim", e, s] => do pure (.reclaimEscrow (← e.toNat?) (← s.toNat?))
  | ["allow", b, neg, c] => do pure (.allow (← b.toNat?) (neg == "1") (← c.toNat?))
  | ["withdraw", s, a] => do pure (.withdraw (← s.toNat?) (← a.toNat?))
  | ["amend", sch] => do pure (.amend (← parseSchedule sch))
  | _ => none

def parseMsg (ws : List String) : Option MsgBody :=
  match ws with
  | ["transfer", d, a] => do pure (.transfer (← d.toNat?) (← a.toNat?))
  | ["withdraw", s, a] => do pure (.withdraw (← s.toNat?) (← a.toNat?))
  | ["escrow", e, a] => do pure (.addEscrow (← e.toNat?) (← a.toNat?))
  | ["reclaim", e, s] => do pure (.reclaimEscrow (← e.toNat?) (← s.toNat?))
  | _ => none

/-- Amount a *successful* transaction burns (from the operation text alone). -/
def burnOf (l : Ledger) : TxBody → Nat
  | .burn a => a
  | .transfer d a => if d = l.params.burnAddr then a else 0
  | _ => 0

/-- Parse the flat record list of a dump into a ledger carrying the observed values. -/
partial def parseRecords (l : Ledger) : List String → Option Ledger
  | [] => some l
  | "A" :: i :: g :: nn :: ab :: ats :: db :: dts :: al :: rest =>
    match nats [i, g, nn, ab, ats, db, dts] with
    | some [i, g, nn, ab, ats, db, dts] =>
      let a : Account := {
        general := g, nonce := nn, allowances := parsePairs al,
        active := { balance := ab, totalShares := ats }, debonding := { balance := db, totalShares := dts },
        schedule := (l.acct i).schedule }
      parseRecords (l.setAcct i a) rest
    | _ => none
  | "D" :: e :: d :: s :: rest =>
    match nats [e, d, s] with
    | some [e, d, s] => parseRecords (l.setDel e d s) rest
    | _ => none
  | "Q" :: ep :: d :: e :: s :: rest =>
    match nats [ep, d, e, s] with
    | some [ep, d, e, s] => parseRecords { l with deb := l.deb ++ [{ endEpoch := ep, delegator := d, escrow := e, shares := s }] } rest
    | _ => none
  | "S" :: e :: c :: rest =>
    match nats [e, c] with
    | some [e, c] => parseRecords { l with sigBy := upd l.sigBy e c } rest
    | _ => none
  | "C" :: i :: sch :: rest =>
    match i.toNat?, parseSchedule sch with
    | some i, some sch => parseRecords (l.setAcct i { l.acct i with schedule := sch }) rest
    | _, _ => none
  | _ => none
where nats (ws : List String) : Option (List Nat) := ws.mapM String.toNat?

def sortAllow (al : List (Nat × Nat)) : List (Nat × Nat) := al.mergeSort (fun a b => a.1 ≤ b.1)

/-- First difference between the model ledger and the observed one. -/
def diff (m o : Ledger) : Option String :=
  if m.totalSupply != o.totalSupply then some s!"totalSupply model={m.totalSupply} impl={o.totalSupply}"
  else if m.common != o.common then some s!"commonPool model={m.common} impl={o.common}"
  else if m.govDeposits != o.govDeposits then some s!"governanceDeposits model={m.govDeposits} impl={o.govDeposits}"
  else if m.lastBlockFees != o.lastBlockFees then some s!"lastBlockFees model={m.lastBlockFees} impl={o.lastBlockFees}"
  else if m.feeAcc != o.feeAcc then some s!"feeAccumulator model={m.feeAcc} impl={o.feeAcc}"
  else if m.sigTotal != o.sigTotal then some s!"epochSigning.total model={m.sigTotal} impl={o.sigTotal}"
  else
    let accts := (List.range m.n).filterMap (fun i =>
      let a := m.acct i
      let b := o.acct i
      if a.general != b.general then some s!"account {i} general model={a.general} impl={b.general}"
      else if a.nonce != b.nonce then some s!"account {i} nonce model={a.nonce} impl={b.nonce}"
      else if a.active != b.active then some s!"account {i} active pool model=({a.active.balance},{a.active.totalShares}) impl=({b.active.balance},{b.active.totalShares})"
      else if a.debonding != b.debonding then some s!"account {i} debonding pool model=({a.debonding.balance},{a.debonding.totalShares}) impl=({b.debonding.balance},{b.debonding.totalShares})"
      else if a.schedule != b.schedule then some s!"account {i} commission schedule model={showSchedule a.schedule} impl={showSchedule b.schedule}"
      else if sortAllow a.allowances != sortAllow b.allowances then some s!"account {i} allowances model={sortAllow a.allowances} impl={sortAllow b.allowances}"
      else if m.sigBy i != o.sigBy i then some s!"epochSigning[{i}] model={m.sigBy i} impl={o.sigBy i}"
      else none)
    match accts with
    | d :: _ => some d
    | [] =>
      let dels := (List.range m.n).flatMap (fun e => (List.range m.n).filterMap (fun d =>
        if m.del e d != o.del e d then some s!"delegation escrow={e} delegator={d} model={m.del e d} impl={o.del e d}" else none))
      match dels with
      | d :: _ => some d
      | [] =>
        if m.deb != o.deb then
          let sh (q : List DebEntry) := q.map (fun e => (e.endEpoch, e.delegator, e.escrow, e.shares))
          some s!"debonding queue model={sh m.deb} impl={sh o.deb}"
        else none

def resOf (r : Except LErr Ledger) : String :=
  match r with
  | .ok _ => "ok"
  | .error .fatal => "fatal"
  | .error e => "err:" ++ e.toString

def step (st : St) (line : String) : St × String :=
  if st.dead then (st, "skip") else
  let st0 := st
  let fail (msg : String) : St × String := ({ st with dead := true }, msg)
  let l := st.l
  /- block-level and direct state operations: compare the result kind, keep the new state on success -/
  let direct (r : Except LErr Ledger) (impl : String) : St × String :=
    if resOf r != impl then fail s!"DIVERGE result model={resOf r} impl={impl}"
    else match r with
      | .ok l' => ({ st with l := compact l' }, "ok")
      | .error _ => (st, "ok")
  let ws := words line
  match ws with
  | [] => (st, "ok")
  | "genesis" :: rest => ({ l := parseGenesis rest }, "ok")
  | ["acct", i, g, nn, ab, ats, db, dts, com, al] =>
    match [i, g, nn, ab, ats, db, dts].mapM String.toNat?, parseSchedule com with
    | some [i, g, nn, ab, ats, db, dts], some com =>
      let a : Account := {
        general := g, nonce := nn, allowances := parsePairs al,
        active := { balance := ab, totalShares := ats }, debonding := { balance := db, totalShares := dts },
        schedule := com }
      ({ st with l := l.setAcct i a }, "ok")
    | _, _ => fail "DIVERGE bad-op"
  | ["del", e, d, s] =>
    match [e, d, s].mapM String.toNat? with
    | some [e, d, s] => ({ st with l := l.setDel e d s }, "ok")
    | _ => fail "DIVERGE bad-op"
  | ["deb", ep, d, e, s] =>
    match [ep, d, e, s].mapM String.toNat? with
    | some [ep, d, e, s] =>
      ({ st with l := { l with deb := DebSt.enqueue l.deb { endEpoch := ep, delegator := d, escrow := e, shares := s } } }, "ok")
    | _ => fail "DIVERGE bad-op"
  | ["init", impl] => direct (genesis l) impl
  | "tx" :: signer :: nonce :: fee :: gl :: sz :: rest =>
    match [signer, nonce, fee, gl, sz].mapM String.toNat?, rest.getLast?, parseBody rest.dropLast with
    | some [signer, nonce, fee, gl, sz], some impl, some body =>
      let (l', e) := applyTx l signer nonce fee { limit := gl, size := sz } body
      if showErr e != impl then fail s!"DIVERGE tx result model={showErr e} impl={impl}"
      else ({ st with l := compact l', implBurned := st.implBurned + (if impl == "ok" then burnOf l body else 0) }, "ok")
    | _, _, _ => fail "DIVERGE bad-op"
  | "msg" :: rt :: rest =>
    match rt.toNat?, rest.getLast?, parseMsg rest.dropLast with
    | some rt, some impl, some body =>
      let r := execMsg l rt body
      let burned := match body, r with
        | .transfer d a, .ok _ => if d = l.params.burnAddr then a else 0
        | _, _ => 0
      let res := match r with
        | .ok _ => "ok"
        | .error e => "err:" ++ e.toString
      if res != impl then fail s!"DIVERGE msg result model={res} impl={impl}"
      else ({ st with l := compact (keep l r), implBurned := st.implBurned + burned }, "ok")
    | _, _, _ => fail "DIVERGE bad-op"
  | ["epoch", e] =>
    match e.toNat? with
    | some e => ({ st with l := setEpoch l e }, "ok")
    | none => fail "DIVERGE bad-op"
  | ["begin", p, ne, voters, evidence, impl] =>
    match optNat p, ne.toNat?, parseNats voters, parseNats evidence with
    | some p, some ne, some voters, some evidence =>
      -- proposer and voters are given as validator numbers; BeginBlock resolves them to entities
      let ent (v : Nat) : Option Nat := l.params.validators[v]?
      direct (beginBlock l (p.bind ent) ne (voters.filterMap ent) evidence) impl
    | _, _, _, _ => fail "DIVERGE bad-op"
  | ["end", impl] =>
    let exp := if impl == "ok" && l.epochChanged then debondExpect l else none
    let (st', ans) := direct (endBlock l) impl
    ({ st' with debExp := exp }, ans)
  | ["slash", a, amount, impl] =>
    match a.toNat?, amount.toNat? with
    | some a, some amount => direct (slashEscrowL l a amount) impl
    | _, _ => fail "DIVERGE bad-op"
  | ["tfc", d, amount, esc, impl] =>
    match d.toNat?, amount.toNat? with
    | some d, some amount => direct (transferFromCommon l d amount (esc == "1")) impl
    | _, _ => fail "DIVERGE bad-op"
  | ["addrewards", ep, factor, addrs, impl] =>
    match ep.toNat?, factor.toNat?, parseNats addrs with
    | some ep, some factor, some addrs => direct (addRewards l ep factor addrs) impl
    | _, _, _ => fail "DIVERGE bad-op"
  | ["govdep", a, amount, impl] =>
    match a.toNat?, amount.toNat? with
    | some a, some amount => direct (govDeposit l a amount) impl
    | _, _ => fail "DIVERGE bad-op"
  | ["govref", a, amount, impl] =>
    match a.toNat?, amount.toNat? with
    | some a, some amount => direct (govRefund l a amount) impl
    | _, _ => fail "DIVERGE bad-op"
  | ["govdisc", amount, impl] =>
    match amount.toNat? with
    | some amount => direct (govDiscard l amount) impl
    | none => fail "DIVERGE bad-op"
  | "dump" :: t :: c :: g :: lbf :: fa :: sgt :: recs =>
    match [t, c, g, lbf, fa, sgt].mapM String.toNat? with
    | some [t, c, g, lbf, fa, sgt] =>
      let base : Ledger := { l with
        acct := fun _ => {}, del := fun _ _ => 0, deb := [],
        sigBy := fun _ => 0, totalSupply := t, common := c, govDeposits := g,
        lastBlockFees := lbf, feeAcc := fa, sigTotal := sgt }
      match parseRecords base recs with
      | none => fail "DIVERGE bad-dump"
      | some o =>
        let o := compact o
        let st := { st with debExp := none }
        let debSpec := match st0.debExp with
          | some x => debondSpec l.n x o
          | none => none
        -- spec-on-implementation, independent of the model's own state (only the ghost flag
        -- `lbfSpent`, set between BeginBlock and EndBlock, is taken from the model)
        if let some msg := debSpec then fail ("SPEC debond-exactly-once violated on the real ledger: " ++ msg)
        else if !(supplyOk o) then
          fail s!"SPEC supply equation violated on the real ledger: total={o.totalSupply} accounts={accountsTotal o} common={o.common} gov={o.govDeposits} lastBlockFees={o.lastBlockFees}(spent={o.lbfSpent}) feeAcc={o.feeAcc}"
        else if !(sharesOk o) then fail "SPEC share bookkeeping violated on the real ledger: a pool's total shares differ from the sum of its delegations"
        else if !(scopeOk o) then fail "SPEC debonding entry for an unknown account"
        else if !(wfB o) then fail "SPEC pool with a balance but without shares on the real ledger"
        else match st.prevTotal with
          | some pt =>
            if o.totalSupply + st.implBurned != pt then
              fail s!"SPEC total supply changed from {pt} to {o.totalSupply} while {st.implBurned} was burned"
            else match diff l o with
              | some d => fail ("DIVERGE " ++ d)
              | none => ({ st with prevTotal := some o.totalSupply, implBurned := 0 }, "ok")
          | none => match diff l o with
              | some d => fail ("DIVERGE " ++ d)
              | none => ({ st with prevTotal := some o.totalSupply, implBurned := 0 }, "ok")
    | _ => fail "DIVERGE bad-dump"
  | _ => fail ("DIVERGE bad-op " ++ line.trimAscii.toString)

def main : IO Unit := loop step {}

end OasisModel.Staking.LedgerDriver
