import OasisModel.Proto
/- C15 share pool arithmetic: driver stub (not built yet). -/
namespace OasisModel.Staking.ShareDriver
def main : IO Unit := IO.eprintln "mode not implemented"
end OasisModel.Staking.ShareDriver
