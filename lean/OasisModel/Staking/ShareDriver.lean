import OasisModel.Proto
import OasisModel.Staking.SharePool
import OasisModel.Governance.Tally
/-
Driver for the share-pool model (mode `share`, executable `om_share`), property C15.
Every line carries the operation, its inputs and what the Go implementation returned; the model
answers `ok`, `DIVERGE <detail>` (model and implementation differ) or `SPEC <detail>` (the
implementation's outcome violates the executable C15 clause, checked independently of the model).

  dep B TS shareDst stakeSrc amount  ok B' TS' shareDst' stakeSrc' shares | err <kind>   SharePool.Deposit
  wd  B TS stakeDst shareSrc shares  ok B' TS' stakeDst' shareSrc'        | err <kind>   SharePool.Withdraw
  sfs B TS amount q                                                                     SharePool.StakeForShares
  sp  dst B TS amount total dst' B' TS'                                                 slashPool
  se  Ba TSa Bd TSd common amount Ba' Bd' common' slashed debondingSlashed              SlashEscrow arithmetic
  com rate total ok com remaining | err <kind>                                           computeCommission
  gclose yes no abstain total threshold passed|rejected|err                              governance Proposal.CloseProposal
  hnew B TS mine rest                         start a history (one delegator against the rest)
  hdep own a  ok B' TS' shares vBefore vAfter | err <kind>
  hwd  own s  ok B' TS' paid   vBefore vAfter | err <kind>
  hrew r B' vBefore vAfter
  hsl  k B'
  hend paidIn paidOut value value0 envGain    totals tracked on the implementation side
-/
namespace OasisModel.Staking.ShareDriver
open OasisModel OasisModel.Proto OasisModel.Staking OasisModel.Staking.SharePool

structure St where
  f : Fair := { pool := { balance := 0, totalShares := 0 }, mine := 0, rest := 0, paidIn := 0, paidOut := 0, envGain := 0 }
  value0 : Nat := 0
  dead : Bool := true

def nats (ws : List String) : Option (List Nat) := ws.mapM String.toNat?

def errKind (e : QErr) : String := e.toString

def parseErr (s : String) : Option QErr :=
  if s == "invalid-quantity" then some .invalidQuantity
  else if s == "insufficient-balance" then some .insufficientBalance
  else if s == "invalid-account" then some .invalidAccount
  else if s == "invalid-argument" then some .invalidArgument
  else none

def eqExcept {α : Type} [BEq α] : Except QErr α → Except QErr α → Bool
  | .ok a, .ok b => a == b
  | .error a, .error b => a == b
  | _, _ => false

def showDep : Except QErr DepositRes → String
  | .error e => s!"err {errKind e}"
  | .ok r => s!"ok {r.pool.balance} {r.pool.totalShares} {r.shareDst} {r.stakeSrc} {r.shares}"

def showWd : Except QErr WithdrawRes → String
  | .error e => s!"err {errKind e}"
  | .ok r => s!"ok {r.pool.balance} {r.pool.totalShares} {r.stakeDst} {r.shareSrc}"

/-- Parse the implementation's outcome of a deposit. -/
def implDep (ws : List String) : Option (Except QErr DepositRes) :=
  match ws with
  | ["err", k] => (parseErr k).map .error
  | "ok" :: rest => match nats rest with
    | some [b, t, sd, ss, sh] => some (.ok { pool := { balance := b, totalShares := t }, shareDst := sd, stakeSrc := ss, shares := sh })
    | _ => none
  | _ => none

def implWd (ws : List String) : Option (Except QErr WithdrawRes) :=
  match ws with
  | ["err", k] => (parseErr k).map .error
  | "ok" :: rest => match nats rest with
    | some [b, t, sd, ss] => some (.ok { pool := { balance := b, totalShares := t }, stakeDst := sd, shareSrc := ss })
    | _ => none
  | _ => none

def stateless (ws : List String) : Option String :=
  match ws with
  | "dep" :: b :: t :: sd :: ss :: a :: res =>
    match nats [b, t, sd, ss, a], implDep res with
    | some [b, t, sd, ss, a], some out =>
      let p : SharePool := { balance := b, totalShares := t }
      let m := deposit p sd ss a
      if !(specDeposit p sd ss a out) then some s!"SPEC deposit clause violated by implementation outcome {showDep out}"
      else if !(eqExcept m out) then some s!"DIVERGE deposit model={showDep m} impl={showDep out}"
      else some "ok"
    | _, _ => none
  | "wd" :: b :: t :: sd :: ss :: s :: res =>
    match nats [b, t, sd, ss, s], implWd res with
    | some [b, t, sd, ss, s], some out =>
      let p : SharePool := { balance := b, totalShares := t }
      let m := withdraw p sd ss s
      if !(specWithdraw p sd ss s out) then some s!"SPEC withdraw clause violated by implementation outcome {showWd out}"
      else if !(eqExcept m out) then some s!"DIVERGE withdraw model={showWd m} impl={showWd out}"
      else some "ok"
    | _, _ => none
  | ["sfs", b, t, a, q] =>
    match nats [b, t, a, q] with
    | some [b, t, a, q] =>
      let p : SharePool := { balance := b, totalShares := t }
      if decide (q * t ≤ a * b) == false then some s!"SPEC stakeForShares pays more than pro-rata: {q}"
      else if stakeForShares p a != q then some s!"DIVERGE stakeForShares model={stakeForShares p a} impl={q}"
      else some "ok"
    | _ => none
  | ["sp", dst, b, t, amount, total, dst', b', t'] =>
    match nats [dst, b, t, amount, total, dst', b', t'] with
    | some [dst, b, t, amount, total, dst', b', t'] =>
      let m := slashPool dst { balance := b, totalShares := t } amount total
      if dst' + b' != dst + b || t' != t then some s!"SPEC slashPool does not conserve: dst'={dst'} B'={b'} TS'={t'}"
      else if m != (dst', { balance := b', totalShares := t' }) then
        some s!"DIVERGE slashPool model=({m.1},{m.2.balance},{m.2.totalShares}) impl=({dst'},{b'},{t'})"
      else some "ok"
    | _ => none
  | ["se", ba, ta, bd, td, common, amount, ba', bd', common', slashed, ds] =>
    match nats [ba, ta, bd, td, common, amount, ba', bd', common', slashed, ds] with
    | some [ba, ta, bd, td, common, amount, ba', bd', common', slashed, ds] =>
      let a : SharePool := { balance := ba, totalShares := ta }
      let d : SharePool := { balance := bd, totalShares := td }
      let out : SlashRes := { active := { balance := ba', totalShares := ta }, debonding := { balance := bd', totalShares := td },
                              common := common', slashed := slashed, debondingSlashed := ds }
      let m := slashEscrow a d common amount
      if !(specSlash a d common amount out) then some "SPEC slash clause violated by implementation outcome"
      else if m != out then some s!"DIVERGE slashEscrow model=({m.active.balance},{m.debonding.balance},{m.common},{m.slashed},{m.debondingSlashed})"
      else some "ok"
    | _ => none
  | "com" :: rate :: total :: res =>
    match nats [rate, total] with
    | some [rate, total] =>
      let m := computeCommission rate total
      let shown := match m with
        | .error e => ["err", errKind e]
        | .ok (c, r) => ["ok", toString c, toString r]
      if shown != res then some s!"DIVERGE computeCommission model={" ".intercalate shown} impl={" ".intercalate res}"
      else match m with
        | .ok (c, r) => if c + r != total then some "SPEC commission + remaining ≠ total" else some "ok"
        | _ => some "ok"
    | _ => none
  | ["gclose", y, n, a, total, thr, res] =>
    match nats [y, n, a, total, thr] with
    | some [y, n, a, total, thr] =>
      let m := match OasisModel.Governance.closeProposal { yes := y, no := n, abstain := a } total thr with
        | .ok true => "passed"
        | .ok false => "rejected"
        | .error _ => "err"
      if m != res then some s!"DIVERGE closeProposal model={m} impl={res}" else some "ok"
    | _ => none
  | _ => none

def parseBool (s : String) : Option Bool :=
  if s == "1" then some true else if s == "0" then some false else none

def history (st : St) (ws : List String) : Option (St × String) :=
  let fail (msg : String) : Option (St × String) := some ({ st with dead := true }, msg)
  let f := st.f
  match ws with
  | ["hnew", b, t, mine, rest] =>
    match nats [b, t, mine, rest] with
    | some [b, t, mine, rest] =>
      let f : Fair := { pool := { balance := b, totalShares := t }, mine := mine, rest := rest, paidIn := 0, paidOut := 0, envGain := 0 }
      some ({ f := f, value0 := f.value, dead := false }, "ok")
    | _ => none
  | "hdep" :: own :: a :: res =>
    if st.dead then some (st, "skip") else
    match parseBool own, a.toNat? with
    | some own, some a =>
      let f' := f.step (.deposit own a)
      let holder := if own then f.mine else f.rest
      let m := deposit f.pool holder a a
      match res, m with
      | ["err", k], .error e => if k == errKind e then some ({ st with f := f' }, "ok") else fail s!"DIVERGE history deposit error model={errKind e} impl={k}"
      | ["ok", b', t', sh, vb, va], .ok r =>
        match nats [b', t', sh, vb, va] with
        | some [b', t', sh, vb, va] =>
          if own && decide (va > vb + a) then fail s!"SPEC own deposit of {a} raised redeemable value from {vb} to {va}"
          else if !own && decide (va < vb) then fail s!"SPEC deposit by another account lowered redeemable value from {vb} to {va}"
          else if r.pool != { balance := b', totalShares := t' } || r.shares != sh || vb != f.value || va != f'.value then
            fail s!"DIVERGE history deposit model=({r.pool.balance},{r.pool.totalShares},{r.shares},{f.value},{f'.value}) impl=({b'},{t'},{sh},{vb},{va})"
          else some ({ st with f := f' }, "ok")
        | _ => none
      | _, _ => fail s!"DIVERGE history deposit outcome model={showDep m} impl={" ".intercalate res}"
    | _, _ => none
  | "hwd" :: own :: s :: res =>
    if st.dead then some (st, "skip") else
    match parseBool own, s.toNat? with
    | some own, some s =>
      let f' := f.step (.withdraw own s)
      let holder := if own then f.mine else f.rest
      let m := withdraw f.pool 0 holder s
      match res, m with
      | ["err", k], .error e => if k == errKind e then some ({ st with f := f' }, "ok") else fail s!"DIVERGE history withdraw error model={errKind e} impl={k}"
      | ["ok", b', t', paid, vb, va], .ok r =>
        match nats [b', t', paid, vb, va] with
        | some [b', t', paid, vb, va] =>
          if own && decide (va + paid > vb) then fail s!"SPEC own redemption: paid {paid} + remaining value {va} exceeds previous value {vb}"
          else if !own && decide (va < vb) then fail s!"SPEC redemption by another account lowered redeemable value from {vb} to {va}"
          else if r.pool != { balance := b', totalShares := t' } || r.stakeDst != paid || vb != f.value || va != f'.value then
            fail s!"DIVERGE history withdraw model=({r.pool.balance},{r.pool.totalShares},{r.stakeDst},{f.value},{f'.value}) impl=({b'},{t'},{paid},{vb},{va})"
          else some ({ st with f := f' }, "ok")
        | _ => none
      | _, _ => fail s!"DIVERGE history withdraw outcome model={showWd m} impl={" ".intercalate res}"
    | _, _ => none
  | ["hrew", r, b', vb, va] =>
    if st.dead then some (st, "skip") else
    match nats [r, b', vb, va] with
    | some [r, b', vb, va] =>
      let f' := f.step (.reward r)
      if decide (va < vb) then fail s!"SPEC reward lowered redeemable value from {vb} to {va}"
      else if f'.pool.balance != b' || vb != f.value || va != f'.value then
        fail s!"DIVERGE history reward model=({f'.pool.balance},{f.value},{f'.value}) impl=({b'},{vb},{va})"
      else some ({ st with f := f' }, "ok")
    | _ => none
  | ["hsl", k, b'] =>
    if st.dead then some (st, "skip") else
    match nats [k, b'] with
    | some [k, b'] =>
      let f' := f.step (.slash k)
      if f'.pool.balance != b' then fail s!"DIVERGE history slash model={f'.pool.balance} impl={b'}"
      else some ({ st with f := f' }, "ok")
    | _ => none
  | ["hend", pin, pout, v, v0, g] =>
    if st.dead then some (st, "skip") else
    match nats [pin, pout, v, v0, g] with
    | some [pin, pout, v, v0, g] =>
      if !(Fair.specHistory pin pout v v0 g) then
        fail s!"SPEC history: redeemed {pout} + redeemable {v} exceeds paid-in {pin} + initial {v0} + gains from others/rewards {g}"
      else if [pin, pout, v, v0, g] != [f.paidIn, f.paidOut, f.value, st.value0, f.envGain] then
        fail s!"DIVERGE history totals model=({f.paidIn},{f.paidOut},{f.value},{st.value0},{f.envGain}) impl=({pin},{pout},{v},{v0},{g})"
      else some (st, "ok")
    | _ => none
  | _ => none

def step (st : St) (line : String) : St × String :=
  let ws := words line
  if ws.isEmpty then (st, "ok") else
  match stateless ws with
  | some a => (st, a)
  | none => match history st ws with
    | some r => r
    | none => (st, "DIVERGE bad-op " ++ line.trimAscii.toString)

def main : IO Unit := loop step {}

end OasisModel.Staking.ShareDriver
