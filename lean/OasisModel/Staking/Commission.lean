import OasisModel.Staking.SharePool
/-
Model of the commission schedule (go/staking/api/commission.go), properties C05 / C10 / C15.

  CommissionScheduleRules                     Rules
  CommissionSchedule{Rates, Bounds}           Schedule
  validateComplexity / validateNondegenerate / validateAmendmentAcceptable / Prune / amend /
  validateWithinBound / PruneAndValidate / AmendAndPruneAndValidate / CurrentRate

Epochs and rates are naturals (Go: `uint64` epochs, `quantity.Quantity` rates).  The functions that
mutate the receiver return the new schedule; `none` stands for "returned an error" (the callers drop
the in-memory copy, nothing is persisted).  `RateChangeInterval` is assumed non-zero: the Go code
computes `step.Start % RateChangeInterval`, which panics for 0 — the parameter cannot be changed by
governance and every deployed genesis sets it ≥ 1 (Lean's `x % 0 = x` would merely reject every
non-zero start).
-/
namespace OasisModel.Staking

structure RateStep where
  start : Nat
  rate : Nat
  deriving DecidableEq, Repr

structure BoundStep where
  start : Nat
  rateMin : Nat
  rateMax : Nat
  deriving DecidableEq, Repr

structure Schedule where
  rates : List RateStep := []
  bounds : List BoundStep := []
  deriving DecidableEq, Repr, Inhabited

structure Rules where
  rateChangeInterval : Nat := 1
  rateBoundLead : Nat := 0
  maxRateSteps : Nat := 0
  maxBoundSteps : Nat := 0
  minCommissionRate : Nat := 0
  deriving Repr

namespace Schedule
open SharePool (commissionRateDenominator)

/-- `validateComplexity`. -/
def complexityOk (s : Schedule) (r : Rules) : Bool :=
  decide (s.rates.length ≤ r.maxRateSteps) && decide (s.bounds.length ≤ r.maxBoundSteps)

/-- One rate step of `validateNondegenerate` (`prev`: start of the previous step, if any). -/
def rateStepOk (r : Rules) (prev : Option Nat) (st : RateStep) : Bool :=
  st.start % r.rateChangeInterval == 0 &&
  (match prev with
   | some p => decide (p < st.start)
   | none => true) &&
  decide (st.rate ≤ commissionRateDenominator) && decide (r.minCommissionRate ≤ st.rate)

def ratesOk (r : Rules) : Option Nat → List RateStep → Bool
  | _, [] => true
  | prev, st :: rest => rateStepOk r prev st && ratesOk r (some st.start) rest

def boundStepOk (r : Rules) (prev : Option Nat) (st : BoundStep) : Bool :=
  st.start % r.rateChangeInterval == 0 &&
  (match prev with
   | some p => decide (p < st.start)
   | none => true) &&
  decide (st.rateMin ≤ commissionRateDenominator) && decide (st.rateMax ≤ commissionRateDenominator) &&
  decide (st.rateMin ≤ st.rateMax) && decide (r.minCommissionRate ≤ st.rateMax) &&
  decide (r.minCommissionRate ≤ st.rateMin)

def boundsOk (r : Rules) : Option Nat → List BoundStep → Bool
  | _, [] => true
  | prev, st :: rest => boundStepOk r prev st && boundsOk r (some st.start) rest

/-- `validateNondegenerate`. -/
def nondegenerate (s : Schedule) (r : Rules) : Bool := ratesOk r none s.rates && boundsOk r none s.bounds

/-- `validateAmendmentAcceptable(rules, now, initialSchedule)` on the amendment `s`. -/
def amendmentAcceptable (s : Schedule) (r : Rules) (now : Nat) (initial : Bool) : Bool :=
  (match s.rates with
   | st :: _ => decide (now < st.start)
   | [] => true) &&
  (match s.bounds with
   | st :: _ => decide (now + 1 + (if initial then 0 else r.rateBoundLead) ≤ st.start)
   | [] => true)

def pruneRates (now : Nat) : List RateStep → List RateStep
  | a :: b :: rest => if b.start ≤ now then pruneRates now (b :: rest) else a :: b :: rest
  | l => l

def pruneBounds (now : Nat) : List BoundStep → List BoundStep
  | a :: b :: rest => if b.start ≤ now then pruneBounds now (b :: rest) else a :: b :: rest
  | l => l

/-- `Prune(now)`: discard past steps that are not in effect any more. -/
def prune (s : Schedule) (now : Nat) : Schedule :=
  { rates := pruneRates now s.rates, bounds := pruneBounds now s.bounds }

/-- `amend`: steps starting at or after the amendment's first step are replaced by the amendment. -/
def amend (s am : Schedule) : Schedule :=
  { rates := match am.rates with
      | [] => s.rates
      | a :: _ => s.rates.takeWhile (fun st => decide (st.start < a.start)) ++ am.rates
    bounds := match am.bounds with
      | [] => s.bounds
      | a :: _ => s.bounds.takeWhile (fun st => decide (st.start < a.start)) ++ am.bounds }

/-- The loop of `validateWithinBound`: the current rate must lie within the current bound; then
whichever of the next rate step / next bound step starts first (both on a tie) becomes current. -/
def walk (r : RateStep) (b : BoundStep) (rs : List RateStep) (bs : List BoundStep) : Bool :=
  if r.rate < b.rateMin || b.rateMax < r.rate then false
  else
    match rs, bs with
    | [], [] => true
    | r' :: rs', [] => walk r' b rs' []
    | [], b' :: bs' => walk r b' [] bs'
    | r' :: rs', b' :: bs' =>
      if r'.start < b'.start then walk r' b rs' (b' :: bs')
      else if b'.start < r'.start then walk r b' (r' :: rs') bs'
      else walk r' b' rs' bs'
termination_by rs.length + bs.length

/-- `validateWithinBound(now)`. -/
def withinBound (s : Schedule) (now : Nat) : Bool :=
  match s.rates, s.bounds with
  | [], [] => true
  | [], _ :: _ => false
  | _ :: _, [] => false
  | r :: rs, b :: bs =>
    if (now < r.start || now < b.start) && r.start != b.start then false
    else walk r b rs bs

/-- `PruneAndValidate(rules, now)` (genesis sanity check): the pruned schedule, or `none`. -/
def pruneAndValidate (s : Schedule) (r : Rules) (now : Nat) : Option Schedule :=
  if !s.complexityOk r then none
  else if !s.nondegenerate r then none
  else
    let p := s.prune now
    if p.withinBound now then some p else none

/-- `AmendAndPruneAndValidate(amendment, rules, now)`: the amended schedule, or `none`. -/
def amendAndPruneAndValidate (s am : Schedule) (r : Rules) (now : Nat) : Option Schedule :=
  if !am.complexityOk r then none
  else if !am.nondegenerate r then none
  else if !am.amendmentAcceptable r now s.bounds.isEmpty then none
  else
    let s' := (s.prune now).amend am
    if !s'.complexityOk r then none
    else if s'.withinBound now then some s' else none

def currentRateAux (latest : Option Nat) (now : Nat) : List RateStep → Option Nat
  | [] => latest
  | st :: rest => if now < st.start then latest else currentRateAux (some st.rate) now rest

/-- `CurrentRate(now)`: the rate of the latest rate step that has started, if any. -/
def currentRate (s : Schedule) (now : Nat) : Option Nat := currentRateAux none now s.rates

def currentBoundAux (latest : Option BoundStep) (now : Nat) : List BoundStep → Option BoundStep
  | [] => latest
  | st :: rest => if now < st.start then latest else currentBoundAux (some st) now rest

/-- The bound step in force at `now` (specification only: the Go code has no such accessor; the
bounds constrain rates through `validateWithinBound`). -/
def currentBound (s : Schedule) (now : Nat) : Option BoundStep := currentBoundAux none now s.bounds

end Schedule
end OasisModel.Staking
