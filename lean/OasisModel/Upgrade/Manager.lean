/-
The node-LOCAL upgrade manager (`go/upgrade/upgrade.go`, `go/upgrade/api/api.go`) that the ABCI
multiplexer consults while it executes a block:

* `mux.go:611`  BeginBlock: `upgrader.ConsensusUpgrade(ctx, currentEpoch, lastHeight)`
* `mux.go:794`  EndBlock:   `upgrader.ConsensusUpgrade(ctx, currentEpoch, ctx.LastHeight())`
* `abci/upgrade.go:30` (maybeHaltForUpgrade, from Commit): `upgrader.ConsensusUpgrade(nil, epoch, height)`

The manager's state (`upgradeManager.pending`, `shouldStop`, upgrade.go:27-37) is NOT part of the
consensus state: it lives in process memory and in the node's persistent service store
(`flushDescriptorLocked`, upgrade.go:201-224).  The block at the upgrade height may be executed several
times on one node before it is committed, so whether the migration handler runs in an execution of
height H must not depend on how often H was executed before.

Core Lean only (this file is compiled into executables).

Modelling choices (each follows a Go statement, cited at the definition):

* `Pending` is `api.PendingUpgrade` (api.go:193-207).  `id` stands for the descriptor (descriptors in
  `pending` are pairwise different: `SubmitDescriptor` rejects an equal one, upgrade.go:48-52); `epoch`
  is `Descriptor.Epoch`.  `LastCompletedStage` (0, 1 = startup, 2 = consensus; api.go:31-41) is encoded
  by the two Booleans `startupDone`, `consensusDone`: 0 = (false,false), 1 = (true,false), 2 = (_,true).
  `UpgradeHeight` is `Option Nat`; `none` is `InvalidUpgradeHeight = int64(0)` (api.go:44), and storing
  the height 0 stores `none` (`encodeHeight`).
* `compatible`, `hasHandler`, `handlerHasStartup` are the answers of `Descriptor.EnsureCompatible()`,
  `migrations.GetHandler(Descriptor.Handler)` and `handler.HasStartupUpgrade()` for the running binary:
  parameters of the model.
* The migration handler itself (`handler.ConsensusUpgrade(privateCtx)`, upgrade.go:328) acts on the
  consensus state of the block context; the model records THAT it ran (`Res.ran`), not what it does.
  Its own error return (upgrade.go:328-330) is a function of the consensus state and is not modelled.
* `for _, pu := range u.pending` (upgrade.go:271) ranges over the slice value read once; the early
  `flushDescriptorLocked` (upgrade.go:279) REPLACES `u.pending` by a freshly allocated filtered slice
  (upgrade.go:203-213) while the loop keeps ranging over the old one, whose elements are the same
  pointers.  The model therefore keeps for each element of the ranged-over slice a flag "still an element
  of `u.pending`" (`Slot`); a flush clears the flag of the completed ones.
-/
namespace OasisModel.Upgrade

/-- `api.PendingUpgrade` (api.go:193-207) with the three facts about the running binary. -/
structure Pending where
  /-- identity of the descriptor (`Descriptor.Equals`, upgrade.go:49) -/
  id : Nat
  /-- `Descriptor.Epoch` -/
  epoch : Nat
  /-- `UpgradeHeight`; `none` = `InvalidUpgradeHeight` (api.go:44, 200-203) -/
  upgradeHeight : Option Nat
  /-- `LastCompletedStage == UpgradeStageStartup`; `HasStage(UpgradeStageStartup)` is `hasStartupStage` -/
  startupDone : Bool
  /-- `LastCompletedStage >= UpgradeStageConsensus` -/
  consensusDone : Bool
  /-- `Descriptor.EnsureCompatible() == nil` -/
  compatible : Bool
  /-- `migrations.GetHandler(Descriptor.Handler)` succeeds -/
  hasHandler : Bool
  /-- `handler.HasStartupUpgrade()` -/
  handlerHasStartup : Bool
deriving DecidableEq, Repr, Inhabited

/-- `upgradeManager` (upgrade.go:27-37): the fields that `ConsensusUpgrade` reads and writes. -/
structure State where
  pending : List Pending
  shouldStop : Bool
deriving DecidableEq, Repr, Inhabited

/-- Who calls: BeginBlock and EndBlock pass the block context, Commit (`maybeHaltForUpgrade`) passes
`privateCtx == nil`. -/
inductive Mode where
  | beginBlock | endBlock | commit
deriving DecidableEq, Repr, Inhabited

inductive Outcome where
  /-- `return u.flushDescriptorLocked()` (upgrade.go:334) -/
  | ok
  /-- `api.ErrStopForUpgrade` (upgrade.go:268, 301) -/
  | stopForUpgrade
  /-- error of `migrations.GetHandler` (upgrade.go:324-327) -/
  | handlerMissing
  /-- `panic("consensus upgrade: UpgradeHeight is in the future ...")` (upgrade.go:314-316) -/
  | panicFutureHeight
  /-- `panic("upgrade: out of order upgrade stage execution")` in `PushStage` (api.go:225-229) -/
  | panicStageOrder
deriving DecidableEq, Repr, Inhabited

/-- Result of one call: the manager's state when the call returns (or panics), the indices (into the
`pending` list the call started with) of the descriptors whose migration handler ran, the outcome. -/
structure Res where
  state : State
  ran : List Nat
  outcome : Outcome
deriving DecidableEq, Repr, Inhabited

/-- `IsCompleted` (api.go:210-212): `LastCompletedStage >= upgradeStageLast`. -/
def Pending.isCompleted (p : Pending) : Bool := p.consensusDone

/-- `HasStage(UpgradeStageStartup)` (api.go:220-222). -/
def Pending.hasStartupStage (p : Pending) : Bool := p.startupDone || p.consensusDone

/-- `HasStage(UpgradeStageConsensus)`. -/
def Pending.hasConsensusStage (p : Pending) : Bool := p.consensusDone

/-- `PushStage(UpgradeStageStartup)` (api.go:225-230): panics (`none`) unless `LastCompletedStage == 0`. -/
def Pending.pushStartup (p : Pending) : Option Pending :=
  if !p.startupDone && !p.consensusDone then some { p with startupDone := true } else none

/-- `PushStage(UpgradeStageConsensus)`: panics (`none`) unless `LastCompletedStage == 1`. -/
def Pending.pushConsensus (p : Pending) : Option Pending :=
  if p.startupDone && !p.consensusDone then some { p with consensusDone := true } else none

/-- `pu.UpgradeHeight = currentHeight` (upgrade.go:278): the height 0 IS `InvalidUpgradeHeight`. -/
def encodeHeight (h : Nat) : Option Nat := if h = 0 then none else some h

/-- The `int64` read back. -/
def Pending.heightValue (p : Pending) : Nat := p.upgradeHeight.getD 0

/-- The closure of upgrade.go:283-299: must the node stop (no in-place upgrade)? -/
def Pending.mustStop (p : Pending) : Bool :=
  !p.compatible || !p.hasHandler || p.handlerHasStartup

/-- One iteration of the loop body for one descriptor: the descriptor afterwards, whether the early
flush (upgrade.go:279) was executed, whether the handler ran, and `some o` if the function left the loop
(`return`/`panic`) with outcome `o`. -/
structure Item where
  p : Pending
  flushed : Bool
  ran : Bool
  exit : Option Outcome
deriving DecidableEq, Repr

/-- upgrade.go:308-331 for a descriptor whose `UpgradeHeight` is valid (or was just set).
`early` is the SEEDED variant: push the consensus stage right after the handler ran in EndBlock. -/
def atHeight (early : Bool) (m : Mode) (h : Nat) (p : Pending) : Item :=
  if p.heightValue < h then
    -- upgrade.go:309-312: already past the upgrade height
    match p.pushConsensus with
    | none => ⟨p, false, false, some .panicStageOrder⟩
    | some p' => ⟨p', false, false, none⟩
  else if h < p.heightValue then
    -- upgrade.go:314-316
    ⟨p, false, false, some .panicFutureHeight⟩
  else if !p.hasConsensusStage && m != .commit then
    -- upgrade.go:318-331
    if !p.hasHandler then ⟨p, false, false, some .handlerMissing⟩
    else if early && m == .endBlock then
      match p.pushConsensus with
      | none => ⟨p, false, true, some .panicStageOrder⟩
      | some p' => ⟨p', false, true, none⟩
    else ⟨p, false, true, none⟩
  else ⟨p, false, false, none⟩

/-- The loop body, upgrade.go:272-331. -/
def item (early : Bool) (m : Mode) (e h : Nat) (p : Pending) : Item :=
  match p.upgradeHeight with
  | none =>
    -- upgrade.go:274-277
    if e < p.epoch then ⟨p, false, false, none⟩
    else
      -- upgrade.go:278-281 (the flush happens here: `flushed := true` in every result below)
      let p1 := { p with upgradeHeight := encodeHeight h }
      -- upgrade.go:283-302
      if p1.mustStop then ⟨p1, true, false, some .stopForUpgrade⟩
      else
        -- upgrade.go:305
        match p1.pushStartup with
        | none => ⟨p1, true, false, some .panicStageOrder⟩
        | some p2 => { atHeight early m h p2 with flushed := true }
  | some _ => atHeight early m h p

/-- An element of the slice the loop ranges over, with the flag "is (still) an element of `u.pending`". -/
abbrev Slot := Pending × Bool

/-- `flushDescriptorLocked` (upgrade.go:201-213) on the flags: completed descriptors leave `u.pending`. -/
def flushSlots (xs : List Slot) : List Slot :=
  xs.map fun x => (x.1, x.2 && !x.1.isCompleted)

/-- `u.pending` read off the flags. -/
def liveOf (xs : List Slot) : List Pending :=
  (xs.filter fun x => x.2).map fun x => x.1

/-- The not yet visited elements that are in `u.pending` (`fl`: a flush has happened in this call; they
were all in `u.pending` when the call started and have not been written since). -/
def liveRest (fl : Bool) (rest : List Pending) : List Pending :=
  rest.filter fun q => !(fl && q.isCompleted)

/-- The loop of upgrade.go:271-332 followed by the final flush (upgrade.go:334).  `pre`: the visited
elements (in order, with flags), `ran`: indices whose handler ran so far, `fl`: a flush has happened,
last argument: the elements still to visit. -/
def loop (early : Bool) (m : Mode) (e h : Nat) :
    List Slot → List Nat → Bool → List Pending → Res
  | pre, ran, _, [] =>
    ⟨⟨liveOf (flushSlots pre), false⟩, ran, .ok⟩
  | pre, ran, fl, p :: rest =>
    let it := item early m e h p
    let ran' := if it.ran then ran ++ [pre.length] else ran
    let fl' := fl || it.flushed
    -- the flag of the current element: it was in `u.pending` unless an earlier flush removed it; the
    -- flush of this iteration sees `LastCompletedStage` as it was on entry (the flush precedes every push)
    let cur : Slot := (it.p, !(fl' && p.isCompleted))
    let pre' := if it.flushed then flushSlots pre else pre
    match it.exit with
    | some o => ⟨⟨liveOf (pre' ++ [cur]) ++ liveRest fl' rest, o == .stopForUpgrade⟩, ran', o⟩
    | none => loop early m e h (pre' ++ [cur]) ran' fl' rest

/-- `ConsensusUpgrade` (upgrade.go:261-335), parameterised by the seeded variant. -/
def consensusUpgradeWith (early : Bool) (s : State) (m : Mode) (epoch height : Nat) : Res :=
  -- upgrade.go:267-269
  if s.shouldStop then ⟨s, [], .stopForUpgrade⟩
  else loop early m epoch height [] [] false s.pending

/-- The code as it is. -/
def consensusUpgrade (s : State) (m : Mode) (epoch height : Nat) : Res :=
  consensusUpgradeWith false s m epoch height

/-- SEEDED variant: additionally `pu.PushStage(api.UpgradeStageConsensus)` right after
`handler.ConsensusUpgrade(privateCtx)` succeeded in EndBlock. -/
def consensusUpgradeEarly (s : State) (m : Mode) (epoch height : Nat) : Res :=
  consensusUpgradeWith true s m epoch height

/-- The descriptors (as they were when the call started) whose handler ran. -/
def Res.ranOf (s : State) (r : Res) : List Pending :=
  r.ran.filterMap fun i => s.pending[i]?

/-- One call of a history. -/
structure Call where
  mode : Mode
  epoch : Nat
  height : Nat
deriving DecidableEq, Repr, Inhabited

/-- A history of calls after each of which the process is still running: `ConsensusUpgrade` returned
`nil`.  Every other outcome of a BeginBlock/EndBlock call ends the process (`mux.go:612-619`: halt for
upgrade panics with `ErrStopForUpgrade`, any other error panics; `mux.go:794-798`: panics), and after
`ErrStopForUpgrade` from Commit the node halts (`abci/upgrade.go:33-36`). -/
def runCallsWith (early : Bool) : State → List Call → Option State
  | s, [] => some s
  | s, c :: cs =>
    let r := consensusUpgradeWith early s c.mode c.epoch c.height
    if r.outcome = .ok then runCallsWith early r.state cs else none

def runCalls (s : State) (cs : List Call) : Option State := runCallsWith false s cs

/-- The `ran` lists of a history, call by call, continuing whatever the outcomes (used by witnesses). -/
def traceWith (early : Bool) : State → List Call → List (List Nat × Outcome)
  | _, [] => []
  | s, c :: cs =>
    let r := consensusUpgradeWith early s c.mode c.epoch c.height
    (r.ran, r.outcome) :: traceWith early r.state cs

/-- A freshly submitted descriptor (`SubmitDescriptor`, upgrade.go:54-58). -/
def Pending.fresh (id epoch : Nat) (compatible hasHandler handlerHasStartup : Bool) : Pending :=
  { id, epoch, upgradeHeight := none, startupDone := false, consensusDone := false,
    compatible, hasHandler, handlerHasStartup }

end OasisModel.Upgrade
