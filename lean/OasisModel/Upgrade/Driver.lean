import OasisModel.Proto
import OasisModel.Upgrade.Manager
/-
Driver for the upgrade-manager model (mode `upgrade`, executable `om_upgrade`), property C01.

  new                                             a fresh manager (answer `ok`)
  submit <id> <epoch> <compatible> <hasHandler> <handlerHasStartup>
                                                  SubmitDescriptor of a fresh descriptor (answer `ok`)
  call <b|e|c> <epoch> <height> <witness>         one ConsensusUpgrade call (BeginBlock / EndBlock / Commit);
        witness = what the implementation did:  <outcome>;ran=<ids>;pending=<id:height:stage,...>;stop=<0|1>
        outcome: ok | stop | nohandler | panic-future | panic-stage
        stage: 0 none, 1 startup, 2 consensus
    answer `ok` or `DIVERGE model=<the model's observation>`
The state advances with the MODEL's result; after a divergence the remaining lines answer `skip`.
Core Lean only.
-/
namespace OasisModel.Upgrade.Driver
open OasisModel.Proto OasisModel.Upgrade

structure St where
  s : State := { pending := [], shouldStop := false }
  dead : Bool := false

def showOutcome : Outcome → String
  | .ok => "ok" | .stopForUpgrade => "stop" | .handlerMissing => "nohandler"
  | .panicFutureHeight => "panic-future" | .panicStageOrder => "panic-stage"

def showPending (p : Pending) : String :=
  s!"{p.id}:{p.heightValue}:{if p.consensusDone then 2 else if p.startupDone then 1 else 0}"

def observe (s0 : State) (r : Res) : String :=
  let ran := (r.ranOf s0).map (·.id)
  s!"{showOutcome r.outcome};ran={showNats ran};pending={",".intercalate (r.state.pending.map showPending)};stop={if r.state.shouldStop then 1 else 0}"

def parseB (s : String) : Option Bool := if s == "1" then some true else if s == "0" then some false else none

def step (st : St) (line : String) : St × String :=
  if st.dead then (st, "skip") else
  match words line with
  | ["new"] => ({}, "ok")
  | ["submit", id, ep, c, hh, hs] =>
    match id.toNat?, ep.toNat?, parseB c, parseB hh, parseB hs with
    | some id, some ep, some c, some hh, some hs =>
      ({ st with s := { st.s with pending := st.s.pending ++ [Pending.fresh id ep c hh hs] } }, "ok")
    | _, _, _, _, _ => ({ st with dead := true }, "DIVERGE bad-op")
  | ["call", m, ep, h, wit] =>
    let mode : Option Mode := if m == "b" then some .beginBlock else if m == "e" then some .endBlock
      else if m == "c" then some .commit else none
    match mode, ep.toNat?, h.toNat? with
    | some mode, some ep, some h =>
      let r := consensusUpgrade st.s mode ep h
      let obs := observe st.s r
      if obs == wit then ({ st with s := r.state }, "ok")
      else ({ st with dead := true }, s!"DIVERGE model={obs}")
    | _, _, _ => ({ st with dead := true }, "DIVERGE bad-op")
  | [] => (st, "ok")
  | _ => ({ st with dead := true }, "DIVERGE bad-op")

def main : IO Unit := OasisModel.Proto.loop step ({} : St)

end OasisModel.Upgrade.Driver
