import OasisModel.Mkvs.Trie
/-
C04 — Merkle proofs of the MKVS tree (core Lean only).

Mirrors go/storage/mkvs:
  * `decKey` / `decLeaf` / `decInternal` / `decNode`   node/key.go:36 `Key.SizedUnmarshalBinary`,
        node/node.go:660 `LeafNode.SizedUnmarshalBinary`, node.go:475 `InternalNode.SizedUnmarshalBinary`,
        node.go:715 `node.UnmarshalBinary` (trailing bytes are ignored exactly like Go does; the
        optional 2×32 child hashes of the non-compact form are overwritten by the verifier)
  * `decEntry`            syncer/proof.go:358-427 (entry tag dispatch; nil entry; empty entry)
  * `PT`                  the pointer tree the verifier rebuilds: `node.Pointer{Hash, Node}` where
                          `Node == nil` is `PT.hash`, a nil pointer is `PT.nil`
  * `PT.hashOf`             node.go:355 / node.go:599 `UpdateHash` on what was *decoded* (raw label
                          bytes and the decoded bit length — the decoder does not mask padding bits)
  * `verifyAux`           proof.go:347 `verifyProof` (index = remaining entries; depth guard as a
                          budget `maxProofDepth + 1 - depth`)
  * `verifyProof`         proof.go:301 `verifyProofOpts`
  * `PT.writeLog`         proof.go:270 `addLeafToWriteLog` order (`VerifyProofToWriteLog`)
  * `PT.getAux`           lookup.go:98 `doGet` of a client that holds only verified nodes and has no
                          syncer left: `none` = would have to dereference a hash-only pointer
  * `PT.merge`            syncer/merge.go:15 `MergeVerifiedSubtree`
  * `clientSync`          cache.go:385-451 `remoteSync` accept rule (proof root = pointer hash or sync root)
  * `HTrie`               the committed tree with its cached hashes (`Pointer.Hash`)
  * `Builder`             proof.go:62-177 `ProofBuilder` (included map keyed by hash, size accounting)
  * `buildFrom`/`build`   proof.go:202-254 `Build`/`build` (pre-order emission)
  * `inclGet`             lookup.go:98-204 `doGet` with a proof builder (`SyncGet`): which nodes a
                          lookup includes, with `includeSiblings`, both proof versions
  * `SubT`                "is a sub-tree of": every materialised node is the tree's node at that position
-/
namespace OasisModel.Mkvs

/-- syncer/proof.go:20. -/
def maxProofDepth : Nat := 128

/-! ### byte-level decoders -/

def le16 (a b : UInt8) : Nat := a.toNat + 256 * b.toNat

def le32 (a b c d : UInt8) : Nat := a.toNat + 256 * b.toNat + 65536 * c.toNat + 16777216 * d.toNat

/-- `Depth.ToBytes`. -/
def toBytesLen (bits : Nat) : Nat := bits / 8 + (if bits % 8 = 0 then 0 else 1)

/-- `Key.SizedUnmarshalBinary`: u16 length prefix; returns the key and the rest. -/
def decKey : Bytes → Option (Bytes × Bytes)
  | a :: b :: rest =>
    let n := le16 a b
    if rest.length < n then none else some (rest.take n, rest.drop n)
  | _ => none

/-- `LeafNode.SizedUnmarshalBinary`; returns key, value and the unread rest. -/
def decLeaf (d : Bytes) : Option (Bytes × Bytes × Bytes) :=
  if d.length < 7 then none else
  match d with
  | p :: t =>
    if p ≠ 0x00 then none else
    match decKey t with
    | none => none
    | some (k, r) =>
      match r with
      | a :: b :: c :: e :: r2 =>
        let n := le32 a b c e
        if r2.length < n then none else some (k, r2.take n, r2.drop n)
      | _ => none
  | [] => none

/-- A decoded internal node: label bit length, raw label bytes, embedded leaf. -/
structure INode where
  bits : Nat
  label : Bytes
  lf : Option (Bytes × Bytes)
  deriving Repr, DecidableEq

/-- `InternalNode.SizedUnmarshalBinary` (child hashes of the non-compact form and any other
trailing bytes are not part of the result: the verifier overwrites `Left`/`Right`/`Hash`). -/
def decInternal (d : Bytes) : Option INode :=
  if d.length < 4 then none else
  match d with
  | p :: a :: b :: t =>
    if p ≠ 0x01 then none else
    let bits := le16 a b
    let n := toBytesLen bits
    if t.length < n then none else
    let label := t.take n
    match t.drop n with
    | [] => none
    | q :: r =>
      if q = 0x02 then some ⟨bits, label, none⟩ else
      match decLeaf (q :: r) with
      | none => none
      | some (k, v, _) => some ⟨bits, label, some (k, v)⟩
  | _ => none

/-- Verifier errors (canonical classes of the Go error values). -/
inductive VErr
  | badVersion | unexpectedRoot | emptyProof | malformed | maxDepth | node | hash | unexpectedEntry
  | unused | badRoot
  deriving DecidableEq, Repr

def VErr.toString : VErr → String
  | .badVersion => "bad-version"
  | .unexpectedRoot => "unexpected-root"
  | .emptyProof => "empty-proof"
  | .malformed => "malformed-proof"
  | .maxDepth => "max-depth"
  | .node => "node"
  | .hash => "hash"
  | .unexpectedEntry => "unexpected-entry"
  | .unused => "unused-entries"
  | .badRoot => "bad-root"

/-- A decoded proof entry. -/
inductive Ent
  | nil
  | hash (h : Bytes)
  | leaf (k v : Bytes)
  | inode (n : INode)
  deriving Repr, DecidableEq

/-- proof.go:358-427: `none` is a nil entry, `some []` an empty non-nil entry. -/
def decEntry : Option Bytes → Except VErr Ent
  | none => .ok .nil
  | some [] => .error .malformed
  | some (tag :: d) =>
    if tag = 0x01 then
      match d with
      | [] => .error .node
      | p :: _ =>
        if p = 0x00 then
          match decLeaf d with
          | some (k, v, _) => .ok (.leaf k v)
          | none => .error .node
        else if p = 0x01 then
          match decInternal d with
          | some n => .ok (.inode n)
          | none => .error .node
        else .error .node
    else if tag = 0x02 then (if d.length = 32 then .ok (.hash d) else .error .hash)
    else .error .unexpectedEntry

/-! ### the rebuilt pointer tree -/

inductive PT where
  | nil
  | hash (h : Bytes)
  | leaf (k v : Bytes)
  | node (bits : Nat) (label : Bytes) (lf l r : PT)
  deriving Repr, DecidableEq, Inhabited

def ofLeafOpt : Option (Bytes × Bytes) → PT
  | none => .nil
  | some (k, v) => .leaf k v

/-- Hash input of a rebuilt internal node: the decoded bit length and the raw label bytes. -/
def rawNodeEnc (bits : Nat) (label hlf hl hr : Bytes) : Bytes :=
  0x01 :: (u16le bits ++ (label ++ (hlf ++ (hl ++ hr))))

namespace PT

/-- `Pointer.GetHash` after the bottom-up `UpdateHash` calls of the verifier. -/
def hashOf (H : Bytes → Bytes) : PT → Bytes
  | .nil => H []
  | .hash h => h
  | .leaf k v => H (leafEnc k v)
  | .node bits label lf l r => H (rawNodeEnc bits label (lf.hashOf H) (l.hashOf H) (r.hashOf H))

/-- Write log of `VerifyProofToWriteLog`: leaves in pre-order (own leaf, left, right). -/
def writeLog : PT → List (Bytes × Bytes)
  | .nil => []
  | .hash _ => []
  | .leaf k v => [(k, v)]
  | .node _ _ lf l r => lf.writeLog ++ (l.writeLog ++ r.writeLog)

/-- Number of materialised (full) nodes. -/
def fullCount : PT → Nat
  | .nil => 0
  | .hash _ => 0
  | .leaf _ _ => 1
  | .node _ _ lf l r => 1 + lf.fullCount + l.fullCount + r.fullCount

/-- `doGet` (lookup.go:98) on verified nodes only. `eh` is the empty hash: `derefNodePtr` treats a
hash-only pointer carrying the empty hash as a nil node. Result `none`: the lookup would have to
dereference a hash-only pointer (needs another fetch); `some a`: answered locally with `a`. -/
def getAux (eh : Bytes) (k : Bytes) : PT → Nat → Option (Option Bytes)
  | .nil, _ => some none
  | .hash h, _ => if h = eh then some none else none
  | .leaf k' v', _ => some (if k' = k then some v' else none)
  | .node bits _ lf l r, d =>
    let bl := d + bits
    let n := (toBits k).length
    if n = bl then getAux eh k lf bl
    else if n < bl then some none
    else match (toBits k).drop bl with
      | true :: _ => getAux eh k r bl
      | _ => getAux eh k l bl

end PT

/-! ### the verifier -/

/-- `ProofVerifier.verifyProof` (proof.go:347). The first argument is the proof version, the second
the depth budget `maxProofDepth + 1 - depth`; the list holds the entries from `idx` on. Returns the
rebuilt subtree and the entries after it. -/
def verifyAux (v : Nat) : Nat → List (Option Bytes) → Except VErr (PT × List (Option Bytes))
  | _, [] => .error .malformed
  | 0, _ :: _ => .error .maxDepth
  | b + 1, e :: rest =>
    match decEntry e with
    | .error err => .error err
    | .ok .nil => .ok (.nil, rest)
    | .ok (.hash h) => .ok (.hash h, rest)
    | .ok (.leaf k val) => .ok (.leaf k val, rest)
    | .ok (.inode n) =>
      -- version 0: the leaf is embedded; version 1: the leaf is the first child
      match (if v = 0 then .ok (ofLeafOpt n.lf, rest) else verifyAux v b rest) with
      | .error err => .error err
      | .ok (lf, rest1) =>
        match verifyAux v b rest1 with
        | .error err => .error err
        | .ok (l, rest2) =>
          match verifyAux v b rest2 with
          | .error err => .error err
          | .ok (r, rest3) => .ok (.node n.bits n.label lf l r, rest3)

/-- `Proof{V, UntrustedRoot, Entries}` (proof.go:31). -/
structure MProof where
  v : Nat
  untrusted : Bytes
  entries : List (Option Bytes)
  deriving Repr, DecidableEq

/-- `ProofVerifier.verifyProofOpts` (proof.go:301) for hash function `H`. -/
def verifyProof (H : Bytes → Bytes) (root : Bytes) (p : MProof) : Except VErr PT :=
  if p.v > 1 then .error .badVersion
  else if p.untrusted ≠ root then .error .unexpectedRoot
  else if p.entries.isEmpty then .error .emptyProof
  else match verifyAux p.v (maxProofDepth + 1) p.entries with
    | .error e => .error e
    | .ok (t, rest) =>
      if !rest.isEmpty then .error .unused
      else if t.hashOf H ≠ root then .error .badRoot
      else .ok t

/-! ### sub-tree relation -/

def optLeaf : Option (Bytes × Bytes) → Trie
  | none => .nil
  | some (k, v) => .leaf k v

/-- `SubT H s t`: the partial tree `s` is a sub-tree of `t` — every materialised node of `s` is
`t`'s node at the same position, every hash-only pointer carries the hash of `t`'s subtree there. -/
def SubT (H : Bytes → Bytes) : PT → Trie → Prop
  | .nil, t => t = .nil
  | .hash h, t => h = hashWith H t
  | .leaf k v, t => t = .leaf k v
  | .node bits label lf l r, .node lab olf tl tr =>
    bits = lab.length ∧ label = packBits lab ∧ SubT H lf (optLeaf olf) ∧ SubT H l tl ∧ SubT H r tr
  | .node .., _ => False

/-- Executable version of `SubT` (spec predicate evaluated by the driver on accepted proofs). -/
def subB (H : Bytes → Bytes) : PT → Trie → Bool
  | .nil, t => t.isNil
  | .hash h, t => h == hashWith H t
  | .leaf k v, t => t == .leaf k v
  | .node bits label lf l r, .node lab olf tl tr =>
    bits == lab.length && label == packBits lab && subB H lf (optLeaf olf) && subB H l tl && subB H r tr
  | .node .., _ => false

/-! ### merging verified subtrees (syncer/merge.go) -/

/-- `MergeVerifiedSubtree(dst, subtree)`; `none` = "hash mismatch during merge". The leaf slot of an
internal node is not merged (Go merges `Left` and `Right` only). -/
def PT.merge (H : Bytes → Bytes) : PT → PT → Option PT
  | .nil, _ => some .nil
  | dst, .nil => some dst
  | dst, .hash h => if dst.hashOf H = h then some dst else none
  | .hash h, sub => if h = sub.hashOf H then some sub else none
  | .node bits label lf l r, .node bits' label' lf' l' r' =>
    if (PT.node bits label lf l r).hashOf H = (PT.node bits' label' lf' l' r').hashOf H then
      match PT.merge H l l', PT.merge H r r' with
      | some ml, some mr => some (.node bits label lf ml mr)
      | _, _ => none
    else none
  | dst, sub => if dst.hashOf H = sub.hashOf H then some dst else none

/-- Attach the verified subtree `sub` at the hash-only pointers carrying hash `h` (cache.go:398-401:
the proof is for `ptr.Hash`, `dstPtr = ptr`; the dereferenced pointer has no node, so
`MergeVerifiedSubtree` attaches the whole subtree, merge.go:47-50). -/
def PT.graft (h : Bytes) (sub : PT) : PT → PT
  | .hash h' => if h' = h then sub else .hash h'
  | .node b lb lf l r => .node b lb (PT.graft h sub lf) (PT.graft h sub l) (PT.graft h sub r)
  | t => t

/-- One `cache.remoteSync` (cache.go:385-451) of a client that trusts `root` and holds the verified
nodes `s`, while dereferencing a pointer with hash `ptrHash`: the response must be a proof for
`ptrHash` or for the sync root; it is verified against that hash and merged. Every failure leaves
the client's nodes unchanged (the operation then returns an error). -/
def clientSync (H : Bytes → Bytes) (root : Bytes) (s : PT) (ptrHash : Bytes) (resp : MProof) : PT :=
  if resp.untrusted = ptrHash then
    match verifyProof H ptrHash resp with
    | .ok sub => PT.graft ptrHash sub s
    | .error _ => s
  else if resp.untrusted = root then
    match verifyProof H root resp with
    | .ok sub => (PT.merge H s sub).getD s
    | .error _ => s
  else s

/-- A whole session: any sequence of (dereferenced pointer hash, response) pairs, starting from the
bare trusted root (`NewWithRoot(remote, nil, root)`). -/
def clientRun (H : Bytes → Bytes) (root : Bytes) (steps : List (Bytes × MProof)) : PT :=
  steps.foldl (fun s x => clientSync H root s x.1 x.2) (.hash root)

/-! ### the tree with cached hashes, the proof builder -/

/-- A committed tree together with the cached hash of every pointer. -/
inductive HTrie where
  | nil
  | leaf (h : Bytes) (k v : Bytes)
  | node (h : Bytes) (lab : Bits) (lf : Option (Bytes × Bytes)) (hlf : Bytes) (l r : HTrie)
  deriving Repr, Inhabited

namespace HTrie

/-- `Pointer.GetHash` (a nil pointer has the empty hash `eh`). -/
def hash (eh : Bytes) : HTrie → Bytes
  | .nil => eh
  | .leaf h _ _ => h
  | .node h _ _ _ _ _ => h

def erase : HTrie → Trie
  | .nil => .nil
  | .leaf _ k v => .leaf k v
  | .node _ lab lf _ l r => .node lab lf l.erase r.erase

/-- Depth of the deepest pointer below the root pointer (root = 0). -/
def ptrDepth : HTrie → Nat
  | .nil => 0
  | .leaf _ _ _ => 0
  | .node _ _ _ _ l r => 1 + max l.ptrDepth r.ptrDepth

end HTrie

/-- `doCommit`: compute all hashes bottom-up. -/
def annotate (H : Bytes → Bytes) : Trie → HTrie
  | .nil => .nil
  | .leaf k v => .leaf (H (leafEnc k v)) k v
  | .node lab lf l r =>
    let al := annotate H l
    let ar := annotate H r
    let hlf := hashLeafOpt H lf
    .node (H (nodeEnc lab hlf (al.hash (H [])) (ar.hash (H [])))) lab lf hlf al ar

/-- `Key.MarshalBinary` ‖ value: the body shared by all leaf serialisations. -/
def encLeaf (k v : Bytes) : Bytes := 0x00 :: (u16le k.length ++ (k ++ (u32le v.length ++ v)))

/-- `InternalNode.CompactMarshalBinaryV0` / `V1` (node.go:408, 431). -/
def encInternal (v : Nat) (lab : Bits) (lf : Option (Bytes × Bytes)) : Bytes :=
  0x01 :: (u16le lab.length ++ (packBits lab ++
    (if v = 0 then
      (match lf with
       | none => [0x02]
       | some (k, val) => encLeaf k val)
     else [0x02])))

/-- `ProofBuilder` state that matters: the hashes of the included nodes (Go: keys of the `included`
map) and the running size. -/
structure Builder where
  incl : List Bytes := []
  size : Nat := 0
  deriving Repr

/-- `ProofBuilder.Include` for a node with hash `h` whose serialisation has `n` bytes. -/
def Builder.include (b : Builder) (h : Bytes) (n : Nat) : Builder :=
  if b.incl.contains h then b else { incl := h :: b.incl, size := b.size + 1 + n }

def Builder.includeLeaf (b : Builder) (h k v : Bytes) : Builder := b.include h (encLeaf k v).length

def Builder.includeNode (b : Builder) (ver : Nat) (h : Bytes) (lab : Bits) (lf : Option (Bytes × Bytes)) : Builder :=
  b.include h (encInternal ver lab lf).length

/-- Include whatever `ptr` points to (`pb.Include(nd)` after `derefNodePtr`; nil is skipped). -/
def Builder.includeH (b : Builder) (ver : Nat) : HTrie → Builder
  | .nil => b
  | .leaf h k v => b.includeLeaf h k v
  | .node h lab lf _ _ _ => b.includeNode ver h lab lf

/-- The own-leaf pointer of an internal node as a tree. -/
def leafSlot (lf : Option (Bytes × Bytes)) (hlf : Bytes) : HTrie :=
  match lf with
  | none => .nil
  | some (k, v) => .leaf hlf k v

/-- Emission for the own-leaf child pointer of an included internal node (version 1). -/
def buildLeafSlot (incl : List Bytes) (lf : Option (Bytes × Bytes)) (hlf : Bytes) : List (Option Bytes) :=
  match lf with
  | none => [none]
  | some (k, v) => if incl.contains hlf then [some (0x01 :: encLeaf k v)] else [some (0x02 :: hlf)]

/-- What the verifier rebuilds from `buildLeafSlot`. -/
def restrictLeafSlot (incl : List Bytes) (lf : Option (Bytes × Bytes)) (hlf : Bytes) : PT :=
  match lf with
  | none => .nil
  | some (k, v) => if incl.contains hlf then .leaf k v else .hash hlf

/-- `ProofBuilder.build` (proof.go:222): pre-order emission below the pointer `t`. -/
def buildFrom (ver : Nat) (incl : List Bytes) : HTrie → List (Option Bytes)
  | .nil => [none]
  | .leaf h k v => if incl.contains h then [some (0x01 :: encLeaf k v)] else [some (0x02 :: h)]
  | .node h lab lf hlf l r =>
    if incl.contains h then
      some (0x01 :: encInternal ver lab lf) ::
        ((if ver = 0 then [] else buildLeafSlot incl lf hlf) ++
         (buildFrom ver incl l ++ buildFrom ver incl r))
    else [some (0x02 :: h)]

/-- The pointer tree an honest proof describes: included nodes in full, the rest as hashes. -/
def restrict (ver : Nat) (incl : List Bytes) : HTrie → PT
  | .nil => .nil
  | .leaf h k v => if incl.contains h then .leaf k v else .hash h
  | .node h lab lf hlf l r =>
    if incl.contains h then
      .node lab.length (packBits lab)
        (if ver = 0 then ofLeafOpt lf else restrictLeafSlot incl lf hlf)
        (restrict ver incl l) (restrict ver incl r)
    else .hash h

/-- Depth of the deepest entry of the honest proof (root entry = 0). -/
def proofDepth (ver : Nat) (incl : List Bytes) : HTrie → Nat
  | .nil => 0
  | .leaf _ _ _ => 0
  | .node h _ _ _ l r =>
    if incl.contains h then 1 + max (proofDepth ver incl l) (proofDepth ver incl r) else 0

/-- `ProofBuilder.Build` for a proof anchored at the root (`subtree = root`, the case of every
request whose `Position` is the root; the untrusted root is then the root hash in both cases of
proof.go:207-214). -/
def build (eh : Bytes) (ver : Nat) (incl : List Bytes) (t : HTrie) : MProof :=
  { v := ver, untrusted := t.hash eh, entries := buildFrom ver incl t }

/-- lookup.go:140-157: the key ends at this node — with `includeSiblings` both children are
included; the own leaf is visited with the builder only in version 1. -/
def Builder.includeEnd (b : Builder) (ver : Nat) (sib : Bool) (lf : Option (Bytes × Bytes)) (hlf : Bytes)
    (l r : HTrie) : Builder :=
  let b := if sib then (b.includeH ver l).includeH ver r else b
  if ver = 0 then b else b.includeH ver (leafSlot lf hlf)

/-- lookup.go:171-187: after the descent, with `includeSiblings` the own leaf (version 1 only) and
the other child are included. -/
def Builder.includeSiblings (b : Builder) (ver : Nat) (sib : Bool) (lf : Option (Bytes × Bytes)) (hlf : Bytes)
    (other : HTrie) : Builder :=
  if sib then
    let b := if ver > 0 then b.includeH ver (leafSlot lf hlf) else b
    b.includeH ver other
  else b

/-- `doGet` with a proof builder (lookup.go:98-204): the nodes `SyncGet` includes.
`stop = true` is the sibling fetch (include the node, do not descend). -/
def inclGet (ver : Nat) (sib : Bool) (k : Bytes) : HTrie → Nat → Bool → Builder → Builder
  | .nil, _, _, b => b
  | .leaf h k' v', _, _, b => b.includeLeaf h k' v'
  | .node h lab lf hlf l r, d, stop, b =>
    let b := b.includeNode ver h lab lf
    if stop then b else
    let bl := d + lab.length
    let n := (toBits k).length
    if n = bl then b.includeEnd ver sib lf hlf l r
    else if n < bl then b
    else match (toBits k).drop bl with
      | true :: _ => (inclGet ver sib k r bl false b).includeSiblings ver sib lf hlf l
      | _ => (inclGet ver sib k l bl false b).includeSiblings ver sib lf hlf r

/-- The proof `SyncGet` answers with for a request positioned at the root. -/
def proofGet (eh : Bytes) (ver : Nat) (sib : Bool) (k : Bytes) (t : HTrie) : MProof :=
  build eh ver (inclGet ver sib k t 0 false {}).incl t

end OasisModel.Mkvs
