import OasisModel.Mkvs.Trie
/-
Ordered-map specification (C03): a map from byte-string keys to byte-string values represented by
an association list kept strictly ascending in byte-lexicographic key order (`bytes.Compare`).
Core Lean only.
-/
namespace OasisModel.Mkvs

abbrev KV := Bytes × Bytes

namespace SMap

/-- Value bound to `k`. -/
def get : List KV → Bytes → Option Bytes
  | [], _ => none
  | (k', v') :: m, k => if k' = k then some v' else get m k

/-- Insert or overwrite, keeping ascending order. -/
def insert : List KV → Bytes → Bytes → List KV
  | [], k, v => [(k, v)]
  | (k', v') :: m, k, v =>
    if k < k' then (k, v) :: (k', v') :: m
    else if k' = k then (k, v) :: m
    else (k', v') :: insert m k v

def erase : List KV → Bytes → List KV
  | [], _ => []
  | (k', v') :: m, k => if k' = k then m else (k', v') :: erase m k

/-- Entries with key ≥ `k` (what an iterator yields after `Seek k`). -/
def seekGE (m : List KV) (k : Bytes) : List KV := m.filter (fun kv => !decide (kv.1 < k))

/-- Strictly ascending keys. -/
def Sorted (m : List KV) : Prop := m.Pairwise (fun a b => a.1 < b.1)

end SMap

/-- Write-log entry: `none` is a deletion (Go: `Value == nil`). -/
abbrev LogEntry := Bytes × Option Bytes

end OasisModel.Mkvs
