/-
Checkpoint restorer under FAILING imports (C12 / C06): bookkeeping of the pending set.

Go code: go/storage/mkvs/checkpoint/restorer.go
  * `StartRestore`  l.26-41 : refuses when a restore is in progress; pending := {0..len(Chunks)-1}.
  * `AbortRestore`  l.43-51 : pending := nil, currentCheckpoint := nil.
  * `RestoreChunk`  l.66-120:
      phase 1 (l.68-83, under the lock): `currentCheckpoint == nil` -> ErrNoRestoreInProgress;
        `!pendingChunks[idx]` -> ErrChunkAlreadyRestored; remembers `checkpoint`; `GetChunkMetadata`.
        Phase 1 does NOT modify the pending set.
      import (l.88, WITHOUT the lock): `restoreChunk(ctx, rs.ndb, chunk, r)`.
      l.89-98: err == nil -> go on; ErrChunkProofVerificationFailed -> `AbortRestore`, return the error;
        any other error (corrupted chunk, cancelled context, database error) -> return the error,
        NOTHING is changed: the chunk stays pending.
      phase 2 (l.100-119, under the lock): `currentCheckpoint != checkpoint` -> ErrNoRestoreInProgress;
        `delete(pendingChunks, idx)`; `len(pendingChunks) == 0` -> clear, return done = true.

Why a separate, self-contained state machine: the restorer model of `OasisModel/Mkvs/Chunk.lean`
(`Restorer`, `rsBegin`, `rsFinish`, `cStep`) computes the outcome of the import from the chunk bytes
(`restoreChunkM`: only `corrupted` and `proofFailed` can come out) and has no error that is neither of
the two. Here the outcome of the import is an INPUT of the history (`Outcome`), including `transient`
= any other error of `restoreChunk` (cancelled context, NodeDB error), and the database is abstracted to
the set `imported` of chunk indices whose nodes were written for the restore in progress. The shape of
the machine (generation counter for the `*Metadata` pointer comparison, in-flight calls, events
`start/abort/begin/finish`) is the one of `rsStart/rsAbort/rsBegin/rsFinish/cStep`.

`imported` is credited per restore: `StartRestore` begins with the empty set, and an import whose
phase 2 finds another restore in progress (stale call) is not credited to that restore (it was an import
of a chunk of the OLD checkpoint). An import with outcome ≠ ok writes nothing that counts
(`restoreChunk` writes through a batch that is committed only at the end, chunk.go:330-339: `NewBatch` ... `batch.Commit`).

Core Lean only.
-/
namespace OasisModel.Mkvs.RestorerFail

/-- Outcome of `restoreChunk(ctx, ndb, chunk, r)` (restorer.go:88). `transient` = any error other
than the two named ones (restorer.go:96 `default:`). `corrupted` (ErrChunkCorrupted) also falls into
the `default:` branch; it is kept apart because the seeded variant treats it differently. -/
inductive Outcome
  | ok | corrupted | proofFailed | transient
  deriving Repr, DecidableEq

/-- What a `RestoreChunk` call returns: `(done, nil)` or the error. -/
inductive Res
  | done (b : Bool)
  | noRestore | alreadyRestored | chunkNotFound | corrupted | proofFailed | transient
  deriving Repr, DecidableEq

/-- `restorer` (restorer.go:13-23) + the abstract database. -/
structure FRestorer where
  /-- `currentCheckpoint` (number of chunks of its metadata); `none` = no restore in progress. -/
  current : Option Nat := none
  /-- `pendingChunks`. -/
  pending : List Nat := []
  /-- Identity of the `*Metadata` object (phase 2 compares pointers): one generation per `StartRestore`. -/
  gen : Nat := 0
  /-- Chunk indices whose nodes were imported for the restore in progress (a set, kept as a list). -/
  imported : List Nat := []
  deriving Repr, DecidableEq

/-- `StartRestore` (restorer.go:26-41). -/
def fStart (rs : FRestorer) (n : Nat) : Option FRestorer :=
  match rs.current with
  | some _ => none
  | none => some { current := some n, pending := List.range n, gen := rs.gen + 1, imported := [] }

/-- `AbortRestore` (restorer.go:43-51). -/
def fAbort (rs : FRestorer) : FRestorer := { rs with current := none, pending := [] }

/-- Phase 1 of `RestoreChunk` (restorer.go:68-83): read-only; returns the generation it saw. -/
def fBegin (rs : FRestorer) (idx : Nat) : Except Res Nat :=
  match rs.current with
  | none => .error .noRestore
  | some n =>
    if !rs.pending.contains idx then .error .alreadyRestored
    else if idx ≥ n then .error .chunkNotFound
    else .ok rs.gen

/-- Import with the given outcome + phase 2 (restorer.go:88-119) of a call that saw generation `seen`. -/
def fFinish (rs : FRestorer) (idx seen : Nat) : Outcome → Res × FRestorer
  | .proofFailed => (.proofFailed, fAbort rs)          -- l.91-95
  | .corrupted => (.corrupted, rs)                      -- l.96-97
  | .transient => (.transient, rs)                      -- l.96-97
  | .ok =>
    if rs.current.isNone || rs.gen != seen then (.noRestore, rs)   -- l.105-107
    else
      let pending := rs.pending.filter (fun i => i != idx)         -- l.110
      let imported := idx :: rs.imported
      if pending.isEmpty then                                       -- l.113-117
        (.done true, { rs with current := none, pending := [], imported := imported })
      else (.done false, { rs with pending := pending, imported := imported })

/-- Events of a history: `begin`/`finish` are the two phases of one `RestoreChunk` call; anything may
happen between them. -/
inductive Ev
  | start (n : Nat)
  | abort
  | begin (idx : Nat)
  | finish (idx : Nat) (seen : Nat) (o : Outcome)
  deriving Repr, DecidableEq

/-- Restorer + the calls that are between their phases (index, generation seen in phase 1). -/
structure FState where
  rs : FRestorer := {}
  inflight : List (Nat × Nat) := []
  deriving Repr, DecidableEq

/-- One event; second component: what a `RestoreChunk` call returns when it ends at this event.
A `finish` for a call that is not in flight is not an event of any execution and is ignored. -/
def fStep (s : FState) : Ev → FState × Option Res
  | .start n =>
    match fStart s.rs n with
    | some rs' => ({ s with rs := rs' }, none)
    | none => (s, none)
  | .abort => ({ s with rs := fAbort s.rs }, none)
  | .begin idx =>
    match fBegin s.rs idx with
    | .ok g => ({ s with inflight := (idx, g) :: s.inflight }, none)
    | .error e => (s, some e)
  | .finish idx seen o =>
    if s.inflight.contains (idx, seen) then
      let r := fFinish s.rs idx seen o
      ({ rs := r.2, inflight := s.inflight.erase (idx, seen) }, some r.1)
    else (s, none)

def fRun (s : FState) (evs : List Ev) : FState :=
  evs.foldl (fun s e => (fStep s e).1) s

/-- The state after a history together with everything the calls returned, in order. -/
def fRunLog (s : FState) : List Ev → FState × List Res
  | [] => (s, [])
  | e :: evs =>
    let r := fStep s e
    let t := fRunLog r.1 evs
    (t.1, (match r.2 with | some x => [x] | none => []) ++ t.2)

/-- A whole `RestoreChunk(idx)` call with nothing in between (sequential caller). -/
def fCall (rs : FRestorer) (idx : Nat) (o : Outcome) : Res × FRestorer :=
  match fBegin rs idx with
  | .error e => (e, rs)
  | .ok g => fFinish rs idx g o

/-! ### Seeded variant: the chunk is claimed in phase 1

Phase 1 removes `idx` from the pending set (so that no second caller imports the same chunk); the
import then runs; the chunk is put back only when the import says `corrupted`. Any other failing import
(cancelled context, database error) leaves the chunk removed although nothing was imported. -/

def eBegin (rs : FRestorer) (idx : Nat) : Except Res Nat × FRestorer :=
  match rs.current with
  | none => (.error .noRestore, rs)
  | some n =>
    if !rs.pending.contains idx then (.error .alreadyRestored, rs)
    else if idx ≥ n then (.error .chunkNotFound, rs)
    else (.ok rs.gen, { rs with pending := rs.pending.filter (fun i => i != idx) })

def eFinish (rs : FRestorer) (idx seen : Nat) : Outcome → Res × FRestorer
  | .proofFailed => (.proofFailed, fAbort rs)
  | .corrupted => (.corrupted, { rs with pending := idx :: rs.pending })
  | .transient => (.transient, rs)
  | .ok =>
    if rs.current.isNone || rs.gen != seen then (.noRestore, rs)
    else
      let imported := idx :: rs.imported
      if rs.pending.isEmpty then
        (.done true, { rs with current := none, pending := [], imported := imported })
      else (.done false, { rs with imported := imported })

def eStep (s : FState) : Ev → FState × Option Res
  | .start n =>
    match fStart s.rs n with
    | some rs' => ({ s with rs := rs' }, none)
    | none => (s, none)
  | .abort => ({ s with rs := fAbort s.rs }, none)
  | .begin idx =>
    match eBegin s.rs idx with
    | (.ok g, rs') => ({ rs := rs', inflight := (idx, g) :: s.inflight }, none)
    | (.error e, _) => (s, some e)
  | .finish idx seen o =>
    if s.inflight.contains (idx, seen) then
      let r := eFinish s.rs idx seen o
      ({ rs := r.2, inflight := s.inflight.erase (idx, seen) }, some r.1)
    else (s, none)

def eRunLog (s : FState) : List Ev → FState × List Res
  | [] => (s, [])
  | e :: evs =>
    let r := eStep s e
    let t := eRunLog r.1 evs
    (t.1, (match r.2 with | some x => [x] | none => []) ++ t.2)

/-- The history of the witness: checkpoint with 2 chunks; chunk 0 fails with a transient error,
is asked again, then chunk 1 is imported. -/
def witnessHistory : List Ev :=
  [.start 2, .begin 0, .finish 0 1 .transient, .begin 0, .finish 0 1 .ok, .begin 1, .finish 1 1 .ok]

end OasisModel.Mkvs.RestorerFail
