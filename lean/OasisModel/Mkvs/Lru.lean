/-
The replacement policy of the MKVS node cache (go/storage/mkvs/cache.go) for internal nodes, as a
state machine over node identities (C03: "node-cache eviction never changes any answer").
Core Lean only.

  Go                                                        here
  `c.lruInternal` (container/list, front = most recent)     `Lru.list` (head = front)
  `c.lruInternalPos`                                        `Lru.pos`
  `c.nodeCapacity` (0 = unlimited)                          `Lru.cap`
  `markPosition` (cache.go:151)                             `Lru.mark`
  `useNode` (cache.go:133) `MoveToFront`                    `Lru.use`
  `tryEvictInternal(1)` (cache.go:305): while
     `internalNodeCount + 1 > nodeCapacity` take `Back()`
     and `tryRemoveNode` it                                 `Lru.evict`
  `tryRemoveNode` (cache.go:233): the victim and every
     cached node below it leave the list; a removed marked
     position is forgotten                                  `removeSubtree`, `Lru.evict`
  `tryCommitNode` (cache.go:156): `InsertAfter(pos)` if a
     position is marked, else `PushFront`                   `insertAfter`, `Lru.load`
  `derefNodePtr` (cache.go:327): `useNode(ptr)`; a node
     that is not in memory is fetched and committed         `Lru.deref`

Only clean nodes are on the list; dirty nodes are taken off it (`rollbackNode`) and cannot be
evicted, so an operation's dirty nodes need no capacity.  `below v` lists the nodes under `v`
(a parameter: the shape of the tree while the operation descends).
-/
namespace OasisModel.Mkvs

structure Lru where
  list : List Nat := []
  pos : Option Nat := none
  cap : Nat := 0
  deriving Repr, DecidableEq

namespace Lru

/-- `l` without `v` and without the nodes below `v`. -/
def removeSubtree (below : Nat → List Nat) (v : Nat) (l : List Nat) : List Nat :=
  l.filter (fun x => !(x == v) && !(below v).contains x)

/-- `tryEvictInternal(1)`: make room for one node (`fuel` bounds the loop; `l.length` suffices). -/
def evict (below : Nat → List Nat) (cap : Nat) : Nat → List Nat → List Nat
  | 0, l => l
  | fuel + 1, l =>
    if cap < l.length + 1 then
      match l.getLast? with
      | none => l
      | some v => evict below cap fuel (removeSubtree below v l)
    else l

/-- `InsertAfter(p, q)`; at the front if `q` is not on the list. -/
def insertAfter (q p : Nat) : List Nat → List Nat
  | [] => [p]
  | x :: xs => if x = q then x :: p :: xs else x :: insertAfter q p xs

/-- `markPosition`. -/
def mark (s : Lru) : Lru := { s with pos := s.list.head? }

/-- `useNode` on a node that is on the list. -/
def use (s : Lru) (p : Nat) : Lru := { s with list := p :: s.list.filter (fun x => !(x == p)) }

/-- `commitNode` of a freshly fetched node: evict if full, then insert after the marked position if
it is (still) on the list, else at the front. -/
def load (below : Nat → List Nat) (s : Lru) (p : Nat) : Lru :=
  let l := if s.cap = 0 then s.list else evict below s.cap s.list.length s.list
  match s.pos with
  | some q =>
    if l.contains q then { s with list := insertAfter q p l }
    else { s with list := p :: l, pos := none }
  | none => { s with list := p :: l }

/-- `derefNodePtr`. -/
def deref (below : Nat → List Nat) (s : Lru) (p : Nat) : Lru :=
  if s.list.contains p then s.use p else s.load below p

/-- One tree operation: `markPosition`, then the dereferences in order. -/
def runOp (below : Nat → List Nat) (s : Lru) (ps : List Nat) : Lru :=
  ps.foldl (deref below) s.mark

/-- The dereferences of a tree operation start at the root and follow child pointers: whenever a
node is dereferenced, every node above it has been dereferenced before (in the same operation). -/
def AncestorClosed (below : Nat → List Nat) : List Nat → List Nat → Prop
  | _, [] => True
  | seen, p :: rest => (∀ a, p ∈ below a → a ∈ seen) ∧ AncestorClosed below (p :: seen) rest

end Lru

end OasisModel.Mkvs
