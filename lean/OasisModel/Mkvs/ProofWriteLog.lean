import OasisModel.Mkvs.Proof
import OasisModel.Mkvs.SMap
/-
C04 — the write-log side of proof verification (core Lean only).

`OasisModel/Mkvs/Proof.lean` computes the write log of `VerifyProofToWriteLog` from the *rebuilt*
tree (`PT.writeLog`). The Go code does not: it threads a `verifyResult` through the recursion and
appends to `res.writeLog` call by call (`addLeafToWriteLog`). This file models that accumulation
exactly as it is performed, so that the equality of the two is a theorem
(`OasisProofs/Props/C04WriteLog.lean`) rather than a modelling decision.

Mirrors go/storage/mkvs/syncer/proof.go:
  * `addLeafToWriteLog`  proof.go:270-279  (nil pointer: nothing; pointer whose `Node` is not a
                         `*node.LeafNode` — an internal node, or the nil `Node` of a hash-only
                         pointer — : nothing; a leaf: append `{Key, Value}`)
  * `verifyAuxW`         proof.go:347-428  `verifyProof` with `opts`/`res` threaded:
        - nil entry (359-361) and hash entry (417-424) return before any `addLeafToWriteLog`;
        - full entry, version 0 (378-382): `res.addLeafToWriteLog(nd.LeafNode)` with the leaf that
          `InternalNode.SizedUnmarshalBinary` (node.go:504-515) embedded in the entry, BEFORE the
          children are verified;
        - full entry, version 1 (383-389): `nd.LeafNode` is OVERWRITTEN by the result of the recursive
          call; a V0-style leaf embedded in the entry (the decoder accepts it in either version) is
          dropped without ever reaching the write log;
        - then `Left`, `Right` (395-404);
        - `ptr := &node.Pointer{.., Node: n}` and `res.addLeafToWriteLog(ptr)` (410-414) for EVERY full
          entry: it appends iff the entry itself was a leaf node — in whatever position (root, leaf
          slot, left, right) the entry stood;
        - every `addLeafToWriteLog` is guarded by `opts.writeLog` (380, 412).
  * `verifyProofW`       proof.go:301-345  `verifyProofOpts`: version, untrusted root, empty proof,
                         recursion from index 0 / depth 0 with a fresh `verifyResult`, all entries
                         used, `rootNodeHash.IsEmpty()` ⇒ `rootPtr = nil` (329-333), and — as a
                         SEPARATE, unconditional statement — `!rootNodeHash.Equal(&root)` ⇒ "bad root"
                         (335-340). On any error the accumulated write log is discarded.
  * `verifyProofToWriteLog` proof.go:293-299, `verifyProofPtr` proof.go:283-289.
-/
namespace OasisModel.Mkvs

/-- `verifyResult.addLeafToWriteLog` (proof.go:270). The argument is the pointer as the verifier
holds it: `PT.nil` a nil pointer, `PT.hash` a pointer with `Node == nil`, `PT.node` a pointer to
an internal node, `PT.leaf` a pointer to a leaf node. -/
def addLeafToWriteLog (wl : List KV) : PT → List KV
  | .leaf k v => wl ++ [(k, v)]
  | _ => wl

/-- `if opts.writeLog { res.addLeafToWriteLog(p) }` (proof.go:380-382, 412-414). -/
def addLeafIf (w : Bool) (wl : List KV) (p : PT) : List KV :=
  if w then addLeafToWriteLog wl p else wl

/-- `ProofVerifier.verifyProof` (proof.go:347) with the `verifyResult` threaded through: `w` is
`opts.writeLog`, `wl` is `res.writeLog` on entry, the third component of the result is
`res.writeLog` on return. Version, depth budget and entry list as in `verifyAux`. -/
def verifyAuxW (w : Bool) (v : Nat) : Nat → List (Option Bytes) → List KV →
    Except VErr (PT × List (Option Bytes) × List KV)
  | _, [], _ => .error .malformed
  | 0, _ :: _, _ => .error .maxDepth
  | b + 1, e :: rest, wl =>
    match decEntry e with
    | .error err => .error err
    | .ok .nil => .ok (.nil, rest, wl)
    | .ok (.hash h) => .ok (.hash h, rest, wl)
    | .ok (.leaf k val) =>
      -- proof.go:410-414: `ptr.Node` is the decoded leaf
      .ok (.leaf k val, rest, addLeafIf w wl (.leaf k val))
    | .ok (.inode n) =>
      match (if v = 0 then
               -- proof.go:378-382: the embedded leaf goes to the write log first
               .ok (ofLeafOpt n.lf, rest, addLeafIf w wl (ofLeafOpt n.lf))
             else
               -- proof.go:383-389: the leaf slot is the first child; `n.lf` is overwritten
               verifyAuxW w v b rest wl) with
      | .error err => .error err
      | .ok (lf, rest1, wl1) =>
        match verifyAuxW w v b rest1 wl1 with
        | .error err => .error err
        | .ok (l, rest2, wl2) =>
          match verifyAuxW w v b rest2 wl2 with
          | .error err => .error err
          | .ok (r, rest3, wl3) =>
            -- proof.go:410-414: `ptr.Node` is the internal node, nothing is appended
            .ok (.node n.bits n.label lf l r, rest3,
                 addLeafIf w wl3 (.node n.bits n.label lf l r))

/-- proof.go:328-333: a root pointer whose hash is the empty hash is returned as a nil pointer. -/
def normRoot (H : Bytes → Bytes) (t : PT) : PT := if t.hashOf H = H [] then .nil else t

/-- `ProofVerifier.verifyProofOpts` (proof.go:301): returns `res.rootPtr` and `res.writeLog`. -/
def verifyProofW (H : Bytes → Bytes) (w : Bool) (root : Bytes) (p : MProof) : Except VErr (PT × List KV) :=
  if p.v > 1 then .error .badVersion
  else if p.untrusted ≠ root then .error .unexpectedRoot
  else if p.entries.isEmpty then .error .emptyProof
  else match verifyAuxW w p.v (maxProofDepth + 1) p.entries [] with
    | .error e => .error e
    | .ok (t, rest, wl) =>
      if !rest.isEmpty then .error .unused
      else
        let rootNodeHash := t.hashOf H
        -- proof.go:329-333
        let rootPtr := if rootNodeHash = H [] then PT.nil else t
        -- proof.go:335-340: not an alternative of the test above — always evaluated
        if rootNodeHash ≠ root then .error .badRoot
        else .ok (rootPtr, wl)

/-- `ProofVerifier.VerifyProofToWriteLog` (proof.go:293). -/
def verifyProofToWriteLog (H : Bytes → Bytes) (root : Bytes) (p : MProof) : Except VErr (List KV) :=
  match verifyProofW H true root p with
  | .ok (_, wl) => .ok wl
  | .error e => .error e

/-- `ProofVerifier.VerifyProof` (proof.go:283). -/
def verifyProofPtr (H : Bytes → Bytes) (root : Bytes) (p : MProof) : Except VErr PT :=
  match verifyProofW H false root p with
  | .ok (t, _) => .ok t
  | .error e => .error e

end OasisModel.Mkvs
