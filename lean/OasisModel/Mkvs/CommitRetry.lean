import OasisModel.Mkvs.Tree
/-
C13 — one `tree` object across commits that fail and are retried (go/storage/mkvs/commit.go).

`commitWithHooks` (commit.go:45-145), in the order of the code:
  1. `db.NewBatch(oldRoot, version, false)` (commit.go:75)            — may fail (badger.go:343,
     pathbadger.go:672: `ErrRootMustFollowOld`, …): returns, nothing touched (commit.go:81-83);
  2. `doCommit` hashes the dirty nodes into the batch (commit.go:86); clean flags are only queued
     with `batch.OnCommit` (commit.go:171-174, 208-210, 229-239), the root hash is a function of
     the pending tree;
  3. `beforeDbCommit(rootHash)` (commit.go:92-96): for `CommitKnown` the comparison with the
     expected hash (commit.go:29-39) — BEFORE anything is committed;
  4. the write log is built from `t.pendingWriteLog` (commit.go:99-114), `batch.PutWriteLog`
     (commit.go:126), `batch.RemoveNodes` (commit.go:131);
  5. `batch.Commit(root)` (commit.go:136) — may fail (badger.go:1051, pathbadger.go:876, any
     transaction error): `return nil, hash.Hash{}, err` with NOTHING of the tree reset;
  6. only after the database accepted: `t.pendingWriteLog = make(…)`, `t.pendingRemovedNodes = nil`,
     `t.cache.setSyncRoot(root)` (commit.go:140-142), and the log is returned (commit.go:144).
`NoPersist()` (commit.go:16-22, 116-118) returns the log and the hash and resets nothing.

State: the tree of the last durable root (`cache.getSyncRoot`), the in-memory tree object of
`Tree.lean` (pending root + coalesced pending write log, insert.go:41-57, remove.go:27-47) and
what the database holds about this lineage: one stored write log per accepted commit
(`PutWriteLog` + `Commit`, keyed old root → new root).
Not modelled (semantic no-ops here): node cache / eviction, `pendingRemovedNodes` (garbage
collection bookkeeping, reset together with the log), namespace / version / root type.
Core Lean only.
-/
namespace OasisModel.Mkvs

deriving instance DecidableEq for TreeState

/-- What `batch.PutWriteLog` + `batch.Commit(root)` leave in the node database for one accepted
commit: the log of the transition old root → new root. -/
structure StoredLog where
  oldRoot : Trie
  newRoot : Trie
  log : List LogEntry
  deriving Repr, DecidableEq

/-- How the node database answers during one `commitWithHooks`. -/
inductive DbOutcome where
  /-- `NewBatch` and `batch.Commit` succeed. -/
  | accepts
  /-- `NewBatch` fails (commit.go:75-83), before the hook. -/
  | rejectsNewBatch
  /-- `PutWriteLog` / `RemoveNodes` / `batch.Commit(root)` fail (commit.go:126-138), after the hook. -/
  | rejectsCommit
  deriving Repr, DecidableEq

inductive CommitResult where
  /-- `return log, rootHash, nil`. -/
  | ok (rootHash : Bytes) (log : List LogEntry)
  /-- An error of the database. -/
  | dbError
  /-- `ErrKnownRootMismatch` (commit.go:32). -/
  | knownRootMismatch
  deriving Repr, DecidableEq

def CommitResult.log? : CommitResult → Option (List LogEntry)
  | .ok _ l => some l
  | _ => none

structure RetryTree where
  /-- Tree under the last durable root (`cache.getSyncRoot`). -/
  durable : Trie
  /-- `cache.pendingRoot` + `pendingWriteLog`. -/
  mem : TreeState
  /-- Write logs the database stored for this tree's accepted commits, oldest first. -/
  db : List StoredLog := []
  deriving Repr, DecidableEq

namespace RetryTree

/-- `NewWithRoot(nil, db, root)`: a clean tree at a durable root. -/
def openAt (t : Trie) (db : List StoredLog := []) : RetryTree :=
  { durable := t, mem := { root := t, pending := [] }, db := db }

def insert (s : RetryTree) (k v : Bytes) : RetryTree := { s with mem := s.mem.insert k v }
def remove (s : RetryTree) (k : Bytes) : RetryTree := { s with mem := s.mem.remove k }
def applyWriteLog (s : RetryTree) (l : List LogEntry) : RetryTree := { s with mem := s.mem.applyWriteLog l }

/-- The `beforeDbCommit` hook: `nil` for `Commit`, hash comparison for `CommitKnown`. -/
def hookPasses (rootHash : Bytes) : Option Bytes → Bool
  | none => true
  | some expected => rootHash == expected

/-- The state after the database accepted the commit (commit.go:140-142). -/
def committed (s : RetryTree) : RetryTree :=
  { durable := s.mem.root
    mem := { root := s.mem.root, pending := [] }
    db := s.db ++ [{ oldRoot := s.durable, newRoot := s.mem.root, log := s.mem.writeLog }] }

/-- `commitWithHooks` for a hash function `H`. -/
def commitWithHooks (H : Bytes → Bytes) (s : RetryTree) (expected : Option Bytes) (o : DbOutcome) :
    RetryTree × CommitResult :=
  if o = .rejectsNewBatch then (s, .dbError) else
  let rootHash := hashWith H s.mem.root
  if !hookPasses rootHash expected then (s, .knownRootMismatch) else
  let log := s.mem.writeLog
  if o = .rejectsCommit then (s, .dbError) else
  (s.committed, .ok rootHash log)

/-- `tree.Commit` with a database that accepts or rejects `batch.Commit(root)`. -/
def commit (H : Bytes → Bytes) (s : RetryTree) (dbAccepts : Bool) : RetryTree × CommitResult :=
  commitWithHooks H s none (if dbAccepts then .accepts else .rejectsCommit)

/-- `tree.CommitKnown`. -/
def commitKnown (H : Bytes → Bytes) (s : RetryTree) (expected : Bytes) (o : DbOutcome := .accepts) :
    RetryTree × CommitResult :=
  commitWithHooks H s (some expected) o

/-- `tree.Commit(…, NoPersist())`: the dummy database accepts everything and nothing is reset. -/
def commitNoPersist (H : Bytes → Bytes) (s : RetryTree) : RetryTree × CommitResult :=
  (s, .ok (hashWith H s.mem.root) s.mem.writeLog)

/-- `RootCache.Apply` (storage/api/root_cache.go:25-62) on this model: a fresh tree at the old
root, `ApplyWriteLog`, `CommitKnown(expectedNewRoot)`. -/
def rootCacheApply (H : Bytes → Bytes) (old : Trie) (db : List StoredLog) (expected : Bytes)
    (l : List LogEntry) (o : DbOutcome := .accepts) : RetryTree × CommitResult :=
  commitKnown H ((openAt old db).applyWriteLog l) expected o

/-- SEEDED MUTATION (not the code): the pending log is reset right after `PutWriteLog`, before
`batch.Commit(root)`; a rejected commit then leaves a dirty tree with an empty log. -/
def commitEarlyReset (H : Bytes → Bytes) (s : RetryTree) (expected : Option Bytes) (o : DbOutcome) :
    RetryTree × CommitResult :=
  if o = .rejectsNewBatch then (s, .dbError) else
  let rootHash := hashWith H s.mem.root
  if !hookPasses rootHash expected then (s, .knownRootMismatch) else
  let log := s.mem.writeLog
  let s' : RetryTree := { s with mem := { root := s.mem.root, pending := [] } }
  if o = .rejectsCommit then (s', .dbError) else
  (s.committed, .ok rootHash log)

end RetryTree

/-- What a caller does with one tree object. -/
inductive Event where
  | insert (k v : Bytes)
  | remove (k : Bytes)
  | commit (o : DbOutcome)
  | commitKnown (expected : Bytes) (o : DbOutcome)
  | commitNoPersist
  deriving Repr, DecidableEq

namespace RetryTree

/-- One event; for commits also what the caller gets back. -/
def step (H : Bytes → Bytes) (s : RetryTree) : Event → RetryTree × Option CommitResult
  | .insert k v => (s.insert k v, none)
  | .remove k => (s.remove k, none)
  | .commit o => let r := commitWithHooks H s none o; (r.1, some r.2)
  | .commitKnown e o => let r := commitWithHooks H s (some e) o; (r.1, some r.2)
  | .commitNoPersist => let r := commitNoPersist H s; (r.1, some r.2)

def run (H : Bytes → Bytes) (s : RetryTree) (evs : List Event) : RetryTree :=
  evs.foldl (fun s ev => (step H s ev).1) s

/-- The same history through the mutated commit. -/
def stepEarlyReset (H : Bytes → Bytes) (s : RetryTree) : Event → RetryTree × Option CommitResult
  | .insert k v => (s.insert k v, none)
  | .remove k => (s.remove k, none)
  | .commit o => let r := commitEarlyReset H s none o; (r.1, some r.2)
  | .commitKnown e o => let r := commitEarlyReset H s (some e) o; (r.1, some r.2)
  | .commitNoPersist => let r := commitNoPersist H s; (r.1, some r.2)

def runEarlyReset (H : Bytes → Bytes) (s : RetryTree) (evs : List Event) : RetryTree :=
  evs.foldl (fun s ev => (stepEarlyReset H s ev).1) s

end RetryTree

end OasisModel.Mkvs
