import OasisModel.Mkvs.SMap
/-
The tree iterator of go/storage/mkvs/iterator.go as the code writes it (C03): `doNext` with the
visit states `visitBefore / visitAt / visitAtLeft / visitAfter`, the `pos` stack of `pathAtom`s,
`Seek` and `Next`, including `takeFirst`, `keyNotLonger`, `AppendBit` and `advanceKeyToRight` on the
seek key.  Core Lean only.

The shape of `doNext`/`Seek`/`Next` follows the model the proofs builder wrote for C12
(`OasisModel/Mkvs/Chunk.lean`, `doNext`/`itSeek`/`itNextLoop` over hash-annotated tries with a proof
builder); this file is the same machine over the plain `Trie`, without proof builder and version, so
that it can be proved equal to the ordered-map successor (`OasisProofs.C03.iter_machine_eq_successor`).
The key surgery (`appendBit`, `advanceRight`, `getBit`) is expressed through `toBits`/`packBits`
exactly as there.

Mirrors:
  * `doNext`    iterator.go:256-341 (a `pathAtom` keeps the node, its path and the state to resume in;
                Go's `bitDepth` is `path.length`)
  * `seek`      iterator.go:195-208  (`doNext(pendingRoot, 0, Key{}, key, visitBefore)`)
  * `nextLoop`  iterator.go:210-254  (walk up the `pos` stack with the last key as the bound)
  * `iterate`   `for it.Seek(k); it.Valid(); it.Next()` collecting the items
Domain: keys shorter than 8192 bytes (enforced by the code since cd851d6/461d573); a `Split` with
`splitPoint > keyLen` would panic in Go — `advanceRight` is only reached with a key longer than the
node's bit depth (after `AppendBit`, or when `keyNotLonger` is false, or with a key found below).
-/
namespace OasisModel.Mkvs.Iter
open OasisModel.Mkvs

inductive VState
  | before | at | atLeft | after
  deriving Repr, DecidableEq, Inhabited

/-- `pathAtom` (iterator.go:122-127): the node, the bits of its `path`, the state to resume in. -/
structure Atom where
  t : Trie
  path : Bits
  st : VState
  deriving Repr, Inhabited

/-- `Depth.ToBytes`. -/
def toBytesLen (bits : Nat) : Nat := (bits + 7) / 8

/-- `Key.AppendBit(keyLen, val)` (key.go:161): `(keyLen+1).ToBytes()` bytes, the old bytes copied,
bit `keyLen` set to `val`. -/
def appendBit (k : Bytes) (keyLen : Nat) (val : Bool) : Bytes :=
  let n := toBytesLen (keyLen + 1)
  packBits (((toBits k ++ List.replicate (8 * n) false).take (8 * n)).set keyLen val)

/-- `advanceKeyToRight` (iterator.go:276-279): the first `nbd` bits of the key (`Split`), then a 1 bit
(`AppendBit`). -/
def advanceRight (k : Bytes) (nbd : Nat) : Bytes := packBits ((toBits k).take nbd ++ [true])

/-- `Key.GetBit`. -/
def getBit (k : Bytes) (i : Nat) : Bool := (toBits k).getD i false

/-- `tryNext` on a child result: remember where to resume in the parent. -/
def pushAtom (self : Atom) : Option (KV × List Atom) → Option (KV × List Atom)
  | some (kv, pos) => some (kv, pos ++ [self])
  | none => none

/-- `takeFirst` (iterator.go:283): the key is at least as long as the node's path but
lexicographically below it, so everything in this subtree is larger. -/
def takeFirst (newPath : Bits) (key : Bytes) : Bool :=
  decide (newPath.length > 0) && decide (8 * key.length ≥ newPath.length) && decide (key < packBits newPath)

/-- `keyNotLonger` (iterator.go:284). -/
def keyNotLonger (newPath : Bits) (key : Bytes) : Bool := decide (8 * key.length ≤ newPath.length)

/-- Try the node's own leaf (`tryNext(n.LeafNode, key, visitAt)`, only in `visitBefore`). -/
def viaLeaf (self : Atom) (lf : Option KV) (newPath : Bits) (key : Bytes) : Option (KV × List Atom) :=
  if keyNotLonger newPath key || takeFirst newPath key then
    match lf with
    | some (k, v) => if k < key then none else some ((k, v), [{ self with st := .at }])
    | none => none
  else none

/-- The body of `case visitAt` (iterator.go:298-312), reached from `visitBefore` by fallthrough.
`goL`/`goR` are `doNext` on the left/right child in state `visitBefore`. -/
def fromAt (self : Atom) (newPath : Bits) (key : Bytes) (goL goR : Bytes → Option (KV × List Atom)) :
    Option (KV × List Atom) :=
  let tf := takeFirst newPath key
  let key := if keyNotLonger newPath key then appendBit key newPath.length false else key
  let goLeft := !getBit key newPath.length || tf
  let viaLeft := if goLeft then pushAtom { self with st := .atLeft } (goL key) else none
  match viaLeft with
  | some res => some res
  | none =>
    let key := if goLeft then advanceRight key newPath.length else key
    pushAtom { self with st := .after } (goR key)

/-- `treeIterator.doNext` (iterator.go:256). Returns the item found (Go: `it.key != nil`) and the
atoms appended to `it.pos` by this call, deepest first. -/
def doNext : Trie → Bits → Bytes → VState → Option (KV × List Atom)
  | .nil, _, _, _ => none
  | .leaf k v, _, key, _ => if k < key then none else some ((k, v), [])
  | .node lab lf l r, path, key, st =>
    let self : Atom := ⟨.node lab lf l r, path, st⟩
    let newPath := path ++ lab
    let goL := fun k => doNext l newPath k .before
    let goR := fun k => doNext r newPath k .before
    match st with
    | .before =>
      match viaLeaf self lf newPath key with
      | some res => some res
      | none => fromAt self newPath key goL goR
    | .at => fromAt self newPath key goL goR
    | .atLeft => pushAtom { self with st := .after } (goR (advanceRight key newPath.length))
    | .after => none

/-- `Seek` (iterator.go:195). -/
def seek (root : Trie) (key : Bytes) : Option (KV × List Atom) := doNext root [] key .before

/-- The loop of `Next` (iterator.go:215-248): resume at the deepest atom with the current key as the
bound; an atom that yields nothing is dropped. -/
def nextLoop (key : Bytes) : List Atom → Option (KV × List Atom)
  | [] => none
  | a :: rest =>
    match doNext a.t a.path key a.st with
    | some (kv, pos) => some (kv, pos ++ rest)
    | none => nextLoop key rest

/-- `Next` until the iterator is invalid, at most `fuel` times. -/
def drain : Nat → KV → List Atom → List KV
  | 0, _, _ => []
  | fuel + 1, cur, pos =>
    match nextLoop cur.1 pos with
    | some (kv, pos') => kv :: drain fuel kv pos'
    | none => []

/-- `for it.Seek(key); it.Valid(); it.Next()`: the items in the order the machine yields them.
The fuel (number of stored keys) only bounds the recursion. -/
def iterate (root : Trie) (key : Bytes) : List KV :=
  match seek root key with
  | some (kv, pos) => kv :: drain root.toList.length kv pos
  | none => []

end OasisModel.Mkvs.Iter
